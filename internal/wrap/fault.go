// Package wrap has harness wrappers passed through buf's own interfaces: fault-injecting and
// recording buckets, permuting read buckets, a scheduler-visible lock table.
package wrap

import (
	"context"
	"errors"
	"fmt"
	"io"
	"io/fs"
	"sync"
	"syscall"

	"github.com/bufbuild/buf/private/pkg/storage"
)

// ErrInjected is the root of every injected failure.
var ErrInjected = errors.New("verif: injected I/O failure")

// Op identifies one write-side operation of a destination bucket, independent of scheduling:
// the Index-th operation of Kind on Path.
type Op struct {
	Path  string `json:"path"`
	Kind  string `json:"kind"` // put | write | close
	Index int    `json:"index"`
}

func (o Op) String() string { return fmt.Sprintf("%s#%d(%s)", o.Kind, o.Index, o.Path) }

// FaultMode says how the planned operation fails.
type FaultMode string

const (
	FailError FaultMode = "error" // the operation returns an error and has no effect
	FailShort FaultMode = "short" // write only: half the bytes are written, then an error
	FailLate  FaultMode = "late"  // close only: the underlying close happens, then an error is returned
)

// ErrKinds are the kinds of error an injected failure can carry. Code under test may treat some error
// values specially (not-exist = "nothing there", EOF = "done", cancelled = "stop quietly"); a failed write-side
// operation must be reported whatever its error looks like.
var ErrKinds = []string{"", "ENOENT", "EEXIST", "ENOSPC", "EOF", "canceled"}

// InjectedError builds the error of an injected failure of the given kind ("" = plain).
func InjectedError(op, path, kind string) error {
	var cause error
	switch kind {
	case "ENOENT":
		cause = &fs.PathError{Op: op, Path: path, Err: syscall.ENOENT}
	case "EEXIST":
		cause = &fs.PathError{Op: op, Path: path, Err: syscall.EEXIST}
	case "ENOSPC":
		cause = &fs.PathError{Op: op, Path: path, Err: syscall.ENOSPC}
	case "EOF":
		cause = io.EOF
	case "canceled":
		cause = context.Canceled
	default:
		return fmt.Errorf("%s %s: %w", op, path, ErrInjected)
	}
	return fmt.Errorf("%s %s: %w", op, path, cause)
}

// Plan is one injected failure.
type Plan struct {
	Op      Op        `json:"op"`
	Mode    FaultMode `json:"mode"`
	ErrKind string    `json:"err_kind,omitempty"` // one of ErrKinds
}

// FaultBucket wraps a ReadWriteBucket, records write-side operations and fails the planned ones.
type FaultBucket struct {
	storage.ReadWriteBucket
	mu     sync.Mutex
	counts map[string]int
	Ops    []Op
	plans  []Plan
	Fired  []Plan
	// OnFire, if set, is called (once per fired plan, before the failing operation returns)
	OnFire func()
}

// NewFaultBucket wraps b. plans may be empty (pure recording).
func NewFaultBucket(b storage.ReadWriteBucket, plans ...Plan) *FaultBucket {
	return &FaultBucket{ReadWriteBucket: b, counts: map[string]int{}, plans: plans}
}

// step records an op and returns the mode it must fail with ("" = proceed) and the error kind.
func (f *FaultBucket) step(path, kind string) (FaultMode, string) {
	f.mu.Lock()
	defer f.mu.Unlock()
	key := kind + "\x00" + path
	op := Op{Path: path, Kind: kind, Index: f.counts[key]}
	f.counts[key]++
	f.Ops = append(f.Ops, op)
	for _, p := range f.plans {
		if p.Op == op {
			f.Fired = append(f.Fired, p)
			if f.OnFire != nil {
				f.OnFire()
			}
			return p.Mode, p.ErrKind
		}
	}
	return "", ""
}

// Disarm removes the planned faults that have not fired (recording continues).
func (f *FaultBucket) Disarm() {
	f.mu.Lock()
	defer f.mu.Unlock()
	f.plans = nil
}

// FiredCount returns how many planned faults fired.
func (f *FaultBucket) FiredCount() int {
	f.mu.Lock()
	defer f.mu.Unlock()
	return len(f.Fired)
}

// Recorded returns a copy of the recorded operations.
func (f *FaultBucket) Recorded() []Op {
	f.mu.Lock()
	defer f.mu.Unlock()
	return append([]Op(nil), f.Ops...)
}

func (f *FaultBucket) Put(ctx context.Context, path string, options ...storage.PutOption) (storage.WriteObjectCloser, error) {
	if mode, ek := f.step(path, "put"); mode != "" {
		return nil, InjectedError("put", path, ek)
	}
	w, err := f.ReadWriteBucket.Put(ctx, path, options...)
	if err != nil {
		return nil, err
	}
	return &faultWriter{WriteObjectCloser: w, f: f, path: path}, nil
}

type faultWriter struct {
	storage.WriteObjectCloser
	f    *FaultBucket
	path string
}

func (w *faultWriter) Write(p []byte) (int, error) {
	switch mode, ek := w.f.step(w.path, "write"); mode {
	case FailShort:
		n := 0
		if len(p) > 1 {
			n, _ = w.WriteObjectCloser.Write(p[:len(p)/2])
		}
		return n, InjectedError("short write", w.path, ek)
	case "":
		return w.WriteObjectCloser.Write(p)
	default:
		return 0, InjectedError("write", w.path, ek)
	}
}

func (w *faultWriter) Close() error {
	switch mode, ek := w.f.step(w.path, "close"); mode {
	case "":
		return w.WriteObjectCloser.Close()
	default:
		// the data may or may not have reached the destination; the caller was told it failed
		_ = w.WriteObjectCloser.Close()
		return InjectedError("close", w.path, ek)
	}
}

// Snapshot reads a whole bucket into a map.
func Snapshot(ctx context.Context, b storage.ReadBucket) (map[string]string, error) {
	out := map[string]string{}
	err := b.Walk(ctx, "", func(info storage.ObjectInfo) error {
		data, err := storage.ReadPath(ctx, b, info.Path())
		if err != nil {
			return err
		}
		out[info.Path()] = string(data)
		return nil
	})
	return out, err
}
