// Package sched is engine A: a cooperative controlled scheduler plus a deviation-bounded
// depth-first explorer of all schedules / environment choices (iterative context bounding).
//
// Exactly one registered thread runs at a time. A thread calls Point (directly, through the
// verifhook seam in /repo, or through harness wrappers) before every step that matters; the scheduler
// then decides who runs next. Blocking is modelled with enabledness predicates, so nothing blocks
// for real while parked. One execution is one sequence of choices; Explore enumerates them all
// within a preemption/deviation bound.
package sched

import (
	"bytes"
	"fmt"
	"runtime"
	"strconv"
	"sync"
	"time"
)

type threadState int

const (
	stNew threadState = iota
	stParked
	stRunning
	stFinished
)

type thread struct {
	id       int
	name     string
	goid     int64
	wake     chan struct{}
	state    threadState
	label    string
	enabled  func() bool
	parent   *thread
	children []*thread
}

// PointInfo describes one decision point of an execution.
type PointInfo struct {
	NOptions       int    // number of alternatives at this point
	RunningEnabled bool   // scheduling point at which the running thread could have continued
	Env            bool   // environment choice (Choose) rather than a scheduling decision
	Label          string // label of the step about to be taken by the chosen thread / env label
	Chosen         int
}

// Exec is the record of one execution.
type Exec struct {
	Points   []PointInfo
	Deadlock bool
	Horizon  bool
	Stuck    bool
	Blocked  []string // on deadlock: the labels the unfinished threads wait at
}

// Choices returns the choice sequence.
func (x *Exec) Choices() []int {
	c := make([]int, len(x.Points))
	for i, p := range x.Points {
		c[i] = p.Chosen
	}
	return c
}

// Trace renders the schedule compactly.
func (x *Exec) Trace() []string {
	out := make([]string, len(x.Points))
	for i, p := range x.Points {
		out[i] = fmt.Sprintf("%d/%d:%s", p.Chosen, p.NOptions, p.Label)
	}
	return out
}

// Sched is one controlled execution.
type Sched struct {
	mu       sync.Mutex
	threads  []*thread
	byGoid   map[int64]*thread
	cur      *thread
	prefix   []int
	exec     *Exec
	abort    chan struct{}
	aborted  bool
	allDone  chan struct{}
	doneOnce sync.Once
	horizon  int
	diverged string
	unknown  int
}

var (
	activeMu sync.Mutex
	active   *Sched
)

// Active returns the scheduler of the execution in progress (nil if none).
func Active() *Sched {
	activeMu.Lock()
	defer activeMu.Unlock()
	return active
}

func goid() int64 {
	var buf [64]byte
	b := buf[:runtime.Stack(buf[:], false)]
	// "goroutine 123 [running]:..."
	b = b[len("goroutine "):]
	i := bytes.IndexByte(b, ' ')
	n, _ := strconv.ParseInt(string(b[:i]), 10, 64)
	return n
}

func (s *Sched) self() *thread {
	g := goid()
	s.mu.Lock()
	t := s.byGoid[g]
	s.mu.Unlock()
	return t
}

// Go registers a new thread running fn; it starts parked and runs when scheduled.
// May be called before Run's body starts (from the setup) or by a running thread.
func (s *Sched) Go(name string, fn func()) {
	s.mu.Lock()
	t := &thread{id: len(s.threads), name: name, wake: make(chan struct{}, 1), state: stParked, label: "start:" + name}
	s.threads = append(s.threads, t)
	s.mu.Unlock()
	go func() {
		s.mu.Lock()
		t.goid = goid()
		s.byGoid[t.goid] = t
		s.mu.Unlock()
		if !s.waitGrant(t) {
			return
		}
		defer s.finish(t)
		fn()
	}()
}

// waitGrant blocks until t is granted the processor; false if the execution was aborted.
func (s *Sched) waitGrant(t *thread) bool {
	select {
	case <-t.wake:
		return true
	case <-s.abort:
		// a grant may have raced with the abort; aborted executions never continue
		return false
	}
}

func (s *Sched) finish(t *thread) {
	s.mu.Lock()
	t.state = stFinished
	delete(s.byGoid, t.goid)
	next := s.pickLocked(nil)
	s.mu.Unlock()
	if next != nil {
		next.wake <- struct{}{}
	}
}

// Point is a scheduling point of the calling thread: it may be preempted here.
func (s *Sched) Point(label string) { s.PointWhen(label, nil) }

// PointWhen is a scheduling point at which the caller can only proceed once enabled() holds.
// enabled is evaluated by the scheduler while every thread is parked. Returns false if the
// execution was aborted (deadlock/horizon): the caller must unwind.
func (s *Sched) PointWhen(label string, enabled func() bool) bool {
	t := s.self()
	if t == nil {
		s.mu.Lock()
		s.unknown++
		s.mu.Unlock()
		return true
	}
	s.mu.Lock()
	if s.aborted {
		s.mu.Unlock()
		return false
	}
	t.label = label
	t.enabled = enabled
	t.state = stParked
	next := s.pickLocked(t)
	s.mu.Unlock()
	if next == t {
		return true
	}
	if next != nil {
		next.wake <- struct{}{}
	}
	if !s.waitGrant(t) {
		runtime.Goexit()
	}
	return true
}

// Choose is an environment decision with n alternatives (0 = default answer).
func (s *Sched) Choose(label string, n int) int {
	if n <= 1 {
		return 0
	}
	s.mu.Lock()
	defer s.mu.Unlock()
	return s.decideLocked(n, false, true, label)
}

// decideLocked consumes the next prefix entry or takes choice 0, and records the point.
func (s *Sched) decideLocked(n int, runningEnabled, env bool, label string) int {
	i := len(s.exec.Points)
	c := 0
	if i < len(s.prefix) {
		c = s.prefix[i]
		if c >= n {
			s.diverged = fmt.Sprintf("replay divergence at point %d: choice %d of %d (%s)", i, c, n, label)
			c = 0
		}
	}
	s.exec.Points = append(s.exec.Points, PointInfo{NOptions: n, RunningEnabled: runningEnabled, Env: env, Label: label, Chosen: c})
	return c
}

// pickLocked chooses the next thread to run. from is the thread that just parked (nil if it finished).
// Returns nil when nothing is left to run or on deadlock / horizon (then abort is closed).
func (s *Sched) pickLocked(from *thread) *thread {
	var options []*thread
	runningEnabled := false
	if from != nil && (from.enabled == nil || from.enabled()) {
		options = append(options, from)
		runningEnabled = true
	}
	unfinished := 0
	for _, t := range s.threads {
		if t.state == stFinished {
			continue
		}
		unfinished++
		if t == from || t.state != stParked {
			continue
		}
		if t.enabled == nil || t.enabled() {
			options = append(options, t)
		}
	}
	if unfinished == 0 {
		s.doneOnce.Do(func() { close(s.allDone) })
		return nil
	}
	if len(options) == 0 {
		s.exec.Deadlock = true
		for _, t := range s.threads {
			if t.state != stFinished {
				s.exec.Blocked = append(s.exec.Blocked, t.name+"@"+t.label)
			}
		}
		s.abortLocked()
		return nil
	}
	if len(s.exec.Points) >= s.horizon {
		s.exec.Horizon = true
		s.abortLocked()
		return nil
	}
	c := 0
	if len(options) > 1 {
		c = s.decideLocked(len(options), runningEnabled, false, "")
		s.exec.Points[len(s.exec.Points)-1].Label = options[c].name + ":" + options[c].label
	}
	next := options[c]
	next.state = stRunning
	s.cur = next
	return next
}

func (s *Sched) abortLocked() {
	if !s.aborted {
		s.aborted = true
		close(s.abort)
		s.doneOnce.Do(func() { close(s.allDone) })
	}
}

// ---- verifhook.Handler (goroutines spawned by thread.Parallelize) ----

// HookPoint is called from the verifhook seam: a plain scheduling point for registered threads.
func (s *Sched) HookPoint(label string) { s.Point(label) }

// Spawn announces a child goroutine of the calling (registered) thread. Returns a token (0 = untracked).
func (s *Sched) Spawn() int {
	p := s.self()
	if p == nil {
		return 0
	}
	s.mu.Lock()
	defer s.mu.Unlock()
	t := &thread{id: len(s.threads), name: fmt.Sprintf("%s.%d", p.name, len(p.children)), wake: make(chan struct{}, 1), state: stParked, label: "job-start", parent: p}
	s.threads = append(s.threads, t)
	p.children = append(p.children, t)
	return t.id + 1
}

// Begin registers the calling goroutine as the thread announced by Spawn and parks it.
func (s *Sched) Begin(token int) {
	if token <= 0 {
		return
	}
	s.mu.Lock()
	t := s.threads[token-1]
	t.goid = goid()
	s.byGoid[t.goid] = t
	s.mu.Unlock()
	if !s.waitGrant(t) {
		runtime.Goexit()
	}
}

// End marks the calling spawned thread finished and hands the processor on.
func (s *Sched) End(token int) {
	if token <= 0 {
		return
	}
	s.mu.Lock()
	t := s.threads[token-1]
	s.mu.Unlock()
	s.finish(t)
}

// Acquire models a semaphore of the given capacity over the caller's live children.
func (s *Sched) Acquire(capacity int) {
	t := s.self()
	if t == nil {
		return
	}
	s.PointWhen("acquire", func() bool {
		live := 0
		for _, c := range t.children {
			if c.state != stFinished {
				live++
			}
		}
		return live < capacity
	})
}

// Wait models wg.Wait over the caller's children.
func (s *Sched) Wait() {
	t := s.self()
	if t == nil {
		return
	}
	s.PointWhen("wait", func() bool {
		for _, c := range t.children {
			if c.state != stFinished {
				return false
			}
		}
		return true
	})
	// the children of this Parallelize call are done; forget them so a later call starts afresh
	s.mu.Lock()
	t.children = nil
	s.mu.Unlock()
}

// ---- running one execution ----

// Config bounds an exploration.
type Config struct {
	Bound    int           // max deviations (preemptions + non-default env answers); <0 = unbounded
	Horizon  int           // max decision points per execution (default 4000)
	MaxExecs int           // cap on executions (0 = none); hitting it makes the result non-exhaustive
	Timeout  time.Duration // per-execution watchdog (default 20s)
	Deadline time.Time     // stop exploring (non-exhaustive) after this instant; zero = none
	// DelayBounded counts every non-default choice as a deviation (delay bounding: the default scheduler
	// continues the running thread and, when it blocks or ends, runs the lowest-id enabled thread).
	// Without it only switches away from a still-runnable thread and non-default environment answers
	// cost (preemption bounding), and choices after a block/end are free.
	DelayBounded bool
	// Shard/NShards split the level-1 subtrees over processes (NShards<=1: everything).
	Shard, NShards int
}

// Setup registers the threads of one execution on s (with s.Go) and returns the function that
// checks the oracle once the execution has ended.
type Setup func(s *Sched) (after func(x *Exec))

// RunOnce executes the scenario with the given choice prefix (then defaults).
func RunOnce(cfg Config, prefix []int, setup Setup) *Exec {
	if cfg.Horizon == 0 {
		cfg.Horizon = 4000
	}
	if cfg.Timeout == 0 {
		cfg.Timeout = 20 * time.Second
	}
	s := &Sched{
		byGoid:  map[int64]*thread{},
		prefix:  prefix,
		exec:    &Exec{},
		abort:   make(chan struct{}),
		allDone: make(chan struct{}),
		horizon: cfg.Horizon,
	}
	activeMu.Lock()
	active = s
	activeMu.Unlock()
	after := setup(s)
	// start: pick the first thread
	s.mu.Lock()
	next := s.pickLocked(nil)
	s.mu.Unlock()
	if next != nil {
		next.wake <- struct{}{}
	}
	select {
	case <-s.allDone:
	case <-time.After(cfg.Timeout):
		s.mu.Lock()
		s.exec.Stuck = true
		for _, t := range s.threads {
			if t.state != stFinished {
				s.exec.Blocked = append(s.exec.Blocked, fmt.Sprintf("%s@%s(state %d)", t.name, t.label, t.state))
			}
		}
		s.abortLocked()
		s.mu.Unlock()
	}
	activeMu.Lock()
	active = nil
	activeMu.Unlock()
	if s.diverged != "" {
		s.exec.Stuck = true
		s.exec.Blocked = append(s.exec.Blocked, s.diverged)
	}
	if after != nil && !s.exec.Stuck {
		after(s.exec)
	}
	return s.exec
}

// Stats summarises an exploration.
type Stats struct {
	Executions int
	Points     int
	MaxPoints  int
	Deadlocks  int
	Horizons   int
	Stuck      int
	Capped     bool
	StuckInfo  []string
	branches   int
}

// Explore enumerates every execution whose number of deviations is <= cfg.Bound.
func Explore(cfg Config, setup Setup) Stats {
	var st Stats
	var rec func(prefix []int, depth int)
	stop := false
	rec = func(prefix []int, depth int) {
		if stop {
			return
		}
		if cfg.MaxExecs > 0 && st.Executions >= cfg.MaxExecs || (!cfg.Deadline.IsZero() && time.Now().After(cfg.Deadline)) {
			st.Capped = true
			stop = true
			return
		}
		x := RunOnce(cfg, prefix, setup)
		st.Executions++
		st.Points += len(x.Points)
		if len(x.Points) > st.MaxPoints {
			st.MaxPoints = len(x.Points)
		}
		if x.Deadlock {
			st.Deadlocks++
		}
		if x.Horizon {
			st.Horizons++
		}
		if x.Stuck {
			st.Stuck++
			st.StuckInfo = append(st.StuckInfo, fmt.Sprint(x.Blocked))
			stop = true
			return
		}
		cost := 0
		for i := 0; i < len(x.Points); i++ {
			p := x.Points[i]
			if i >= len(prefix) {
				for alt := 1; alt < p.NOptions; alt++ {
					c := cost + deviationCost(cfg, p, alt)
					if cfg.Bound >= 0 && c > cfg.Bound {
						continue
					}
					if cfg.NShards > 1 && depth == 0 && (st.branches%cfg.NShards) != cfg.Shard {
						st.branches++
						continue
					}
					if depth == 0 {
						st.branches++
					}
					np := make([]int, i+1)
					for j := 0; j < i; j++ {
						np[j] = x.Points[j].Chosen
					}
					np[i] = alt
					rec(np, depth+1)
				}
			}
			cost += deviationCost(cfg, p, p.Chosen)
		}
	}
	rec(nil, 0)
	return st
}

func deviationCost(cfg Config, p PointInfo, choice int) int {
	if choice == 0 {
		return 0
	}
	if cfg.DelayBounded {
		return 1
	}
	if p.Env {
		return 1
	}
	if p.RunningEnabled {
		return 1
	}
	return 0
}
