// Package enum has bounded-exhaustive generators (engine B): odometers, subsets, permutations,
// component strings and labelled digraphs, all in a canonical simplest-first order.
package enum

// Product calls f with every index vector in [0,dims[0]) x ... (odometer, last dimension fastest).
// f returning false stops the enumeration. Returns the number of vectors visited.
func Product(dims []int, f func(idx []int) bool) int {
	for _, d := range dims {
		if d <= 0 {
			return 0
		}
	}
	idx := make([]int, len(dims))
	n := 0
	for {
		n++
		if !f(idx) {
			return n
		}
		i := len(dims) - 1
		for ; i >= 0; i-- {
			idx[i]++
			if idx[i] < dims[i] {
				break
			}
			idx[i] = 0
		}
		if i < 0 {
			return n
		}
	}
}

// Subsets returns every subset of {0..n-1} with size in [minSize,maxSize], smaller first, lexicographic.
func Subsets(n, minSize, maxSize int) [][]int {
	var out [][]int
	var cur []int
	var rec func(start, size int)
	for size := minSize; size <= maxSize && size <= n; size++ {
		rec = func(start, left int) {
			if left == 0 {
				out = append(out, append([]int(nil), cur...))
				return
			}
			for i := start; i <= n-left; i++ {
				cur = append(cur, i)
				rec(i+1, left-1)
				cur = cur[:len(cur)-1]
			}
		}
		rec(0, size)
	}
	return out
}

// Permutations returns all permutations of {0..n-1} in lexicographic order (identity first).
func Permutations(n int) [][]int {
	var out [][]int
	cur := make([]int, 0, n)
	used := make([]bool, n)
	var rec func()
	rec = func() {
		if len(cur) == n {
			out = append(out, append([]int(nil), cur...))
			return
		}
		for i := 0; i < n; i++ {
			if !used[i] {
				used[i] = true
				cur = append(cur, i)
				rec()
				cur = cur[:len(cur)-1]
				used[i] = false
			}
		}
	}
	rec()
	return out
}

// Sequences returns all sequences over {0..k-1} with length in [minLen,maxLen], shorter first.
func Sequences(k, minLen, maxLen int) [][]int {
	var out [][]int
	for l := minLen; l <= maxLen; l++ {
		if l == 0 {
			out = append(out, []int{})
			continue
		}
		dims := make([]int, l)
		for i := range dims {
			dims[i] = k
		}
		Product(dims, func(idx []int) bool {
			out = append(out, append([]int(nil), idx...))
			return true
		})
	}
	return out
}

// Digraph is an adjacency matrix on n labelled nodes: Adj[i][j] means edge i -> j.
type Digraph struct {
	N   int
	Adj [][]bool
}

// Edges lists the edges.
func (g Digraph) Edges() [][2]int {
	var e [][2]int
	for i := 0; i < g.N; i++ {
		for j := 0; j < g.N; j++ {
			if g.Adj[i][j] {
				e = append(e, [2]int{i, j})
			}
		}
	}
	return e
}

// Reach returns the set of nodes reachable from s by >=1 edge.
func (g Digraph) Reach(s int) map[int]bool {
	seen := map[int]bool{}
	var rec func(int)
	rec = func(u int) {
		for v := 0; v < g.N; v++ {
			if g.Adj[u][v] && !seen[v] {
				seen[v] = true
				rec(v)
			}
		}
	}
	rec(s)
	return seen
}

// OnCycle reports whether s can reach itself.
func (g Digraph) OnCycle(s int) bool { return g.Reach(s)[s] }

// Acyclic reports whether there is no cycle.
func (g Digraph) Acyclic() bool {
	for i := 0; i < g.N; i++ {
		if g.OnCycle(i) {
			return false
		}
	}
	return true
}

// Digraphs returns all digraphs without self loops on n labelled nodes (2^(n(n-1))), fewest edges first
// within the canonical bit order. dagOnly keeps the acyclic ones.
func Digraphs(n int, dagOnly bool) []Digraph {
	var pairs [][2]int
	for i := 0; i < n; i++ {
		for j := 0; j < n; j++ {
			if i != j {
				pairs = append(pairs, [2]int{i, j})
			}
		}
	}
	var out []Digraph
	total := 1 << len(pairs)
	for bits := 0; bits < total; bits++ {
		g := Digraph{N: n, Adj: make([][]bool, n)}
		for i := range g.Adj {
			g.Adj[i] = make([]bool, n)
		}
		for k, p := range pairs {
			if bits&(1<<k) != 0 {
				g.Adj[p[0]][p[1]] = true
			}
		}
		if dagOnly && !g.Acyclic() {
			continue
		}
		out = append(out, g)
	}
	return out
}
