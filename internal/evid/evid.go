// Package evid collects what a check run covered, handles violations, known findings, replays
// and writes /verif/evidence/<id>.json.
package evid

import (
	"crypto/sha256"
	"encoding/hex"
	"encoding/json"
	"fmt"
	"hash/fnv"
	"os"
	"path/filepath"
	"runtime"
	"sort"
	"strconv"
	"strings"
	"sync"
	"sync/atomic"
	"time"
)

// Root is the /verif directory.
func Root() string {
	if r := os.Getenv("VERIF_ROOT"); r != "" {
		return r
	}
	return "/verif"
}

// SourceRoot is the directory of the harness Go module (where go.mod lives). It differs from Root only
// when VERIF_ROOT redirects evidence and replays to a scratch directory (seed trials).
func SourceRoot() string {
	if r := os.Getenv("VERIF_SRC"); r != "" {
		return r
	}
	if _, err := os.Stat(filepath.Join(Root(), "go.mod")); err == nil {
		return Root()
	}
	return "/verif"
}

// Violation is one failed oracle on one explored case.
type Violation struct {
	Signature string `json:"signature"`
	What      string `json:"what"`
	Case      any    `json:"case"`
}

// Run is the state of one check run.
type Run struct {
	ID    string
	Tier  string
	Seed  int
	Level string

	start    time.Time
	deadline time.Time

	evaluations atomic.Int64
	mu          sync.Mutex
	distinct    map[uint64]struct{}
	samples     []any
	maxSamples  int
	extra       map[string]any
	assumptions []string
	rule        string
	violations  map[string]*Violation
	vorder      []string
	vcount      map[string]int
	incomplete  []string
	onlySig     string

	// model-checking counters (engine C)
	States, Transitions, TracesValidated atomic.Int64
}

// NewRun creates a run; budget is the internal deadline after which Expired reports true.
func NewRun(id, tier, level string, budget time.Duration) *Run {
	seed, _ := strconv.Atoi(os.Getenv("VERIF_SEED"))
	r := &Run{
		ID: id, Tier: tier, Seed: seed, Level: level,
		start:      time.Now(),
		distinct:   map[uint64]struct{}{},
		maxSamples: 6,
		extra:      map[string]any{},
		violations: map[string]*Violation{},
		vcount:     map[string]int{},
		onlySig:    os.Getenv("VERIF_ONLY_SIG"),
	}
	if b := os.Getenv("VERIF_BUDGET_S"); b != "" {
		if n, err := strconv.Atoi(b); err == nil {
			budget = time.Duration(n) * time.Second
		}
	}
	r.deadline = r.start.Add(budget)
	return r
}

// Quick reports whether this is the quick tier.
func (r *Run) Quick() bool { return r.Tier != "thorough" }

// Expired reports whether the internal deadline has passed.
func (r *Run) Expired() bool { return time.Now().After(r.deadline) }

// Eval counts n executed cases.
func (r *Run) Eval(n int) { r.evaluations.Add(int64(n)) }

// Evaluations returns the count so far.
func (r *Run) Evaluations() int64 { return r.evaluations.Load() }

// Distinct records a non-trivial case key (counted once).
func (r *Run) Distinct(key string) {
	h := fnv.New64a()
	h.Write([]byte(key))
	k := h.Sum64()
	r.mu.Lock()
	r.distinct[k] = struct{}{}
	r.mu.Unlock()
}

// DistinctCount returns the number of distinct non-trivial keys.
func (r *Run) DistinctCount() int {
	r.mu.Lock()
	defer r.mu.Unlock()
	return len(r.distinct)
}

// Sample keeps up to a handful of cases for the evidence file.
func (r *Run) Sample(v any) {
	r.mu.Lock()
	if len(r.samples) < r.maxSamples {
		r.samples = append(r.samples, v)
	}
	r.mu.Unlock()
}

// SampleEvery keeps v if idx hits a sparse, seed-dependent stride (so samples spread over the space).
func (r *Run) SampleEvery(idx, stride int, v func() any) {
	if stride < 1 {
		stride = 1
	}
	r.mu.Lock()
	n := len(r.samples)
	r.mu.Unlock()
	// the first case offered is always kept, so that a stride that never hits still leaves a sample
	if n == 0 || (n < r.maxSamples && (idx+r.Seed)%stride == 0) {
		r.Sample(v())
	}
}

// Set records an extra coverage key.
func (r *Run) Set(key string, v any) {
	r.mu.Lock()
	r.extra[key] = v
	r.mu.Unlock()
}

// Add adds n to an integer coverage key.
func (r *Run) Add(key string, n int) {
	r.mu.Lock()
	cur, _ := r.extra[key].(int)
	r.extra[key] = cur + n
	r.mu.Unlock()
}

// Rule sets the enumeration / non-triviality rule text.
func (r *Run) Rule(s string) { r.mu.Lock(); r.rule = s; r.mu.Unlock() }

// Assume records an assumption.
func (r *Run) Assume(s string) { r.mu.Lock(); r.assumptions = append(r.assumptions, s); r.mu.Unlock() }

// Incomplete marks the run as not exhaustive with a reason (never a violation).
func (r *Run) Incomplete(reason string) {
	r.mu.Lock()
	if len(r.incomplete) < 20 {
		r.incomplete = append(r.incomplete, reason)
	}
	r.mu.Unlock()
}

// Violate records a violation. The signature identifies the failing input/site/history.
func (r *Run) Violate(signature, what string, c any) {
	if r.onlySig != "" && signature != r.onlySig {
		return
	}
	r.mu.Lock()
	defer r.mu.Unlock()
	r.vcount[signature]++
	if _, ok := r.violations[signature]; ok {
		return
	}
	r.violations[signature] = &Violation{Signature: signature, What: what, Case: c}
	r.vorder = append(r.vorder, signature)
}

// ViolationCount returns the number of distinct signatures so far.
func (r *Run) ViolationCount() int {
	r.mu.Lock()
	defer r.mu.Unlock()
	return len(r.violations)
}

type knownFile struct {
	Findings []struct {
		Property  string `json:"property"`
		Signature string `json:"signature"`
		What      string `json:"what"`
	} `json:"findings"`
	Fixed []string `json:"fixed"`
}

func loadKnown(id string) map[string]string {
	out := map[string]string{}
	b, err := os.ReadFile(filepath.Join(Root(), "known_findings.json"))
	if err != nil {
		return out
	}
	var kf knownFile
	if json.Unmarshal(b, &kf) != nil {
		return out
	}
	for _, f := range kf.Findings {
		if f.Property == id {
			out[f.Signature] = f.What
		}
	}
	return out
}

// Finish writes evidence, prints VIOLATION / KNOWN-FINDING lines and returns the exit code.
func (r *Run) Finish() int {
	known := loadKnown(r.ID)
	r.mu.Lock()
	defer r.mu.Unlock()
	sort.Strings(r.vorder)
	exit := 0
	newViolations := 0
	var knownHit []string
	for _, sig := range r.vorder {
		v := r.violations[sig]
		if what, ok := known[sig]; ok {
			fmt.Printf("KNOWN-FINDING: property=%s %s [%s] (%d cases)\n", r.ID, what, sig, r.vcount[sig])
			knownHit = append(knownHit, sig)
			continue
		}
		newViolations++
		path := r.writeReplay(v)
		fmt.Printf("VIOLATION property=%s replay=%s\n", r.ID, path)
		fmt.Printf("  signature: %s\n  what: %s\n  cases: %d\n", sig, oneLine(v.What), r.vcount[sig])
		exit = 1
	}
	exhaustive := len(r.incomplete) == 0
	cov := map[string]any{}
	for k, v := range r.extra {
		cov[k] = v
	}
	cov["evaluations"] = r.evaluations.Load()
	cov["distinct_nontrivial"] = len(r.distinct)
	cov["rule"] = r.rule
	samples := r.samples
	if samples == nil {
		samples = []any{}
	}
	cov["samples"] = samples
	cov["exhaustive"] = exhaustive
	if !exhaustive {
		cov["incomplete_reasons"] = r.incomplete
	}
	if r.Level == "model_checking" {
		cov["states"] = r.States.Load()
		cov["transitions"] = r.Transitions.Load()
		cov["traces_validated_against_impl"] = r.TracesValidated.Load()
	}
	if len(knownHit) > 0 {
		cov["known_findings_reproduced"] = knownHit
	}
	ev := map[string]any{
		"property_id": r.ID,
		"tier":        r.Tier,
		"seed":        r.Seed,
		"level":       r.Level,
		"coverage":    cov,
		"assumptions": r.assumptions,
		"wall_s":      time.Since(r.start).Seconds(),
		"violations":  newViolations,
		"gomaxprocs":  runtime.GOMAXPROCS(0),
	}
	if ev["assumptions"] == nil {
		ev["assumptions"] = []string{}
	}
	b, _ := json.MarshalIndent(ev, "", " ")
	dir := filepath.Join(Root(), "evidence")
	_ = os.MkdirAll(dir, 0o755)
	if err := os.WriteFile(filepath.Join(dir, r.ID+".json"), append(b, '\n'), 0o644); err != nil {
		fmt.Fprintln(os.Stderr, "cannot write evidence:", err)
	}
	fmt.Printf("%s %s: evaluations=%d distinct_nontrivial=%d exhaustive=%v violations=%d known=%d wall=%.1fs\n",
		r.ID, r.Tier, r.evaluations.Load(), len(r.distinct), exhaustive, newViolations, len(knownHit), time.Since(r.start).Seconds())
	for _, reason := range r.incomplete {
		fmt.Printf("  incomplete: %s\n", reason)
	}
	return exit
}

func oneLine(s string) string {
	s = strings.ReplaceAll(s, "\n", "\\n")
	if len(s) > 600 {
		s = s[:600] + "…"
	}
	return s
}

func (r *Run) writeReplay(v *Violation) string {
	sum := sha256.Sum256([]byte(v.Signature))
	dir := filepath.Join(Root(), "replays", r.ID)
	_ = os.MkdirAll(dir, 0o755)
	path := filepath.Join(dir, hex.EncodeToString(sum[:6])+".json")
	b, _ := json.MarshalIndent(map[string]any{
		"property":  r.ID,
		"tier":      r.Tier,
		"signature": v.Signature,
		"what":      v.What,
		"case":      v.Case,
	}, "", " ")
	_ = os.WriteFile(path, append(b, '\n'), 0o644)
	return path
}

// ParallelFor runs f(i) for i in [0,n) on up to workers goroutines; stops handing out work when Expired.
func (r *Run) ParallelFor(n, workers int, f func(i int)) {
	if workers <= 0 {
		workers = runtime.GOMAXPROCS(0)
	}
	var next atomic.Int64
	var wg sync.WaitGroup
	var cut atomic.Bool
	for w := 0; w < workers; w++ {
		wg.Add(1)
		go func() {
			defer wg.Done()
			for {
				i := int(next.Add(1) - 1)
				if i >= n {
					return
				}
				if r.Expired() {
					cut.Store(true)
					return
				}
				f(i)
			}
		}()
	}
	wg.Wait()
	if cut.Load() {
		r.Incomplete(fmt.Sprintf("internal deadline reached after %d of %d work items", min(int(next.Load()), n), n))
	}
}

// Check is a registered property check.
type Check struct {
	ID    string
	Level string
	Run   func(r *Run)
	// Budget per tier
	QuickBudget, ThoroughBudget time.Duration
}

var registry = map[string]*Check{}

// Register adds a check.
func Register(c *Check) { registry[c.ID] = c }

// Lookup finds a check.
func Lookup(id string) *Check { return registry[id] }

// IDs lists registered checks.
func IDs() []string {
	var ids []string
	for id := range registry {
		ids = append(ids, id)
	}
	sort.Strings(ids)
	return ids
}

// Main runs a check and returns the exit code.
func Main(id, tier string) int {
	c := Lookup(id)
	if c == nil {
		fmt.Fprintf(os.Stderr, "unknown check %q (have %v)\n", id, IDs())
		return 2
	}
	budget := c.QuickBudget
	if budget == 0 {
		budget = 120 * time.Second
	}
	if tier == "thorough" {
		budget = c.ThoroughBudget
		if budget == 0 {
			budget = 20 * time.Minute
		}
	}
	r := NewRun(id, tier, c.Level, budget)
	func() {
		defer func() {
			if p := recover(); p != nil {
				buf := make([]byte, 8192)
				buf = buf[:runtime.Stack(buf, false)]
				r.Incomplete(fmt.Sprintf("harness panic: %v\n%s", p, buf))
			}
		}()
		c.Run(r)
	}()
	return r.Finish()
}

var replayers = map[string]func(c json.RawMessage) (string, bool){}
var workers = map[string]func(args []string) int{}

// RegisterReplay registers a direct replayer (case JSON -> description, violated?).
func RegisterReplay(id string, f func(c json.RawMessage) (string, bool)) { replayers[id] = f }

// LookupReplay finds a replayer.
func LookupReplay(id string) func(c json.RawMessage) (string, bool) { return replayers[id] }

// RegisterWorker registers a subprocess worker entry point.
func RegisterWorker(name string, f func(args []string) int) { workers[name] = f }

// LookupWorker finds a worker.
func LookupWorker(name string) func(args []string) int { return workers[name] }
