// Package hook installs the verifhook handler of /repo (build tag verif) and dispatches every hook
// call first to the active controlled scheduler (a scheduling point) and then to an injectable
// per-run callback (fault / crash / snapshot decisions).
package hook

import (
	"sync"
	"sync/atomic"

	"github.com/bufbuild/buf/private/pkg/verifhook"
	"github.com/bufbuild/bufverif/internal/sched"
)

// ShortWriteError re-exports the injected short-write error type.
type ShortWriteError = verifhook.ShortWriteError

type onPointHolder struct{ f func(label string) error }

var onPoint atomic.Pointer[onPointHolder]

// SetOnPoint installs f (nil removes it). f runs on the goroutine that reached the point, after
// the scheduler has granted it the processor.
func SetOnPoint(f func(label string) error) {
	if f == nil {
		onPoint.Store(nil)
		return
	}
	onPoint.Store(&onPointHolder{f: f})
}

type labelSet struct{ m map[string]bool }

var schedLabels atomic.Pointer[labelSet]

// SetSchedLabels restricts which hook labels are scheduling points (nil map = all labels,
// empty map = none). Fault/observation callbacks set with SetOnPoint still see every label.
func SetSchedLabels(m map[string]bool) {
	if m == nil {
		schedLabels.Store(nil)
		return
	}
	schedLabels.Store(&labelSet{m: m})
}

// GroupHandler receives the thread.Parallelize hook calls instead of the cooperative scheduler
// (used by C02's job-order enumerator, which also works for callers on goroutines nobody registered).
type GroupHandler interface {
	Spawn() int
	Begin(token int)
	End(token int)
	Acquire(capacity int)
	Wait()
}

type groupHolder struct{ g GroupHandler }

var group atomic.Pointer[groupHolder]

// SetGroupHandler installs g (nil removes it).
func SetGroupHandler(g GroupHandler) {
	if g == nil {
		group.Store(nil)
		return
	}
	group.Store(&groupHolder{g: g})
}

type handler struct{}

func (handler) Point(label string) error {
	if s := sched.Active(); s != nil {
		if ls := schedLabels.Load(); ls == nil || ls.m[label] {
			s.HookPoint(label)
		}
	}
	if h := onPoint.Load(); h != nil {
		return h.f(label)
	}
	return nil
}
func (handler) Spawn() int {
	if g := group.Load(); g != nil {
		return g.g.Spawn()
	}
	if s := sched.Active(); s != nil {
		return s.Spawn()
	}
	return 0
}
func (handler) Begin(token int) {
	if g := group.Load(); g != nil {
		g.g.Begin(token)
		return
	}
	if s := sched.Active(); s != nil {
		s.Begin(token)
	}
}
func (handler) End(token int) {
	if g := group.Load(); g != nil {
		g.g.End(token)
		return
	}
	if s := sched.Active(); s != nil {
		s.End(token)
	}
}
func (handler) Acquire(capacity int) {
	if g := group.Load(); g != nil {
		g.g.Acquire(capacity)
		return
	}
	if s := sched.Active(); s != nil {
		s.Acquire(capacity)
	}
}
func (handler) Wait() {
	if g := group.Load(); g != nil {
		g.g.Wait()
		return
	}
	if s := sched.Active(); s != nil {
		s.Wait()
	}
}

var once sync.Once

// Install makes the hooks live for this process.
func Install() { once.Do(func() { verifhook.SetHandler(handler{}) }) }
