// Package bufx has thin adapters over buf's own APIs: build an image from in-memory sources,
// lint / breaking through bufcheck.Client, run the CLI in-process.
package bufx

import (
	"bytes"
	"context"
	"errors"
	"io"
	"log/slog"
	"sort"
	"strings"
	"sync"

	"github.com/bufbuild/buf/private/buf/buftarget"
	"github.com/bufbuild/buf/private/buf/bufworkspace"
	"github.com/bufbuild/buf/private/buf/cmd/buf"
	"github.com/bufbuild/buf/private/bufpkg/bufanalysis"
	"github.com/bufbuild/buf/private/bufpkg/bufcheck"
	"github.com/bufbuild/buf/private/bufpkg/bufconfig"
	"github.com/bufbuild/buf/private/bufpkg/bufimage"
	"github.com/bufbuild/buf/private/bufpkg/bufmodule"
	"github.com/bufbuild/buf/private/bufpkg/bufplugin"
	"github.com/bufbuild/buf/private/pkg/app"
	"github.com/bufbuild/buf/private/pkg/app/appcmd"
	"github.com/bufbuild/buf/private/pkg/storage"
	"github.com/bufbuild/buf/private/pkg/storage/storagemem"
	"github.com/bufbuild/buf/private/pkg/wasm"
)

// Logger is a logger that discards everything.
var Logger = slog.New(slog.NewTextHandler(io.Discard, nil))

// MemBucket builds a read bucket from path -> content.
func MemBucket(files map[string]string) storage.ReadBucket {
	m := make(map[string][]byte, len(files))
	for k, v := range files {
		m[k] = []byte(v)
	}
	b, err := storagemem.NewReadBucket(m)
	if err != nil {
		panic(err)
	}
	return b
}

// Providers are the remote-module providers handed to the workspace provider (Nop by default).
type Providers struct {
	Graph      bufmodule.GraphProvider
	ModuleData bufmodule.ModuleDataProvider
	Commit     bufmodule.CommitProvider
}

// NopProviders has no remote modules.
var NopProviders = Providers{bufmodule.NopGraphProvider, bufmodule.NopModuleDataProvider, bufmodule.NopCommitProvider}

// Workspace builds the workspace for a bucket the way the CLI does for a directory input.
// subDir is the input directory relative to the bucket root ("." for the root); paths/excludes are
// --path / --exclude-path values relative to the bucket root.
func Workspace(ctx context.Context, bucket storage.ReadBucket, subDir string, paths, excludes []string, p Providers, options ...bufworkspace.WorkspaceBucketOption) (bufworkspace.Workspace, error) {
	if subDir == "" {
		subDir = "."
	}
	targeting, err := buftarget.NewBucketTargeting(ctx, Logger, bucket, subDir, paths, excludes, buftarget.TerminateAtControllingWorkspace)
	if err != nil {
		return nil, err
	}
	return bufworkspace.NewWorkspaceProvider(Logger, p.Graph, p.ModuleData, p.Commit, bufplugin.NopPluginKeyProvider).
		GetWorkspaceForBucket(ctx, bucket, targeting, options...)
}

// BuildWorkspaceImage builds the image of a workspace (all target modules).
func BuildWorkspaceImage(ctx context.Context, ws bufworkspace.Workspace, options ...bufimage.BuildImageOption) (bufimage.Image, error) {
	return bufimage.BuildImage(ctx, Logger, bufmodule.ModuleSetToModuleReadBucketWithOnlyProtoFiles(ws), options...)
}

// BuildImage builds the image for in-memory files (a buf.yaml / buf.work.yaml among them is honoured).
func BuildImage(ctx context.Context, files map[string]string, options ...bufimage.BuildImageOption) (bufimage.Image, error) {
	ws, err := Workspace(ctx, MemBucket(files), ".", nil, nil, NopProviders)
	if err != nil {
		return nil, err
	}
	return BuildWorkspaceImage(ctx, ws, options...)
}

var (
	clientOnce sync.Once
	client     bufcheck.Client
	clientErr  error
)

// CheckClient returns a shared bufcheck.Client with only the built-in rules (no wasm, no remote plugins).
func CheckClient() (bufcheck.Client, error) {
	clientOnce.Do(func() {
		client, clientErr = bufcheck.NewClient(Logger, bufcheck.NewLocalRunnerProvider(wasm.UnimplementedRuntime, bufplugin.NopPluginKeyProvider, bufplugin.NopPluginDataProvider))
	})
	return client, clientErr
}

// Annotation is a flattened file annotation.
type Annotation struct {
	Path      string `json:"path"`
	StartLine int    `json:"start_line"`
	StartCol  int    `json:"start_column"`
	EndLine   int    `json:"end_line"`
	EndCol    int    `json:"end_column"`
	Type      string `json:"type"`
	Message   string `json:"message"`
}

// Annotations extracts the annotations of a FileAnnotationSet error. ok is false if err is some other error.
func Annotations(err error) (anns []Annotation, ok bool) {
	if err == nil {
		return nil, true
	}
	var set bufanalysis.FileAnnotationSet
	if !errors.As(err, &set) {
		return nil, false
	}
	for _, a := range set.FileAnnotations() {
		x := Annotation{StartLine: a.StartLine(), StartCol: a.StartColumn(), EndLine: a.EndLine(), EndCol: a.EndColumn(), Type: a.Type(), Message: a.Message()}
		if fi := a.FileInfo(); fi != nil {
			x.Path = fi.Path()
		}
		anns = append(anns, x)
	}
	return anns, true
}

// Lint runs the built-in lint rules. A non-annotation error is returned as err.
func Lint(ctx context.Context, config bufconfig.LintConfig, image bufimage.Image, options ...bufcheck.LintOption) ([]Annotation, error) {
	c, err := CheckClient()
	if err != nil {
		return nil, err
	}
	lerr := c.Lint(ctx, config, image, options...)
	anns, ok := Annotations(lerr)
	if !ok {
		return nil, lerr
	}
	return anns, nil
}

// Breaking runs the built-in breaking rules (image = new, against = old).
func Breaking(ctx context.Context, config bufconfig.BreakingConfig, image, against bufimage.Image, options ...bufcheck.BreakingOption) ([]Annotation, error) {
	c, err := CheckClient()
	if err != nil {
		return nil, err
	}
	berr := c.Breaking(ctx, config, image, against, options...)
	anns, ok := Annotations(berr)
	if !ok {
		return nil, berr
	}
	return anns, nil
}

// ReadBufYAML parses buf.yaml text.
func ReadBufYAML(text string) (bufconfig.BufYAMLFile, error) {
	return bufconfig.ReadBufYAMLFile(strings.NewReader(text), "buf.yaml")
}

// CLIResult is the outcome of an in-process CLI run.
type CLIResult struct {
	ExitCode int
	Stdout   string
	Stderr   string
}

// RunCLI runs `buf args...` in-process. env entries are KEY=VALUE. The working directory of the
// process is not changed; pass absolute paths or inputs relative to the process cwd.
func RunCLI(ctx context.Context, env map[string]string, stdin string, args ...string) CLIResult {
	var out, errb bytes.Buffer
	if env == nil {
		env = map[string]string{}
	}
	if _, ok := env["HOME"]; !ok {
		env["HOME"] = "/nonexistent-verif-home"
	}
	if _, ok := env["BUF_CACHE_DIR"]; !ok {
		env["BUF_CACHE_DIR"] = "/nonexistent-verif-home/.cache"
	}
	container := app.NewContainer(env, strings.NewReader(stdin), &out, &errb, append([]string{"buf"}, args...)...)
	err := appcmd.Run(ctx, container, buf.NewRootCommand("buf"))
	return CLIResult{ExitCode: app.GetExitCode(err), Stdout: out.String(), Stderr: errb.String()}
}

// SortedKeys returns the sorted keys of a map.
func SortedKeys[V any](m map[string]V) []string {
	keys := make([]string, 0, len(m))
	for k := range m {
		keys = append(keys, k)
	}
	sort.Strings(keys)
	return keys
}
