// Package joborder enumerates the execution orders of the jobs of thread.Parallelize calls.
//
// Jobs are atomic: one job of a group runs at a time, and the handler decides which of the spawned,
// not yet started jobs goes next according to a permutation chosen for that call. It works for
// Parallelize calls made on any goroutine (it does not need the cooperative scheduler), honours the
// semaphore capacity (only orders feasible under the capacity are produced) and records every call
// so that the explorer can deviate one call at a time.
package joborder

import (
	"bytes"
	"fmt"
	"runtime"
	"strconv"
	"strings"
	"sync"
)

// Call describes one Parallelize call observed during an execution.
type Call struct {
	Site  string // function that called thread.Parallelize
	Seq   int    // per-site sequence number
	Jobs  int    // jobs spawned
	Order []int  // the order in which the jobs actually ran (indices in spawn order)
}

func (c Call) Key() string { return fmt.Sprintf("%s#%d", c.Site, c.Seq) }

type child struct {
	idx     int
	start   chan struct{}
	started bool
	ended   bool
	arrived bool
}

type group struct {
	key      string
	site     string
	seq      int
	children []*child
	running  *child
	waiting  bool // parent is in Wait (all jobs spawned)
	blocked  bool // parent is blocked at the semaphore
	order    []int
	rank     []int // desired rank per job index (lower first); nil = spawn order
	done     bool
}

// Handler implements hook.GroupHandler.
type Handler struct {
	mu       sync.Mutex
	byParent map[int64]*group
	byToken  map[int]*group
	tokens   map[int]*child
	nextTok  int
	siteSeq  map[string]int
	// Plan maps a call key to the desired order (job indices, first to last); others run in spawn order.
	Plan   map[string][]int
	Calls  []Call
	groups []*group
}

// New returns a handler with the given plan.
func New(plan map[string][]int) *Handler {
	return &Handler{byParent: map[int64]*group{}, byToken: map[int]*group{}, tokens: map[int]*child{}, siteSeq: map[string]int{}, Plan: plan}
}

func goid() int64 {
	var buf [64]byte
	b := buf[:runtime.Stack(buf[:], false)]
	b = b[len("goroutine "):]
	i := bytes.IndexByte(b, ' ')
	n, _ := strconv.ParseInt(string(b[:i]), 10, 64)
	return n
}

func callSite() string {
	pcs := make([]uintptr, 16)
	n := runtime.Callers(3, pcs)
	frames := runtime.CallersFrames(pcs[:n])
	seenParallelize := false
	for {
		f, more := frames.Next()
		if seenParallelize && !strings.Contains(f.Function, "verifhook") && !strings.Contains(f.Function, "internal/hook") {
			name := f.Function
			if i := strings.LastIndex(name, "/"); i >= 0 {
				name = name[i+1:]
			}
			return name
		}
		if strings.HasSuffix(f.Function, "thread.Parallelize") {
			seenParallelize = true
		}
		if !more {
			return "?"
		}
	}
}

// Spawn registers a new job of the calling goroutine's current Parallelize call.
func (h *Handler) Spawn() int {
	g := goid()
	h.mu.Lock()
	defer h.mu.Unlock()
	grp := h.byParent[g]
	if grp == nil || grp.done {
		site := callSite()
		grp = &group{site: site, seq: h.siteSeq[site]}
		h.siteSeq[site]++
		grp.key = fmt.Sprintf("%s#%d", grp.site, grp.seq)
		h.byParent[g] = grp
	}
	c := &child{idx: len(grp.children), start: make(chan struct{}, 1)}
	grp.children = append(grp.children, c)
	h.nextTok++
	h.byToken[h.nextTok] = grp
	h.tokens[h.nextTok] = c
	return h.nextTok
}

// rankOf returns the desired position of job idx in the group's plan (unplanned jobs keep spawn order after planned ones).
func (h *Handler) rankOf(grp *group, idx int) int {
	plan := h.Plan[grp.key]
	for pos, j := range plan {
		if j == idx {
			return pos
		}
	}
	return len(plan) + idx
}

// pickLocked starts the next job if none is running and the parent cannot make progress otherwise.
func (h *Handler) pickLocked(grp *group) {
	if grp.running != nil {
		return
	}
	if !grp.waiting && !grp.blocked {
		return // the parent is still spawning; later jobs may have to go first
	}
	var best *child
	for _, c := range grp.children {
		if c.started || !c.arrived {
			continue
		}
		if best == nil || h.rankOf(grp, c.idx) < h.rankOf(grp, best.idx) {
			best = c
		}
	}
	// every spawned, unstarted job must have arrived at Begin before we can choose among them
	for _, c := range grp.children {
		if !c.started && !c.arrived {
			return
		}
	}
	if best == nil {
		return
	}
	best.started = true
	grp.running = best
	grp.blocked = false
	grp.order = append(grp.order, best.idx)
	best.start <- struct{}{}
}

// Begin parks the job until it is its turn.
func (h *Handler) Begin(token int) {
	h.mu.Lock()
	grp, c := h.byToken[token], h.tokens[token]
	if grp == nil {
		h.mu.Unlock()
		return
	}
	c.arrived = true
	h.pickLocked(grp)
	h.mu.Unlock()
	<-c.start
}

// End marks the job finished and starts the next one.
func (h *Handler) End(token int) {
	h.mu.Lock()
	defer h.mu.Unlock()
	grp, c := h.byToken[token], h.tokens[token]
	if grp == nil {
		return
	}
	c.ended = true
	if grp.running == c {
		grp.running = nil
	}
	h.pickLocked(grp)
}

// Acquire is called by the parent before it may block on the semaphore.
func (h *Handler) Acquire(capacity int) {
	g := goid()
	h.mu.Lock()
	defer h.mu.Unlock()
	grp := h.byParent[g]
	if grp == nil || grp.done {
		return
	}
	live := 0
	for _, c := range grp.children {
		if !c.ended {
			live++
		}
	}
	if live >= capacity {
		grp.blocked = true
		h.pickLocked(grp)
	}
}

// Wait is called by the parent once every job is spawned.
func (h *Handler) Wait() {
	g := goid()
	h.mu.Lock()
	defer h.mu.Unlock()
	grp := h.byParent[g]
	if grp == nil || grp.done {
		return
	}
	grp.waiting = true
	h.pickLocked(grp)
	// the call is recorded when the parent waits; the order is completed by the time the parent resumes
	grp.done = true
	delete(h.byParent, g)
	h.Calls = append(h.Calls, Call{Site: grp.site, Seq: grp.seq, Jobs: len(grp.children)})
	h.groups = append(h.groups, grp)
}

// Finish returns the calls with their realised orders (call after the execution has ended).
func (h *Handler) Finish() []Call {
	h.mu.Lock()
	defer h.mu.Unlock()
	out := make([]Call, len(h.Calls))
	for i, c := range h.Calls {
		c.Order = append([]int(nil), h.groups[i].order...)
		out[i] = c
	}
	return out
}
