module github.com/bufbuild/bufverif

go 1.23.4

require github.com/bufbuild/buf v0.0.0

require github.com/klauspost/compress v1.18.0 // indirect

replace github.com/bufbuild/buf => /repo
