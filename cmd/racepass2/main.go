// Command racepass2 runs the API output functions of the C02 check free-running (no job-order handler) at small
// parallelism settings, so that the Go race detector (build with -race) can see unsynchronised accesses between
// the jobs of buf's parallel sections. The controlled job-order exploration runs the jobs of a call one at a time
// and cannot show a data race. The caller parses the detector's reports (GORACE=log_path=...).
package main

import (
	"fmt"
	"os"

	"github.com/bufbuild/bufverif/checks/c02"
)

func main() {
	n, errs := c02.RunFreeRunning()
	for _, e := range errs {
		fmt.Println("body error:", e)
	}
	fmt.Printf("RACEPASS2 executions=%d ok\n", n)
	if len(errs) > 0 {
		os.Exit(3)
	}
}
