package main

import (
	"fmt"
	"os"
	"runtime/pprof"
	"time"

	"github.com/bufbuild/bufverif/checks/c03"
)

func main() {
	eng := c03.NewEngine()
	b := c03.Bases()[1]
	r := b.Schema.Render(c03.Style{})
	img, err := eng.Image(r)
	if err != nil {
		panic(err)
	}
	c := c03.Config{Version: "v2", Use: "ALL", Union: true}
	eng.Breaking(c, img, img)
	f, _ := os.Create("/tmp/c03.prof")
	pprof.StartCPUProfile(f)
	t0 := time.Now()
	for i := 0; i < 200; i++ {
		eng.Breaking(c, img, img)
	}
	fmt.Println("breaking", time.Since(t0)/200)
	t0 = time.Now()
	for i := 0; i < 50; i++ {
		eng.Image(r)
	}
	fmt.Println("build", time.Since(t0)/50)
	pprof.StopCPUProfile()
}
