package main

import (
	"fmt"
	"runtime"

	"github.com/bufbuild/bufverif/checks/c03"
)

func main() {
	eng := c03.NewEngine()
	b := c03.Bases()[1]
	r := b.Schema.Render(c03.Style{})
	img, _ := eng.Image(r)
	c := c03.Config{Version: "v2", Use: "ALL", Union: true}
	var m runtime.MemStats
	for k := 0; k < 6; k++ {
		for i := 0; i < 100; i++ {
			eng.Breaking(c, img, img)
		}
		runtime.GC()
		runtime.ReadMemStats(&m)
		fmt.Println("heap after", (k+1)*100, "calls:", m.HeapAlloc/1e6, "MB")
	}
	for k := 0; k < 3; k++ {
		for i := 0; i < 100; i++ {
			img2, _ := eng.Image(r)
			eng.Breaking(c, img2, img)
		}
		runtime.GC()
		runtime.ReadMemStats(&m)
		fmt.Println("heap after fresh-image", (k+1)*100, "calls:", m.HeapAlloc/1e6, "MB")
	}
}
