package main

import (
	"fmt"

	"github.com/bufbuild/bufverif/checks/c03"
)

func main() {
	eng := c03.NewEngine()
	for _, in := range c03.Instances(c03.Bases()[0], false) {
		if in.Op != "enum-alias-delete-one-name" || in.Pos != "top" {
			continue
		}
		p, err := eng.Prepare(&in, 0)
		if err != nil {
			panic(err)
		}
		fmt.Println(in.ID(), p.ChangedFiles() != nil, len(p.ChangedFiles()))
		for _, c := range c03.CategoryConfigs()[8:] {
			anns, err := eng.Breaking(c, p.NewImg, p.OldImg)
			fmt.Println(c, anns, err)
		}
	}
}
