package main

import (
	"context"
	"fmt"

	"github.com/bufbuild/bufverif/checks/c03"
	"github.com/bufbuild/bufverif/internal/bufx"
)

func run(title string, old, nw map[string]string, cfgs ...c03.Config) {
	eng := c03.NewEngine()
	ctx := context.Background()
	oi, err := bufx.BuildImage(ctx, old)
	if err != nil {
		panic(err)
	}
	ni, err := bufx.BuildImage(ctx, nw)
	if err != nil {
		panic(err)
	}
	fmt.Println("##", title)
	for _, c := range cfgs {
		anns, err := eng.Breaking(c, ni, oi)
		fmt.Printf("  %-12s err=%v\n", c, err)
		for _, a := range anns {
			fmt.Printf("      %s:%d:%d %s %s\n", a.Path, a.StartLine, a.StartCol, a.Type, a.Message)
		}
	}
}

func main() {
	pk := c03.Config{Version: "v2", Use: "PACKAGE"}
	fl := c03.Config{Version: "v2", Use: "FILE"}
	wr := c03.Config{Version: "v2", Use: "WIRE"}
	run("F-A1 last message of a surviving package",
		map[string]string{"d.proto": "syntax = \"proto3\";\npackage tiny.v1;\nenum OnlyEnum { ONLY_ENUM_UNSPECIFIED = 0; }\nmessage Only { int32 id = 1; }\n"},
		map[string]string{"d.proto": "syntax = \"proto3\";\npackage tiny.v1;\nenum OnlyEnum { ONLY_ENUM_UNSPECIFIED = 0; }\n"}, fl, pk)
	run("F-A2 last enum of a surviving package",
		map[string]string{"d.proto": "syntax = \"proto3\";\npackage tiny.v1;\nenum OnlyEnum { ONLY_ENUM_UNSPECIFIED = 0; }\nmessage Only { int32 id = 1; }\n"},
		map[string]string{"d.proto": "syntax = \"proto3\";\npackage tiny.v1;\nmessage Only { int32 id = 1; }\n"}, fl, pk)
	run("F-A3 control: one of two messages deleted",
		map[string]string{"d.proto": "syntax = \"proto3\";\npackage tiny.v1;\nmessage Keep { int32 id = 1; }\nmessage Only { int32 id = 1; }\n"},
		map[string]string{"d.proto": "syntax = \"proto3\";\npackage tiny.v1;\nmessage Keep { int32 id = 1; }\n"}, fl, pk)
	run("F-A4 last extension of a surviving package",
		map[string]string{"d.proto": "syntax = \"proto2\";\npackage tiny.v1;\nmessage E { extensions 100 to 199; }\nextend E { optional int32 x = 100; }\n"},
		map[string]string{"d.proto": "syntax = \"proto2\";\npackage tiny.v1;\nmessage E { extensions 100 to 199; }\n"}, fl, pk)
	run("F-B1 editions: new LEGACY_REQUIRED field",
		map[string]string{"a.proto": "edition = \"2023\";\npackage p.v1;\nmessage M { int32 a = 1; }\n"},
		map[string]string{"a.proto": "edition = \"2023\";\npackage p.v1;\nmessage M { int32 a = 1; int32 b = 2 [features.field_presence = LEGACY_REQUIRED]; }\n"}, fl, wr)
	run("F-B2 control proto2: new required field",
		map[string]string{"a.proto": "syntax = \"proto2\";\npackage p.v1;\nmessage M { optional int32 a = 1; }\n"},
		map[string]string{"a.proto": "syntax = \"proto2\";\npackage p.v1;\nmessage M { optional int32 a = 1; required int32 b = 2; }\n"}, fl, wr)
	run("F-B3 editions: LEGACY_REQUIRED field deleted with number and name reserved",
		map[string]string{"a.proto": "edition = \"2023\";\npackage p.v1;\nmessage M { int32 a = 1; int32 b = 2 [features.field_presence = LEGACY_REQUIRED]; }\n"},
		map[string]string{"a.proto": "edition = \"2023\";\npackage p.v1;\nmessage M { int32 a = 1; reserved 2; reserved b; }\n"}, wr)
	run("F-B4 control proto2: required field deleted with number and name reserved",
		map[string]string{"a.proto": "syntax = \"proto2\";\npackage p.v1;\nmessage M { optional int32 a = 1; required int32 b = 2; }\n"},
		map[string]string{"a.proto": "syntax = \"proto2\";\npackage p.v1;\nmessage M { optional int32 a = 1; reserved 2; reserved \"b\"; }\n"}, wr)
	run("F-C FIELD_SAME_DEFAULT message",
		map[string]string{"a.proto": "syntax = \"proto2\";\npackage p.v1;\nmessage M { optional int32 a = 1 [default = 7]; }\n"},
		map[string]string{"a.proto": "syntax = \"proto2\";\npackage p.v1;\nmessage M { optional int32 a = 1 [default = 8]; }\n"}, wr)
}
