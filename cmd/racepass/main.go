// Command racepass runs the bodies of the C09/C15 drivers free-running (no controlled scheduler) so
// that the Go race detector (build with -race) can see unsynchronised accesses that a cooperative
// scheduler hides (its hand-offs are happens-before edges). Supplement only; exit 0 unless the race
// detector aborts the process (GORACE=halt_on_error=1 exitcode=66).
package main

import (
	"context"
	"fmt"
	"os"
	"sync"

	"github.com/bufbuild/buf/private/pkg/filelock"
	"github.com/bufbuild/buf/private/pkg/storage"
	"github.com/bufbuild/buf/private/pkg/storage/storagemem"
	"github.com/bufbuild/buf/private/pkg/storage/storageos"
	"github.com/bufbuild/bufverif/checks/c09"
)

func main() {
	ctx := context.Background()
	scratch, err := os.MkdirTemp("", "verif-race-")
	if err != nil {
		fmt.Println(err)
		os.Exit(2)
	}
	defer os.RemoveAll(scratch)
	rounds := 0
	for round := 0; round < 40; round++ {
		for mi := range c09.Modules {
			for _, tar := range []bool{false, true} {
				dir := fmt.Sprintf("%s/r%d-%d-%v", scratch, round, mi, tar)
				_ = os.MkdirAll(dir, 0o755)
				locker, err := filelock.NewLocker(dir)
				if err != nil {
					fmt.Println(err)
					os.Exit(2)
				}
				var wg sync.WaitGroup
				for p := 0; p < 4; p++ {
					wg.Add(1)
					go func(p int) {
						defer wg.Done()
						inst, err := c09.NewInstance(c09.Modules[mi])
						if err != nil {
							return
						}
						b, _ := storageos.NewProvider().NewReadWriteBucket(dir)
						store := c09.NewStoreForRace(b, locker, tar)
						if p%2 == 0 {
							_ = c09.Store(ctx, store, inst)
						}
						_, _ = c09.Load(ctx, store, inst)
					}(p)
				}
				wg.Wait()
				rounds++
			}
		}
		// parallel copies between buckets (storage.Copy uses thread.Parallelize)
		src, _ := storagemem.NewReadBucket(map[string][]byte{"a": []byte("1"), "b/c": []byte("22"), "d/e/f": []byte("333")})
		var wg sync.WaitGroup
		for p := 0; p < 4; p++ {
			wg.Add(1)
			go func() {
				defer wg.Done()
				dst := storagemem.NewReadWriteBucket()
				_, _ = storage.Copy(ctx, src, dst)
			}()
		}
		wg.Wait()
	}
	fmt.Printf("RACEPASS rounds=%d ok\n", rounds)
}
