package main

import (
	"encoding/json"
	"fmt"
	"os"

	_ "github.com/bufbuild/bufverif/checks/c10"
	"github.com/bufbuild/bufverif/internal/evid"
)

func main() {
	for _, f := range os.Args[1:] {
		raw, err := os.ReadFile(f)
		if err != nil {
			panic(err)
		}
		var rf struct {
			Signature string          `json:"signature"`
			Case      json.RawMessage `json:"case"`
		}
		if err := json.Unmarshal(raw, &rf); err != nil {
			panic(err)
		}
		what, violated := evid.LookupReplay("C10")(rf.Case)
		fmt.Printf("%s [%s]: violated=%v %s\n", f, rf.Signature, violated, what)
	}
}
