// Command c07 is a private driver containing only check C07.
package main

import (
	"fmt"
	"os"

	"github.com/bufbuild/bufverif/checks/c07"
	"github.com/bufbuild/bufverif/internal/evid"
)

func main() {
	args := os.Args[1:]
	if len(args) >= 2 && args[0] == "worker" {
		if f := evid.LookupWorker(args[1]); f != nil {
			os.Exit(f(args[2:]))
		}
		os.Exit(2)
	}
	if len(args) == 2 && args[0] == "fmt" {
		b, err := os.ReadFile(args[1])
		if err != nil {
			fmt.Fprintln(os.Stderr, err)
			os.Exit(2)
		}
		fmt.Print(c07.Debug(string(b)))
		os.Exit(0)
	}
	if len(args) < 2 || args[0] != "check" {
		fmt.Fprintln(os.Stderr, "usage: check <id> [--tier quick|thorough]")
		os.Exit(2)
	}
	tier := "quick"
	for i := 2; i < len(args); i++ {
		if args[i] == "--tier" && i+1 < len(args) {
			tier = args[i+1]
		}
	}
	os.Exit(evid.Main(args[1], tier))
}
