// Command c07 is a private driver containing only check C07.
package main

import (
	"context"
	"encoding/json"
	"fmt"
	"os"

	"github.com/bufbuild/bufverif/checks/c07"
	"github.com/bufbuild/bufverif/internal/bufx"
	"github.com/bufbuild/bufverif/internal/evid"
)

func main() {
	args := os.Args[1:]
	if len(args) >= 2 && args[0] == "worker" {
		if f := evid.LookupWorker(args[1]); f != nil {
			os.Exit(f(args[2:]))
		}
		os.Exit(2)
	}
	if len(args) == 2 && args[0] == "fmt" {
		b, err := os.ReadFile(args[1])
		if err != nil {
			fmt.Fprintln(os.Stderr, err)
			os.Exit(2)
		}
		fmt.Print(c07.Debug(string(b)))
		os.Exit(0)
	}
	if len(args) == 2 && args[0] == "replay" {
		// triage helper: re-run the library-level oracles on the recorded input of a replay file
		b, err := os.ReadFile(args[1])
		if err != nil {
			fmt.Fprintln(os.Stderr, err)
			os.Exit(2)
		}
		var rec struct {
			Case json.RawMessage `json:"case"`
		}
		if err := json.Unmarshal(b, &rec); err != nil {
			fmt.Fprintln(os.Stderr, err)
			os.Exit(2)
		}
		msg, violated := evid.LookupReplay("C07")(rec.Case)
		fmt.Println(msg)
		if violated {
			os.Exit(1)
		}
		os.Exit(0)
	}
	if len(args) >= 1 && args[0] == "buf" {
		// triage helper: the in-process CLI exactly as the check drives it
		res := bufx.RunCLI(context.Background(), nil, "", args[1:]...)
		fmt.Print(res.Stdout)
		fmt.Fprint(os.Stderr, res.Stderr)
		os.Exit(res.ExitCode)
	}
	if len(args) < 2 || args[0] != "check" {
		fmt.Fprintln(os.Stderr, "usage: check <id> [--tier quick|thorough]")
		os.Exit(2)
	}
	tier := "quick"
	for i := 2; i < len(args); i++ {
		if args[i] == "--tier" && i+1 < len(args) {
			tier = args[i+1]
		}
	}
	os.Exit(evid.Main(args[1], tier))
}
