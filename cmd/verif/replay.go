package main

import (
	"encoding/json"
	"fmt"
	"os"

	"github.com/bufbuild/bufverif/internal/evid"
)

// replay re-runs the check that produced a replay file restricted to reporting that signature.
func replay(args []string) int {
	if len(args) < 1 {
		return 2
	}
	b, err := os.ReadFile(args[0])
	if err != nil {
		fmt.Fprintln(os.Stderr, err)
		return 2
	}
	var rf struct {
		Property  string          `json:"property"`
		Tier      string          `json:"tier"`
		Signature string          `json:"signature"`
		Case      json.RawMessage `json:"case"`
	}
	if err := json.Unmarshal(b, &rf); err != nil {
		fmt.Fprintln(os.Stderr, err)
		return 2
	}
	if f := evid.LookupReplay(rf.Property); f != nil {
		what, violated := f(rf.Case)
		if violated {
			fmt.Printf("VIOLATION property=%s replay=%s\n  %s\n", rf.Property, args[0], what)
			return 1
		}
		fmt.Printf("replay of %s: property holds on this case (%s)\n", args[0], what)
		return 0
	}
	os.Setenv("VERIF_ONLY_SIG", rf.Signature)
	return evid.Main(rf.Property, rf.Tier)
}

func worker(args []string) int {
	if len(args) < 1 {
		return 2
	}
	if f := evid.LookupWorker(args[0]); f != nil {
		return f(args[1:])
	}
	return 2
}
