package main

import (
	_ "github.com/bufbuild/bufverif/checks/c01"
	_ "github.com/bufbuild/bufverif/checks/c02"
	_ "github.com/bufbuild/bufverif/checks/c03"
	_ "github.com/bufbuild/bufverif/checks/c04"
	_ "github.com/bufbuild/bufverif/checks/c05"
	_ "github.com/bufbuild/bufverif/checks/c06"
	_ "github.com/bufbuild/bufverif/checks/c07"
	_ "github.com/bufbuild/bufverif/checks/c08"
	_ "github.com/bufbuild/bufverif/checks/c09"
	_ "github.com/bufbuild/bufverif/checks/c10"
	_ "github.com/bufbuild/bufverif/checks/c11"
	_ "github.com/bufbuild/bufverif/checks/c12"
	_ "github.com/bufbuild/bufverif/checks/c13"
	_ "github.com/bufbuild/bufverif/checks/c14"
	_ "github.com/bufbuild/bufverif/checks/c15"
	_ "github.com/bufbuild/bufverif/checks/c16"
	_ "github.com/bufbuild/bufverif/checks/c17"
	_ "github.com/bufbuild/bufverif/checks/c18"
	_ "github.com/bufbuild/bufverif/checks/c19"
	_ "github.com/bufbuild/bufverif/checks/c20"
)
