package main

import (
	_ "github.com/bufbuild/bufverif/checks/c15"
)
