// Command verif is the driver: verif check <Cnn> --tier quick|thorough | verif list.
package main

import (
	"fmt"
	"os"

	"github.com/bufbuild/bufverif/internal/evid"
)

func main() {
	args := os.Args[1:]
	if len(args) == 0 {
		fmt.Fprintln(os.Stderr, "usage: verif check <id> [--tier quick|thorough] | verif list | verif replay <file>")
		os.Exit(2)
	}
	switch args[0] {
	case "list":
		for _, id := range evid.IDs() {
			fmt.Println(id)
		}
	case "check":
		if len(args) < 2 {
			os.Exit(2)
		}
		tier := os.Getenv("VERIF_TIER")
		if tier == "" {
			tier = "quick"
		}
		for i := 2; i < len(args); i++ {
			if args[i] == "--tier" && i+1 < len(args) {
				tier = args[i+1]
			}
		}
		os.Exit(evid.Main(args[1], tier))
	case "replay":
		os.Exit(replay(args[1:]))
	case "worker":
		os.Exit(worker(args[1:]))
	default:
		fmt.Fprintln(os.Stderr, "unknown command", args[0])
		os.Exit(2)
	}
}
