package c06

import (
	"fmt"
	"sort"
	"strings"

	"github.com/bufbuild/bufverif/internal/bufx"
	"github.com/bufbuild/bufverif/internal/enum"
)

// ---------------------------------------------------------------------------------------------
// Part M: v2 workspaces of SEVERAL modules whose directory names are string-related (one name is a string
// prefix / suffix / extension of the other without containing it as a path). An ignore / ignore_only path is
// workspace-relative; for the module it is judged for, the model is the same as everywhere else: an annotation
// is suppressed iff <module dir>/<image path> is the path or lies below it, component-wise. Every module of
// the workspace holds the same files (image paths are module-relative), so one scene serves all modules and
// only the buf.yaml differs.
//
// Path alphabet, derived from the workspace: for every module directory m — m itself, `m/`, EVERY proper
// non-empty string prefix of m, m with one more character, a directory, a file and a non-path string prefix
// inside m. Written at the workspace level (judged for every module) and at the module level (paths inside
// the module only: everything else is rejected there by design).

type workspaceShape struct {
	Dirs []string
}

func moduleWorkspaces(quick bool) []workspaceShape {
	pairs := [][2]string{
		{"proto/api", "proto/apiv2"}, // sibling whose name extends the other one
		{"foo", "foobar"},            // the same at the top level
	}
	if !quick {
		pairs = append(pairs,
			[2]string{"proto/api", "proto/ap"},
			[2]string{"api", "proto/api"}, // string suffix
			[2]string{"a", "ab"},
		)
	}
	var out []workspaceShape
	for _, p := range pairs {
		if under(p[0], p[1]) || under(p[1], p[0]) {
			continue // nested module directories are out of scope
		}
		out = append(out, workspaceShape{Dirs: []string{p[0], p[1]}}, workspaceShape{Dirs: []string{p[1], p[0]}})
	}
	out = append(out, workspaceShape{Dirs: []string{"proto/api", "proto/ap", "proto/apiv2"}})
	if !quick {
		out = append(out, workspaceShape{Dirs: []string{"foobar", "fo", "foo"}})
	}
	return out
}

// modulePathAlphabet: the ignore paths tried on a workspace (sorted, without duplicates).
func modulePathAlphabet(dirs []string) []string {
	set := stringSet{}
	for _, m := range dirs {
		set[m] = true
		set[m+"/"] = true
		for i := 1; i < len(m); i++ {
			if m[i-1] != '/' { // "proto/" is the spelling `m/` of the parent directory: covered by the prefix "proto"
				set[m[:i]] = true
			}
		}
		set[m+"v"] = true
		set[m+"/b"] = true
		set[m+"/"+lintFileA] = true
		set[m+"/a/v"] = true
	}
	return set.sorted()
}

func partM(e *env) {
	r := e.r
	const version = "v2"
	only := stringSet{}
	for _, id := range lintPlanted {
		only[id] = true
	}
	lintSc, ok := e.lintSceneIn("", nil, []string{version}, only)
	if !ok {
		return
	}
	breakSc, ok := e.breakingScene([]string{version})
	if !ok {
		return
	}
	type job struct {
		ws         workspaceShape
		dir        string
		kind       string
		perModule  bool
		neighbours bool
	}
	var jobs []job
	shapes := moduleWorkspaces(r.Quick())
	var names []string
	for _, ws := range shapes {
		names = append(names, strings.Join(ws.Dirs, " + "))
		for _, dir := range ws.Dirs {
			for _, kind := range []string{"lint", "breaking"} {
				jobs = append(jobs, job{ws, dir, kind, false, false}, job{ws, dir, kind, true, false})
				if !r.Quick() || len(ws.Dirs) == 2 {
					jobs = append(jobs, job{ws, dir, kind, false, true})
				}
			}
		}
	}
	r.Set("multi_module_workspaces", names)
	r.Set("multi_module_path_alphabet_example", modulePathAlphabet(shapes[0].Dirs))
	r.ParallelFor(len(jobs), 0, func(i int) {
		j := jobs[i]
		sc, use, ioKey := lintSc, lintPlanted, "FIELD_LOWER_SNAKE_CASE"
		if j.kind == "breaking" {
			sc, use, ioKey = breakSc, breakingPlanted, "FIELD_NO_DELETE"
		}
		t := e.tables(version, j.kind)
		base := cfg{Version: version, Type: j.kind, Use: use, ModuleDir: j.dir, Modules: j.ws.Dirs, PerModule: j.perModule, Neighbours: j.neighbours}
		tag := "M|" + strings.Join(j.ws.Dirs, "+")
		baseOut := e.judge(sc, base, tag)
		if !baseOut.Judged || len(baseOut.ObsSet) == 0 {
			r.Incomplete("part M: the configuration without ignore paths reports nothing or is not judged: " + base.key())
			return
		}
		moduleDirs := stringSet{}
		for _, d := range j.ws.Dirs {
			moduleDirs[d] = true
		}
		for _, p := range modulePathAlphabet(j.ws.Dirs) {
			norm := refNormalize(p)
			inModule := under(norm, j.dir)
			if j.perModule && !inModule {
				continue // a module-level section must stay inside its module (rejected by the parser by design)
			}
			relation := "unrelated"
			switch {
			case norm == j.dir:
				relation = "module-dir"
			case inModule:
				relation = "inside-module"
			case under(j.dir, norm):
				relation = "contains-module"
			case moduleDirs[norm]:
				relation = "other-module-dir"
			case strings.HasPrefix(j.dir, norm):
				relation = "string-prefix-of-module-dir"
			case strings.HasPrefix(norm, j.dir):
				relation = "string-extension-of-module-dir"
			}
			for _, how := range []string{"ignore", "ignore_only"} {
				if how == "ignore_only" && moduleDirs[norm] {
					continue // naming a whole module in ignore_only is refused by buf ("." as an ignore path): loud, not enumerated
				}
				c := base
				if how == "ignore" {
					c.Ignore = []string{p}
				} else {
					c.IgnoreOnly = []kv{{ID: ioKey, Paths: []string{p}}}
				}
				if relation == "contains-module" {
					// a directory ABOVE the module directory: buf drops such a path from the module's configuration
					// (getRelPathsForLintOrBreakingExternalPaths keeps only paths inside the module), the component-wise
					// reading of "directory" would suppress the whole module. Recorded as an observation, not judged.
					r.Eval(1)
					obs := e.observe(c, sc.Image, sc.Against)
					switch {
					case obs.ParseErr != "" || obs.Err != "":
						e.cnt.add("multimodule.path_above_module_observed_error", 1)
					case len(obs.Anns) == len(baseOut.ObsSet):
						e.cnt.add("multimodule.path_above_module_observed_no_effect", 1)
					default:
						e.cnt.add("multimodule.path_above_module_observed_suppression", 1)
					}
					continue
				}
				out := e.judge(sc, c, tag)
				if out.ObsSet == nil {
					continue
				}
				e.cnt.add("multimodule.cases", 1)
				paths := []string{p}
				if how == "ignore" {
					e.monotone(sc, baseOut, out, "ignore", func(a bufx.Annotation) bool { return sc.Src.annUnderAny(c, a, paths) })
				} else {
					ioMap, _ := t.ignoreOnly(c.IgnoreOnly)
					e.monotone(sc, baseOut, out, "ignore_only", func(a bufx.Annotation) bool { return sc.Src.annUnderAny(c, a, ioMap[a.Type]) })
				}
				if !out.Judged {
					continue
				}
				level := "workspace-level"
				if j.perModule {
					level = "module-level"
				}
				switch {
				case len(out.ObsSet) == len(baseOut.ObsSet):
					e.cnt.add("multimodule."+j.kind+"."+how+"."+relation+".kept_all", 1)
				case len(out.ObsSet) == 0:
					e.cnt.add("multimodule."+j.kind+"."+how+"."+relation+".removed_all", 1)
				default:
					e.cnt.add("multimodule."+j.kind+"."+how+"."+relation+".removed_some", 1)
				}
				e.cnt.add("multimodule."+level+".cases", 1)
				if j.neighbours {
					e.cnt.add("multimodule.neighbour_sections.cases", 1)
				}
			}
		}
	})
	if r.Expired() {
		return
	}
	// non-vacuity: a path that is string-related to the module directory without being a path relation keeps everything,
	// the module directory removes everything, a path inside removes something
	for _, kind := range []string{"lint", "breaking"} {
		for _, need := range []string{
			".ignore.other-module-dir.kept_all", ".ignore.string-prefix-of-module-dir.kept_all", ".ignore.string-extension-of-module-dir.kept_all",
			".ignore.module-dir.removed_all", ".ignore.inside-module.removed_some", ".ignore_only.inside-module.removed_some",
			".ignore_only.string-prefix-of-module-dir.kept_all",
		} {
			name := "multimodule." + kind + need
			e.cnt.mu.Lock()
			n := e.cnt.m[name]
			e.cnt.mu.Unlock()
			if n == 0 {
				r.Incomplete("clause never exercised: " + name)
			}
		}
	}
}

// ---------------------------------------------------------------------------------------------
// Part N: rules that look at GROUPS of files (the files of a package, of a directory, the import statements
// that lead from one package into another) on images in which such a group is spread over target files and
// import-only files, in either order of the image. The file-group fixture is built for EVERY non-empty set of
// target files (quick: up to three --path values); the import flags come from the derivation model.

func groupFixture() map[string]string {
	return map[string]string{
		// package m (directory m): three files, two of them lead into package n; go_package differs per file
		"m/base.proto": "syntax = \"proto3\";\npackage m;\noption go_package = \"example.com/gen/m;m\";\nmessage Base {}\n",
		"m/t1.proto":   "syntax = \"proto3\";\npackage m;\nimport \"n/b1.proto\";\noption go_package = \"example.com/gen/m1;m1\";\nmessage T1 { n.B1 b1 = 1; }\n",
		"m/z.proto":    "syntax = \"proto3\";\npackage m;\nimport \"n/b2.proto\";\noption go_package = \"example.com/gen/m2;m2\";\nmessage Z { n.B2 b2 = 1; }\n",
		// package n (directories n and c): two files lead back into package m: package cycle m -> n -> m
		"n/b1.proto": "syntax = \"proto3\";\npackage n;\nmessage B1 {}\n",
		"n/b2.proto": "syntax = \"proto3\";\npackage n;\nimport \"m/base.proto\";\nmessage B2 { m.Base base = 1; }\n",
		"c/n3.proto": "syntax = \"proto3\";\npackage n;\nimport \"m/base.proto\";\nmessage N3 { m.Base base = 1; }\n",
		// entry points that pull files of package m in as imports: c sorts before m, p after it
		"c/t2.proto": "syntax = \"proto3\";\npackage c;\nimport \"m/z.proto\";\nmessage T2 { m.Z z = 1; }\n",
		"p/t3.proto": "syntax = \"proto3\";\npackage p;\nimport \"m/t1.proto\";\nmessage T3 { m.T1 t = 1; }\n",
	}
}

var groupRules = []string{"PACKAGE_NO_IMPORT_CYCLE", "PACKAGE_SAME_DIRECTORY", "PACKAGE_SAME_GO_PACKAGE", "DIRECTORY_SAME_PACKAGE", "IMPORT_USED", "PACKAGE_DIRECTORY_MATCH"}

// cycleGroups: the import statements that lead from one package of the cycle into the other, by importing file.
var cycleGroups = map[string][]string{
	"m->n": {"m/t1.proto", "m/z.proto"},
	"n->m": {"n/b2.proto", "c/n3.proto"},
}

func partN(e *env, versions []string) {
	r := e.r
	sources := groupFixture()
	var files []string
	for p := range sources {
		files = append(files, p)
	}
	sort.Strings(files)
	maxTargets := len(files)
	if r.Quick() {
		maxTargets = 3
	}
	var ds []derivation
	for _, sub := range enum.Subsets(len(files), 1, maxTargets) {
		var paths []string
		for _, i := range sub {
			paths = append(paths, files[i])
		}
		ds = append(ds, derivation{Route: "workspace", Paths: paths, Fixture: "groups"})
		if len(paths) == 2 || (!r.Quick() && len(paths) <= 4) {
			// the same targets cut out of the image of the whole module
			ds = append(ds, derivation{Route: "image", Paths: paths, Fixture: "groups"})
		}
	}
	r.Set("file_group_fixture_files", files)
	r.Set("file_group_target_sets", len(ds))
	var useVersions []string
	for _, v := range versions {
		if v != "v1beta1" {
			useVersions = append(useVersions, v)
		}
	}
	r.ParallelFor(len(ds), 0, func(i int) {
		d := ds[i]
		for _, v := range useVersions {
			t := e.tables(v, "lint")
			only := stringSet{}
			var use []string
			for _, id := range groupRules {
				if ri, ok := t.Rules[id]; ok && !ri.Deprecated {
					only[id] = true
					use = append(use, id)
				}
			}
			if !r.Quick() {
				only = nil
			}
			sc, model, ok := e.derivedLintSceneOnly(d, []string{v}, only)
			if !ok {
				return
			}
			e.cnt.add("groups.scenes", 1)
			// which groups are spread over target and import-only files (model flags), and which kind comes first in the image
			order := map[string]int{}
			for k, f := range sc.Image.Files() {
				order[f.Path()] = k
			}
			for name, members := range cycleGroups {
				var present []string
				for _, m := range members {
					if _, in := model[m]; in {
						present = append(present, m)
					}
				}
				if len(present) != 2 || model[present[0]] == model[present[1]] {
					continue
				}
				sort.Slice(present, func(a, b int) bool { return order[present[a]] < order[present[b]] })
				first := "target_first"
				if model[present[0]] {
					first = "import_only_first"
				}
				e.cnt.add("groups.cycle_group_mixed."+first, 1)
				for _, a := range sc.Single[v]["PACKAGE_NO_IMPORT_CYCLE"] {
					if !model[a.Path] && (a.Path == present[0] || a.Path == present[1]) {
						e.cnt.add("groups.cycle_reported_on_target_of_mixed_group."+first, 1)
					}
				}
				_ = name
			}
			for id, anns := range sc.Single[v] {
				if only != nil && len(anns) > 0 {
					e.cnt.add("groups.rule_fired."+id, 1)
				} else if only == nil && len(anns) > 0 && (id == "PACKAGE_NO_IMPORT_CYCLE" || strings.HasPrefix(id, "PACKAGE_SAME_") || id == "DIRECTORY_SAME_PACKAGE") {
					e.cnt.add("groups.rule_fired."+id, 1)
				}
			}
			configs := []cfg{
				{Version: v, Type: "lint", Use: use},
				{Version: v, Type: "lint", Use: []string{use[0]}},
				{Version: v, Type: "lint", Use: use, Ignore: []string{"m/t1.proto"}},
				{Version: v, Type: "lint", Use: use, IgnoreOnly: []kv{{ID: use[0], Paths: []string{"n"}}}},
			}
			if !r.Quick() {
				configs = append(configs, cfg{Version: v, Type: "lint"}, cfg{Version: v, Type: "lint", Use: []string{"MINIMAL"}}, cfg{Version: v, Type: "lint", Except: []string{"PACKAGE_SAME_DIRECTORY"}})
			}
			nImports := 0
			for _, imp := range model {
				if imp {
					nImports++
				}
			}
			for _, c := range configs {
				out := e.judge(sc, c, "N|"+d.name())
				if out.Judged {
					e.cnt.add("groups.cases", 1)
					if nImports > 0 {
						e.cnt.add("groups.cases_with_import_only_files", 1)
					}
				}
			}
		}
	})
	if r.Expired() {
		return
	}
	for _, need := range []string{"groups.scenes", "groups.cases", "groups.cases_with_import_only_files",
		"groups.cycle_group_mixed.target_first", "groups.cycle_group_mixed.import_only_first",
		"groups.cycle_reported_on_target_of_mixed_group.target_first", "groups.cycle_reported_on_target_of_mixed_group.import_only_first",
		"groups.rule_fired.PACKAGE_NO_IMPORT_CYCLE", "groups.rule_fired.PACKAGE_SAME_DIRECTORY", "groups.rule_fired.PACKAGE_SAME_GO_PACKAGE", "groups.rule_fired.DIRECTORY_SAME_PACKAGE"} {
		e.cnt.mu.Lock()
		n := e.cnt.m[need]
		e.cnt.mu.Unlock()
		if n == 0 {
			r.Incomplete("clause never exercised: " + need)
		}
	}
	_ = fmt.Sprint
}
