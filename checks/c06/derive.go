package c06

import (
	"encoding/json"
	"fmt"
	"os"
	"path/filepath"
	"regexp"
	"sort"
	"strings"

	"github.com/bufbuild/buf/private/bufpkg/bufimage"
	imagev1 "github.com/bufbuild/buf/private/gen/proto/go/buf/alpha/image/v1"
	"github.com/bufbuild/bufverif/internal/bufx"
	"google.golang.org/protobuf/proto"
)

// ---------------------------------------------------------------------------------------------
// Part K: how the image was obtained. "Files that are only imports are never reported" is a statement
// about every way an image with import-only files comes into being:
//
//   - a workspace (source input) built with --path and / or --exclude-path,
//   - an already built image (what `buf lint image.binpb` reads) that is filtered afterwards with --path
//     and / or --exclude-path (bufimage.ImageWithOnlyPathsAllowNotExist, as bufctl does), where the input
//     image itself was built with or without import-only files, and is used as built or after a
//     serialisation round trip.
//
// Which files are targets is decided by the reference model below from the path lists and the import
// statements of the fixture sources (never read back from the image); everything else in the derived image
// is an import-only file. The scenes of this part carry the MODEL's import flags, so the import clause and
// the union-minus oracle of judge / singletons speak about what must be import-only, not about what the
// image says.

type derivation struct {
	// Route: "workspace" (paths applied while building from source) or "image" (the image is built from the
	// workspace with BuildPaths / BuildExcludes first and filtered with Paths / Excludes afterwards).
	Route         string   `json:"route"`
	BuildPaths    []string `json:"build_paths,omitempty"`
	BuildExcludes []string `json:"build_excludes,omitempty"`
	Paths         []string `json:"paths,omitempty"`
	Excludes      []string `json:"excludes,omitempty"`
	RoundTrip     bool     `json:"round_trip,omitempty"` // the built image goes through its wire form before it is filtered
	// Fixture: "" = the lint fixture / breaking pair; "groups" = the file-group fixture of part N (packages, directories
	// and a package import cycle spread over several files)
	Fixture string `json:"fixture,omitempty"`
}

func (d derivation) name() string {
	n := d.Route
	if d.Route == "image" {
		n += fmt.Sprintf("(built:path=%v,exclude=%v)", d.BuildPaths, d.BuildExcludes)
		if d.RoundTrip {
			n += "+wire"
		}
	}
	if d.Fixture != "" {
		n = d.Fixture + "/" + n
	}
	return n + fmt.Sprintf(":path=%v,exclude=%v", d.Paths, d.Excludes)
}

// shape: the structural kind of the filter, used in signatures.
func (d derivation) shape() string {
	s := "no-filter"
	switch {
	case len(d.Paths) > 0 && len(d.Excludes) > 0:
		s = "path+exclude-path"
	case len(d.Paths) > 0:
		s = "path-only"
	case len(d.Excludes) > 0:
		s = "exclude-path-only"
	}
	if d.Fixture == "groups" {
		// part N: the reported file belongs to a group of files (package, directory, import edge group) a rule looks at as a whole
		s += "/file-group-spread-over-target-and-import-files"
	}
	return d.Route + "/" + s
}

var importRe = regexp.MustCompile(`(?m)^\s*import\s+(?:public\s+|weak\s+)?"([^"]+)"\s*;`)

// fileSet is the model of an image: path -> import-only.
type fileSet map[string]bool

func importsOf(sources map[string]string) map[string][]string {
	out := map[string][]string{}
	for p, text := range sources {
		for _, m := range importRe.FindAllStringSubmatch(text, -1) {
			out[p] = append(out[p], m[1])
		}
	}
	return out
}

// closure: targets plus everything they import (transitively), restricted to the available files.
func closure(targets []string, available func(string) bool, imports map[string][]string) fileSet {
	out := fileSet{}
	for _, t := range targets {
		out[t] = false
	}
	var visit func(p string)
	visit = func(p string) {
		for _, q := range imports[p] {
			if !available(q) {
				continue
			}
			if _, ok := out[q]; !ok {
				out[q] = true
				visit(q)
			}
		}
	}
	for _, t := range targets {
		visit(t)
	}
	return out
}

// selectTargets: the files under one of paths (all candidates when paths is empty) that are under no exclude.
func selectTargets(candidates []string, paths, excludes []string) []string {
	var out []string
	for _, f := range candidates {
		if len(paths) > 0 && !underAny(f, paths) {
			continue
		}
		if underAny(f, excludes) {
			continue
		}
		out = append(out, f)
	}
	sort.Strings(out)
	return out
}

// modelFiles: the image the derivation must produce for the sources.
func (d derivation) modelFiles(sources map[string]string) fileSet {
	imports := importsOf(sources)
	var all []string
	for p := range sources {
		all = append(all, p)
	}
	sort.Strings(all)
	inSources := func(p string) bool { _, ok := sources[p]; return ok }
	if d.Route == "workspace" {
		return closure(selectTargets(all, d.Paths, d.Excludes), inSources, imports)
	}
	built := closure(selectTargets(all, d.BuildPaths, d.BuildExcludes), inSources, imports)
	inBuilt := func(p string) bool { _, ok := built[p]; return ok }
	var candidates []string
	for p, imp := range built {
		// --path may name any file of the image; without --path only the image's own targets are candidates:
		// an import-only file of the input image stays import-only
		if len(d.Paths) > 0 || !imp {
			candidates = append(candidates, p)
		}
	}
	if len(d.Paths) == 0 && len(d.Excludes) == 0 {
		return built
	}
	return closure(selectTargets(candidates, d.Paths, d.Excludes), inBuilt, imports)
}

func (fs fileSet) key() string {
	var parts []string
	for p, imp := range fs {
		parts = append(parts, fmt.Sprintf("%s=%v", p, imp))
	}
	sort.Strings(parts)
	return strings.Join(parts, ",")
}

func (fs fileSet) flags() map[string]bool {
	out := map[string]bool{}
	for p, imp := range fs {
		out[p] = imp
	}
	return out
}

func wireRoundTrip(image bufimage.Image) (bufimage.Image, error) {
	pi, err := bufimage.ImageToProtoImage(image)
	if err != nil {
		return nil, err
	}
	data, err := proto.Marshal(pi)
	if err != nil {
		return nil, err
	}
	back := &imagev1.Image{}
	if err := proto.Unmarshal(data, back); err != nil {
		return nil, err
	}
	return bufimage.NewImageForProto(back)
}

// derive builds the image of the derivation with buf.
func (e *env) derive(d derivation, sources map[string]string) (bufimage.Image, error) {
	withYAML := map[string]string{"buf.yaml": "version: v2\n"}
	for p, s := range sources {
		withYAML[p] = s
	}
	paths, excludes := d.Paths, d.Excludes
	if d.Route == "image" {
		paths, excludes = d.BuildPaths, d.BuildExcludes
	}
	ws, err := bufx.Workspace(e.ctx, bufx.MemBucket(withYAML), ".", paths, excludes, bufx.NopProviders)
	if err != nil {
		return nil, err
	}
	image, err := bufx.BuildWorkspaceImage(e.ctx, ws)
	if err != nil || d.Route == "workspace" {
		return image, err
	}
	if d.RoundTrip {
		if image, err = wireRoundTrip(image); err != nil {
			return nil, err
		}
	}
	if len(d.Paths) == 0 && len(d.Excludes) == 0 {
		return image, nil
	}
	return bufimage.ImageWithOnlyPathsAllowNotExist(image, d.Paths, d.Excludes)
}

func derivations(kind string, quick bool) []derivation {
	x2 := lintFileA2
	if kind == "breaking" {
		x2 = "a/v1/x2.proto"
	}
	ab := []string{"a", "b"}
	ds := []derivation{
		// source input
		{Route: "workspace", Paths: ab},
		{Route: "workspace", Excludes: []string{"c"}},
		{Route: "workspace", Excludes: []string{"b", "c"}},
		{Route: "workspace", Paths: []string{"a"}},
		{Route: "workspace", Paths: []string{"a"}, Excludes: []string{x2}},
		// image input that contains import-only files
		{Route: "image", BuildPaths: ab},
		{Route: "image", BuildPaths: ab, Excludes: []string{"b"}},
		{Route: "image", BuildPaths: ab, Excludes: []string{x2}},
		{Route: "image", BuildPaths: ab, Excludes: []string{"b"}, RoundTrip: true},
		{Route: "image", BuildExcludes: []string{"c"}, Excludes: []string{"b/v1"}},
		{Route: "image", BuildPaths: ab, Paths: []string{"a"}},
		{Route: "image", BuildPaths: ab, Paths: []string{"a"}, Excludes: []string{x2}},
		{Route: "image", BuildPaths: ab, Paths: []string{"c"}, RoundTrip: true}, // an import-only file of the input named by --path: a target
		// image input without import-only files
		{Route: "image", Excludes: []string{"b"}},
		{Route: "image", Paths: []string{"a"}},
	}
	if !quick {
		ds = append(ds,
			derivation{Route: "workspace"},
			derivation{Route: "workspace", Excludes: []string{x2}},
			derivation{Route: "image", BuildPaths: ab, RoundTrip: true},
			derivation{Route: "image", BuildPaths: ab, Excludes: []string{"c"}}, // excludes only import-only files
			derivation{Route: "image", BuildPaths: ab, Excludes: []string{"a", "c"}},
			derivation{Route: "image", BuildPaths: ab, Excludes: []string{x2}, RoundTrip: true},
			derivation{Route: "image", BuildPaths: []string{"a"}, Excludes: []string{x2}},
			derivation{Route: "image", BuildPaths: ab, Paths: []string{"b"}, Excludes: []string{"b/v1/nothing.proto"}},
			derivation{Route: "image", Excludes: []string{"c"}},
			derivation{Route: "image", Paths: []string{"a", "c"}, Excludes: []string{x2}},
		)
	}
	return ds
}

// derivedScene builds the scene(s) of a derivation. ok is false when the derivation does not apply.
func (e *env) derivedLintScene(d derivation, versions []string) (*scene, fileSet, bool) {
	return e.derivedLintSceneOnly(d, versions, nil)
}

// derivedLintSceneOnly: singletons restricted to the rules in only (nil = all).
func (e *env) derivedLintSceneOnly(d derivation, versions []string, only stringSet) (*scene, fileSet, bool) {
	spans := map[string]span{}
	sources := map[string]string{}
	if d.Fixture == "groups" {
		sources = groupFixture()
	} else {
		for _, f := range lintFixture() {
			sources[f.Path] = f.render(nil, spans)
		}
	}
	model := d.modelFiles(sources)
	image, err := e.derive(d, sources)
	if err != nil {
		e.r.Violate("derivation/lint/error/"+d.shape(), "the image of a derivation cannot be built: "+err.Error(), violationCase{Oracle: "derivation", Derivation: &d, Sources: sources})
		return nil, nil, false
	}
	sc := &scene{Kind: "lint", Image: image, Src: &source{Spans: spans, Imports: model.flags()}, Sources: sources, Derivation: &d}
	if !e.singletons(sc, versions, only) {
		return nil, nil, false
	}
	return sc, model, true
}

func (e *env) derivedBreakingScene(d derivation, versions []string) (*scene, fileSet, bool) {
	old, new := breakingFixture()
	moved, err := locateMoved(old, new)
	if err != nil {
		e.r.Incomplete("breaking fixture: " + err.Error())
		return nil, nil, false
	}
	sources := map[string]string{}
	for p, s := range old {
		sources["old/"+p] = s
	}
	for p, s := range new {
		sources["new/"+p] = s
	}
	modelNew, modelOld := d.modelFiles(new), d.modelFiles(old)
	newImage, err := e.derive(d, new)
	var oldImage bufimage.Image
	if err == nil {
		oldImage, err = e.derive(d, old)
	}
	if err != nil {
		e.r.Violate("derivation/breaking/error/"+d.shape(), "the image of a derivation cannot be built: "+err.Error(), violationCase{Oracle: "derivation", Derivation: &d, Sources: sources})
		return nil, nil, false
	}
	deleted := ""
	if _, ok := modelOld[breakingDeletedFile]; ok {
		deleted = breakingDeletedFile
	}
	sc := &scene{Kind: "breaking", Image: newImage, Against: oldImage, Sources: sources, Derivation: &d,
		Src: &source{Imports: modelNew.flags(), AgainstImports: modelOld.flags(), Moved: moved, DeletedFile: deleted}}
	if !e.singletons(sc, versions, nil) {
		return nil, nil, false
	}
	return sc, modelNew, true
}

func partK(e *env, versions []string) {
	r := e.r
	type job struct {
		kind string
		d    derivation
	}
	var jobs []job
	var names []string
	for _, kind := range []string{"lint", "breaking"} {
		for _, d := range derivations(kind, r.Quick()) {
			jobs = append(jobs, job{kind, d})
			if kind == "lint" {
				names = append(names, d.name())
			}
		}
	}
	r.Set("image_derivations", names)
	type result struct {
		job    job
		group  string
		byCfg  map[string][]string // configuration -> sorted annotation keys
		judged bool
	}
	results := make([]result, len(jobs))
	r.ParallelFor(len(jobs), 0, func(i int) {
		j := jobs[i]
		var sc *scene
		var model fileSet
		var ok bool
		if j.kind == "lint" {
			sc, model, ok = e.derivedLintScene(j.d, versions)
		} else {
			sc, model, ok = e.derivedBreakingScene(j.d, versions)
		}
		if !ok {
			return
		}
		// non-vacuity facts about the derivation itself (model side)
		nImports := 0
		for _, imp := range model {
			if imp {
				nImports++
			}
		}
		where := "derivation." + j.kind + "." + j.d.shape()
		e.cnt.add(where+".scenes", 1)
		if nImports > 0 {
			e.cnt.add(where+".with_import_only_files", 1)
		}
		var configs []cfg
		for _, v := range versions {
			if j.kind == "lint" {
				for _, use := range [][]string{nil, lintPlanted, {"FIELD_LOWER_SNAKE_CASE"}, {"BASIC", "COMMENTS"}} {
					configs = append(configs,
						cfg{Version: v, Type: "lint", Use: use},
						cfg{Version: v, Type: "lint", Use: use, Ignore: []string{lintFileA}},
						cfg{Version: v, Type: "lint", Use: use, IgnoreOnly: []kv{{ID: "FIELD_LOWER_SNAKE_CASE", Paths: []string{"c"}}}})
				}
			} else {
				for _, use := range [][]string{nil, breakingPlanted, {"WIRE"}, {"PACKAGE"}} {
					for _, xi := range []bool{false, true} {
						configs = append(configs, cfg{Version: v, Type: "breaking", Use: use, ExcludeImports: xi})
					}
				}
			}
		}
		res := result{job: j, group: j.kind + "|" + model.key(), byCfg: map[string][]string{}, judged: true}
		for _, c := range configs {
			out := e.judge(sc, c, "K|"+j.d.name())
			e.cnt.add("derivation.cases", 1)
			if !out.Judged {
				res.judged = false
				continue
			}
			res.byCfg[c.key()] = keysOfSet(out.ObsSet)
			// judged: nothing was reported on a file the model calls import-only (c/ violates the planted rules itself, see
			// lint.import_file_had_singleton_candidates of part B and the changes in c/ of the breaking pair)
			if nImports > 0 && (j.kind == "lint" || c.ExcludeImports) {
				e.cnt.add(where+".import_only_files_stay_silent", 1)
			}
		}
		results[i] = res
	})
	if r.Expired() {
		return
	}
	// two derivations with the same files and the same targets (per model) are the same input: same result
	first := map[string]int{}
	for i, res := range results {
		if !res.judged || res.byCfg == nil {
			continue
		}
		k, ok := first[res.group]
		if !ok {
			first[res.group] = i
			continue
		}
		ref := results[k]
		e.cnt.add("derivation.same_targets_pairs", 1)
		var keys []string
		for c := range res.byCfg {
			keys = append(keys, c)
		}
		sort.Strings(keys)
		for _, c := range keys {
			r.Eval(1)
			if strings.Join(res.byCfg[c], "\n") != strings.Join(ref.byCfg[c], "\n") {
				d := res.job.d
				r.Violate("derivation/"+res.job.kind+"/same-files-and-targets-different-result/"+ref.job.d.shape()+"-vs-"+d.shape(),
					"two ways of obtaining an image with the same files and the same target files give different annotations for the same configuration",
					violationCase{Oracle: "derivation", Derivation: &d, Detail: c + " / reference: " + ref.job.d.name(), Expected: ref.byCfg[c], Observed: res.byCfg[c]})
				break
			}
		}
	}
	// second observation point: the CLI reading the built image from a file (`buf lint image.binpb --exclude-path ...`)
	// must report what the API route reported (which judge has already compared with the model)
	for _, res := range results {
		if r.Expired() {
			break
		}
		if d := res.job.d; !res.judged || res.byCfg == nil || d.Route != "image" || len(d.BuildPaths) == 0 || d.RoundTrip || (len(d.Paths) == 0 && len(d.Excludes) == 0) {
			continue
		}
		e.cliDerivation(res.job.kind, res.job.d, res.byCfg)
	}
	// the import-only files must be worth reporting: built as targets they violate selected rules
	for _, kind := range []string{"lint", "breaking"} {
		for _, shape := range []string{"workspace/path-only", "workspace/exclude-path-only", "workspace/path+exclude-path",
			"image/no-filter", "image/exclude-path-only", "image/path-only", "image/path+exclude-path"} {
			for _, need := range []string{".scenes", ".with_import_only_files", ".import_only_files_stay_silent"} {
				name := "derivation." + kind + "." + shape + need
				e.cnt.mu.Lock()
				n := e.cnt.m[name]
				e.cnt.mu.Unlock()
				if n == 0 {
					r.Incomplete("clause never exercised: " + name)
				}
			}
		}
	}
}

type cliAnnotation struct {
	Path        string `json:"path"`
	StartLine   int    `json:"start_line"`
	StartColumn int    `json:"start_column"`
	EndLine     int    `json:"end_line"`
	EndColumn   int    `json:"end_column"`
	Type        string `json:"type"`
	Message     string `json:"message"`
}

// cliDerivation writes the unfiltered built image(s) of an image-route derivation to files and lets the in-process
// CLI lint / break them with the derivation's --path / --exclude-path flags and one configuration.
func (e *env) cliDerivation(kind string, d derivation, api map[string][]string) {
	r := e.r
	dir, err := os.MkdirTemp("", "verif-c06-")
	if err != nil {
		r.Incomplete("cannot create a scratch directory: " + err.Error())
		return
	}
	defer os.RemoveAll(dir)
	unfiltered := derivation{Route: "image", BuildPaths: d.BuildPaths, BuildExcludes: d.BuildExcludes}
	write := func(name string, sources map[string]string) (string, bool) {
		image, err := e.derive(unfiltered, sources)
		var data []byte
		if err == nil {
			var pi *imagev1.Image
			if pi, err = bufimage.ImageToProtoImage(image); err == nil {
				data, err = proto.Marshal(pi)
			}
		}
		path := filepath.Join(dir, name)
		if err == nil {
			err = os.WriteFile(path, data, 0o600)
		}
		if err != nil {
			r.Incomplete("cannot write the image file for the CLI: " + err.Error())
			return "", false
		}
		return path, true
	}
	var c cfg
	var args []string
	if kind == "lint" {
		sources := map[string]string{}
		for _, f := range lintFixture() {
			sources[f.Path] = f.render(nil, map[string]span{})
		}
		img, ok := write("image.binpb", sources)
		if !ok {
			return
		}
		c = cfg{Version: "v2", Type: "lint", Use: lintPlanted}
		args = []string{"lint", img}
	} else {
		old, new := breakingFixture()
		img, ok := write("new.binpb", new)
		if !ok {
			return
		}
		against, ok := write("old.binpb", old)
		if !ok {
			return
		}
		c = cfg{Version: "v2", Type: "breaking", Use: breakingPlanted, ExcludeImports: true}
		args = []string{"breaking", img, "--against", against, "--exclude-imports"}
	}
	want, ok := api[c.key()]
	if !ok {
		r.Incomplete("CLI observation: the configuration is not among the judged configurations of the derivation")
		return
	}
	for _, p := range d.Paths {
		args = append(args, "--path", p)
	}
	for _, x := range d.Excludes {
		args = append(args, "--exclude-path", x)
	}
	args = append(args, "--config", c.yaml(), "--error-format=json")
	r.Eval(1)
	res := bufx.RunCLI(e.ctx, nil, "", args...)
	var got []string
	bad := ""
	for _, line := range strings.Split(strings.TrimSpace(res.Stdout), "\n") {
		if line == "" {
			continue
		}
		var a cliAnnotation
		if err := json.Unmarshal([]byte(line), &a); err != nil {
			bad = line
			break
		}
		got = append(got, annKey(bufx.Annotation{Path: a.Path, StartLine: a.StartLine, StartCol: a.StartColumn, EndLine: a.EndLine, EndCol: a.EndColumn, Type: a.Type, Message: a.Message}))
	}
	sort.Strings(got)
	vc := violationCase{Oracle: "derivation-cli", Config: c, YAML: c.yaml(), Derivation: &d, Expected: want, Observed: got,
		Detail: fmt.Sprintf("buf %s -> exit %d, stderr %q", strings.Join(args[:len(args)-3], " "), res.ExitCode, res.Stderr)}
	if bad != "" || (res.ExitCode != 0 && res.ExitCode != 100) {
		r.Violate("derivation/"+kind+"/cli-error/"+d.shape(), "the CLI could not check the image file with the filter flags", vc)
		return
	}
	if strings.Join(got, "\n") != strings.Join(want, "\n") {
		sig := "derivation/" + kind + "/cli-result-differs-from-api/" + d.shape()
		for _, k := range got {
			p := k[:strings.Index(k, ":")]
			if imp, inModel := d.modelFiles(e.cliSources(kind))[p]; inModel && imp {
				sig = kind + "/import-file-reported/cli/" + d.shape()
			}
		}
		r.Violate(sig, "the CLI reading the image from a file reports other annotations than the API route for the same filter and configuration", vc)
		return
	}
	e.cnt.add("derivation.cli_agrees."+kind, 1)
}

// cliSources: the (new) sources of the fixture of the kind.
func (e *env) cliSources(kind string) map[string]string {
	if kind == "breaking" {
		_, new := breakingFixture()
		return new
	}
	sources := map[string]string{}
	for _, f := range lintFixture() {
		sources[f.Path] = f.render(nil, map[string]span{})
	}
	return sources
}
