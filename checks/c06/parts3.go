package c06

import (
	"fmt"
	"sort"
	"strings"
	"sync"

	"github.com/bufbuild/bufverif/internal/bufx"
)

// ---------------------------------------------------------------------------------------------
// Cross-image oracle ("comment-line"): a buf:lint:ignore comment line is a suppression, so adding one to a
// source file never adds an annotation, and while comment ignores are not allowed it removes nothing
// either. Every variant image of parts C, H and I is compared with its base image: the same sources
// without the directive lines (documentation lines stay). Compared are the singleton results of every
// rule measured on both (comment ignores off), positions mapped through the removed lines.
//
// The in-image oracles (union-minus, mono) cannot see this: the singletons they build the expectation
// from are measured on the image that already contains the comment line.

func isDirectiveText(l string) bool {
	return strings.HasPrefix(strings.TrimSpace(l), commentPrefix)
}

// stripDirectives removes the directive lines from the comments (a comment left without lines is dropped).
func stripDirectives(comments []comment) []comment {
	var out []comment
	for _, c := range comments {
		var lines []string
		for _, l := range c.Lines {
			if !isDirectiveText(l) {
				lines = append(lines, l)
			}
		}
		if len(lines) > 0 {
			out = append(out, comment{Name: c.Name, Lines: lines})
		}
	}
	return out
}

type baseEntry struct {
	once sync.Once
	sc   *scene
	ok   bool
}

type baseCache struct {
	mu sync.Mutex
	m  map[string]*baseEntry
}

var bases = &baseCache{m: map[string]*baseEntry{}}

// baseScene builds (once per distinct text) the scene of the variant's sources without directive lines.
func (e *env) baseScene(comments []comment, versions []string, only stringSet) (*scene, bool) {
	stripped := stripDirectives(comments)
	key := fmt.Sprintf("%q|%v|%v|%p", stripped, versions, only.sorted(), e)
	bases.mu.Lock()
	be := bases.m[key]
	if be == nil {
		be = &baseEntry{}
		bases.m[key] = be
	}
	bases.mu.Unlock()
	be.once.Do(func() { be.sc, be.ok = e.lintScene(stripped, versions, only) })
	return be.sc, be.ok
}

// lineMap maps a 1-based line of the variant text to the line of the text without directive comment lines.
// ok is false when the stripped text is not the base text (harness error).
func lineMap(variant, base string) (func(int) int, bool) {
	lines := strings.Split(variant, "\n")
	removedBefore := make([]int, len(lines)+2) // removedBefore[L] = directive lines with index < L
	var kept []string
	n := 0
	for i, l := range lines {
		removedBefore[i+1] = n
		if t := strings.TrimSpace(l); strings.HasPrefix(t, "//") && isDirectiveText(strings.TrimPrefix(t, "//")) {
			n++
			continue
		}
		kept = append(kept, l)
	}
	removedBefore[len(lines)+1] = n
	f := func(l int) int {
		if l < 1 || l > len(lines)+1 {
			return l
		}
		return l - removedBefore[l]
	}
	return f, strings.Join(kept, "\n") == base
}

// commentRelation: how the element an annotation sits on relates to the nearest comment that carries a directive.
func commentRelation(src *source, comments []comment, path string, line int) string {
	elem, ok := src.element(path, line)
	if !ok {
		return "no-element"
	}
	best := "unrelated"
	rank := map[string]int{"own": 4, "ancestor": 3, "lexical-only": 2, "unrelated": 1, "other-file": 0}
	for _, cm := range comments {
		has := false
		for _, l := range cm.Lines {
			if isDirectiveText(l) {
				has = true
			}
		}
		if !has {
			continue
		}
		if rel := src.relation(elem, cm.Name); rank[rel] > rank[best] {
			best = rel
		}
	}
	return best
}

// crossImage compares the singleton results (comment ignores off) of the variant scene with those of its
// base scene. Returns false when something was reported.
func (e *env) crossImage(v, base *scene, versions []string) bool {
	r := e.r
	maps := map[string]func(int) int{}
	for p, text := range v.Sources {
		f, ok := lineMap(text, base.Sources[p])
		if !ok {
			r.Incomplete("comment-line oracle: the base image of a variant is not the variant without its directive lines (" + p + ")")
			return true
		}
		maps[p] = f
	}
	for _, ver := range versions {
		r.Eval(1)
		e.cnt.add("commentline.pairs", 1)
		ids := make([]string, 0, len(v.Single[ver]))
		for id := range v.Single[ver] {
			if _, ok := base.Single[ver][id]; ok {
				ids = append(ids, id)
			}
		}
		sort.Strings(ids)
		for _, id := range ids {
			got := map[string]bufx.Annotation{}
			for _, a := range v.Single[ver][id] {
				m := a
				if f := maps[a.Path]; f != nil {
					m.StartLine, m.EndLine = f(a.StartLine), f(a.EndLine)
				}
				got[annKey(m)] = a
				if commentRelation(v.Src, v.Src.Comments, a.Path, a.StartLine) == "own" {
					e.cnt.add("commentline.rule_reports_on_commented_element", 1)
				}
			}
			want := annSet(base.Single[ver][id])
			c := cfg{Version: ver, Type: "lint", Use: []string{id}, AllowComments: "off"}
			vc := func(detail string) violationCase {
				return violationCase{Oracle: "comment-line", Config: c, YAML: c.yaml(), Comments: v.Src.Comments, Sources: v.Sources,
					Expected: keysOf(base.Single[ver][id]), Observed: keysOfSet(got), Detail: detail}
			}
			for _, k := range keysOfSet(got) {
				if _, ok := want[k]; !ok {
					a := got[k]
					r.Violate("mono/lint/comment-line/adds-annotation/"+commentRelation(v.Src, v.Src.Comments, a.Path, a.StartLine),
						"adding a buf:lint:ignore comment line to the source added an annotation (not reported on the same source without the line): "+annKey(a), vc(k))
					return false
				}
			}
			for _, k := range keysOfSet(want) {
				if _, ok := got[k]; !ok {
					a := want[k]
					r.Violate("mono/lint/comment-line/removes-although-disallowed/"+commentRelation(base.Src, v.Src.Comments, a.Path, a.StartLine),
						"a buf:lint:ignore comment line removed an annotation although comment ignores are not allowed: "+k, vc(k))
					return false
				}
			}
		}
	}
	return true
}

// ---------------------------------------------------------------------------------------------
// Part H: comment ignores on every kind of statement an annotation can be located on. The (rule, element)
// pairs are derived from the fixture: every rule that reports on the comment-free image, every element one
// of its annotations sits on. For each pair the directive naming the rule is placed on the element itself,
// on each enclosing declaration (descriptor ancestors and the lexically enclosing oneof) and on one
// statement that does not enclose it (a neighbouring file option). Elements include file-level option
// statements (PACKAGE_SAME_*), an option nested in an enum (allow_alias), import and package statements,
// services, rpcs (name, request type, response type locations), oneofs, enum value numbers.

// nodeKinds names the statement kind of every node of the lint fixture.
func nodeKinds() map[string]string {
	out := map[string]string{}
	kindOf := func(n *node, parent string, top bool) string {
		h := n.Header
		switch {
		case strings.HasPrefix(h, "option "):
			if top {
				return "file-option"
			}
			return "nested-option"
		case strings.HasPrefix(h, "import "):
			return "import"
		case strings.HasPrefix(h, "package "):
			return "package"
		case strings.HasPrefix(h, "syntax "):
			return "syntax"
		case strings.HasPrefix(h, "message "):
			return "message"
		case strings.HasPrefix(h, "enum "):
			return "enum"
		case strings.HasPrefix(h, "service "):
			return "service"
		case strings.HasPrefix(h, "rpc "):
			return "rpc"
		case strings.HasPrefix(h, "oneof "):
			return "oneof"
		case parent == "enum":
			return "enum-value"
		}
		return "field"
	}
	var rec func(n *node, parent string, top bool)
	rec = func(n *node, parent string, top bool) {
		k := kindOf(n, parent, top)
		out[n.Name] = k
		for _, c := range n.Children {
			rec(c, k, false)
		}
	}
	for _, f := range lintFixture() {
		for _, n := range f.Pre {
			rec(n, "", true)
		}
		for _, n := range f.Decls {
			rec(n, "", true)
		}
	}
	return out
}

var statementKindsRequired = []string{"file-option", "nested-option", "import", "package", "message", "enum", "enum-value", "field", "oneof", "service", "rpc"}

func partH(e *env, versions []string) {
	r := e.r
	base, ok := e.baseScene(nil, versions, nil)
	if !ok {
		return
	}
	kinds := nodeKinds()
	// (rule, element) pairs of the comment-free image
	elemsOf := map[string]stringSet{}
	for _, v := range versions {
		for id, anns := range base.Single[v] {
			for _, a := range anns {
				if a.StartLine == 1 && a.StartCol == 1 && a.EndLine == 1 && a.EndCol == 1 {
					e.cnt.add("statement.annotation_without_location_skipped", 1)
					continue
				}
				elem, ok := base.Src.element(a.Path, a.StartLine)
				if !ok {
					continue
				}
				if elemsOf[id] == nil {
					elemsOf[id] = stringSet{}
				}
				elemsOf[id][elem] = true
			}
		}
	}
	type variant struct {
		rule, placement, style string
	}
	var variants []variant
	styles := []string{"alone"}
	if !r.Quick() {
		styles = append(styles, "after-doc")
	}
	rules := make([]string, 0, len(elemsOf))
	for id := range elemsOf {
		rules = append(rules, id)
	}
	sort.Strings(rules)
	pairKinds := stringSet{}
	for _, id := range rules {
		placements := stringSet{}
		for elem := range elemsOf[id] {
			pairKinds[kinds[elem]] = true
			placements[elem] = true
			for _, a := range base.Src.Spans[elem].Ancestors {
				placements[a] = true
			}
			for _, a := range base.Src.Spans[elem].LexicalOnly {
				placements[a] = true
			}
		}
		// statements that enclose nothing: a neighbouring file option (and, thorough, the first line of the file)
		outside := []string{"x.opt.java", "x.opt.go"}
		if !r.Quick() {
			outside = append(outside, "x.syntax", "x2.opt.java")
		}
		added := 0
		for _, o := range outside {
			if !placements[o] && (added == 0 || !r.Quick()) {
				placements[o] = true
				added++
			}
		}
		for _, p := range placements.sorted() {
			for _, s := range styles {
				variants = append(variants, variant{id, p, s})
			}
		}
	}
	r.Set("statement_rules", rules)
	r.Set("statement_element_kinds", pairKinds.sorted())
	r.Set("statement_variants", len(variants))
	companions := []string{"ENUM_PASCAL_CASE", "FIELD_LOWER_SNAKE_CASE", "PACKAGE_SAME_JAVA_PACKAGE"}
	allows := []string{"", "on", "off"}
	r.ParallelFor(len(variants), 0, func(i int) {
		vr := variants[i]
		line := commentPrefix + " " + vr.rule
		lines := []string{line}
		if vr.style == "after-doc" {
			lines = []string{"Some documentation.", line}
		}
		comments := []comment{{Name: vr.placement, Lines: lines}}
		only := stringSet{vr.rule: true}
		for _, c := range companions {
			only[c] = true
		}
		sc, ok := e.lintScene(comments, versions, only)
		if !ok {
			return
		}
		vbase := base
		if vr.style != "alone" {
			if vbase, ok = e.baseScene(comments, versions, only); !ok {
				return
			}
		}
		e.crossImage(sc, vbase, versions)
		tag := "H|" + vr.placement + "|" + vr.rule + "|" + vr.style
		for _, v := range versions {
			t := e.tables(v, "lint")
			if ri, ok := t.Rules[vr.rule]; !ok || ri.Deprecated {
				continue
			}
			with := append([]string{vr.rule}, companions...)
			if len(only) == len(companions) {
				with = companions // the rule is one of the companions
			}
			for _, use := range [][]string{{vr.rule}, with} {
				res := map[string]outcome{}
				for _, allow := range allows {
					res[allow] = e.judge(sc, cfg{Version: v, Type: "lint", Use: use, AllowComments: allow}, tag)
				}
				e.cnt.add("statement.cases", 1)
				on, off := res["on"], res["off"]
				if on.ObsSet == nil || off.ObsSet == nil {
					continue
				}
				e.monotone(sc, off, on, "comment", commentScope(sc))
				e.commentCoverage(sc, vr.placement, vr.rule, on, off, res[""], v)
				if !on.Judged || !off.Judged {
					continue
				}
				for k, a := range off.ObsSet {
					if a.Type != vr.rule {
						continue
					}
					elem, ok := sc.Src.element(a.Path, a.StartLine)
					if !ok {
						continue
					}
					_, still := on.ObsSet[k]
					switch rel := sc.Src.relation(elem, vr.placement); {
					case rel == "own" && !still:
						e.cnt.add("statement.own_comment_suppressed."+kinds[elem], 1)
					case rel == "ancestor" && !still:
						e.cnt.add("statement.ancestor_comment_suppressed."+kinds[elem], 1)
					case (rel == "unrelated" || rel == "other-file") && still:
						e.cnt.add("statement.comment_elsewhere_kept."+kinds[elem], 1)
					}
				}
			}
		}
	})
	if r.Expired() {
		return
	}
	for _, k := range statementKindsRequired {
		for _, need := range []string{"statement.own_comment_suppressed." + k, "statement.comment_elsewhere_kept." + k} {
			e.cnt.mu.Lock()
			n := e.cnt.m[need]
			e.cnt.mu.Unlock()
			if n == 0 {
				r.Incomplete("clause never exercised: " + need)
			}
		}
	}
}

// ---------------------------------------------------------------------------------------------
// Part I: documentation x directive interleavings. The leading comment of an element is every sequence (up
// to a length bound) over {D: documentation line, I: buf:lint:ignore line, E: empty comment line} that
// contains a directive; the element is one of every kind that has a COMMENT_* rule (message, field, enum,
// enum value, oneof, field in a oneof, service, rpc). The directive names either the element's own
// COMMENT_* rule or another rule. Judged by union-minus and mono inside the image and by the comment-line
// oracle against the image without the directive lines: whether an element counts as documented must not
// depend on where in the comment (before, after, between the documentation) a directive stands.

var docTargets = []string{"x.inner", "x.inner.field", "x.inner.enum", "x.inner.enum.v0", "x.oneof", "x.oneof.field", "y.service", "y.service.rpc"}

func docShapes(maxLen int) []string {
	var out []string
	var rec func(cur string)
	rec = func(cur string) {
		if len(cur) > 0 && strings.Contains(cur, "I") {
			out = append(out, cur)
		}
		if len(cur) == maxLen {
			return
		}
		for _, c := range "DIE" {
			rec(cur + string(c))
		}
	}
	rec("")
	sort.Slice(out, func(i, j int) bool {
		if len(out[i]) != len(out[j]) {
			return len(out[i]) < len(out[j])
		}
		return out[i] < out[j]
	})
	return out
}

func shapeLines(shape, id string) []string {
	var lines []string
	docs := 0
	for _, c := range shape {
		switch c {
		case 'D':
			docs++
			lines = append(lines, fmt.Sprintf("Documentation line %d.", docs))
		case 'I':
			lines = append(lines, commentPrefix+" "+id)
		case 'E':
			lines = append(lines, "")
		}
	}
	return lines
}

func partI(e *env, versions []string) {
	r := e.r
	const otherID = "ENUM_PASCAL_CASE"
	only := stringSet{otherID: true}
	for _, v := range versions {
		x, _ := e.tables(v, "lint").expand("COMMENTS")
		for id := range x {
			only[id] = true
		}
	}
	plain, ok := e.baseScene(nil, versions, only)
	if !ok {
		return
	}
	// the COMMENT_* rule of every target: the rule of the category that reports on the undocumented element
	commentRule := map[string]string{}
	lastVersion := versions[len(versions)-1]
	commentsCat, _ := e.tables(lastVersion, "lint").expand("COMMENTS")
	for id := range commentsCat {
		for _, a := range plain.Single[lastVersion][id] {
			if elem, ok := plain.Src.element(a.Path, a.StartLine); ok {
				commentRule[elem] = id
			}
		}
	}
	for _, tgt := range docTargets {
		if commentRule[tgt] == "" {
			r.Incomplete("no COMMENT_* rule reports on the undocumented fixture element " + tgt)
			return
		}
	}
	maxLen := 3
	if !r.Quick() {
		maxLen = 4
	}
	shapes := docShapes(maxLen)
	type variant struct {
		shape   string
		idMode  string   // own: every element names its COMMENT_* rule; other: a rule of another category
		targets []string // elements that carry the comment
	}
	var variants []variant
	for _, s := range shapes {
		for _, m := range []string{"own", "other"} {
			variants = append(variants, variant{s, m, docTargets})
			if (r.Quick() && len(s) <= 2) || (!r.Quick() && len(s) <= 3) {
				for _, tgt := range docTargets {
					variants = append(variants, variant{s, m, []string{tgt}})
				}
			}
		}
	}
	r.Set("doc_shapes", shapes)
	targetRules := map[string]string{}
	for _, tgt := range docTargets {
		targetRules[tgt] = commentRule[tgt]
	}
	r.Set("doc_targets", targetRules)
	r.Set("doc_variants", len(variants))
	allows := []string{"", "on", "off"}
	r.ParallelFor(len(variants), 0, func(i int) {
		vr := variants[i]
		var comments []comment
		for _, tgt := range vr.targets {
			id := otherID
			if vr.idMode == "own" {
				id = commentRule[tgt]
			}
			comments = append(comments, comment{Name: tgt, Lines: shapeLines(vr.shape, id)})
		}
		sc, ok := e.lintScene(comments, versions, only)
		if !ok {
			return
		}
		base, ok := e.baseScene(comments, versions, only)
		if !ok {
			return
		}
		agree := e.crossImage(sc, base, versions)
		tag := fmt.Sprintf("I|%s|%s|%d", vr.shape, vr.idMode, len(vr.targets))
		documented := strings.Contains(vr.shape, "D")
		for _, v := range versions {
			// non-vacuity of the shape: the element's COMMENT_* rule reports on it exactly when there is no documentation line
			if agree {
				for _, tgt := range vr.targets {
					fires := false
					for _, a := range sc.Single[v][commentRule[tgt]] {
						if elem, ok := sc.Src.element(a.Path, a.StartLine); ok && elem == tgt {
							fires = true
						}
					}
					switch {
					case documented && !fires:
						e.cnt.add("docshape.documented_element_with_directive_stays_documented", 1)
						if strings.HasSuffix(strings.TrimRight(vr.shape, "E"), "I") {
							e.cnt.add("docshape.directive_is_last_nonempty_line_of_documentation", 1)
						}
					case !documented && fires:
						e.cnt.add("docshape.directive_only_comment_is_not_documentation", 1)
					default:
						e.cnt.add("docshape.unexpected_documentation_status", 1)
					}
				}
			}
			for _, use := range [][]string{{"COMMENTS"}, {"COMMENTS", otherID}} {
				res := map[string]outcome{}
				for _, allow := range allows {
					res[allow] = e.judge(sc, cfg{Version: v, Type: "lint", Use: use, AllowComments: allow}, tag)
				}
				e.cnt.add("docshape.cases", 1)
				if on, off := res["on"], res["off"]; on.ObsSet != nil && off.ObsSet != nil {
					e.monotone(sc, off, on, "comment", commentScope(sc))
					if on.Judged && off.Judged && len(on.ObsSet) < len(off.ObsSet) {
						e.cnt.add("docshape.comment_removed_annotation", 1)
					}
				}
			}
		}
	})
	if r.Expired() {
		return
	}
	for _, need := range []string{"docshape.cases", "docshape.documented_element_with_directive_stays_documented",
		"docshape.directive_is_last_nonempty_line_of_documentation", "docshape.directive_only_comment_is_not_documentation",
		"docshape.comment_removed_annotation", "commentline.pairs", "commentline.rule_reports_on_commented_element"} {
		e.cnt.mu.Lock()
		n := e.cnt.m[need]
		e.cnt.mu.Unlock()
		if n == 0 {
			r.Incomplete("clause never exercised: " + need)
		}
	}
}
