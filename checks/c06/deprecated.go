package c06

import (
	"fmt"
	"sort"
	"strings"

	"github.com/bufbuild/bufverif/internal/bufx"
)

// ---------------------------------------------------------------------------------------------
// Deprecated IDs. "Deprecated IDs behave as their replacements": the replacements are the DOCUMENTED ones
// (doctable.go). Two oracles:
//
//   - table (partADeprecatedTable): what buf itself publishes as the replacements of a deprecated rule or
//     category (Rule.ReplacementIDs, printed by `buf config ls-*-rules`) is the documented list;
//   - behaviour (part L): for EVERY deprecated ID of every version and rule type, in every position an ID
//     can stand in (use, except, ignore_only key), alone and next to other IDs, the annotations are those of
//     the documented replacements (union-minus through judge, whose model expands a deprecated ID with the
//     documented table) on an image pair in which every replacement rule of a deprecated rule fires in two
//     directories, so that a wrong, missing or additional replacement changes the result.

func partADeprecatedTable(e *env) {
	r := e.r
	same := func(a, b []string) bool {
		x, y := append([]string(nil), a...), append([]string(nil), b...)
		sort.Strings(x)
		sort.Strings(y)
		return strings.Join(x, ",") == strings.Join(y, ",")
	}
	for _, v := range allVersions {
		for _, kind := range []string{"lint", "breaking"} {
			t := e.tables(v.Name, kind)
			var ids []string
			for id, ri := range t.Rules {
				if ri.Deprecated {
					ids = append(ids, id)
				}
			}
			if kind == "lint" { // categories are per version, not per type
				for id, ci := range t.Cats {
					if ci.Deprecated {
						ids = append(ids, id)
					}
				}
			}
			sort.Strings(ids)
			for _, id := range ids {
				r.Eval(1)
				var doc, code []string
				undocumented := false
				if ri, ok := t.Rules[id]; ok {
					doc, code, undocumented = ri.Repl, ri.CodeRepl, ri.Undocumented
				} else {
					ci := t.Cats[id]
					doc, code, undocumented = ci.Repl, ci.CodeRepl, ci.Undocumented
				}
				role := "deprecated-rule"
				if _, isCat := t.Cats[id]; isCat {
					role = "deprecated-category"
				}
				if undocumented {
					r.Incomplete("deprecated ID without an entry in the transcribed documentation table (doctable.go): " + kind + "/" + id)
					continue
				}
				c := cfg{Version: v.Name, Type: kind, Use: []string{id}}
				if !same(doc, code) {
					r.Violate("deprecated/"+kind+"/published-replacements-differ-from-documentation/"+role,
						fmt.Sprintf("%s: buf publishes the replacements %v, the documentation says %v", id, code, doc),
						violationCase{Oracle: "deprecated-table", Config: c, YAML: c.yaml(), Expected: doc, Observed: code, Detail: id})
					continue
				}
				e.cnt.add("deprecated_table.checked", 1)
				if len(doc) > 0 {
					e.cnt.add("deprecated_table.with_replacements", 1)
				}
				r.Distinct("DT|" + v.Name + "|" + kind + "|" + id)
			}
		}
	}
}

var extraClausesRequired = []string{
	"deprecated_table.checked", "deprecated_table.with_replacements",
	"deprecated_ann.cases", "deprecated_ann.use_reported_replacement_annotations", "deprecated_ann.except_removed_replacement_annotations",
	"deprecated_ann.ignore_only_removed_replacement_annotations", "deprecated_ann.ignore_only_kept_replacement_annotations_elsewhere",
	"derivation.cases", "derivation.same_targets_pairs", "derivation.cli_agrees.lint", "derivation.cli_agrees.breaking",
}

func partL(e *env) {
	r := e.r
	var versions []string
	for _, v := range allVersions {
		versions = append(versions, v.Name)
	}
	lint, ok := e.lintScene(nil, versions, nil)
	if !ok {
		return
	}
	brk, ok := e.breakingScene(versions)
	if !ok {
		return
	}
	type job struct {
		sc      *scene
		version string
		id      string
	}
	var jobs []job
	listed := map[string][]string{}
	for _, sc := range []*scene{lint, brk} {
		for _, v := range versions {
			t := e.tables(v, sc.Kind)
			var ids []string
			for id, ri := range t.Rules {
				if ri.Deprecated {
					ids = append(ids, id)
				}
			}
			for id, ci := range t.Cats {
				if ci.Deprecated {
					if _, known := t.expand(id); known {
						ids = append(ids, id)
					}
				}
			}
			sort.Strings(ids)
			listed[v+"/"+sc.Kind] = ids
			for _, id := range ids {
				jobs = append(jobs, job{sc, v, id})
			}
		}
	}
	r.Set("deprecated_ids_on_annotations", listed)
	broad := map[string][]string{"lint": {"STANDARD"}, "breaking": {"FILE", "WIRE_JSON", "WIRE"}}
	// a firing rule next to the deprecated ID; the first one that is not itself among the replacements
	companions := map[string][]string{"lint": {"FIELD_LOWER_SNAKE_CASE", "COMMENT_ENUM"}, "breaking": {"FIELD_NO_DELETE", "ENUM_VALUE_NO_DELETE"}}
	r.ParallelFor(len(jobs), 0, func(i int) {
		j := jobs[i]
		sc, kind, d := j.sc, j.sc.Kind, j.id
		t := e.tables(j.version, kind)
		repl, _ := t.expand(d) // documented
		single := sc.Single[j.version]
		role := t.classify(d)
		fires := 0
		for id := range repl {
			if len(single[id]) > 0 {
				fires++
				dirs := stringSet{}
				for _, a := range single[id] {
					dirs[strings.SplitN(a.Path, "/", 2)[0]] = true
				}
				if dirs["a"] && dirs["b"] {
					e.cnt.add("deprecated_ann.replacement_fires_in_both_directories."+kind+"."+d+"."+id, 1)
				}
			}
		}
		if role == "deprecated-rule" && fires < len(repl) {
			r.Incomplete(fmt.Sprintf("a documented replacement of %s does not fire on the %s fixture (%s)", d, kind, j.version))
		}
		xis := []bool{false}
		if kind == "breaking" {
			xis = []bool{false, true}
		}
		replList := repl.sorted()
		comp := ""
		for _, c := range companions[kind] {
			if !repl[c] && comp == "" {
				comp = c
			}
		}
		type variant struct {
			pos  string
			with cfg
			base *cfg // the same configuration without the deprecated ID in a suppression position
		}
		var variants []variant
		mk := func(c cfg) cfg { c.Version, c.Type = j.version, kind; return c }
		variants = append(variants,
			variant{pos: "use", with: mk(cfg{Use: []string{d}})},
			variant{pos: "use", with: mk(cfg{Use: []string{d, comp}})},
		)
		for _, use := range [][]string{nil, broad[kind], append(append([]string{}, replList...), comp)} {
			b := mk(cfg{Use: use})
			variants = append(variants, variant{pos: "except", with: mk(cfg{Use: use, Except: []string{d}}), base: &b})
		}
		for _, p := range []string{"a", "b/v1"} {
			for _, use := range [][]string{nil, {d}, broad[kind]} {
				b := mk(cfg{Use: use})
				variants = append(variants, variant{pos: "ignore_only", with: mk(cfg{Use: use, IgnoreOnly: []kv{{ID: d, Paths: []string{p}}}}), base: &b})
			}
		}
		if len(replList) > 1 {
			variants = append(variants, variant{pos: "use", with: mk(cfg{Use: []string{d}, Except: replList[:1]})})
		}
		b := mk(cfg{Use: broad[kind], Except: []string{comp}})
		variants = append(variants, variant{pos: "ignore_only", with: mk(cfg{Use: broad[kind], Except: []string{comp}, IgnoreOnly: []kv{{ID: d, Paths: []string{"a"}}}}), base: &b})
		tag := "L|" + d
		for _, xi := range xis {
			for _, vr := range variants {
				with := vr.with
				with.ExcludeImports = xi
				out := e.judge(sc, with, tag)
				e.cnt.add("deprecated_ann.cases", 1)
				if !out.Judged {
					continue
				}
				ofRepl := func(set map[string]bufx.Annotation) int {
					n := 0
					for _, a := range set {
						if repl[a.Type] {
							n++
						}
					}
					return n
				}
				if vr.base == nil {
					if ofRepl(out.ObsSet) > 0 {
						e.cnt.add("deprecated_ann.use_reported_replacement_annotations", 1)
						e.cnt.add("deprecated_ann.use_reported_replacement_annotations."+kind+"."+d, 1)
					}
					continue
				}
				base := *vr.base
				base.ExcludeImports = xi
				bout := e.judge(sc, base, tag)
				if !bout.Judged {
					continue
				}
				switch vr.pos {
				case "except":
					e.monotone(sc, bout, out, "except", func(a bufx.Annotation) bool { return repl[a.Type] })
					if ofRepl(bout.ObsSet) > 0 && ofRepl(out.ObsSet) == 0 {
						e.cnt.add("deprecated_ann.except_removed_replacement_annotations", 1)
						e.cnt.add("deprecated_ann.except_removed_replacement_annotations."+kind+"."+d, 1)
					}
				case "ignore_only":
					paths := with.IgnoreOnly[0].Paths
					e.monotone(sc, bout, out, "ignore_only", func(a bufx.Annotation) bool { return repl[a.Type] && sc.Src.annUnderAny(with, a, paths) })
					if n := ofRepl(out.ObsSet); n < ofRepl(bout.ObsSet) {
						e.cnt.add("deprecated_ann.ignore_only_removed_replacement_annotations", 1)
						e.cnt.add("deprecated_ann.ignore_only_removed_replacement_annotations."+kind+"."+d, 1)
						if n > 0 {
							e.cnt.add("deprecated_ann.ignore_only_kept_replacement_annotations_elsewhere", 1)
						}
					}
				}
			}
		}
	})
	if r.Expired() {
		return
	}
	// every deprecated rule with documented replacements must have been exercised non-vacuously in all three positions
	listedKeys := make([]string, 0, len(listed))
	for key := range listed {
		listedKeys = append(listedKeys, key)
	}
	sort.Strings(listedKeys)
	for _, key := range listedKeys {
		ids := listed[key]
		kind := key[strings.Index(key, "/")+1:]
		t := e.tables(key[:strings.Index(key, "/")], kind)
		for _, d := range ids {
			if x, _ := t.expand(d); len(x) == 0 {
				continue
			}
			for _, need := range []string{"use_reported_replacement_annotations", "except_removed_replacement_annotations", "ignore_only_removed_replacement_annotations"} {
				name := "deprecated_ann." + need + "." + kind + "." + d
				e.cnt.mu.Lock()
				n := e.cnt.m[name]
				e.cnt.mu.Unlock()
				if n == 0 {
					r.Incomplete("clause never exercised: " + name)
				}
			}
		}
	}
}
