package c06

// Documented replacements of the deprecated rule and category IDs.
//
// This table is TRANSCRIBED from buf's published documentation, never read from the implementation
// (Rule.ReplacementIDs / Category.ReplacementIDs are the thing under test: "deprecated IDs behave as
// their replacements" is only a statement about buf if "their replacements" has an independent source).
//
// Sources (each entry names its own):
//
//	[CL-1.32] CHANGELOG, v1.32.0 "Update `buf breaking` rules to work with Protobuf Editions. To support
//	          Editions, some rules have been deprecated and replaced with Editions-aware rules":
//	          * `FIELD_SAME_CTYPE` has been replaced with `FIELD_SAME_CPP_STRING_TYPE`
//	          * `FIELD_SAME_LABEL` has been replaced with three rules that all check "cardinality":
//	            `FIELD_SAME_CARDINALITY` (FILE, PACKAGE), `FIELD_WIRE_COMPATIBLE_CARDINALITY` (WIRE),
//	            `FIELD_WIRE_JSON_COMPATIBLE_CARDINALITY` (WIRE_JSON)
//	          * `FILE_SAME_JAVA_STRING_CHECK_UTF8` has been replaced with `FIELD_SAME_JAVA_UTF8_VALIDATION`,
//	            which considers both the `java_string_check_utf8` file option and `(pb.java).utf8_validation`
//	          (same wording on buf.build/docs/breaking/rules under each deprecated rule)
//	[CL-1.40] CHANGELOG, v1.40.0 "Rename `DEFAULT` lint rule category to `STANDARD` ... the `DEFAULT` lint
//	          category continues to work, and always will. We recommend changing to `STANDARD`"
//	[DOC-v1beta1] buf.build/docs/lint/rules, v1beta1 categories: STYLE_DEFAULT is the old name of
//	          STYLE_STANDARD (renamed together with DEFAULT -> STANDARD)
//	[DOC-none] documented as deprecated without a replacement: the rule no longer checks anything
//	          (php_generic_services was removed from descriptor.proto; message_set_wire_format and weak
//	          imports cannot be inspected any more): FILE_SAME_PHP_GENERIC_SERVICES,
//	          MESSAGE_SAME_MESSAGE_SET_WIRE_FORMAT, IMPORT_NO_WEAK
//
// The key is "<lint|breaking|category>/<ID>"; the table holds for every configuration version in which
// the ID exists.
var documentedReplacementTable = map[string][]string{
	"breaking/FIELD_SAME_CTYPE":                     {"FIELD_SAME_CPP_STRING_TYPE"},                                                                            // [CL-1.32]
	"breaking/FIELD_SAME_LABEL":                     {"FIELD_SAME_CARDINALITY", "FIELD_WIRE_COMPATIBLE_CARDINALITY", "FIELD_WIRE_JSON_COMPATIBLE_CARDINALITY"}, // [CL-1.32]
	"breaking/FILE_SAME_JAVA_STRING_CHECK_UTF8":     {"FIELD_SAME_JAVA_UTF8_VALIDATION"},                                                                       // [CL-1.32]
	"breaking/FILE_SAME_PHP_GENERIC_SERVICES":       {},                                                                                                        // [DOC-none]
	"breaking/MESSAGE_SAME_MESSAGE_SET_WIRE_FORMAT": {},                                                                                                        // [DOC-none]
	"lint/IMPORT_NO_WEAK":                           {},                                                                                                        // [DOC-none]
	"category/DEFAULT":                              {"STANDARD"},                                                                                              // [CL-1.40]
	"category/STYLE_DEFAULT":                        {"STYLE_STANDARD"},                                                                                        // [DOC-v1beta1]
}

// documentedReplacements: kind is "lint", "breaking" or "category".
func documentedReplacements(kind, id string) ([]string, bool) {
	r, ok := documentedReplacementTable[kind+"/"+id]
	return r, ok
}
