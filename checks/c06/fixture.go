package c06

import (
	"context"
	"fmt"
	"sort"
	"strings"

	"github.com/bufbuild/buf/private/bufpkg/bufimage"
	"github.com/bufbuild/bufverif/internal/bufx"
)

// node is one declaration of a generated .proto file. The tree mirrors the descriptor tree
// (file -> message -> nested message / enum / field / oneof, enum -> value, service -> rpc), which is
// what "enclosing element" means in the reference model.
type node struct {
	Name     string // unique within the whole fixture; used to address comment placements
	Header   string // "message Outer {" or a leaf line such as "string BadField = 1;"
	Children []*node
	// Sibling marks a node that is rendered lexically inside its parent's braces but is NOT a
	// descriptor child of it for the nodes that follow (oneof: its fields are descriptor children
	// of the message, not of the oneof).
	Oneof bool
}

type protoFile struct {
	Path  string
	Pre   []*node // syntax / package / import statements (leaf nodes, addressable)
	Decls []*node
}

// span is the 1-based line range of a declaration in the rendered text (comment lines excluded).
type span struct {
	Path       string
	Start, End int
	// Ancestors are the names of the descriptor ancestors (nearest first), excluding the node itself.
	Ancestors []string
	// LexicalOnly are names of nodes that lexically enclose this node without being descriptor ancestors.
	LexicalOnly []string
}

// comment is a leading comment placed directly in front of the declaration called Name.
type comment struct {
	Name  string   `json:"on"`
	Lines []string `json:"lines"` // without the leading "// "
}

// render produces the text of a file with the given comments and the span of every named node.
func (f *protoFile) render(comments []comment, spans map[string]span) string {
	byName := map[string][]string{}
	for _, c := range comments {
		byName[c.Name] = append(byName[c.Name], c.Lines...)
	}
	var b strings.Builder
	line := 0
	emit := func(indent int, s string) {
		b.WriteString(strings.Repeat("  ", indent))
		b.WriteString(s)
		b.WriteString("\n")
		line++
	}
	var rec func(n *node, indent int, anc []string, lex []string)
	rec = func(n *node, indent int, anc []string, lex []string) {
		for _, l := range byName[n.Name] {
			emit(indent, "// "+l)
		}
		start := line + 1
		emit(indent, n.Header)
		if strings.HasSuffix(n.Header, "{") {
			childAnc := append([]string{n.Name}, anc...)
			childLex := lex
			if n.Oneof {
				// fields of a oneof are descriptor children of the message
				childAnc = anc
				childLex = append([]string{n.Name}, lex...)
			}
			for _, c := range n.Children {
				rec(c, indent+1, childAnc, childLex)
			}
			emit(indent, "}")
		}
		spans[n.Name] = span{Path: f.Path, Start: start, End: line, Ancestors: append([]string(nil), anc...), LexicalOnly: append([]string(nil), lex...)}
	}
	for i, n := range f.Pre {
		rec(n, 0, nil, nil)
		_ = i
	}
	for _, n := range f.Decls {
		// a blank line keeps a previous declaration's trailing position from capturing the comment
		emit(0, "")
		rec(n, 0, nil, nil)
	}
	return b.String()
}

func leaf(name, text string) *node { return &node{Name: name, Header: text} }
func block(name, header string, children ...*node) *node {
	return &node{Name: name, Header: header, Children: children}
}

// ---------------------------------------------------------------------------------------------
// Lint fixture: two target files in two directories and one file that is only imported.

const (
	lintFileA  = "a/v1/x.proto"
	lintFileA2 = "a/v1/x2.proto"
	lintFileB  = "b/v1/y.proto"
	lintFileC  = "c/v1/z.proto" // import-only
)

func lintFixture() []*protoFile {
	oneof := block("x.oneof", "oneof Choice {",
		leaf("x.oneof.field", "string PickA = 3;"),
	)
	oneof.Oneof = true
	return []*protoFile{
		{
			Path: lintFileA,
			Pre: []*node{
				leaf("x.syntax", `syntax = "proto3";`),
				leaf("x.package", "package a.v1;"),
				leaf("x.import", `import "c/v1/z.proto";`),
				// file-level option statements: annotations of the PACKAGE_SAME_<OPTION> rules are located on them
				// (a/v1/x2.proto is in the same package and disagrees on every one of them)
				leaf("x.opt.go", `option go_package = "example.com/gen/a/v1;av1";`),
				leaf("x.opt.java", `option java_package = "com.example.a.v1";`),
				leaf("x.opt.javamulti", `option java_multiple_files = true;`),
				leaf("x.opt.csharp", `option csharp_namespace = "Example.A.V1";`),
				leaf("x.opt.php", `option php_namespace = "Example\\A\\V1";`),
				leaf("x.opt.ruby", `option ruby_package = "Example::A::V1";`),
				leaf("x.opt.swift", `option swift_prefix = "EAX";`),
			},
			Decls: []*node{
				block("x.outer", "message Outer {",
					block("x.inner", "message inner_bad {",
						leaf("x.inner.field", "string BadField = 1;"),
						block("x.inner.enum", "enum bad_enum {",
							leaf("x.inner.enum.v0", "VAL = 0;"),
							leaf("x.inner.enum.v1", "other_val = 1;"),
						),
						leaf("x.inner.kind", "bad_enum kind = 2;"),
					),
					leaf("x.outer.inner", "inner_bad inner = 1;"),
					leaf("x.outer.zed", "c.v1.Zed zed = 2;"),
					oneof,
				),
			},
		},
		{
			// second file of package a.v1: other values for every file option, an import that is public and unused
			Path: lintFileA2,
			Pre: []*node{
				leaf("x2.syntax", `syntax = "proto3";`),
				leaf("x2.package", "package a.v1;"),
				leaf("x2.import", `import public "c/v1/z.proto";`),
				leaf("x2.opt.go", `option go_package = "example.com/gen/other;other";`),
				leaf("x2.opt.java", `option java_package = "com.example.other";`),
				leaf("x2.opt.javamulti", `option java_multiple_files = false;`),
				leaf("x2.opt.csharp", `option csharp_namespace = "Example.Other";`),
				leaf("x2.opt.php", `option php_namespace = "Example\\Other";`),
				leaf("x2.opt.ruby", `option ruby_package = "Example::Other";`),
				leaf("x2.opt.swift", `option swift_prefix = "EOT";`),
			},
			Decls: []*node{
				block("x2.second", "message Second {",
					leaf("x2.second.field", "string fine = 1;"),
				),
			},
		},
		{
			Path: lintFileB,
			Pre: []*node{
				leaf("y.syntax", `syntax = "proto3";`),
				leaf("y.package", "package b.v2;"), // directory is b/v1
			},
			Decls: []*node{
				block("y.enum", "enum Color {",
					leaf("y.enum.alias", "option allow_alias = true;"), // an option statement nested in a declaration
					leaf("y.enum.v0", "COLOR_UNSPECIFIED = 0;"),
					leaf("y.enum.v1", "RED = 1;"),
					leaf("y.enum.v2", "CRIMSON = 1;"),
				),
				block("y.req", "message Req {",
					leaf("y.req.field", "string OtherBad = 1;"),
				),
				block("y.resp", "message Resp {"),
				block("y.service", "service Api {",
					leaf("y.service.rpc", "rpc get_thing(Req) returns (stream Resp);"),
				),
			},
		},
		{
			Path: lintFileC,
			Pre: []*node{
				leaf("z.syntax", `syntax = "proto3";`),
				leaf("z.package", "package c.v1;"),
			},
			Decls: []*node{
				block("z.zed", "message Zed {",
					leaf("z.zed.field", "string BadZ = 1;"),
					block("z.zed.enum", "enum bad_z {",
						leaf("z.zed.enum.v0", "ZVAL = 0;"),
					),
				),
			},
		},
	}
}

// targets are the --path values that make a/ and b/ target files and leave c/ import-only.
var lintTargets = []string{"a", "b"}

// builtImage is an image plus what the reference model needs to know about its source.
type builtImage struct {
	Image   bufimage.Image
	Spans   map[string]span
	Sources map[string]string
	Imports map[string]bool // path -> IsImport as seen in the image
}

func buildFiles(ctx context.Context, files []*protoFile, comments []comment, targets []string) (*builtImage, error) {
	return buildFilesIn(ctx, "", files, comments, targets)
}

// buildFilesIn puts the module into the sub-directory moduleDir of a v2 workspace ("" = the root).
// Image paths stay module-relative; targets are workspace-relative.
func buildFilesIn(ctx context.Context, moduleDir string, files []*protoFile, comments []comment, targets []string) (*builtImage, error) {
	spans := map[string]span{}
	sources := map[string]string{}
	for _, f := range files {
		sources[f.Path] = f.render(comments, spans)
	}
	for _, c := range comments {
		if _, ok := spans[c.Name]; !ok {
			return nil, fmt.Errorf("comment on unknown node %q", c.Name)
		}
	}
	withYAML := map[string]string{"buf.yaml": "version: v2\n"}
	prefix := ""
	if moduleDir != "" {
		withYAML["buf.yaml"] = "version: v2\nmodules:\n  - path: " + moduleDir + "\n"
		prefix = moduleDir + "/"
	}
	for p, s := range sources {
		withYAML[prefix+p] = s
	}
	ws, err := bufx.Workspace(ctx, bufx.MemBucket(withYAML), ".", targets, nil, bufx.NopProviders)
	if err != nil {
		return nil, err
	}
	image, err := bufx.BuildWorkspaceImage(ctx, ws)
	if err != nil {
		return nil, err
	}
	imports := map[string]bool{}
	for _, f := range image.Files() {
		imports[f.Path()] = f.IsImport()
	}
	return &builtImage{Image: image, Spans: spans, Sources: sources, Imports: imports}, nil
}

// ---------------------------------------------------------------------------------------------
// Breaking fixture: (old, new) with changes in two target files and in the import-only file.

func breakingFixture() (old, new map[string]string) {
	old = map[string]string{
		"a/v1/x.proto": `syntax = "proto3";
package a.v1;
import "c/v1/z.proto";
message Keep {
  string name = 1;
  int32 count = 2;
  string gone = 3;
  repeated string many = 4;
  c.v1.Zed zed = 5;
  string ct = 6 [ctype = CORD];
}
message Dropped {
  string x = 1;
}
enum Kind {
  KIND_UNSPECIFIED = 0;
  KIND_A = 1;
  KIND_B = 2;
}
message Mover {
  string s = 1;
  int32 n = 2;
  string gone2 = 3;
}
message Sib {
  string s = 1;
  int32 k = 2;
  message SibInner {
    string t = 1;
    int32 u = 2;
  }
}
`,
		"b/v1/y.proto": `syntax = "proto3";
package b.v1;
message Req { string id = 1; }
message Req2 { string id = 1; }
message Resp { string id = 1; }
enum Gone { GONE_UNSPECIFIED = 0; }
service Api {
  rpc Get(Req) returns (Resp);
  rpc Del(Req) returns (Resp);
}
message ToImp {
  string s = 1;
  int32 n = 2;
}
service Mv {
  rpc One(Req) returns (Resp);
  rpc Two(Req) returns (Resp);
}
message Card {
  repeated string r = 1;
  string ct = 2 [ctype = CORD];
}
`,
		breakingDeletedFile: `syntax = "proto3";
package b.v1;
message OnlyOld { string s = 1; }
`,
		// Java UTF8 validation of string fields changes in both directories (file option added in a/, removed in b/);
		// the generic utf8 validation of the fields does not change
		// (proto2: without the option Java does not validate; in proto3 it always does)
		"a/v1/j.proto": `syntax = "proto2";
package a.v1;
message JavaA {
  optional string s = 1;
  optional int32 n = 2;
}
`,
		"b/v1/j.proto": `syntax = "proto2";
package b.v1;
option java_string_check_utf8 = true;
message JavaB {
  optional string s = 1;
  optional string t = 2;
}
`,
		"c/v1/z.proto": `syntax = "proto3";
package c.v1;
message Zed {
  string z = 1;
  int32 n = 2;
}
enum ZKind {
  ZKIND_UNSPECIFIED = 0;
  ZKIND_A = 1;
}
enum ZMoved {
  ZMOVED_UNSPECIFIED = 0;
  ZMOVED_A = 1;
}
message ZMsg {
  string s = 1;
  int32 n = 2;
}
`,
	}
	new = map[string]string{
		"a/v1/x.proto": `syntax = "proto3";
package a.v1;
import "c/v1/z.proto";
import "c/v1/bm.proto";
message Keep {
  string renamed = 1;
  string count = 2;
  string many = 4;
  c.v1.Zed zed = 5;
  string ct = 6 [ctype = STRING_PIECE];
  b.v1.ToImp to_imp = 7;
}
enum Kind {
  KIND_UNSPECIFIED = 0;
  KIND_A = 1;
}
`,
		"a/v1/j.proto": `syntax = "proto2";
package a.v1;
option java_string_check_utf8 = true;
message JavaA {
  optional string s = 1;
  optional int32 n = 2;
}
`,
		"b/v1/j.proto": `syntax = "proto2";
package b.v1;
message JavaB {
  optional string s = 1;
  optional string t = 2;
}
`,
		// Sib moved to a sibling file of the same directory
		"a/v1/x2.proto": `syntax = "proto3";
package a.v1;
message Sib {
  string s = 1;
  repeated int32 k = 2;
  message SibInner {
    string t = 1;
  }
}
`,
		// ZMoved and ZMsg moved here from the import-only file c/v1/z.proto
		"a/v1/zm.proto": `syntax = "proto3";
package c.v1;
enum ZMoved {
  ZMOVED_UNSPECIFIED = 0;
}
message ZMsg {
  string s = 1;
}
`,
		// service Mv moved here from b/v1/y.proto
		"a/v1/svc.proto": `syntax = "proto3";
package b.v1;
import "b/v1/y.proto";
service Mv {
  rpc One(Req) returns (Resp);
}
`,
		"b/v1/y.proto": `syntax = "proto3";
package b.v1;
message Req { string id = 1; }
message Req2 { string id = 1; }
message Resp { string id = 1; }
service Api {
  rpc Get(Req2) returns (stream Resp);
}
message Card {
  string r = 1;
  string ct = 2 [ctype = STRING_PIECE];
}
`,
		// Mover moved here from a/v1/x.proto (another directory)
		"b/v1/m.proto": `syntax = "proto3";
package a.v1;
message Mover {
  string s = 1;
  string n = 2;
}
`,
		// ToImp moved from the target file b/v1/y.proto into a file that is only imported
		"c/v1/bm.proto": `syntax = "proto3";
package b.v1;
message ToImp {
  string s = 1;
}
`,
		"c/v1/z.proto": `syntax = "proto3";
package c.v1;
message Zed {
  string z = 1;
}
enum ZKind {
  ZKIND_UNSPECIFIED = 0;
}
`,
	}
	return old, new
}

// breakingDeletedFile exists only in the old image: FILE_NO_DELETE is reported without a current
// location (empty path), its only location is the against file.
const breakingDeletedFile = "b/v1/old.proto"

// movedDecl is a top-level declaration of the breaking fixture whose file differs between the old and
// the new image (same package, same full name): every annotation on it (or on something inside it)
// has its current location in NewPath and its against location in OldPath.
type movedDecl struct {
	Header  string `json:"header"` // first line of the declaration in the new file, e.g. "message Mover {"
	NewPath string `json:"new_path"`
	OldPath string `json:"old_path"`
	// Start, End: 1-based line span in the new file (filled by locateMoved)
	Start int `json:"start"`
	End   int `json:"end"`
}

func breakingMoved() []movedDecl {
	return []movedDecl{
		{Header: "message Mover {", NewPath: "b/v1/m.proto", OldPath: "a/v1/x.proto"},  // target -> target, other directory
		{Header: "message Sib {", NewPath: "a/v1/x2.proto", OldPath: "a/v1/x.proto"},   // target -> target, same directory
		{Header: "enum ZMoved {", NewPath: "a/v1/zm.proto", OldPath: "c/v1/z.proto"},   // import-only -> target
		{Header: "message ZMsg {", NewPath: "a/v1/zm.proto", OldPath: "c/v1/z.proto"},  // import-only -> target
		{Header: "service Mv {", NewPath: "a/v1/svc.proto", OldPath: "b/v1/y.proto"},   // target -> target, other directory
		{Header: "message ToImp {", NewPath: "c/v1/bm.proto", OldPath: "b/v1/y.proto"}, // target -> import-only
	}
}

// locateMoved fills the line spans from the text of the new files (top-level declarations, closing
// brace in column 0) and verifies that the declaration exists in the old file it is said to come from.
func locateMoved(old, new map[string]string) ([]movedDecl, error) {
	moved := breakingMoved()
	for i := range moved {
		m := &moved[i]
		lines := strings.Split(new[m.NewPath], "\n")
		for n, l := range lines {
			if l == m.Header {
				m.Start = n + 1
				for k := n + 1; k < len(lines); k++ {
					if lines[k] == "}" {
						m.End = k + 1
						break
					}
				}
			}
		}
		if m.Start == 0 || m.End == 0 {
			return nil, fmt.Errorf("moved declaration %q not found in new %s", m.Header, m.NewPath)
		}
		if !strings.Contains(old[m.OldPath], "\n"+m.Header+"\n") {
			return nil, fmt.Errorf("moved declaration %q not found in old %s", m.Header, m.OldPath)
		}
		if strings.Contains(new[m.OldPath], "\n"+m.Header+"\n") {
			return nil, fmt.Errorf("moved declaration %q still present in new %s", m.Header, m.OldPath)
		}
	}
	return moved, nil
}

func buildPlain(ctx context.Context, files map[string]string, targets []string) (bufimage.Image, map[string]bool, error) {
	withYAML := map[string]string{"buf.yaml": "version: v2\n"}
	for p, s := range files {
		withYAML[p] = s
	}
	ws, err := bufx.Workspace(ctx, bufx.MemBucket(withYAML), ".", targets, nil, bufx.NopProviders)
	if err != nil {
		return nil, nil, err
	}
	image, err := bufx.BuildWorkspaceImage(ctx, ws)
	if err != nil {
		return nil, nil, err
	}
	imports := map[string]bool{}
	for _, f := range image.Files() {
		imports[f.Path()] = f.IsImport()
	}
	return image, imports, nil
}

func sortedSet(m map[string]bool) []string {
	out := make([]string, 0, len(m))
	for k, v := range m {
		if v {
			out = append(out, k)
		}
	}
	sort.Strings(out)
	return out
}
