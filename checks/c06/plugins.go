package c06

import (
	"context"
	"fmt"
	"sort"
	"strings"
	"sync"

	"buf.build/go/bufplugin/check"
	"buf.build/go/bufplugin/check/checkutil"
	"buf.build/go/bufplugin/descriptor"
	"github.com/bufbuild/buf/private/bufpkg/bufcheck"
	"github.com/bufbuild/buf/private/bufpkg/bufconfig"
	"github.com/bufbuild/buf/private/bufpkg/bufimage"
	"github.com/bufbuild/bufverif/internal/bufx"
	"google.golang.org/protobuf/reflect/protoreflect"
	"pluginrpc.com/pluginrpc"
)

// ---------------------------------------------------------------------------------------------
// Check plugins. Two in-process plugins (served through a RunnerProvider that starts a pluginrpc server
// for the harness' own check.Spec), so that a configuration has up to three check delegates: the built-in
// rules and two plugins. buf splits one request into one request per delegate (multi_client.go) and merges
// the answers; the property does not care: the result is the union over the SELECTED rules, whoever owns
// them. The rule tables of the plugins are the catalogue below (the model never asks buf which rules a
// plugin has).

type pluginRuleInfo struct {
	ID         string
	Type       string // lint | breaking
	Default    bool
	Cats       []string
	Deprecated bool
	Repl       []string
}

type pluginInfo struct {
	Name  string
	Cats  []string
	Rules []pluginRuleInfo
}

const (
	pluginAlpha = "verif-c06-alpha"
	pluginBeta  = "verif-c06-beta"
)

// Every plugin has, per rule type, a default rule and a rule that is not a default; alpha's rules are in a
// category and alpha has a deprecated rule per type; beta's default rules are in no category.
var pluginCatalogue = map[string]pluginInfo{
	pluginAlpha: {Name: pluginAlpha, Cats: []string{"VERIF_ALPHA"}, Rules: []pluginRuleInfo{
		{ID: "VERIF_ALPHA_MESSAGE_SEEN", Type: "lint", Default: true, Cats: []string{"VERIF_ALPHA"}},
		{ID: "VERIF_ALPHA_ENUM_SEEN", Type: "lint", Cats: []string{"VERIF_ALPHA"}},
		{ID: "VERIF_ALPHA_MSG", Type: "lint", Deprecated: true, Repl: []string{"VERIF_ALPHA_MESSAGE_SEEN"}},
		{ID: "VERIF_ALPHA_FILE_MESSAGES_CHANGED", Type: "breaking", Default: true, Cats: []string{"VERIF_ALPHA"}},
		{ID: "VERIF_ALPHA_FILE_ENUMS_CHANGED", Type: "breaking", Cats: []string{"VERIF_ALPHA"}},
		{ID: "VERIF_ALPHA_FILE_CHANGED", Type: "breaking", Deprecated: true, Repl: []string{"VERIF_ALPHA_FILE_MESSAGES_CHANGED", "VERIF_ALPHA_FILE_ENUMS_CHANGED"}},
	}},
	pluginBeta: {Name: pluginBeta, Cats: []string{"VERIF_BETA"}, Rules: []pluginRuleInfo{
		{ID: "VERIF_BETA_FIELD_SEEN", Type: "lint", Default: true},
		{ID: "VERIF_BETA_SERVICE_SEEN", Type: "lint", Cats: []string{"VERIF_BETA"}},
		{ID: "VERIF_BETA_FILE_SERVICES_CHANGED", Type: "breaking", Default: true},
		{ID: "VERIF_BETA_FILE_IMPORTS_CHANGED", Type: "breaking", Cats: []string{"VERIF_BETA"}},
	}},
}

func seen(kind string) func(check.ResponseWriter, protoreflect.Descriptor) {
	return func(w check.ResponseWriter, d protoreflect.Descriptor) {
		w.AddAnnotation(check.WithDescriptor(d), check.WithMessagef("%s %s seen", kind, d.FullName()))
	}
}

// filePair reports every file that exists under the same path in both images (import-only files included, as
// the built-in breaking rules do) and for which count differs; the annotation has a current and an against
// location, both the file itself.
func filePair(what string, count func(protoreflect.FileDescriptor) int) check.RuleHandler {
	return checkutil.NewFilePairRuleHandler(func(_ context.Context, w check.ResponseWriter, _ check.Request, f, against descriptor.FileDescriptor) error {
		now, before := count(f.ProtoreflectFileDescriptor()), count(against.ProtoreflectFileDescriptor())
		if now != before {
			path := f.ProtoreflectFileDescriptor().Path()
			w.AddAnnotation(check.WithFileName(path), check.WithAgainstFileName(against.ProtoreflectFileDescriptor().Path()),
				check.WithMessagef("file %s has %d %s, had %d", path, now, what, before))
		}
		return nil
	})
}

var noop = check.RuleHandlerFunc(func(context.Context, check.ResponseWriter, check.Request) error { return nil })

func pluginHandler(id string) check.RuleHandler {
	switch id {
	case "VERIF_ALPHA_MESSAGE_SEEN":
		s := seen("message")
		return checkutil.NewMessageRuleHandler(func(_ context.Context, w check.ResponseWriter, _ check.Request, d protoreflect.MessageDescriptor) error {
			s(w, d)
			return nil
		}, checkutil.WithoutImports())
	case "VERIF_ALPHA_ENUM_SEEN":
		s := seen("enum")
		return checkutil.NewEnumRuleHandler(func(_ context.Context, w check.ResponseWriter, _ check.Request, d protoreflect.EnumDescriptor) error {
			s(w, d)
			return nil
		}, checkutil.WithoutImports())
	case "VERIF_BETA_FIELD_SEEN":
		s := seen("field")
		return checkutil.NewFieldRuleHandler(func(_ context.Context, w check.ResponseWriter, _ check.Request, d protoreflect.FieldDescriptor) error {
			s(w, d)
			return nil
		}, checkutil.WithoutImports())
	case "VERIF_BETA_SERVICE_SEEN":
		s := seen("service")
		return checkutil.NewServiceRuleHandler(func(_ context.Context, w check.ResponseWriter, _ check.Request, d protoreflect.ServiceDescriptor) error {
			s(w, d)
			return nil
		}, checkutil.WithoutImports())
	case "VERIF_ALPHA_FILE_MESSAGES_CHANGED":
		return filePair("top-level messages", func(f protoreflect.FileDescriptor) int { return f.Messages().Len() })
	case "VERIF_ALPHA_FILE_ENUMS_CHANGED":
		return filePair("top-level enums", func(f protoreflect.FileDescriptor) int { return f.Enums().Len() })
	case "VERIF_BETA_FILE_SERVICES_CHANGED":
		return filePair("services", func(f protoreflect.FileDescriptor) int { return f.Services().Len() })
	case "VERIF_BETA_FILE_IMPORTS_CHANGED":
		return filePair("imports", func(f protoreflect.FileDescriptor) int { return f.Imports().Len() })
	}
	return noop // deprecated rules
}

func pluginSpec(name string) (*check.Spec, error) {
	info, ok := pluginCatalogue[name]
	if !ok {
		return nil, fmt.Errorf("no such harness plugin: %q", name)
	}
	spec := &check.Spec{}
	for _, c := range info.Cats {
		spec.Categories = append(spec.Categories, &check.CategorySpec{ID: c, Purpose: "Harness plugin category " + c + "."})
	}
	for _, r := range info.Rules {
		rt := check.RuleTypeLint
		if r.Type == "breaking" {
			rt = check.RuleTypeBreaking
		}
		spec.Rules = append(spec.Rules, &check.RuleSpec{ID: r.ID, CategoryIDs: r.Cats, Default: r.Default, Purpose: "Harness plugin rule " + r.ID + ".",
			Type: rt, Deprecated: r.Deprecated, ReplacementIDs: r.Repl, Handler: pluginHandler(r.ID)})
	}
	return spec, nil
}

type pluginState struct {
	once   sync.Once
	client bufcheck.Client
	err    error
	mu     sync.Mutex
	tabs   map[string]*tables
}

// pluginClient: a bufcheck.Client whose plugin runners are in-process servers of the harness plugins.
func (e *env) pluginClient() (bufcheck.Client, error) {
	e.plug.once.Do(func() {
		// one server per plugin for the whole run: a new server costs ~100 ms (it compiles its request validators)
		servers := map[string]pluginrpc.Server{}
		for name := range pluginCatalogue {
			spec, err := pluginSpec(name)
			if err == nil {
				servers[name], err = check.NewServer(spec)
			}
			if err != nil {
				e.plug.err = err
				return
			}
		}
		e.plug.client, e.plug.err = bufcheck.NewClient(bufx.Logger, bufcheck.RunnerProviderFunc(func(pc bufconfig.PluginConfig) (pluginrpc.Runner, error) {
			server, ok := servers[pc.Name()]
			if !ok {
				return nil, fmt.Errorf("no such harness plugin: %q", pc.Name())
			}
			return pluginrpc.NewServerRunner(server), nil
		}))
	})
	return e.plug.client, e.plug.err
}

func (e *env) observeWithPlugins(c cfg, y bufconfig.BufYAMLFile, image, against bufimage.Image) observation {
	client, err := e.pluginClient()
	if err != nil {
		return observation{Err: "plugin client: " + err.Error()}
	}
	pcs := y.PluginConfigs()
	if len(pcs) != len(c.Plugins) {
		return observation{ParseErr: fmt.Sprintf("expected %d plugin configs, got %d", len(c.Plugins), len(pcs))}
	}
	mc := y.ModuleConfigs()[0]
	var cerr error
	if c.Type == "lint" {
		cerr = client.Lint(e.ctx, mc.LintConfig(), image, bufcheck.WithPluginConfigs(pcs...))
	} else {
		opts := []bufcheck.BreakingOption{bufcheck.WithPluginConfigs(pcs...)}
		if c.ExcludeImports {
			opts = append(opts, bufcheck.BreakingWithExcludeImports())
		}
		cerr = client.Breaking(e.ctx, mc.BreakingConfig(), image, against, opts...)
	}
	anns, ok := bufx.Annotations(cerr)
	if !ok {
		return observation{Err: cerr.Error()}
	}
	return observation{Anns: anns}
}

// pluginTables extends (or, with disable_builtin, replaces) the tables of a version and rule type by the
// catalogue entries of the plugins.
func (e *env) pluginTables(base *tables, plugins []string, disableBuiltin bool) *tables {
	key := fmt.Sprintf("%s/%s/%s/%v", base.Version, base.Type, strings.Join(plugins, ","), disableBuiltin)
	e.plug.mu.Lock()
	defer e.plug.mu.Unlock()
	if e.plug.tabs == nil {
		e.plug.tabs = map[string]*tables{}
	}
	if t, ok := e.plug.tabs[key]; ok {
		return t
	}
	t := &tables{Version: base.Version, Type: base.Type, Rules: map[string]*ruleInfo{}, Cats: map[string]*catInfo{}, AllIDs: map[string]bool{}}
	if !disableBuiltin {
		for k, v := range base.Rules {
			t.Rules[k] = v
		}
		for k, v := range base.Cats {
			t.Cats[k] = v
		}
		for k := range base.AllIDs {
			t.AllIDs[k] = true
		}
	}
	for _, name := range plugins {
		info := pluginCatalogue[name]
		for _, c := range info.Cats {
			t.Cats[c] = &catInfo{ID: c, Plugin: name}
			t.AllIDs[c] = true
		}
		for _, r := range info.Rules {
			t.AllIDs[r.ID] = true
			if r.Type != base.Type {
				continue
			}
			t.Rules[r.ID] = &ruleInfo{ID: r.ID, Cats: r.Cats, Default: r.Default, Deprecated: r.Deprecated, Repl: r.Repl, CodeRepl: r.Repl, Plugin: name}
		}
	}
	e.plug.tabs[key] = t
	return t
}

// owner: which delegate owns the rule ("builtin" or the plugin name).
func (t *tables) owner(id string) string {
	if r, ok := t.Rules[id]; ok && r.Plugin != "" {
		return r.Plugin
	}
	// a rule of the other rule type (a plugin's lint rule reporting in a breaking run) is not in t.Rules
	for name, info := range pluginCatalogue {
		for _, r := range info.Rules {
			if r.ID == id {
				return name
			}
		}
	}
	return "builtin"
}

// addPluginSingles measures what every (non-deprecated) rule of the harness plugins reports on its own: the
// configuration has this one plugin, disable_builtin, use: [the rule] — a single delegate with a single rule.
func (e *env) addPluginSingles(sc *scene) bool {
	const v = "v2"
	if sc.Single[v] == nil {
		e.r.Incomplete("plugin singletons need the v2 singletons of the scene")
		return false
	}
	names := make([]string, 0, len(pluginCatalogue))
	for n := range pluginCatalogue {
		names = append(names, n)
	}
	sort.Strings(names)
	for _, name := range names {
		for _, ri := range pluginCatalogue[name].Rules {
			if ri.Type != sc.Kind || ri.Deprecated {
				continue
			}
			c := cfg{Version: v, Type: sc.Kind, Use: []string{ri.ID}, Plugins: []string{name}, DisableBuiltin: true}
			if sc.Kind == "lint" {
				c.AllowComments = "off"
			}
			obs := e.observe(c, sc.Image, sc.Against)
			if obs.ParseErr != "" || obs.Err != "" {
				e.r.Violate(sc.Kind+"/singleton/error", "a single known rule cannot be run on its own: "+obs.ParseErr+obs.Err,
					violationCase{Oracle: "judge", Config: c, YAML: c.yaml(), Sources: sc.Sources})
				return false
			}
			for _, a := range obs.Anns {
				if a.Type != ri.ID {
					e.r.Violate(sc.Kind+"/singleton/foreign-annotation", fmt.Sprintf("rule %s alone reported an annotation of type %s", ri.ID, a.Type),
						violationCase{Oracle: "judge", Config: c, YAML: c.yaml(), Sources: sc.Sources, Observed: keysOf(obs.Anns)})
					return false
				}
			}
			if len(obs.Anns) == 0 {
				e.r.Incomplete("plugin rule does not fire on the fixture: " + ri.ID)
			}
			sc.Single[v][ri.ID] = obs.Anns
		}
	}
	return true
}

// ---------------------------------------------------------------------------------------------
// Part J: configurations with check plugins. The dimension that matters is WHICH DELEGATES own the selected
// rules: use / except are chosen so that every non-empty subset of the delegates (built-in, alpha, beta) ends
// up with all of the selected rules, including "a delegate is configured but none of its rules is
// selected" in every position (the built-in delegate, the first plugin, the last plugin), reached through
// `use` (rule, category, deprecated rule of a plugin) and through `except` (use empty, except: the whole
// STANDARD category or the whole plugin category).

type pluginBase struct {
	Name           string
	Plugins        []string
	DisableBuiltin bool
}

func pluginBases(quick bool) []pluginBase {
	b := []pluginBase{
		{"builtin+alpha", []string{pluginAlpha}, false},
		{"builtin+alpha+beta", []string{pluginAlpha, pluginBeta}, false},
		{"builtin+beta+alpha", []string{pluginBeta, pluginAlpha}, false},
		{"alpha+beta", []string{pluginAlpha, pluginBeta}, true},
	}
	if !quick {
		b = append(b, pluginBase{"builtin+beta", []string{pluginBeta}, false}, pluginBase{"beta", []string{pluginBeta}, true})
	}
	return b
}

func (e *env) pluginMenu(kind string, b pluginBase) menu {
	has := func(p string) bool {
		for _, x := range b.Plugins {
			if x == p {
				return true
			}
		}
		return false
	}
	m := menu{UseMax: 2, ExceptMax: 1}
	var builtinRule, builtinCat, builtinAll, alphaIDs, betaIDs []string
	var alphaKey, betaKey string
	if kind == "lint" {
		builtinRule, builtinCat, builtinAll = []string{"ENUM_PASCAL_CASE"}, []string{"MINIMAL"}, []string{"STANDARD"}
		alphaIDs = []string{"VERIF_ALPHA_MESSAGE_SEEN", "VERIF_ALPHA_ENUM_SEEN", "VERIF_ALPHA", "VERIF_ALPHA_MSG"}
		betaIDs = []string{"VERIF_BETA_FIELD_SEEN", "VERIF_BETA_SERVICE_SEEN"}
		alphaKey, betaKey = "VERIF_ALPHA", "VERIF_BETA_FIELD_SEEN"
	} else {
		builtinRule, builtinCat, builtinAll = []string{"FIELD_NO_DELETE"}, []string{"WIRE"}, []string{"FILE"}
		alphaIDs = []string{"VERIF_ALPHA_FILE_MESSAGES_CHANGED", "VERIF_ALPHA_FILE_ENUMS_CHANGED", "VERIF_ALPHA", "VERIF_ALPHA_FILE_CHANGED"}
		betaIDs = []string{"VERIF_BETA_FILE_SERVICES_CHANGED", "VERIF_BETA_FILE_IMPORTS_CHANGED"}
		alphaKey, betaKey = "VERIF_ALPHA", "VERIF_BETA_FILE_SERVICES_CHANGED"
	}
	// the built-in IDs stay in the menu under disable_builtin: there they are unknown IDs and must be rejected
	m.IDs = append(m.IDs, builtinRule...)
	if !b.DisableBuiltin {
		m.IDs = append(m.IDs, builtinCat...)
		m.ExceptIDs = append(m.ExceptIDs, builtinAll...) // use empty + except of every built-in default: only plugin rules stay selected
		m.ExceptIDs = append(m.ExceptIDs, builtinRule...)
	}
	if has(pluginAlpha) {
		m.IDs = append(m.IDs, alphaIDs...)
		m.ExceptIDs = append(m.ExceptIDs, alphaKey)
	}
	if has(pluginBeta) {
		m.IDs = append(m.IDs, betaIDs...)
		m.ExceptIDs = append(m.ExceptIDs, betaKey)
	}
	dir, file := "b", "a/v1/x.proto"
	m.Ignore = [][]string{nil, {dir}}
	m.IgnoreOnly = [][]kv{nil}
	if has(pluginAlpha) {
		m.IgnoreOnly = append(m.IgnoreOnly, []kv{{ID: alphaKey, Paths: []string{file}}})
	}
	if has(pluginBeta) {
		m.IgnoreOnly = append(m.IgnoreOnly, []kv{{ID: betaKey, Paths: []string{dir}}})
	}
	if !b.DisableBuiltin {
		m.IgnoreOnly = append(m.IgnoreOnly, []kv{{ID: builtinCat[0], Paths: []string{"a"}}})
	}
	return m
}

// delegatesOf: the delegates (of the configuration) that own at least one selected rule, e.g. "alpha" when a
// configuration with the built-in rules and two plugins selects rules of alpha only.
func delegatesOf(t *tables, sel stringSet) string {
	owners := stringSet{}
	for id := range sel {
		owners[strings.TrimPrefix(t.owner(id), "verif-c06-")] = true
	}
	return strings.Join(owners.sorted(), "+")
}

var pluginComments = []comment{
	{Name: "x.inner", Lines: []string{"buf:lint:ignore VERIF_ALPHA_MESSAGE_SEEN"}},
	{Name: "y.req", Lines: []string{"buf:lint:ignore VERIF_BETA_FIELD_SEEN"}},
	{Name: "x.inner.enum", Lines: []string{"buf:lint:ignore ENUM_PASCAL_CASE"}},
}

func partJ(e *env) {
	r := e.r
	versions := []string{"v2"} // the plugins key exists in v2 only
	lint, ok := e.lintScene(pluginComments, versions, nil)
	if !ok || !e.addPluginSingles(lint) {
		return
	}
	brk, ok := e.breakingScene(versions)
	if !ok || !e.addPluginSingles(brk) {
		return
	}
	bases := pluginBases(r.Quick())
	var names []string
	for _, b := range bases {
		names = append(names, b.Name)
	}
	r.Set("plugin_delegate_sets", names)
	// selection algebra through ConfiguredRules with plugins: every use subset (<= 2) x except (<= 1) of the menus
	type selJob struct {
		c cfg
	}
	var selJobs []selJob
	for _, b := range bases {
		for _, kind := range []string{"lint", "breaking"} {
			m := e.pluginMenu(kind, b)
			exMenu := stringSet{}
			for _, id := range append(append([]string{}, m.ExceptIDs...), m.IDs...) {
				exMenu[id] = true
			}
			for _, use := range subsetsOf(m.IDs, 2) {
				for _, ex := range subsetsOf(exMenu.sorted(), 1) {
					selJobs = append(selJobs, selJob{cfg{Version: "v2", Type: kind, Use: use, Except: ex, Plugins: b.Plugins, DisableBuiltin: b.DisableBuiltin}})
				}
			}
		}
	}
	r.ParallelFor(len(selJobs), 0, func(i int) {
		c := selJobs[i].c
		t := e.tablesFor(c)
		if _, unknown := t.selection(c.Use, c.Except); len(unknown) > 0 {
			// a built-in ID under disable_builtin: not an ID of any delegate of this configuration
			r.Eval(1)
			if _, err := e.configuredRules(c); err == nil {
				r.Violate("unknown-id/"+c.Type+"/builtin-id-with-disable_builtin/accepted-by-ConfiguredRules", "an ID of the disabled built-in rules was accepted",
					violationCase{Oracle: "unknown", Config: c, YAML: c.yaml(), Detail: strings.Join(unknown, ",")})
				return
			}
			e.cnt.add("plugins.builtin_id_rejected_under_disable_builtin", 1)
			return
		}
		checkSelection(e, t, c)
		e.cnt.add("plugins.select_cases", 1)
	})
	// annotations
	for bi, b := range bases {
		if r.Expired() {
			return
		}
		b := b
		base := cfg{Plugins: b.Plugins, DisableBuiltin: b.DisableBuiltin}
		for _, sc := range []*scene{lint, brk} {
			sc := sc
			tag := fmt.Sprintf("J%d%s", bi, sc.Kind[:1])
			kbase := base
			if sc.Kind == "lint" {
				kbase.AllowComments = "on"
			}
			e.exploreGridOn(sc, versions, func(string) menu { return e.pluginMenu(sc.Kind, b) }, tag, kbase)
		}
	}
}

// pluginCoverage is called by judge for every judged configuration with plugins: which delegates own the
// selected rules, and which configured delegates own none.
func (e *env) pluginCoverage(c cfg, t *tables, sel stringSet, reported int) {
	if len(c.Plugins) == 0 {
		return
	}
	owners := delegatesOf(t, sel)
	e.cnt.add("plugins.cases", 1)
	e.cnt.add("plugins."+c.Type+".selected_rules_owned_by."+owners, 1)
	has := func(o string) bool {
		for _, x := range strings.Split(owners, "+") {
			if x == o {
				return true
			}
		}
		return false
	}
	if !c.DisableBuiltin && !has("builtin") {
		e.cnt.add("plugins."+c.Type+".builtin_delegate_without_selected_rule", 1)
		if len(c.Use) == 0 {
			e.cnt.add("plugins."+c.Type+".builtin_delegate_emptied_by_except", 1)
		}
	}
	for i, p := range c.Plugins {
		if !has(strings.TrimPrefix(p, "verif-c06-")) {
			e.cnt.add(fmt.Sprintf("plugins.%s.plugin_delegate_without_selected_rule.position%d", c.Type, i), 1)
		}
	}
	if reported > 0 && strings.Contains(owners, "+") {
		e.cnt.add("plugins."+c.Type+".union_over_two_or_more_delegates", 1)
	}
}

var pluginClausesRequired = []string{
	"plugins.cases", "plugins.select_cases", "plugins.builtin_id_rejected_under_disable_builtin",
	"plugins.lint.builtin_delegate_without_selected_rule", "plugins.breaking.builtin_delegate_without_selected_rule",
	"plugins.lint.builtin_delegate_emptied_by_except", "plugins.breaking.builtin_delegate_emptied_by_except",
	"plugins.lint.plugin_delegate_without_selected_rule.position0", "plugins.lint.plugin_delegate_without_selected_rule.position1",
	"plugins.breaking.plugin_delegate_without_selected_rule.position0", "plugins.breaking.plugin_delegate_without_selected_rule.position1",
	"plugins.lint.union_over_two_or_more_delegates", "plugins.breaking.union_over_two_or_more_delegates",
	"plugins.lint.selected_rules_owned_by.alpha", "plugins.lint.selected_rules_owned_by.beta", "plugins.lint.selected_rules_owned_by.builtin",
	"plugins.lint.selected_rules_owned_by.alpha+beta+builtin",
}
