package c06

import (
	"fmt"
	"sort"
	"strings"

	"github.com/bufbuild/bufverif/internal/bufx"
)

// ---------------------------------------------------------------------------------------------
// Part F: section shapes. Every subset (quick: size <= 2) of the keys a lint / breaking section can carry
// (use, except, ignore, ignore_only, comment ignores on / off), each key with one fixed value, written
//   - at the top level of a v1beta1 / v1 / v2 buf.yaml with the module at the root,
//   - at the workspace level of a v2 buf.yaml whose module lives in a sub-directory,
//   - under the module entry of that buf.yaml (module-level section),
//   - under the module entry with a different workspace-level section next to it (the module-level section
//     replaces the workspace-level one as a whole; an empty module-level section does not).
//
// A section that consists of exactly one key is the interesting shape: buf decides "is there a
// module-level section at all" by looking at every key.

type sectionKey struct {
	Key   string // use | except | ignore | ignore_only | comments
	Value string // comments: on | off
	Apply func(c *cfg, prefix string)
}

func sectionKeys(kind string) []sectionKey {
	if kind == "lint" {
		return []sectionKey{
			{Key: "use", Apply: func(c *cfg, _ string) {
				c.Use = []string{"ENUM_PASCAL_CASE", "ENUM_VALUE_PREFIX", "FIELD_LOWER_SNAKE_CASE"}
			}},
			{Key: "except", Apply: func(c *cfg, _ string) { c.Except = []string{"FIELD_LOWER_SNAKE_CASE"} }},
			{Key: "ignore", Apply: func(c *cfg, p string) { c.Ignore = []string{p + "b"} }},
			{Key: "ignore_only", Apply: func(c *cfg, p string) {
				c.IgnoreOnly = []kv{{ID: "FIELD_LOWER_SNAKE_CASE", Paths: []string{p + lintFileA}}}
			}},
			{Key: "comments", Value: "on", Apply: func(c *cfg, _ string) { c.AllowComments = "on" }},
			{Key: "comments", Value: "off", Apply: func(c *cfg, _ string) { c.AllowComments = "off" }},
		}
	}
	return []sectionKey{
		{Key: "use", Apply: func(c *cfg, _ string) {
			c.Use = []string{"ENUM_VALUE_NO_DELETE", "FIELD_NO_DELETE", "FIELD_SAME_TYPE"}
		}},
		{Key: "except", Apply: func(c *cfg, _ string) { c.Except = []string{"FIELD_SAME_TYPE"} }},
		{Key: "ignore", Apply: func(c *cfg, p string) { c.Ignore = []string{p + "b"} }},
		{Key: "ignore_only", Apply: func(c *cfg, p string) {
			c.IgnoreOnly = []kv{{ID: "FIELD_NO_DELETE", Paths: []string{p + "a/v1/x.proto"}}}
		}},
	}
}

// sectionSubsets: every set of section keys with distinct Key names, up to max keys.
func sectionSubsets(keys []sectionKey, max int) [][]sectionKey {
	var out [][]sectionKey
	var rec func(i int, cur []sectionKey)
	rec = func(i int, cur []sectionKey) {
		if i == len(keys) {
			out = append(out, append([]sectionKey(nil), cur...))
			return
		}
		rec(i+1, cur)
		if len(cur) < max {
			for _, k := range cur {
				if k.Key == keys[i].Key {
					return
				}
			}
			rec(i+1, append(cur, keys[i]))
		}
	}
	rec(0, nil)
	return out
}

func sectionName(s []sectionKey) string {
	if len(s) == 0 {
		return "(empty)"
	}
	var n []string
	for _, k := range s {
		if k.Value != "" {
			n = append(n, k.Key+"="+k.Value)
		} else {
			n = append(n, k.Key)
		}
	}
	return strings.Join(n, "+")
}

type sectionPlacement struct {
	Name      string // structural name, used in the coverage counters
	Version   string
	ModuleDir string
	PerModule bool
	Decoy     bool
}

// commentScope: the annotation sits on an element that carries, itself or on an enclosing declaration, one
// of the scene's comments naming the annotation's rule.
func commentScope(sc *scene) func(a bufx.Annotation) bool {
	return func(a bufx.Annotation) bool {
		elem, ok := sc.Src.element(a.Path, a.StartLine)
		if !ok {
			return false
		}
		for _, cm := range sc.Src.Comments {
			for _, l := range cm.Lines {
				if commentToken(l) != a.Type {
					continue
				}
				switch sc.Src.relation(elem, cm.Name) {
				case "own", "ancestor", "lexical-only":
					return true
				}
			}
		}
		return false
	}
}

func partF(e *env, versions []string) {
	r := e.r
	const dir = "proto"
	rootLint, ok := e.lintScene(baseLintComments, versions, nil)
	if !ok {
		return
	}
	subLint, ok := e.lintSceneIn(dir, baseLintComments, []string{"v2"}, nil)
	if !ok {
		return
	}
	brk, ok := e.breakingScene(versions)
	if !ok {
		return
	}
	var placements []sectionPlacement
	for _, v := range versions {
		placements = append(placements, sectionPlacement{Name: "root", Version: v})
	}
	placements = append(placements,
		sectionPlacement{Name: "subdir-workspace-level", Version: "v2", ModuleDir: dir},
		sectionPlacement{Name: "subdir-module-level", Version: "v2", ModuleDir: dir, PerModule: true},
		sectionPlacement{Name: "subdir-module-level-over-workspace-level", Version: "v2", ModuleDir: dir, PerModule: true, Decoy: true},
	)
	decoy := map[string][]string{"lint": {"PACKAGE_DIRECTORY_MATCH"}, "breaking": {"RPC_NO_DELETE"}}
	maxKeys := 2
	if !r.Quick() {
		maxKeys = 5
	}
	type job struct {
		kind string
		pl   sectionPlacement
		xi   bool
	}
	var jobs []job
	for _, kind := range []string{"lint", "breaking"} {
		for _, pl := range placements {
			jobs = append(jobs, job{kind, pl, false})
			if kind == "breaking" {
				jobs = append(jobs, job{kind, pl, true})
			}
		}
	}
	r.Set("section_shapes", map[string]any{
		"max_keys_per_section": maxKeys,
		"lint_sections":        len(sectionSubsets(sectionKeys("lint"), maxKeys)),
		"breaking_sections":    len(sectionSubsets(sectionKeys("breaking"), maxKeys)),
		"placements":           len(placements),
	})
	r.ParallelFor(len(jobs), 0, func(i int) {
		j := jobs[i]
		sc := brk
		if j.kind == "lint" {
			sc = rootLint
			if j.pl.ModuleDir != "" {
				sc = subLint
			}
		}
		t := e.tables(j.pl.Version, j.kind)
		prefix := ""
		if j.pl.ModuleDir != "" {
			prefix = j.pl.ModuleDir + "/"
		}
		build := func(s []sectionKey) cfg {
			c := cfg{Version: j.pl.Version, Type: j.kind, ModuleDir: j.pl.ModuleDir, PerModule: j.pl.PerModule, ExcludeImports: j.xi}
			if j.pl.Decoy {
				c.TopUse = decoy[j.kind]
			}
			for _, k := range s {
				k.Apply(&c, prefix)
			}
			return c
		}
		sections := sectionSubsets(sectionKeys(j.kind), maxKeys)
		res := map[string]outcome{}
		for _, s := range sections {
			res[sectionName(s)] = e.judge(sc, build(s), "F|"+j.pl.Name)
			e.cnt.add("sections.cases", 1)
		}
		empty := res["(empty)"]
		where := "sections." + j.kind + "." + j.pl.Name
		for _, s := range sections {
			with := res[sectionName(s)]
			if !with.Judged {
				continue
			}
			// a section of exactly one key must take effect wherever it is written
			if len(s) == 1 && empty.Judged && !j.xi {
				if strings.Join(keysOfSet(with.ObsSet), "\n") != strings.Join(keysOfSet(empty.ObsSet), "\n") {
					e.cnt.add(where+".single-key-effective."+s[0].Key, 1)
				}
			}
			// monotonicity: the section without one of its suppression keys
			for idx, k := range s {
				var rest []sectionKey
				rest = append(rest, s[:idx]...)
				rest = append(rest, s[idx+1:]...)
				if k.Key == "comments" {
					if k.Value != "on" {
						continue
					}
					// canonical order of the subset enumeration: comments last
					for _, o := range sectionKeys(j.kind) {
						if o.Key == "comments" && o.Value == "off" {
							rest = append(rest, o)
						}
					}
				}
				if j.pl.Decoy && (build(rest).sectionEmpty() || with.C.sectionEmpty()) {
					// an empty module-level section means the workspace-level section: a different
					// configuration, not "the same without one suppression"
					continue
				}
				base, ok := res[sectionName(rest)]
				if !ok || !base.Judged {
					continue
				}
				wc := with.C
				switch k.Key {
				case "except":
					removed := stringSet{}
					for _, id := range wc.Except {
						x, _ := t.expand(id)
						for r := range x {
							removed[r] = true
						}
					}
					e.monotone(sc, base, with, "except", func(a bufx.Annotation) bool { return removed[a.Type] })
				case "ignore":
					e.monotone(sc, base, with, "ignore", func(a bufx.Annotation) bool { return sc.Src.annUnderAny(wc, a, wc.Ignore) })
				case "ignore_only":
					ioMap, _ := t.ignoreOnly(wc.IgnoreOnly)
					e.monotone(sc, base, with, "ignore_only", func(a bufx.Annotation) bool { return sc.Src.annUnderAny(wc, a, ioMap[a.Type]) })
				case "comments":
					e.monotone(sc, base, with, "comment", commentScope(sc))
				}
			}
		}
	})
	for _, kind := range []string{"lint", "breaking"} {
		for _, pl := range []string{"root", "subdir-workspace-level", "subdir-module-level", "subdir-module-level-over-workspace-level"} {
			seen := map[string]bool{}
			for _, k := range sectionKeys(kind) {
				name := "sections." + kind + "." + pl + ".single-key-effective." + k.Key
				if seen[name] {
					continue
				}
				seen[name] = true
				e.cnt.mu.Lock()
				n := e.cnt.m[name]
				e.cnt.mu.Unlock()
				if n == 0 && !r.Expired() {
					r.Incomplete("clause never exercised: " + name)
				}
			}
		}
	}
}

func keysOfSet(m map[string]bufx.Annotation) []string {
	out := make([]string, 0, len(m))
	for k := range m {
		out = append(out, k)
	}
	sort.Strings(out)
	return out
}

// ---------------------------------------------------------------------------------------------
// Part G: ignore_only maps whose keys overlap. Two keys that stand for a common rule (rule + category that
// lists it, deprecated rule + one of its replacements, deprecated rule + category of a replacement, two
// categories, deprecated category + replacement category, ...) carry different paths; the rule must be
// suppressed under the union of the paths. buf resolves the map by ranging over Go maps, so the result
// must not depend on the order in which the keys are visited: every configuration is written in both
// document orders, with the two paths both ways round, and run under every map iteration start seed of
// the bound (runtime overlay, see seed_on.go).

func (e *env) overlapKeys(version, kind string) []string {
	t := e.tables(version, kind)
	set := stringSet{}
	planted, cats := lintPlanted, []string{"MINIMAL", "BASIC", "STANDARD", "COMMENTS"}
	if kind == "breaking" {
		planted, cats = breakingPlanted, []string{"FILE", "PACKAGE", "WIRE_JSON", "WIRE"}
	}
	for _, id := range append(append([]string{}, planted...), cats...) {
		if _, ok := t.expand(id); ok {
			set[id] = true
		}
	}
	for id, ri := range t.Rules {
		if ri.Deprecated && len(ri.Repl) > 0 {
			set[id] = true
			for _, x := range ri.Repl {
				set[x] = true
			}
		}
	}
	for id, ci := range t.Cats {
		if ci.Deprecated && len(ci.Repl) > 0 {
			if _, ok := t.expand(id); ok {
				set[id] = true
				for _, x := range ci.Repl {
					if _, ok := t.expand(x); ok {
						set[x] = true
					}
				}
			}
		}
	}
	return set.sorted()
}

func partG(e *env, versions []string) {
	r := e.r
	lint, ok := e.lintScene(nil, versions, nil)
	if !ok {
		return
	}
	brk, ok := e.breakingScene(versions)
	if !ok {
		return
	}
	nSeeds := 8 // every start offset of a map of up to 8 entries (one bucket)
	if !r.Quick() {
		nSeeds = 16 // + both start buckets of a map of 9..13 entries
	}
	if !mapSeedAvailable() {
		r.Incomplete("built without -tags mapseed -overlay overlay/mapseed.json: the map iteration order of part G is random, not enumerated")
	}
	r.Set("overlap_map_iteration_seeds", nSeeds)
	r.Set("overlap_map_seed_controlled", mapSeedAvailable())
	type job struct {
		sc       *scene
		version  string
		k1, k2   string
		use      []string
		expand1  stringSet
		expand2  stringSet
		pairRole string
	}
	var jobs []job
	pairsPer := map[string]int{}
	for _, sc := range []*scene{lint, brk} {
		for _, v := range versions {
			t := e.tables(v, sc.Kind)
			keys := e.overlapKeys(v, sc.Kind)
			for i := 0; i < len(keys); i++ {
				for k := i + 1; k < len(keys); k++ {
					x1, _ := t.expand(keys[i])
					x2, _ := t.expand(keys[k])
					var use []string
					for id := range x1 {
						if x2[id] && len(sc.Single[v][id]) > 0 {
							use = append(use, id)
						}
					}
					if len(use) == 0 {
						continue
					}
					sort.Strings(use)
					role := []string{t.classify(keys[i]), t.classify(keys[k])}
					sort.Strings(role)
					jobs = append(jobs, job{sc, v, keys[i], keys[k], use, x1, x2, strings.Join(role, "+")})
					pairsPer[v+"/"+sc.Kind]++
				}
			}
		}
	}
	r.Set("overlap_key_pairs", pairsPer)
	pathPairs := [][2]string{{"a", "b"}, {"b", "a"}}
	defer func() {
		setMapSeed(0, false)
		e.mapSeed = -1
	}()
	for seed := 0; seed < nSeeds; seed++ {
		if r.Expired() {
			break
		}
		setMapSeed(uint64(seed), true)
		e.mapSeed = seed
		tag := fmt.Sprintf("G|s%d", seed)
		r.ParallelFor(len(jobs), 0, func(i int) {
			j := jobs[i]
			sc := j.sc
			for _, pp := range pathPairs {
				first := kv{ID: j.k1, Paths: []string{pp[0]}}
				second := kv{ID: j.k2, Paths: []string{pp[1]}}
				b1 := e.judge(sc, cfg{Version: j.version, Type: sc.Kind, Use: j.use, IgnoreOnly: []kv{first}}, tag)
				b2 := e.judge(sc, cfg{Version: j.version, Type: sc.Kind, Use: j.use, IgnoreOnly: []kv{second}}, tag)
				for _, order := range [][]kv{{first, second}, {second, first}} {
					c := cfg{Version: j.version, Type: sc.Kind, Use: j.use, IgnoreOnly: order}
					with := e.judge(sc, c, tag)
					e.cnt.add("overlap.cases", 1)
					// adding the second key to a map that has the first one (and vice versa) is adding a suppression
					e.monotone(sc, b1, with, "ignore_only", func(a bufx.Annotation) bool {
						return j.expand2[a.Type] && sc.Src.annUnderAny(c, a, second.Paths)
					})
					e.monotone(sc, b2, with, "ignore_only", func(a bufx.Annotation) bool {
						return j.expand1[a.Type] && sc.Src.annUnderAny(c, a, first.Paths)
					})
					if !with.Judged || !b1.Judged || !b2.Judged {
						continue
					}
					// non-vacuity: each key's path suppresses something the other key's path does not
					if len(with.ObsSet) < len(b1.ObsSet) && len(with.ObsSet) < len(b2.ObsSet) {
						e.cnt.add("overlap.both_paths_needed", 1)
						e.cnt.add("overlap."+sc.Kind+".both_paths_needed."+j.pairRole, 1)
					}
				}
			}
		})
	}
	for _, need := range []string{
		"overlap.both_paths_needed",
		"overlap.lint.both_paths_needed.category+rule",
		"overlap.lint.both_paths_needed.category+category",
		"overlap.lint.both_paths_needed.category+deprecated-category",
		"overlap.breaking.both_paths_needed.category+rule",
		"overlap.breaking.both_paths_needed.deprecated-rule+rule",
		"overlap.breaking.both_paths_needed.category+deprecated-rule",
	} {
		e.cnt.mu.Lock()
		n := e.cnt.m[need]
		e.cnt.mu.Unlock()
		if n == 0 && !r.Expired() {
			r.Incomplete("clause never exercised: " + need)
		}
	}
}
