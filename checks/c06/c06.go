// Package c06 is the check for property C06 (see DESIGN.md section 3).
package c06
