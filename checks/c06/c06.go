// Package c06: rule selection and suppression compose set-theoretically (property C06).
//
// Bounded-exhaustive exploration of configurations (buf.yaml text parsed by buf's own parser, versions
// v1beta1 / v1 / v2) on one lint image and one breaking image pair (two target files in two directories
// plus one import-only file), compared against the reference model refrules (refrules.go):
//
//	result(config) = U_{r in expand(use) \ expand(except)} result({r})
//	                 minus exactly the annotations in an ignore path, in that rule's ignore_only paths,
//	                 on an import-only file (lint; breaking with exclude-imports), or (lint) below a
//	                 leading comment "buf:lint:ignore <that rule>" on the element or a descriptor ancestor.
//
// Parts: A selection algebra through Client.ConfiguredRules over the whole ID universe (+ unknown-ID
// corruptions, category nesting, deprecated == replacement); B lint configurations; C lint comment-ignore
// placements x IDs x allow on/off/default; D breaking configurations x exclude-imports (the image pair
// contains declarations that moved between files, so annotations with two different file locations);
// E module in a sub-directory; F section shapes (which keys a section consists of x where it is written);
// G ignore_only maps with overlapping keys x document order x map iteration seed; H comment ignores on
// every kind of statement an annotation is located on (file options, nested options, imports, rpcs, ...);
// I documentation x directive line interleavings, compared with the image without the directive lines;
// J configurations with check plugins (which delegates own the selected rules); K how the image was obtained
// (source input or built image x --path / --exclude-path: which files are import-only); L every deprecated ID
// in every ID position on annotations, against the documented replacement table (doctable.go).
package c06

import (
	"context"
	"encoding/json"
	"fmt"
	"os"
	"sort"
	"strings"
	"sync"
	"sync/atomic"
	"time"

	"github.com/bufbuild/buf/private/bufpkg/bufcheck"
	"github.com/bufbuild/buf/private/bufpkg/bufconfig"
	"github.com/bufbuild/buf/private/bufpkg/bufimage"
	"github.com/bufbuild/bufverif/internal/bufx"
	"github.com/bufbuild/bufverif/internal/enum"
	"github.com/bufbuild/bufverif/internal/evid"
)

func init() {
	evid.RegisterReplay("C06", replay)
	evid.Register(&evid.Check{ID: "C06", Level: "exploration", Run: run, QuickBudget: 300 * time.Second, ThoroughBudget: 20 * time.Minute})
}

type versionInfo struct {
	Name string
	FV   bufconfig.FileVersion
}

var allVersions = []versionInfo{
	{"v1beta1", bufconfig.FileVersionV1Beta1},
	{"v1", bufconfig.FileVersionV1},
	{"v2", bufconfig.FileVersionV2},
}

// counters are the per-clause non-vacuity facts.
type counters struct {
	mu sync.Mutex
	m  map[string]int64
}

func (c *counters) add(k string, n int64) {
	c.mu.Lock()
	c.m[k] += n
	c.mu.Unlock()
}

type env struct {
	r      *evid.Run
	ctx    context.Context
	client bufcheck.Client
	tab    map[string]*tables // version + "/" + kind
	cnt    *counters
	caseNo atomic.Int64
	plug   pluginState
	// mapSeed >= 0: the process-wide map iteration seed in force (part G); written only between parallel loops.
	mapSeed int
}

func (e *env) mapSeedPtr() *int {
	if e.mapSeed < 0 {
		return nil
	}
	s := e.mapSeed
	return &s
}

func (e *env) tables(version, kind string) *tables { return e.tab[version+"/"+kind] }

// tablesFor: the tables of the configuration's version and type, extended by the rules and categories of
// its check plugins (taken from the harness' own plugin catalogue) and, with disable_builtin, without the
// built-in ones.
func (e *env) tablesFor(c cfg) *tables {
	t := e.tables(c.Version, c.Type)
	if len(c.Plugins) == 0 && !c.DisableBuiltin {
		return t
	}
	return e.pluginTables(t, c.Plugins, c.DisableBuiltin)
}

// observation of one configuration on the implementation.
type observation struct {
	ParseErr string
	Err      string // non-annotation error from Lint / Breaking
	Anns     []bufx.Annotation
}

func (e *env) parse(c cfg) (bufconfig.BufYAMLFile, error) {
	return bufx.ReadBufYAML(c.yaml())
}

func (e *env) observe(c cfg, image, against bufimage.Image) observation {
	y, err := e.parse(c)
	if err != nil {
		return observation{ParseErr: err.Error()}
	}
	mcs := y.ModuleConfigs()
	if len(c.Modules) > 0 {
		// a workspace of several modules: the configuration is judged for the module in ModuleDir
		// (ModuleConfigs() is sorted by directory, not in document order: pick by DirPath)
		var mine []bufconfig.ModuleConfig
		for _, mc := range mcs {
			if mc.DirPath() == c.ModuleDir {
				mine = append(mine, mc)
			}
		}
		if len(mcs) != len(c.Modules) || len(mine) != 1 {
			return observation{ParseErr: fmt.Sprintf("expected %d module configs and one for %s, got %d and %d", len(c.Modules), c.ModuleDir, len(mcs), len(mine))}
		}
		mcs = mine
	}
	if len(mcs) != 1 {
		return observation{ParseErr: fmt.Sprintf("expected one module config, got %d", len(mcs))}
	}
	var anns []bufx.Annotation
	if len(c.Plugins) > 0 {
		// check plugins: the plugin configurations are the ones buf parsed from the `plugins:` key
		return e.observeWithPlugins(c, y, image, against)
	}
	if c.Type == "lint" {
		anns, err = bufx.Lint(e.ctx, mcs[0].LintConfig(), image)
	} else {
		var opts []bufcheck.BreakingOption
		if c.ExcludeImports {
			opts = append(opts, bufcheck.BreakingWithExcludeImports())
		}
		anns, err = bufx.Breaking(e.ctx, mcs[0].BreakingConfig(), image, against, opts...)
	}
	if err != nil {
		return observation{Err: err.Error()}
	}
	return observation{Anns: anns}
}

func (e *env) configuredRules(c cfg) ([]string, error) {
	y, err := e.parse(c)
	if err != nil {
		return nil, fmt.Errorf("parse: %w", err)
	}
	mc := y.ModuleConfigs()[0]
	var cc bufconfig.CheckConfig = mc.LintConfig()
	if c.Type == "breaking" {
		cc = mc.BreakingConfig()
	}
	var rules []bufcheck.Rule
	if len(c.Plugins) > 0 {
		pc, perr := e.pluginClient()
		if perr != nil {
			return nil, perr
		}
		rules, err = pc.ConfiguredRules(e.ctx, ruleTypeOf(c.Type), cc, bufcheck.WithPluginConfigs(y.PluginConfigs()...))
	} else {
		rules, err = e.client.ConfiguredRules(e.ctx, ruleTypeOf(c.Type), cc)
	}
	if err != nil {
		return nil, err
	}
	ids := make([]string, 0, len(rules))
	for _, r := range rules {
		ids = append(ids, r.ID())
	}
	sort.Strings(ids)
	return ids, nil
}

// replay re-evaluates one recorded case on the current tree (used by `verif replay <file>`).
func replay(raw json.RawMessage) (string, bool) {
	var vc violationCase
	if err := json.Unmarshal(raw, &vc); err != nil {
		return "cannot decode the case: " + err.Error(), false
	}
	r := evid.NewRun("C06", "quick", "exploration", 5*time.Minute)
	ctx := context.Background()
	client, err := bufx.CheckClient()
	if err != nil {
		return err.Error(), false
	}
	e := &env{r: r, ctx: ctx, client: client, tab: map[string]*tables{}, cnt: &counters{m: map[string]int64{}}, mapSeed: -1}
	for _, v := range allVersions {
		for _, kind := range []string{"lint", "breaking"} {
			t, err := loadTables(ctx, client, v.Name, v.FV, kind)
			if err != nil {
				return err.Error(), false
			}
			e.tab[v.Name+"/"+kind] = t
		}
	}
	c := vc.Config
	switch vc.Oracle {
	case "select":
		checkSelection(e, e.tables(c.Version, c.Type), c)
	case "unknown":
		if _, err := e.configuredRules(c); err == nil {
			return "corrupted ID still accepted: " + vc.Detail, true
		}
		return "corrupted ID rejected: " + vc.Detail, false
	case "nesting":
		partANesting(e)
	case "deprecated":
		partADeprecated(e)
	case "deprecated-table":
		partADeprecatedTable(e)
	case "comment-line":
		only := stringSet{}
		for _, id := range c.Use {
			only[id] = true
		}
		sc, ok := e.lintScene(vc.Comments, []string{c.Version}, only)
		base, ok2 := e.baseScene(vc.Comments, []string{c.Version}, only)
		if !ok || !ok2 {
			return "fixture does not build", false
		}
		e.crossImage(sc, base, []string{c.Version})
	default: // judge, mono: the union-minus oracle on the recorded configuration and comment variant
		if vc.MapSeed != nil {
			setMapSeed(uint64(*vc.MapSeed), true)
			e.mapSeed = *vc.MapSeed
			defer setMapSeed(0, false)
		}
		var sc *scene
		if vc.Derivation != nil {
			var ok bool
			if c.Type == "lint" {
				sc, _, ok = e.derivedLintScene(*vc.Derivation, []string{c.Version})
			} else {
				sc, _, ok = e.derivedBreakingScene(*vc.Derivation, []string{c.Version})
			}
			if !ok {
				return "the derived image does not build or a rule on its own reports an import-only file", r.ViolationCount() > 0
			}
		} else if c.Type == "lint" {
			var ok bool
			if c.ModuleDir != "" && len(c.Modules) == 0 {
				sc, ok = e.lintSceneIn(c.ModuleDir, vc.Comments, []string{c.Version}, nil)
			} else {
				sc, ok = e.lintScene(vc.Comments, []string{c.Version}, nil)
			}
			if !ok {
				return "fixture does not build", r.ViolationCount() > 0
			}
		} else {
			var ok bool
			sc, ok = e.breakingScene([]string{c.Version})
			if !ok {
				return "fixture does not build", r.ViolationCount() > 0
			}
		}
		if len(c.Plugins) > 0 && !e.addPluginSingles(sc) {
			return "a plugin rule cannot be run on its own", r.ViolationCount() > 0
		}
		e.judge(sc, c, "R")
	}
	if r.ViolationCount() > 0 {
		return "the recorded configuration still disagrees with the reference model", true
	}
	return "configuration agrees with the reference model", false
}

// violationCase is what a replay needs.
type violationCase struct {
	Oracle   string            `json:"oracle"` // select | unknown | nesting | deprecated | judge | mono | comment-line
	Config   cfg               `json:"config"`
	YAML     string            `json:"buf_yaml"`
	Comments []comment         `json:"comments,omitempty"`
	Sources  map[string]string `json:"sources,omitempty"`
	Expected []string          `json:"expected,omitempty"`
	Observed []string          `json:"observed,omitempty"`
	Detail   string            `json:"detail,omitempty"`
	MapSeed  *int              `json:"map_iteration_seed,omitempty"` // part G: runtime map iteration seed of the case
	// part K: how the image(s) of the case were obtained (nil: workspace built with --path a --path b)
	Derivation *derivation `json:"image_derivation,omitempty"`
}

func keysOf(as []bufx.Annotation) []string {
	out := make([]string, 0, len(as))
	for _, a := range as {
		out = append(out, annKey(a))
	}
	sort.Strings(out)
	return out
}

func roles(t *tables, ids []string) string {
	if len(ids) == 0 {
		return "none"
	}
	rs := make([]string, 0, len(ids))
	for _, id := range ids {
		rs = append(rs, t.classify(id))
	}
	sort.Strings(rs)
	return strings.Join(rs, "+")
}

func run(r *evid.Run) {
	r.Rule("every configuration of the stated menus (use: subsets up to the size bound; except; ignore; ignore_only; " +
		"comment placement x comment ID x allow on/off/default; exclude-imports; versions) is rendered to buf.yaml text, parsed by buf and run " +
		"on the fixture image(s); a case is distinct non-trivial when its normalised configuration (+ comment variant) is new and the model " +
		"selects at least one rule that reports or has a suppressed annotation")
	r.Assume("a breaking annotation has a current and/or an against (previous) file location; ignore, ignore_only and exclude-imports apply when either file matches " +
		"(the behaviour of the pinned tree, taken as the meaning of 'suppressed by ignore'); which old file a moved declaration comes from is fixture knowledge")
	r.Assume("v2: a module-level lint/breaking section with at least one key replaces the workspace-level section as a whole, one without keys leaves it in force; " +
		"`disallow_comment_ignores: false` spells out the default and does not count as a key")
	r.Assume("one module at '.' or in one sub-directory; ignore_unstable_packages off; " +
		"rule/category tables of the built-in rules (categories, default flag, deprecation flag) are taken from Client.AllRules/AllCategories and are not themselves checked against documentation, except MINIMAL<=BASIC<=STANDARD (checked on observed results); " +
		"the REPLACEMENTS of a deprecated ID are not taken from buf: they are the documented ones (doctable.go, transcribed from the changelog / rule documentation), and what buf publishes as replacements is judged against them")
	r.Assume("check plugins (part J): two in-process plugins whose rule tables are the harness' own catalogue; with plugins configured an empty `use` selects the default rules of every check delegate " +
		"(the built-in rules unless disable_builtin, and every plugin); with disable_builtin the built-in IDs are unknown IDs; the plugins' lint rules skip import-only files themselves " +
		"(buf applies no import filter of its own to lint annotations, so a plugin rule that reports on an import-only file is passed through: observed, not judged)")
	r.Assume("image derivations (part K): which files of a derived image are targets follows from the path lists alone: source input = files under a --path (all without --path) and under no --exclude-path; " +
		"filtering a built image = with --path the files of the image under a --path and under no --exclude-path, with --exclude-path alone the image's own non-import files under no --exclude-path; every other file of the result is import-only; " +
		"path lists are not nested in each other except one excluded file below an included directory")
	r.Assume("an empty selection (e.g. use: [X], except: [X], or only a deprecated rule without replacement) is outside the property: buf answers with a system error 'resultRules was empty'; counted, not judged")
	r.Assume("a comment ignore on a oneof is not on a descriptor ancestor of the oneof's fields; whether it suppresses field rules is counted as unspecified")

	ctx := context.Background()
	client, err := bufx.CheckClient()
	if err != nil {
		r.Incomplete("cannot create check client: " + err.Error())
		return
	}
	e := &env{r: r, ctx: ctx, client: client, tab: map[string]*tables{}, cnt: &counters{m: map[string]int64{}}, mapSeed: -1}
	for _, v := range allVersions {
		for _, kind := range []string{"lint", "breaking"} {
			t, err := loadTables(ctx, client, v.Name, v.FV, kind)
			if err != nil {
				r.Incomplete("cannot load rule tables: " + err.Error())
				return
			}
			e.tab[v.Name+"/"+kind] = t
		}
	}
	imageVersions := allVersions
	if r.Quick() {
		imageVersions = allVersions[1:] // v1, v2 for the image-based parts; part A covers all three
	}
	var vnames []string
	for _, v := range imageVersions {
		vnames = append(vnames, v.Name)
	}
	r.Set("versions_selection_algebra", []string{"v1beta1", "v1", "v2"})
	r.Set("versions_image_parts", vnames)

	partWall := map[string]float64{}
	for _, p := range []struct {
		name string
		f    func()
	}{
		{"C_comment_ignores", func() { partC(e, vnames) }},
		{"H_comment_ignores_on_statements", func() { partH(e, vnames) }},
		{"I_documentation_and_directive_lines", func() { partI(e, vnames) }},
		{"E_subdir_module", func() { partE(e) }},
		{"F_section_shapes", func() { partF(e, vnames) }},
		{"G_overlapping_ignore_only_keys", func() { partG(e, vnames) }},
		{"J_check_plugins", func() { partJ(e) }},
		{"K_image_derivations", func() { partK(e, vnames) }},
		{"L_deprecated_ids_on_annotations", func() { partL(e) }},
		{"M_multi_module_workspaces", func() { partM(e) }},
		{"N_file_groups_over_target_sets", func() { partN(e, vnames) }},
		{"A_selection", func() { partA(e) }},
		{"D_breaking_grid", func() { partD(e, vnames) }},
		{"B_lint_grid", func() { partB(e, vnames) }},
	} {
		if only := os.Getenv("VERIF_C06_PARTS"); only != "" && !strings.Contains(only, p.name[:1]) {
			r.Incomplete("part " + p.name + " skipped by VERIF_C06_PARTS")
			continue
		}
		t0 := time.Now()
		before := r.Evaluations()
		p.f()
		partWall[p.name] = time.Since(t0).Seconds()
		r.Set("evaluations_"+p.name, r.Evaluations()-before)
	}
	r.Set("part_wall_s", partWall)

	// non-vacuity: every clause must have been exercised
	e.cnt.mu.Lock()
	defer e.cnt.mu.Unlock()
	keys := make([]string, 0, len(e.cnt.m))
	for k := range e.cnt.m {
		keys = append(keys, k)
	}
	sort.Strings(keys)
	clauses := map[string]int64{}
	for _, k := range keys {
		clauses[k] = e.cnt.m[k]
	}
	r.Set("clause_counts", clauses)
	for _, need := range append(append(append([]string{}, requiredClauses...), pluginClausesRequired...), extraClausesRequired...) {
		if e.cnt.m[need] == 0 {
			r.Incomplete("clause never exercised: " + need)
		}
	}
}

var requiredClauses = []string{
	"select.cases", "select.use_category", "select.use_deprecated_rule", "select.use_deprecated_category", "select.except_removed_rule",
	"select.default_rules_used", "unknown.rejected", "unknown.other_type_id_rejected_use", "unknown.other_type_id_rejected_except",
	"unknown.other_type_id_rejected_ignore_only", "nesting.checked", "deprecated_equiv.checked",
	"lint.cases", "lint.except_removed_annotation", "lint.ignore_removed_annotation", "lint.ignore_only_removed_annotation",
	"lint.comment_removed_annotation", "lint.import_file_had_singleton_candidates", "lint.union_of_two_or_more_rules",
	"comment.own_suppressed", "comment.ancestor_suppressed", "comment.unrelated_not_suppressed", "comment.disallowed_not_suppressed",
	"comment.other_id_not_suppressed", "comment.prefix_related_id_cases",
	"breaking.cases", "breaking.except_removed_annotation", "breaking.ignore_removed_annotation", "breaking.ignore_only_removed_annotation",
	"breaking.exclude_imports_removed_annotation", "breaking.import_reported_without_exclude_imports",
	"breaking.against_file_only_ignore_removed_annotation", "breaking.against_file_only_ignore_only_removed_annotation",
	"breaking.against_file_only_import_removed_annotation", "breaking.annotation_without_current_file_reported",
	"sections.cases", "overlap.cases",
	"mono.pairs", "subdir.cases", "subdir.path_removed_annotation", "subdir.path_outside_or_nonmatching_kept_all",
}

// ---------------------------------------------------------------------------------------------
// Part A: selection algebra through ConfiguredRules.

func partA(e *env) {
	r := e.r
	type job struct {
		version, kind string
		use           []string
	}
	var jobs []job
	universeSizes := map[string]int{}
	for _, v := range allVersions {
		for _, kind := range []string{"lint", "breaking"} {
			t := e.tables(v.Name, kind)
			u := universe(t)
			universeSizes[v.Name+"/"+kind] = len(u)
			interesting := stringSet{}
			for _, id := range u {
				if t.classify(id) != "rule" {
					interesting[id] = true
				}
			}
			planted := lintPlanted
			if kind == "breaking" {
				planted = breakingPlanted
			}
			for _, id := range planted {
				interesting[id] = true
			}
			for _, s := range enum.Subsets(len(u), 0, 2) {
				use := make([]string, len(s))
				for i, x := range s {
					use[i] = u[x]
				}
				if r.Quick() && len(use) == 2 && !interesting[use[0]] && !interesting[use[1]] {
					// quick: a pair of two plain rules is left to the thorough tier
					continue
				}
				jobs = append(jobs, job{v.Name, kind, use})
			}
		}
	}
	r.Set("select_universe_sizes", universeSizes)
	if r.Quick() {
		r.Set("select_bounds", "use: {} + every single ID + every pair with a category / deprecated / planted ID, over ALL rule and category IDs of the version and type; "+
			"except: for |use|<=1 every single ID of the universe, for pairs none + one representative per role (rule, category, deprecated rule, deprecated category)")
	} else {
		r.Set("select_bounds", "use: every subset of size <=2 of ALL rule and category IDs of the version and type; except: for |use|<=1 every subset of size <=1 of all IDs plus every pair (role representative, any ID); "+
			"for |use|=2 none + one representative per role, and for v2 lint every single ID of the universe")
	}
	r.ParallelFor(len(jobs), 0, func(i int) {
		j := jobs[i]
		t := e.tables(j.version, j.kind)
		u := universe(t)
		// one representative per structural role
		var reps []string
		seenRole := map[string]bool{}
		planted := lintPlanted
		if j.kind == "breaking" {
			planted = breakingPlanted
		}
		for _, id := range append(append([]string{}, planted[:1]...), u...) {
			role := t.classify(id)
			if !seenRole[role] {
				seenRole[role] = true
				reps = append(reps, id)
			}
		}
		excepts := [][]string{nil}
		if len(j.use) == 2 && (r.Quick() || !(j.version == "v2" && j.kind == "lint")) {
			for _, id := range reps {
				excepts = append(excepts, []string{id})
			}
		} else {
			for _, id := range u {
				excepts = append(excepts, []string{id})
			}
		}
		if !r.Quick() && len(j.use) <= 1 {
			for _, a := range reps {
				for _, b := range u {
					if a != b {
						excepts = append(excepts, []string{a, b})
					}
				}
			}
		}
		for _, ex := range excepts {
			c := cfg{Version: j.version, Type: j.kind, Use: j.use, Except: ex}
			checkSelection(e, t, c)
		}
	})
	partAUnknown(e)
	partANesting(e)
	partADeprecated(e)
	partADeprecatedTable(e)
	partADefaults(e)
}

// universe is every ID that is known for the rule type: rules (incl. deprecated) and categories with rules of the type.
func universe(t *tables) []string {
	var u []string
	for id := range t.Rules {
		u = append(u, id)
	}
	for id := range t.Cats {
		if _, ok := t.expand(id); ok {
			u = append(u, id)
		}
	}
	sort.Strings(u)
	return u
}

func checkSelection(e *env, t *tables, c cfg) {
	r := e.r
	r.Eval(1)
	e.cnt.add("select.cases", 1)
	sel, unknown := t.selection(c.Use, c.Except)
	got, err := e.configuredRules(c)
	vc := func(detail string) violationCase {
		return violationCase{Oracle: "select", Config: c, YAML: c.yaml(), Expected: sel.sorted(), Observed: got, Detail: detail}
	}
	if len(unknown) > 0 {
		// cannot happen in part A proper (universe IDs only)
		if err == nil {
			r.Violate("select/"+c.Type+"/unknown-id-accepted", "unknown ID accepted by ConfiguredRules", vc(strings.Join(unknown, ",")))
		}
		return
	}
	if len(sel) == 0 {
		e.cnt.add("select.empty_selection_unspecified", 1)
		if err != nil {
			e.cnt.add("select.empty_selection_error", 1)
			return
		}
	} else if err != nil {
		r.Violate("select/"+c.Type+"/unexpected-error", "ConfiguredRules failed on a configuration of known IDs: "+err.Error(), vc(err.Error()))
		return
	}
	exp := sel.sorted()
	if strings.Join(exp, ",") != strings.Join(got, ",") {
		r.Violate("select/"+c.Type+"/"+selectionCulprit(t, c, sel, got), "ConfiguredRules differs from expand(use) \\ expand(except)", vc(""))
		return
	}
	if len(sel) == 0 {
		return
	}
	// coverage
	nontrivial := false
	for _, id := range c.Use {
		switch t.classify(id) {
		case "category":
			e.cnt.add("select.use_category", 1)
			nontrivial = true
		case "deprecated-rule":
			e.cnt.add("select.use_deprecated_rule", 1)
			nontrivial = true
		case "deprecated-category":
			e.cnt.add("select.use_deprecated_category", 1)
			nontrivial = true
		}
	}
	if len(c.Use) == 0 {
		e.cnt.add("select.default_rules_used", 1)
	}
	if len(c.Except) > 0 {
		withoutExcept, _ := t.selection(c.Use, nil)
		if len(withoutExcept) > len(sel) {
			e.cnt.add("select.except_removed_rule", 1)
			nontrivial = true
		}
	}
	if nontrivial || len(c.Use) >= 2 {
		r.Distinct("A|" + c.key())
	}
	r.SampleEvery(int(e.caseNo.Add(1)), 200003, func() any {
		return map[string]any{"part": "A", "config": c, "configured_rules": len(got)}
	})
}

// selectionCulprit names the structural role of the ID responsible for the first differing rule.
func selectionCulprit(t *tables, c cfg, sel stringSet, got []string) string {
	gotSet := stringSet{}
	for _, g := range got {
		gotSet[g] = true
	}
	for _, g := range got {
		if sel[g] {
			continue
		}
		// extra rule: removed by an except ID in the model, or never selected
		for _, ex := range c.Except {
			if s, ok := t.expand(ex); ok && s[g] {
				return "extra/except-not-applied/" + t.classify(ex)
			}
		}
		if _, isRule := t.Rules[g]; isRule && t.Rules[g].Deprecated {
			return "extra/deprecated-rule-listed"
		}
		return "extra/rule-never-selected"
	}
	for _, x := range sel.sorted() {
		if gotSet[x] {
			continue
		}
		if len(c.Use) == 0 {
			return "missing/default-rule-not-selected"
		}
		for _, u := range c.Use {
			if s, ok := t.expand(u); ok && s[x] {
				return "missing/use-not-expanded/" + t.classify(u)
			}
		}
	}
	return "differs"
}

// corruptions returns every single-character corruption of id: deletion, substitution, insertion over
// [A-Z_] plus the lower-case form of the character, and adjacent transposition.
func corruptions(id string) []string {
	alphabet := "ABCDEFGHIJKLMNOPQRSTUVWXYZ_"
	seen := map[string]bool{id: true}
	var out []string
	add := func(s string) {
		if s != "" && !seen[s] {
			seen[s] = true
			out = append(out, s)
		}
	}
	for i := 0; i < len(id); i++ {
		add(id[:i] + id[i+1:])
		for _, a := range alphabet {
			add(id[:i] + string(a) + id[i+1:])
		}
		add(id[:i] + strings.ToLower(id[i:i+1]) + id[i+1:])
		if i+1 < len(id) {
			add(id[:i] + id[i+1:i+2] + id[i:i+1] + id[i+2:])
		}
	}
	for i := 0; i <= len(id); i++ {
		for _, a := range alphabet {
			add(id[:i] + string(a) + id[i:])
		}
	}
	return out
}

func otherKind(kind string) string {
	if kind == "lint" {
		return "breaking"
	}
	return "lint"
}

func partAUnknown(e *env) {
	r := e.r
	seeds := map[string][]string{
		"lint":     {"ENUM_PASCAL_CASE", "BASIC", "COMMENT_ENUM"},
		"breaking": {"FIELD_NO_DELETE", "WIRE_JSON", "FILE"},
	}
	type job struct {
		version, kind, id, pos string
		otherType              bool // the ID is a rule / category ID of the version, but only of the other rule type
	}
	var jobs []job
	total := 0
	otherType := map[string]int{}
	for _, v := range allVersions {
		for _, kind := range []string{"lint", "breaking"} {
			for _, seed := range seeds[kind] {
				cs := corruptions(seed)
				total += len(cs)
				for _, id := range cs {
					for _, pos := range []string{"use", "except", "ignore_only"} {
						jobs = append(jobs, job{v.Name, kind, id, pos, false})
					}
				}
			}
			// every ID that exists in this version for the other rule type only (breaking rule and category IDs
			// in a lint section, lint IDs in a breaking section): not an ID of this type, hence unknown here
			t := e.tables(v.Name, kind)
			for _, id := range stringSet(t.AllIDs).sorted() {
				if _, known := t.expand(id); known {
					continue
				}
				otherType[v.Name+"/"+kind]++
				for _, pos := range []string{"use", "except", "ignore_only"} {
					jobs = append(jobs, job{v.Name, kind, id, pos, true})
				}
			}
		}
	}
	r.Set("unknown_id_corruptions", total)
	r.Set("unknown_ids_of_other_rule_type", otherType)
	// tiny images so that Lint / Breaking can be asked too (the error must come before any rule runs)
	img, _, err := buildPlain(e.ctx, map[string]string{"a/v1/x.proto": "syntax = \"proto3\";\npackage a.v1;\nmessage M {}\n"}, nil)
	if err != nil {
		r.Incomplete("cannot build the tiny image: " + err.Error())
		return
	}
	r.ParallelFor(len(jobs), 0, func(i int) {
		j := jobs[i]
		t := e.tables(j.version, j.kind)
		if t.AllIDs[j.id] && !j.otherType {
			e.cnt.add("unknown.corruption_is_a_known_id_skipped", 1)
			return
		}
		suffix := ""
		if j.otherType {
			suffix = "/id-of-other-rule-type/" + e.tables(j.version, otherKind(j.kind)).classify(j.id)
		}
		c := cfg{Version: j.version, Type: j.kind}
		switch j.pos {
		case "use":
			c.Use = []string{j.id}
		case "except":
			c.Except = []string{j.id}
		case "ignore_only":
			c.IgnoreOnly = []kv{{ID: j.id, Paths: []string{"a"}}}
		}
		r.Eval(1)
		_, cerr := e.configuredRules(c)
		obs := observation{Err: "not asked"}
		if !r.Quick() || j.version == "v2" {
			// quick: the second observation point (Lint / Breaking) only for the current version
			obs = e.observe(c, img, img)
			e.cnt.add("unknown.also_asked_lint_or_breaking", 1)
		}
		if cerr == nil {
			r.Violate("unknown-id/"+j.kind+"/"+j.pos+"/accepted-by-ConfiguredRules"+suffix, "a corrupted rule/category ID (or an ID of the other rule type) was accepted",
				violationCase{Oracle: "unknown", Config: c, YAML: c.yaml(), Detail: j.id})
			return
		}
		if obs.ParseErr == "" && obs.Err == "" {
			r.Violate("unknown-id/"+j.kind+"/"+j.pos+"/accepted-by-check"+suffix, "a corrupted rule/category ID (or an ID of the other rule type) was accepted by Lint/Breaking",
				violationCase{Oracle: "unknown", Config: c, YAML: c.yaml(), Detail: j.id})
			return
		}
		e.cnt.add("unknown.rejected", 1)
		e.cnt.add("unknown.rejected_"+j.pos, 1)
		if j.otherType {
			e.cnt.add("unknown.other_type_id_rejected_"+j.pos, 1)
		}
		if i%97 == 0 || j.otherType {
			r.Distinct("U|" + c.key())
		}
	})
}

// partANesting: MINIMAL within BASIC within STANDARD, on what ConfiguredRules answers.
func partANesting(e *env) {
	r := e.r
	for _, v := range allVersions {
		get := func(cat string) (stringSet, bool) {
			ids, err := e.configuredRules(cfg{Version: v.Name, Type: "lint", Use: []string{cat}})
			if err != nil {
				r.Violate("nesting/"+cat+"/error", "category is not usable: "+err.Error(), violationCase{Oracle: "nesting", Config: cfg{Version: v.Name, Type: "lint", Use: []string{cat}}})
				return nil, false
			}
			s := stringSet{}
			for _, id := range ids {
				s[id] = true
			}
			return s, true
		}
		chain := []string{"MINIMAL", "BASIC", "STANDARD"}
		for i := 0; i+1 < len(chain); i++ {
			r.Eval(1)
			small, ok1 := get(chain[i])
			big, ok2 := get(chain[i+1])
			if !ok1 || !ok2 {
				continue
			}
			for id := range small {
				if !big[id] {
					r.Violate("nesting/"+chain[i]+"-not-within-"+chain[i+1], fmt.Sprintf("%s (in %s) is not in %s for %s", id, chain[i], chain[i+1], v.Name),
						violationCase{Oracle: "nesting", Config: cfg{Version: v.Name, Type: "lint", Use: []string{chain[i]}}, Detail: id})
				}
			}
			if len(small) > 0 && len(big) > len(small) {
				e.cnt.add("nesting.strict", 1)
			}
			e.cnt.add("nesting.checked", 1)
			r.Distinct("N|" + v.Name + chain[i])
		}
	}
}

// partADefaults records (does not judge) whether the default rules are the documented default category.
func partADefaults(e *env) {
	facts := map[string]bool{}
	for _, v := range allVersions {
		for kind, cat := range map[string]string{"lint": "STANDARD", "breaking": "FILE"} {
			a, ea := e.configuredRules(cfg{Version: v.Name, Type: kind})
			b, eb := e.configuredRules(cfg{Version: v.Name, Type: kind, Use: []string{cat}})
			e.r.Eval(1)
			facts[v.Name+"/"+kind+"=="+cat] = ea == nil && eb == nil && strings.Join(a, ",") == strings.Join(b, ",")
		}
	}
	e.r.Set("default_rules_equal_documented_category", facts)
}

// partADeprecated: a deprecated ID gives the same ConfiguredRules as its replacements, in use and in except position.
func partADeprecated(e *env) {
	r := e.r
	for _, v := range allVersions {
		for _, kind := range []string{"lint", "breaking"} {
			t := e.tables(v.Name, kind)
			type dep struct {
				id   string
				repl []string
			}
			var deps []dep
			for id, ri := range t.Rules {
				if ri.Deprecated && len(ri.Repl) > 0 {
					deps = append(deps, dep{id, ri.Repl})
				}
			}
			for id, ci := range t.Cats {
				if ci.Deprecated && len(ci.Repl) > 0 {
					if _, ok := t.expand(id); ok {
						deps = append(deps, dep{id, ci.Repl})
					}
				}
			}
			sort.Slice(deps, func(i, j int) bool { return deps[i].id < deps[j].id })
			for _, d := range deps {
				same := func(a, b cfg, pos string) {
					r.Eval(1)
					ga, ea := e.configuredRules(a)
					gb, eb := e.configuredRules(b)
					if (ea == nil) != (eb == nil) || strings.Join(ga, ",") != strings.Join(gb, ",") {
						r.Violate("deprecated/"+kind+"/"+pos+"/differs-from-replacement/"+t.classify(d.id),
							fmt.Sprintf("%s and its replacements %v give different configured rules", d.id, d.repl),
							violationCase{Oracle: "deprecated", Config: a, YAML: a.yaml() + "---\n" + b.yaml(), Expected: gb, Observed: ga})
						return
					}
					e.cnt.add("deprecated_equiv.checked", 1)
					r.Distinct("D|" + a.key())
				}
				same(cfg{Version: v.Name, Type: kind, Use: []string{d.id}}, cfg{Version: v.Name, Type: kind, Use: d.repl}, "use")
				// except position: start from everything the type has
				var all []string
				for id, ri := range t.Rules {
					if !ri.Deprecated {
						all = append(all, id)
					}
				}
				sort.Strings(all)
				same(cfg{Version: v.Name, Type: kind, Use: all, Except: []string{d.id}}, cfg{Version: v.Name, Type: kind, Use: all, Except: d.repl}, "except")
				same(cfg{Version: v.Name, Type: kind, Except: []string{d.id}}, cfg{Version: v.Name, Type: kind, Except: d.repl}, "except-of-default")
			}
		}
	}
}
