package c06

import (
	"context"
	"fmt"
	"sort"
	"strings"

	"buf.build/go/bufplugin/check"
	"github.com/bufbuild/buf/private/bufpkg/bufcheck"
	"github.com/bufbuild/buf/private/bufpkg/bufconfig"
	"github.com/bufbuild/bufverif/internal/bufx"
)

// refrules: the reference model of rule selection and suppression. The only thing taken from buf are
// the per-version tables (rule -> categories / default / deprecated / replacements, category ->
// deprecated / replacements) as published by Client.AllRules / Client.AllCategories. Everything else is
// set algebra over strings.

type ruleInfo struct {
	ID         string
	Cats       []string
	Default    bool
	Deprecated bool
	Repl       []string // deprecated: the documented replacements (doctable.go)
	CodeRepl   []string // deprecated: what the implementation publishes as replacements (judged, never used by the model)
	// Undocumented: deprecated in the implementation but missing from the transcribed table (Repl falls back to CodeRepl; the run is marked incomplete)
	Undocumented bool
	Plugin       string // "" = built-in
}

type catInfo struct {
	ID           string
	Deprecated   bool
	Repl         []string
	CodeRepl     []string
	Undocumented bool
	Plugin       string
}

type tables struct {
	Version string
	Type    string // "lint" | "breaking"
	Rules   map[string]*ruleInfo
	Cats    map[string]*catInfo // every category of the version (both types)
	// AllIDs is every rule and category ID of the version over both rule types (for "is this corruption still a known ID").
	AllIDs map[string]bool
}

type stringSet map[string]bool

func (s stringSet) sorted() []string {
	out := make([]string, 0, len(s))
	for k := range s {
		out = append(out, k)
	}
	sort.Strings(out)
	return out
}

func ruleTypeOf(kind string) check.RuleType {
	if kind == "breaking" {
		return check.RuleTypeBreaking
	}
	return check.RuleTypeLint
}

func loadTables(ctx context.Context, client bufcheck.Client, version string, fv bufconfig.FileVersion, kind string) (*tables, error) {
	t := &tables{Version: version, Type: kind, Rules: map[string]*ruleInfo{}, Cats: map[string]*catInfo{}, AllIDs: map[string]bool{}}
	for _, k := range []string{"lint", "breaking"} {
		rules, err := client.AllRules(ctx, ruleTypeOf(k), fv)
		if err != nil {
			return nil, err
		}
		for _, r := range rules {
			t.AllIDs[r.ID()] = true
			if k != kind {
				continue
			}
			// Repl is NOT what the code says (r.ReplacementIDs()): a deprecated ID stands for its DOCUMENTED
			// replacements (doctable.go); CodeRepl keeps the code's answer for the table oracle of part A.
			ri := &ruleInfo{ID: r.ID(), Default: r.Default(), Deprecated: r.Deprecated(), CodeRepl: append([]string(nil), r.ReplacementIDs()...)}
			if ri.Deprecated {
				if doc, ok := documentedReplacements(kind, ri.ID); ok {
					ri.Repl = append([]string(nil), doc...)
				} else {
					ri.Repl = ri.CodeRepl
					ri.Undocumented = true
				}
			}
			for _, c := range r.Categories() {
				ri.Cats = append(ri.Cats, c.ID())
			}
			t.Rules[ri.ID] = ri
		}
	}
	cats, err := client.AllCategories(ctx, fv)
	if err != nil {
		return nil, err
	}
	for _, c := range cats {
		t.AllIDs[c.ID()] = true
		ci := &catInfo{ID: c.ID(), Deprecated: c.Deprecated(), CodeRepl: append([]string(nil), c.ReplacementIDs()...)}
		if ci.Deprecated {
			if doc, ok := documentedReplacements("category", ci.ID); ok {
				ci.Repl = append([]string(nil), doc...)
			} else {
				ci.Repl = ci.CodeRepl
				ci.Undocumented = true
			}
		}
		t.Cats[c.ID()] = ci
	}
	return t, nil
}

// classify names the structural role of an ID for this rule type.
func (t *tables) classify(id string) string {
	if r, ok := t.Rules[id]; ok {
		if r.Deprecated {
			if len(r.Repl) == 0 {
				return "deprecated-rule-without-replacement"
			}
			return "deprecated-rule"
		}
		return "rule"
	}
	if c, ok := t.Cats[id]; ok {
		if _, known := t.expand(id); !known {
			return "category-of-other-type"
		}
		if c.Deprecated {
			return "deprecated-category"
		}
		return "category"
	}
	return "unknown"
}

// expand maps a rule or category ID to the set of non-deprecated rule IDs it stands for.
// known is false for an ID that is neither a rule of this type nor a category with rules of this type.
func (t *tables) expand(id string) (stringSet, bool) {
	return t.expandDepth(id, 0)
}

func (t *tables) expandDepth(id string, depth int) (stringSet, bool) {
	if depth > 4 {
		return nil, false
	}
	out := stringSet{}
	if r, ok := t.Rules[id]; ok {
		if !r.Deprecated {
			out[id] = true
			return out, true
		}
		// deprecated rule: behaves as its replacements (possibly none)
		for _, repl := range r.Repl {
			s, ok := t.expandDepth(repl, depth+1)
			if !ok {
				return nil, false
			}
			for k := range s {
				out[k] = true
			}
		}
		return out, true
	}
	c, ok := t.Cats[id]
	if !ok {
		return nil, false
	}
	if c.Deprecated && len(c.Repl) > 0 {
		// deprecated category: behaves as its replacements
		any := false
		for _, repl := range c.Repl {
			s, ok := t.expandDepth(repl, depth+1)
			if !ok {
				continue
			}
			any = true
			for k := range s {
				out[k] = true
			}
		}
		return out, any
	}
	for _, r := range t.Rules {
		if r.Deprecated {
			continue
		}
		for _, rc := range r.Cats {
			if rc == id {
				out[r.ID] = true
			}
		}
	}
	if len(out) == 0 {
		// a category without rules of this type is not an ID of this rule type
		return nil, false
	}
	return out, true
}

// selection = (use empty ? default rules : U expand(use)) \ U expand(except). unknown lists IDs that are not known.
func (t *tables) selection(use, except []string) (sel stringSet, unknown []string) {
	sel = stringSet{}
	nonEmptyUse := 0
	for _, id := range use {
		if id == "" {
			continue
		}
		nonEmptyUse++
		s, ok := t.expand(id)
		if !ok {
			unknown = append(unknown, id)
			continue
		}
		for k := range s {
			sel[k] = true
		}
	}
	if nonEmptyUse == 0 {
		for _, r := range t.Rules {
			if r.Default && !r.Deprecated {
				sel[r.ID] = true
			}
		}
	}
	for _, id := range except {
		if id == "" {
			continue
		}
		s, ok := t.expand(id)
		if !ok {
			unknown = append(unknown, id)
			continue
		}
		for k := range s {
			delete(sel, k)
		}
	}
	return sel, unknown
}

type kv struct {
	ID    string   `json:"id"`
	Paths []string `json:"paths"`
}

// ignoreOnly resolves an ignore_only map to rule -> paths.
func (t *tables) ignoreOnly(m []kv) (map[string][]string, []string) {
	out := map[string][]string{}
	var unknown []string
	for _, e := range m {
		s, ok := t.expand(e.ID)
		if !ok {
			unknown = append(unknown, e.ID)
			continue
		}
		for r := range s {
			out[r] = append(out[r], e.Paths...)
		}
	}
	return out, unknown
}

// refNormalize is lexical path normalisation (no escapes expected in this check's inputs).
func refNormalize(p string) string {
	var stack []string
	for _, c := range strings.Split(p, "/") {
		switch c {
		case "", ".":
		case "..":
			if len(stack) > 0 {
				stack = stack[:len(stack)-1]
			}
		default:
			stack = append(stack, c)
		}
	}
	if len(stack) == 0 {
		return "."
	}
	return strings.Join(stack, "/")
}

// under: file is the path itself or lies in the directory p (component-wise).
func under(file, p string) bool {
	p = refNormalize(p)
	return file == p || strings.HasPrefix(file, p+"/")
}

func underAny(file string, paths []string) bool {
	for _, p := range paths {
		if under(file, p) {
			return true
		}
	}
	return false
}

const commentPrefix = "buf:lint:ignore"

func isIDChar(c byte) bool {
	return c == '_' || (c >= 'A' && c <= 'Z') || (c >= 'a' && c <= 'z') || (c >= '0' && c <= '9')
}

// commentToken returns the ID named by a comment line ("" if the line is not an ignore directive).
// The directive names exactly one ID: the maximal identifier after "buf:lint:ignore ".
func commentToken(line string) string {
	line = strings.TrimSpace(line)
	rest, ok := strings.CutPrefix(line, commentPrefix+" ")
	if !ok {
		return ""
	}
	i := 0
	for i < len(rest) && isIDChar(rest[i]) {
		i++
	}
	return rest[:i]
}

// cfg is one configuration, rendered to buf.yaml text and parsed by buf's own parser.
type cfg struct {
	Version        string   `json:"version"`
	Type           string   `json:"type"`
	Use            []string `json:"use,omitempty"`
	Except         []string `json:"except,omitempty"`
	Ignore         []string `json:"ignore,omitempty"`
	IgnoreOnly     []kv     `json:"ignore_only,omitempty"`
	AllowComments  string   `json:"allow_comment_ignores,omitempty"` // "", "on", "off" ("" = version default)
	ExcludeImports bool     `json:"exclude_imports,omitempty"`
	// ModuleDir != "" puts the (single) module of a v2 workspace into that sub-directory; ignore and
	// ignore_only paths are then workspace-relative. PerModule writes the section under the module entry
	// instead of the top level.
	ModuleDir string `json:"module_dir,omitempty"`
	PerModule bool   `json:"per_module,omitempty"`
	// TopUse (with ModuleDir and PerModule only): a workspace-level section `use: TopUse` is written next to
	// the module-level section. A non-empty module-level section replaces the workspace-level one as a
	// whole; an empty one (no key at all) leaves the workspace-level section in force.
	TopUse []string `json:"top_level_use,omitempty"`
	// Plugins: names of the in-process check plugins of plugins.go, written as the `plugins:` key of a v2
	// buf.yaml in this order. DisableBuiltin writes `disable_builtin: true` into the section.
	Plugins        []string `json:"plugins,omitempty"`
	DisableBuiltin bool     `json:"disable_builtin,omitempty"`
	// Modules (part M): all module directories of the v2 workspace in document order (ModuleDir is the one the
	// configuration is judged for; nil = the workspace consists of ModuleDir alone). Neighbours: every OTHER module
	// carries a module-level section of its own (a decoy rule and an ignore path inside that module).
	Modules    []string `json:"modules,omitempty"`
	Neighbours bool     `json:"neighbour_sections,omitempty"`
}

// neighbourDecoy is the rule the module-level sections of the other modules select (part M).
func neighbourDecoy(kind string) string {
	if kind == "breaking" {
		return "ENUM_VALUE_NO_DELETE"
	}
	return "COMMENT_ENUM"
}

// sectionEmpty: the configuration writes no key into its lint / breaking section.
func (c cfg) sectionEmpty() bool {
	// v2 `disallow_comment_ignores: false` spells out the default value: it does not make a section non-empty
	return len(c.Use) == 0 && len(c.Except) == 0 && len(c.Ignore) == 0 && len(c.IgnoreOnly) == 0 && !c.DisableBuiltin &&
		(c.Type != "lint" || c.AllowComments == "" || (c.Version == "v2" && c.AllowComments == "on"))
}

// model is the configuration the reference model evaluates: c itself, except that an empty module-level
// section falls back to the workspace-level section.
func (c cfg) model() cfg {
	if c.ModuleDir != "" && c.PerModule && len(c.TopUse) > 0 && c.sectionEmpty() {
		m := c
		m.Use = c.TopUse
		return m
	}
	return c
}

func (c cfg) yaml() string {
	var b strings.Builder
	if len(c.Use) > 0 {
		b.WriteString("  use:\n")
		for _, id := range c.Use {
			fmt.Fprintf(&b, "    - %q\n", id)
		}
	}
	if len(c.Except) > 0 {
		b.WriteString("  except:\n")
		for _, id := range c.Except {
			fmt.Fprintf(&b, "    - %q\n", id)
		}
	}
	if len(c.Ignore) > 0 {
		b.WriteString("  ignore:\n")
		for _, p := range c.Ignore {
			fmt.Fprintf(&b, "    - %q\n", p)
		}
	}
	if len(c.IgnoreOnly) > 0 {
		b.WriteString("  ignore_only:\n")
		for _, e := range c.IgnoreOnly {
			fmt.Fprintf(&b, "    %q:\n", e.ID)
			for _, p := range e.Paths {
				fmt.Fprintf(&b, "      - %q\n", p)
			}
		}
	}
	if c.Type == "lint" && c.AllowComments != "" {
		on := c.AllowComments == "on"
		if c.Version == "v2" {
			fmt.Fprintf(&b, "  disallow_comment_ignores: %v\n", !on)
		} else {
			fmt.Fprintf(&b, "  allow_comment_ignores: %v\n", on)
		}
	}
	if c.DisableBuiltin {
		b.WriteString("  disable_builtin: true\n")
	}
	out := "version: " + c.Version + "\n"
	if len(c.Plugins) > 0 {
		out += "plugins:\n"
		for _, p := range c.Plugins {
			out += "  - plugin: " + p + "\n"
		}
	}
	if c.ModuleDir != "" {
		mods := c.Modules
		if len(mods) == 0 {
			mods = []string{c.ModuleDir}
		}
		out += "modules:\n"
		for _, m := range mods {
			out += "  - path: " + m + "\n"
			if m == c.ModuleDir {
				if c.PerModule && b.Len() > 0 {
					out += "    " + c.Type + ":\n"
					for _, l := range strings.Split(strings.TrimSuffix(b.String(), "\n"), "\n") {
						out += "    " + l + "\n"
					}
				}
			} else if c.Neighbours {
				out += fmt.Sprintf("    %s:\n      use:\n        - %q\n      ignore:\n        - %q\n", c.Type, neighbourDecoy(c.Type), m+"/b")
			}
		}
		if c.PerModule && (b.Len() > 0 || len(c.TopUse) > 0) {
			if len(c.TopUse) > 0 {
				out += c.Type + ":\n  use:\n"
				for _, id := range c.TopUse {
					out += fmt.Sprintf("    - %q\n", id)
				}
			}
			return out
		}
	}
	if b.Len() > 0 {
		out += c.Type + ":\n" + b.String()
	}
	return out
}

// workspacePath is the path of an image file as the configuration sees it.
func (c cfg) workspacePath(imagePath string) string {
	if c.ModuleDir == "" {
		return imagePath
	}
	return c.ModuleDir + "/" + imagePath
}

// commentsAllowed is the documented default: v2 allows comment ignores unless disallowed, v1beta1/v1
// allow them only when asked.
func (c cfg) commentsAllowed() bool {
	switch c.AllowComments {
	case "on":
		return true
	case "off":
		return false
	}
	return c.Version == "v2"
}

func (c cfg) key() string {
	k := fmt.Sprintf("%s|%s|u=%s|e=%s|i=%s|io=%v|ac=%s|xi=%v|md=%s|pm=%v", c.Version, c.Type, strings.Join(c.Use, ","), strings.Join(c.Except, ","), strings.Join(c.Ignore, ","), c.IgnoreOnly, c.AllowComments, c.ExcludeImports, c.ModuleDir, c.PerModule)
	if len(c.TopUse) > 0 {
		k += "|top=" + strings.Join(c.TopUse, ",")
	}
	if len(c.Plugins) > 0 || c.DisableBuiltin {
		k += fmt.Sprintf("|pl=%s|db=%v", strings.Join(c.Plugins, ","), c.DisableBuiltin)
	}
	if len(c.Modules) > 0 {
		k += fmt.Sprintf("|mods=%s|nb=%v", strings.Join(c.Modules, ","), c.Neighbours)
	}
	return k
}

func annKey(a bufx.Annotation) string {
	return fmt.Sprintf("%s:%d:%d:%d:%d:%s:%s", a.Path, a.StartLine, a.StartCol, a.EndLine, a.EndCol, a.Type, a.Message)
}

func annSet(as []bufx.Annotation) map[string]bufx.Annotation {
	m := make(map[string]bufx.Annotation, len(as))
	for _, a := range as {
		m[annKey(a)] = a
	}
	return m
}

// source is what the model knows about the text of an image: node spans and the comments placed.
type source struct {
	Spans    map[string]span
	Comments []comment
	Imports  map[string]bool
	// breaking only: what the model knows about the against (old) image
	AgainstImports map[string]bool // old path -> IsImport in the old image (also: the set of old files)
	Moved          []movedDecl     // declarations whose file differs between the old and the new image
	DeletedFile    string          // the one file that exists only in the old image
}

// fileRef is one file an annotation is located in: its current file and/or (breaking) its against file.
type fileRef struct {
	Path    string
	Import  bool
	Against bool
}

// filesOf lists the files an annotation is located in. Lint: the file of the annotation. Breaking: the
// current file (if the annotation has one) and the against file: the old file of the moved declaration
// the annotation lies in, the deleted file for an annotation without a current location, otherwise the
// file of the same path in the old image (if there is one).
func (s *source) filesOf(a bufx.Annotation) []fileRef {
	var out []fileRef
	if a.Path != "" {
		out = append(out, fileRef{Path: a.Path, Import: s.Imports[a.Path]})
	}
	if s.AgainstImports == nil {
		return out
	}
	if a.Path == "" {
		if s.DeletedFile != "" {
			out = append(out, fileRef{Path: s.DeletedFile, Import: s.AgainstImports[s.DeletedFile], Against: true})
		}
		return out
	}
	for _, m := range s.Moved {
		if m.NewPath == a.Path && m.Start <= a.StartLine && a.StartLine <= m.End {
			return append(out, fileRef{Path: m.OldPath, Import: s.AgainstImports[m.OldPath], Against: true})
		}
	}
	if imp, ok := s.AgainstImports[a.Path]; ok {
		out = append(out, fileRef{Path: a.Path, Import: imp, Against: true})
	}
	return out
}

// againstOnly: the predicate holds for the against file of the annotation and for no current file.
func againstOnly(files []fileRef, pred func(fileRef) bool) bool {
	hit := false
	for _, f := range files {
		if pred(f) {
			if !f.Against {
				return false
			}
			hit = true
		}
	}
	return hit
}

func anyFile(files []fileRef, pred func(fileRef) bool) bool {
	for _, f := range files {
		if pred(f) {
			return true
		}
	}
	return false
}

// annUnderAny: the current or the against file of the annotation is one of the paths or lies in one of them.
func (s *source) annUnderAny(c cfg, a bufx.Annotation, paths []string) bool {
	return anyFile(s.filesOf(a), func(f fileRef) bool { return underAny(c.workspacePath(f.Path), paths) })
}

// annOnImport: the current or the against file of the annotation is an import-only file of its image.
func (s *source) annOnImport(a bufx.Annotation) bool {
	return anyFile(s.filesOf(a), func(f fileRef) bool { return f.Import })
}

// element returns the innermost named node whose span contains the line.
func (s *source) element(path string, line int) (string, bool) {
	best, bestLen := "", 1<<30
	for name, sp := range s.Spans {
		if sp.Path == path && sp.Start <= line && line <= sp.End && sp.End-sp.Start < bestLen {
			best, bestLen = name, sp.End-sp.Start
		}
	}
	return best, best != ""
}

// relation of a comment placement to the element an annotation sits on.
func (s *source) relation(elem string, placement string) string {
	if elem == placement {
		return "own"
	}
	sp := s.Spans[elem]
	for _, a := range sp.Ancestors {
		if a == placement {
			return "ancestor"
		}
	}
	for _, a := range sp.LexicalOnly {
		if a == placement {
			return "lexical-only"
		}
	}
	if s.Spans[placement].Path != sp.Path {
		return "other-file"
	}
	return "unrelated"
}

// suppression explains why the model removes an annotation ("" = it stays).
type suppression struct {
	Why      string // "ignore", "ignore_only", "comment", "import", "unspecified-comment"
	Relation string
}

// suppressed decides, for an annotation produced by rule a.Type on its own, whether the configuration removes it.
//
// A breaking annotation has up to two locations (current file, against file); a path suppression or the
// import filter applies when either of them matches. Relation "against-file" marks the cases where only
// the against file matches (the signature of existing cases, Relation "", is unchanged).
func suppressed(c cfg, a bufx.Annotation, ignoreOnly map[string][]string, src *source) suppression {
	files := src.filesOf(a)
	rel := func(pred func(fileRef) bool) string {
		if againstOnly(files, pred) {
			return "against-file"
		}
		return ""
	}
	isImport := func(f fileRef) bool { return f.Import }
	if (c.Type == "lint" || c.ExcludeImports) && anyFile(files, isImport) {
		return suppression{Why: "import", Relation: rel(isImport)}
	}
	ignored := func(f fileRef) bool { return underAny(c.workspacePath(f.Path), c.Ignore) }
	if anyFile(files, ignored) {
		return suppression{Why: "ignore", Relation: rel(ignored)}
	}
	ignoredOnly := func(f fileRef) bool { return underAny(c.workspacePath(f.Path), ignoreOnly[a.Type]) }
	if anyFile(files, ignoredOnly) {
		return suppression{Why: "ignore_only", Relation: rel(ignoredOnly)}
	}
	if c.Type == "lint" && c.commentsAllowed() && len(src.Comments) > 0 {
		elem, ok := src.element(a.Path, a.StartLine)
		if !ok {
			return suppression{}
		}
		unspecified := false
		for _, cm := range src.Comments {
			match := false
			for _, l := range cm.Lines {
				if commentToken(l) == a.Type {
					match = true
				}
			}
			if !match {
				continue
			}
			switch rel := src.relation(elem, cm.Name); rel {
			case "own", "ancestor":
				return suppression{Why: "comment", Relation: rel}
			case "lexical-only":
				unspecified = true
			}
		}
		if unspecified {
			return suppression{Why: "unspecified-comment", Relation: "lexical-only"}
		}
	}
	return suppression{}
}
