package c06

import (
	"fmt"
	"sort"
	"strings"

	"github.com/bufbuild/buf/private/bufpkg/bufimage"
	"github.com/bufbuild/bufverif/internal/bufx"
	"github.com/bufbuild/bufverif/internal/enum"
)

// scene is one image (pair) with what the model knows about its source and the singleton results.
type scene struct {
	// Derivation != nil: the image(s) were obtained this way (part K); nil = the workspace built with --path a --path b
	Derivation *derivation
	Kind       string
	Image      bufimage.Image
	Against    bufimage.Image
	Src        *source
	Sources    map[string]string
	// Single[version][rule] = what the rule reports on its own, without any suppression
	// (comment ignores off, exclude-imports off).
	Single map[string]map[string][]bufx.Annotation
}

// derivedSuffix names the kind of derivation in signatures of part K ("" for the plain scenes).
func (sc *scene) derivedSuffix() string {
	if sc.Derivation == nil {
		return ""
	}
	return "/" + sc.Derivation.shape()
}

// singletons measures result({r}) for every non-deprecated rule of every listed version.
func (e *env) singletons(sc *scene, versions []string, only stringSet) bool {
	sc.Single = map[string]map[string][]bufx.Annotation{}
	for _, v := range versions {
		t := e.tables(v, sc.Kind)
		m := map[string][]bufx.Annotation{}
		for id, ri := range t.Rules {
			if ri.Deprecated {
				continue
			}
			if only != nil && !only[id] {
				continue
			}
			c := cfg{Version: v, Type: sc.Kind, Use: []string{id}}
			if sc.Kind == "lint" {
				c.AllowComments = "off"
			}
			obs := e.observe(c, sc.Image, sc.Against)
			if obs.ParseErr != "" || obs.Err != "" {
				e.r.Violate(sc.Kind+"/singleton/error", "a single known rule cannot be run on its own: "+obs.ParseErr+obs.Err,
					violationCase{Oracle: "judge", Config: c, YAML: c.yaml(), Sources: sc.Sources})
				return false
			}
			for _, a := range obs.Anns {
				if a.Type != id {
					e.r.Violate(sc.Kind+"/singleton/foreign-annotation", fmt.Sprintf("rule %s alone reported an annotation of type %s", id, a.Type),
						violationCase{Oracle: "judge", Config: c, YAML: c.yaml(), Sources: sc.Sources, Observed: keysOf(obs.Anns)})
					return false
				}
				if sc.Kind == "lint" && sc.Src.Imports[a.Path] {
					e.r.Violate("lint/import-file-reported/singleton"+sc.derivedSuffix(), "an import-only file was reported by lint",
						violationCase{Oracle: "judge", Config: c, YAML: c.yaml(), Sources: sc.Sources, Observed: keysOf(obs.Anns), Derivation: sc.Derivation, Detail: annKey(a)})
					return false
				}
			}
			m[id] = obs.Anns
		}
		sc.Single[v] = m
	}
	return true
}

// outcome of one configuration: what was observed, what the model expects.
type outcome struct {
	C        cfg
	Obs      observation
	Judged   bool // model had an opinion and the implementation agreed on "no error"
	ObsSet   map[string]bufx.Annotation
	Selected stringSet
}

// judge runs one configuration and compares it with the model. Returns the outcome for the monotonicity pass.
func (e *env) judge(sc *scene, c cfg, tag string) outcome {
	r := e.r
	r.Eval(1)
	e.cnt.add(sc.Kind+".cases", 1)
	t := e.tablesFor(c)
	mc := c.model() // what the model evaluates (differs from c only for an empty module-level section)
	sel, unknown := t.selection(mc.Use, mc.Except)
	ioMap, unknown2 := t.ignoreOnly(mc.IgnoreOnly)
	unknown = append(unknown, unknown2...)
	obs := e.observe(c, sc.Image, sc.Against)
	out := outcome{C: c, Obs: obs, Selected: sel}
	vc := func(exp, got []string, detail string) violationCase {
		return violationCase{Oracle: "judge", Config: c, YAML: c.yaml(), Comments: sc.Src.Comments, Sources: sc.Sources, Expected: exp, Observed: got, Detail: detail, MapSeed: e.mapSeedPtr(), Derivation: sc.Derivation}
	}
	if obs.ParseErr != "" {
		r.Violate(sc.Kind+"/config-rejected-by-parser", "buf.yaml of known IDs and in-module paths was rejected: "+obs.ParseErr, vc(nil, nil, obs.ParseErr))
		return out
	}
	if len(unknown) > 0 {
		if obs.Err == "" {
			r.Violate("unknown-id/"+sc.Kind+"/accepted-by-check", "unknown ID accepted", vc(nil, nil, strings.Join(unknown, ",")))
		}
		return out
	}
	if len(sel) == 0 {
		e.cnt.add(sc.Kind+".empty_selection_unspecified", 1)
		if obs.Err != "" {
			return out
		}
	} else if obs.Err != "" {
		r.Violate(sc.Kind+"/unexpected-error", "check failed on a configuration of known IDs: "+obs.Err, vc(nil, nil, obs.Err))
		return out
	}
	// model: union of singletons of the selected rules minus exactly the suppressed ones
	single := sc.Single[c.Version]
	expected := map[string]bufx.Annotation{}
	reasons := map[string]suppression{}
	unspecified := map[string]bool{}
	firing := 0
	withoutExcept, _ := t.selection(mc.Use, nil)
	exceptRemoved := false
	for id := range withoutExcept {
		if !sel[id] && len(single[id]) > 0 {
			exceptRemoved = true
		}
	}
	for id := range sel {
		anns, ok := single[id]
		if !ok {
			r.Incomplete("no singleton result for selected rule " + id + " (" + c.Version + ")")
			return out
		}
		if len(anns) > 0 {
			firing++
		}
		for _, a := range anns {
			s := suppressed(mc, a, ioMap, sc.Src)
			switch s.Why {
			case "":
				expected[annKey(a)] = a
			case "unspecified-comment":
				unspecified[annKey(a)] = true
			default:
				reasons[annKey(a)] = s
			}
		}
	}
	out.ObsSet = annSet(obs.Anns)
	// import-only files are never reported (lint: always; breaking: with exclude-imports)
	if sc.Kind == "lint" || c.ExcludeImports {
		for _, a := range obs.Anns {
			if sc.Src.Imports[a.Path] {
				r.Violate(sc.Kind+"/import-file-reported"+sc.derivedSuffix(), "an annotation on an import-only file was reported", vc(nil, keysOf(obs.Anns), annKey(a)))
				return out
			}
		}
	}
	var extra, missing []string
	for k := range out.ObsSet {
		if _, ok := expected[k]; !ok && !unspecified[k] {
			extra = append(extra, k)
		}
	}
	for k := range expected {
		if _, ok := out.ObsSet[k]; !ok {
			missing = append(missing, k)
		}
	}
	sort.Strings(extra)
	sort.Strings(missing)
	if len(extra) > 0 || len(missing) > 0 {
		expKeys := make([]string, 0, len(expected))
		for k := range expected {
			expKeys = append(expKeys, k)
		}
		sort.Strings(expKeys)
		var sig, what string
		if len(extra) > 0 {
			a := out.ObsSet[extra[0]]
			cause := "not-in-any-selected-singleton"
			if s, ok := reasons[extra[0]]; ok {
				cause = s.Why + "-not-applied"
				if s.Relation != "" {
					cause += "/" + s.Relation
				}
				if s.Why == "ignore_only" {
					// two or more keys of the map stand for the rule of the annotation: name their roles
					var covering []string
					for _, e := range mc.IgnoreOnly {
						if x, ok := t.expand(e.ID); ok && x[a.Type] {
							covering = append(covering, t.classify(e.ID))
						}
					}
					if len(covering) >= 2 {
						sort.Strings(covering)
						cause += "/overlapping-keys/" + strings.Join(covering, "+")
					}
				}
			} else if !sel[a.Type] {
				cause = "unselected-rule-reported"
				for _, ex := range mc.Except {
					if s, ok := t.expand(ex); ok && s[a.Type] && withoutExcept[a.Type] {
						cause = "except-not-applied/" + t.classify(ex)
					}
				}
				if len(c.Plugins) > 0 {
					// several check delegates: does the delegate that owns the reporting rule own any selected rule?
					owner, ownsSelected := t.owner(a.Type), false
					for id := range sel {
						if t.owner(id) == owner {
							ownsSelected = true
						}
					}
					if !ownsSelected {
						// one defect, one signature: whatever emptied the delegate's share of the selection (use or except)
						role := "plugin"
						if owner == "builtin" {
							role = "builtin"
						}
						cause = "unselected-rule-reported/rule-of-delegate-without-selected-rule/" + role
					}
				}
			}
			sig = sc.Kind + "/union-minus/extra/" + cause
			what = "reported but not in the model result: " + extra[0]
		} else {
			a := expected[missing[0]]
			cause := explainMissing(mc, a, ioMap, sc.Src, t, out.ObsSet)
			sig = sc.Kind + "/union-minus/missing/" + cause
			what = "in the model result but not reported: " + missing[0]
		}
		r.Violate(sig, what, vc(expKeys, keysOf(obs.Anns), fmt.Sprintf("extra=%v missing=%v", extra, missing)))
		return out
	}
	if len(sel) == 0 {
		return out
	}
	out.Judged = true
	// coverage of the clauses
	e.pluginCoverage(c, t, sel, len(obs.Anns))
	counts := map[string]int{}
	for _, s := range reasons {
		counts[s.Why]++
		if s.Why == "comment" {
			counts["comment/"+s.Relation]++
		}
		if s.Relation == "against-file" {
			counts[s.Why+"/against-file"]++
		}
	}
	for _, why := range []string{"ignore", "ignore_only", "import"} {
		if counts[why+"/against-file"] > 0 {
			// suppressed although the current file of the annotation is not in scope: only the against file is
			e.cnt.add(sc.Kind+".against_file_only_"+why+"_removed_annotation", 1)
		}
	}
	for _, a := range obs.Anns {
		if sc.Kind == "breaking" && a.Path == "" {
			e.cnt.add("breaking.annotation_without_current_file_reported", 1)
			break
		}
	}
	if exceptRemoved {
		e.cnt.add(sc.Kind+".except_removed_annotation", 1)
	}
	if counts["ignore"] > 0 {
		e.cnt.add(sc.Kind+".ignore_removed_annotation", 1)
	}
	if counts["ignore_only"] > 0 {
		e.cnt.add(sc.Kind+".ignore_only_removed_annotation", 1)
	}
	if counts["comment"] > 0 {
		e.cnt.add("lint.comment_removed_annotation", 1)
	}
	if counts["comment/own"] > 0 {
		e.cnt.add("comment.own_suppressed", 1)
	}
	if counts["comment/ancestor"] > 0 {
		e.cnt.add("comment.ancestor_suppressed", 1)
	}
	if len(unspecified) > 0 {
		e.cnt.add("comment.lexical_only_unspecified", 1)
		for k := range unspecified {
			if _, reported := out.ObsSet[k]; reported {
				e.cnt.add("comment.lexical_only_observed_not_suppressed", 1)
			} else {
				e.cnt.add("comment.lexical_only_observed_suppressed", 1)
			}
			break
		}
	}
	if counts["import"] > 0 {
		if sc.Kind == "breaking" {
			e.cnt.add("breaking.exclude_imports_removed_annotation", 1)
		}
	}
	if sc.Kind == "breaking" && !c.ExcludeImports {
		for _, a := range obs.Anns {
			if sc.Src.Imports[a.Path] {
				e.cnt.add("breaking.import_reported_without_exclude_imports", 1)
				break
			}
		}
	}
	if firing >= 2 {
		e.cnt.add(sc.Kind+".union_of_two_or_more_rules", 1)
	}
	if firing > 0 || len(reasons) > 0 {
		r.Distinct(tag + "|" + c.key())
	}
	r.SampleEvery(int(e.caseNo.Add(1)), 20011, func() any {
		return map[string]any{"part": tag[:1], "config": c, "comments": sc.Src.Comments, "selected_rules": len(sel), "reported": len(obs.Anns), "suppressed_by_model": len(reasons)}
	})
	return out
}

// explainMissing names the structural reason why an annotation the model keeps may have been dropped.
func explainMissing(c cfg, a bufx.Annotation, ioMap map[string][]string, src *source, t *tables, observed map[string]bufx.Annotation) string {
	// path-based explanations first: they are tied to the configuration, not to the image
	for _, f := range src.filesOf(a) {
		wp := c.workspacePath(f.Path)
		for rule, paths := range ioMap {
			if rule != a.Type && underAny(wp, paths) {
				return "ignore_only-applied-to-other-rule"
			}
		}
		for _, p := range c.Ignore {
			if n := refNormalize(p); strings.HasPrefix(wp, n) {
				if len(c.Modules) > 0 && strings.HasPrefix(c.ModuleDir, n) {
					// part M: the path is a string prefix of the module DIRECTORY (the whole module went silent)
					return "ignore-path/string-prefix-match/of-module-directory"
				}
				return "ignore-path/string-prefix-match"
			}
		}
		for _, e := range c.IgnoreOnly {
			for _, p := range e.Paths {
				if s, ok := t.expand(e.ID); ok && s[a.Type] && strings.HasPrefix(wp, refNormalize(p)) {
					return "ignore_only-path/string-prefix-match"
				}
			}
		}
	}
	if c.Type == "lint" && len(src.Comments) > 0 {
		if elem, ok := src.element(a.Path, a.StartLine); ok {
			// most specific first: a comment that names this rule, then prefix-related IDs, then anything in scope
			for pass := 0; pass < 3; pass++ {
				if pass == 2 && ruleSilent(c, a, t, observed) != "" {
					break
				}
				for _, cm := range src.Comments {
					rel := src.relation(elem, cm.Name)
					inScope := rel == "own" || rel == "ancestor"
					for _, l := range cm.Lines {
						tok := commentToken(l)
						if tok == "" {
							continue
						}
						switch {
						case pass == 0 && tok == a.Type && !c.commentsAllowed() && (inScope || rel == "lexical-only"):
							return "comment-ignore/applied-although-disallowed"
						case pass == 0 && tok == a.Type && c.commentsAllowed() && !inScope:
							return "comment-ignore/out-of-scope-placement-suppresses/" + rel
						case pass == 1 && tok != a.Type && strings.HasPrefix(tok, a.Type) && inScope && c.commentsAllowed():
							return "comment-ignore/longer-id-suppresses/" + tok + "->" + a.Type
						case pass == 1 && tok != a.Type && strings.HasPrefix(a.Type, tok) && inScope && c.commentsAllowed():
							return "comment-ignore/shorter-id-suppresses/" + tok + "->" + a.Type
						case pass == 2 && tok != a.Type && inScope && c.commentsAllowed():
							return "comment-ignore/other-id-suppresses"
						}
					}
				}
			}
		}
	}
	if why := ruleSilent(c, a, t, observed); why != "" {
		return why
	}
	if src.annOnImport(a) {
		return "import-file-dropped-without-exclude-imports"
	}
	return "unexplained/" + t.classify(a.Type)
}

// ruleSilent: the rule of the missing annotation reported nothing at all, i.e. it probably did not run.
func ruleSilent(c cfg, a bufx.Annotation, t *tables, observed map[string]bufx.Annotation) string {
	for _, o := range observed {
		if o.Type == a.Type {
			return ""
		}
	}
	if len(c.Use) == 0 {
		return "selected-rule-silent/default-rule"
	}
	for _, u := range c.Use {
		if s, ok := t.expand(u); ok && s[a.Type] {
			return "selected-rule-silent/use=" + t.classify(u)
		}
	}
	return "selected-rule-silent"
}

// monotone checks, on observed results only: adding a suppression never adds an annotation and removes
// only annotations in its scope. base = the same configuration without the suppression.
func (e *env) monotone(sc *scene, base, with outcome, kind string, inScope func(a bufx.Annotation) bool) {
	if with.ObsSet == nil || base.ObsSet == nil {
		return
	}
	e.r.Eval(1)
	e.cnt.add("mono.pairs", 1)
	e.cnt.add("mono.pairs_"+kind, 1)
	for k, a := range with.ObsSet {
		if _, ok := base.ObsSet[k]; !ok {
			e.r.Violate("mono/"+sc.Kind+"/"+kind+"/adds-annotation", "adding a suppression added an annotation: "+annKey(a),
				violationCase{Oracle: "mono", Config: with.C, YAML: with.C.yaml() + "--- without:\n" + base.C.yaml(), Comments: sc.Src.Comments, Sources: sc.Sources, Detail: k, MapSeed: e.mapSeedPtr()})
			return
		}
	}
	for k, a := range base.ObsSet {
		if _, ok := with.ObsSet[k]; ok {
			continue
		}
		if !inScope(a) {
			detail := ""
			for _, cm := range sc.Src.Comments {
				for _, l := range cm.Lines {
					if tok := commentToken(l); kind == "comment" && tok != a.Type && strings.HasPrefix(tok, a.Type) {
						detail = "/longer-id/" + tok + "->" + a.Type
					}
				}
			}
			e.r.Violate("mono/"+sc.Kind+"/"+kind+"/removes-outside-scope"+detail, "a suppression removed an annotation outside its scope: "+annKey(a),
				violationCase{Oracle: "mono", Config: with.C, YAML: with.C.yaml() + "--- without:\n" + base.C.yaml(), Comments: sc.Src.Comments, Sources: sc.Sources, Detail: k, MapSeed: e.mapSeedPtr()})
			return
		}
	}
}

// ---------------------------------------------------------------------------------------------
// menus

type menu struct {
	IDs        []string // use menu
	ExceptIDs  []string // except menu (quick: a representative of every role; thorough: the use menu)
	Ignore     [][]string
	IgnoreOnly [][]kv
	UseMax     int
	ExceptMax  int
	// GridIgnore x GridIgnoreOnly: the full product of the first entries of the two menus is explored
	// (0 = none); every entry is always explored on its own, plus one combined case.
	GridIgnore, GridIgnoreOnly int
}

func pickDeprecated(t *tables, max int) (rules []string, cat string) {
	var with, without []string
	for id, ri := range t.Rules {
		if ri.Deprecated {
			if len(ri.Repl) > 0 {
				with = append(with, id)
			} else {
				without = append(without, id)
			}
		}
	}
	sort.Strings(with)
	sort.Strings(without)
	rules = append(with, without...)
	if len(rules) > max {
		rules = rules[:max]
	}
	var cats []string
	for id, ci := range t.Cats {
		if ci.Deprecated {
			if _, ok := t.expand(id); ok {
				cats = append(cats, id)
			}
		}
	}
	sort.Strings(cats)
	if len(cats) > 0 {
		cat = cats[0]
	}
	return rules, cat
}

var lintPlanted = []string{"ENUM_PASCAL_CASE", "ENUM_VALUE_PREFIX", "FIELD_LOWER_SNAKE_CASE", "PACKAGE_DIRECTORY_MATCH", "COMMENT_ENUM", "COMMENT_ENUM_VALUE"}
var breakingPlanted = []string{"FIELD_NO_DELETE", "FIELD_SAME_TYPE", "ENUM_VALUE_NO_DELETE", "MESSAGE_NO_DELETE", "RPC_NO_DELETE", "FIELD_SAME_CARDINALITY"}

func (e *env) lintMenu(version string) menu {
	t := e.tables(version, "lint")
	depRules, depCat := pickDeprecated(t, 1)
	m := menu{UseMax: 2, ExceptMax: 1}
	m.IDs = append(m.IDs, lintPlanted...)
	m.IDs = append(m.IDs, "MINIMAL", "BASIC", "STANDARD", "COMMENTS")
	m.IDs = append(m.IDs, depRules...)
	if depCat != "" {
		m.IDs = append(m.IDs, depCat)
	}
	m.ExceptIDs = []string{"FIELD_LOWER_SNAKE_CASE", "BASIC", "COMMENTS"}
	if depCat != "" {
		m.ExceptIDs = append(m.ExceptIDs, depCat)
	} else {
		m.ExceptIDs = append(m.ExceptIDs, depRules...)
	}
	if !e.r.Quick() {
		m.ExceptIDs = m.IDs
	}
	m.Ignore = [][]string{nil, {lintFileA}, {"b"}, {lintFileC}, {"a/v"}}
	depKey := depCat
	if depKey == "" && len(depRules) > 0 {
		depKey = depRules[0]
	}
	m.IgnoreOnly = [][]kv{nil,
		{{ID: "FIELD_LOWER_SNAKE_CASE", Paths: []string{lintFileA}}},
		{{ID: "BASIC", Paths: []string{"b"}}},
	}
	if depKey != "" {
		m.IgnoreOnly = append(m.IgnoreOnly, []kv{{ID: depKey, Paths: []string{lintFileA}}})
	}
	if !e.r.Quick() {
		if version == "v2" {
			m.GridIgnore, m.GridIgnoreOnly = len(m.Ignore), len(m.IgnoreOnly)
		}
		m.Ignore = append(m.Ignore, []string{"./b/v1/"}, []string{lintFileA, "b"}, []string{"a/v1/../v1"})
		m.IgnoreOnly = append(m.IgnoreOnly,
			[]kv{{ID: "COMMENTS", Paths: []string{"b"}}, {ID: "FIELD_LOWER_SNAKE_CASE", Paths: []string{lintFileA}}},
			[]kv{{ID: "COMMENT_ENUM", Paths: []string{"a/v", lintFileC}}},
		)
		if len(depRules) > 0 {
			m.IgnoreOnly = append(m.IgnoreOnly, []kv{{ID: depRules[0], Paths: []string{"a"}}})
		}
	}
	return m
}

func (e *env) breakingMenu(version string) menu {
	t := e.tables(version, "breaking")
	depRules, _ := pickDeprecated(t, 2)
	m := menu{UseMax: 2, ExceptMax: 1}
	m.IDs = append(m.IDs, breakingPlanted...)
	m.IDs = append(m.IDs, "FILE", "PACKAGE", "WIRE_JSON", "WIRE")
	m.IDs = append(m.IDs, depRules...)
	m.ExceptIDs = []string{"FIELD_NO_DELETE", "FIELD_SAME_TYPE", "PACKAGE", "WIRE"}
	m.ExceptIDs = append(m.ExceptIDs, depRules...)
	if !e.r.Quick() {
		m.ExceptIDs = m.IDs
	}
	m.Ignore = [][]string{nil, {"a/v1/x.proto"}, {"b"}, {"c/v1/z.proto"}, {"a/v"}}
	m.IgnoreOnly = [][]kv{nil,
		{{ID: "FIELD_NO_DELETE", Paths: []string{"a/v1/x.proto"}}},
		{{ID: "PACKAGE", Paths: []string{"b"}}},
	}
	if len(depRules) > 0 {
		m.IgnoreOnly = append(m.IgnoreOnly, []kv{{ID: depRules[0], Paths: []string{"a/v1/x.proto"}}})
	}
	if !e.r.Quick() {
		if version == "v2" {
			m.GridIgnore, m.GridIgnoreOnly = len(m.Ignore), len(m.IgnoreOnly)
		}
		m.Ignore = append(m.Ignore, []string{"./b/v1/"}, []string{"a/v1/x.proto", "c"})
		m.IgnoreOnly = append(m.IgnoreOnly,
			[]kv{{ID: "FIELD_SAME_TYPE", Paths: []string{"c"}}, {ID: "WIRE", Paths: []string{"b"}}},
			[]kv{{ID: "ENUM_VALUE_NO_DELETE", Paths: []string{"a/v", "c/v1/z.proto"}}},
		)
	}
	return m
}

func subsetsOf(ids []string, max int) [][]string {
	var out [][]string
	for _, s := range enum.Subsets(len(ids), 0, max) {
		x := make([]string, len(s))
		for i, j := range s {
			x[i] = ids[j]
		}
		out = append(out, x)
	}
	return out
}

type suppressionCombo struct {
	Ignore     []string
	IgnoreOnly []kv
}

func (m menu) combos() []suppressionCombo {
	var out []suppressionCombo
	seen := map[string]bool{}
	add := func(c suppressionCombo) {
		k := fmt.Sprintf("%v|%v", c.Ignore, c.IgnoreOnly)
		if !seen[k] {
			seen[k] = true
			out = append(out, c)
		}
	}
	for _, ig := range m.Ignore {
		add(suppressionCombo{ig, nil})
	}
	for _, io := range m.IgnoreOnly {
		add(suppressionCombo{nil, io})
	}
	// one combined case so that the two maps meet at least once per (use, except)
	if len(m.Ignore) > 2 && len(m.IgnoreOnly) > 1 {
		add(suppressionCombo{m.Ignore[2], m.IgnoreOnly[1]})
	}
	for _, ig := range m.Ignore[:min(m.GridIgnore, len(m.Ignore))] {
		for _, io := range m.IgnoreOnly[:min(m.GridIgnoreOnly, len(m.IgnoreOnly))] {
			add(suppressionCombo{ig, io})
		}
	}
	return out
}

// exploreGrid runs use x except x (ignore, ignore_only) [x exclude-imports] for one scene and version,
// judging every configuration and checking monotonicity between neighbours.
func (e *env) exploreGrid(sc *scene, versions []string, menuOf func(string) menu, tag string) {
	e.exploreGridOn(sc, versions, menuOf, tag, cfg{})
}

// exploreGridOn: as exploreGrid; every configuration additionally carries the plugins / disable_builtin of base.
func (e *env) exploreGridOn(sc *scene, versions []string, menuOf func(string) menu, tag string, base cfg) {
	r := e.r
	type job struct {
		version string
		use     []string
	}
	var jobs []job
	sizes := map[string]any{}
	for _, v := range versions {
		m := menuOf(v)
		uses := subsetsOf(m.IDs, m.UseMax)
		for _, u := range uses {
			jobs = append(jobs, job{v, u})
		}
		sizes[v] = map[string]any{"menu": m.IDs, "use_subsets": len(uses), "except_menu": m.ExceptIDs, "except_subsets": len(subsetsOf(m.ExceptIDs, m.ExceptMax)), "ignore": m.Ignore, "ignore_only": m.IgnoreOnly, "suppression_combos": len(m.combos())}
	}
	r.Set(tag+"_menus", sizes)
	r.ParallelFor(len(jobs), 0, func(i int) {
		j := jobs[i]
		m := menuOf(j.version)
		t := e.tablesFor(cfg{Version: j.version, Type: sc.Kind, Plugins: base.Plugins, DisableBuiltin: base.DisableBuiltin})
		excepts := subsetsOf(m.ExceptIDs, m.ExceptMax)
		combos := m.combos()
		xis := []bool{false}
		if sc.Kind == "breaking" {
			xis = []bool{false, true}
		}
		res := map[string]outcome{}
		key := func(ex []string, sc suppressionCombo, xi bool) string {
			return fmt.Sprintf("%v|%v|%v|%v", ex, sc.Ignore, sc.IgnoreOnly, xi)
		}
		for _, ex := range excepts {
			for _, co := range combos {
				for _, xi := range xis {
					c := cfg{Version: j.version, Type: sc.Kind, Use: j.use, Except: ex, Ignore: co.Ignore, IgnoreOnly: co.IgnoreOnly, ExcludeImports: xi,
						Plugins: base.Plugins, DisableBuiltin: base.DisableBuiltin, AllowComments: base.AllowComments}
					res[key(ex, co, xi)] = e.judge(sc, c, tag)
				}
			}
		}
		// monotonicity on observed results
		for _, ex := range excepts {
			for _, co := range combos {
				for _, xi := range xis {
					with := res[key(ex, co, xi)]
					if len(co.Ignore) > 0 {
						if base, ok := res[key(ex, suppressionCombo{nil, co.IgnoreOnly}, xi)]; ok {
							paths := co.Ignore
							e.monotone(sc, base, with, "ignore", func(a bufx.Annotation) bool { return sc.Src.annUnderAny(with.C, a, paths) })
						}
					}
					if len(co.IgnoreOnly) > 0 {
						if base, ok := res[key(ex, suppressionCombo{co.Ignore, nil}, xi)]; ok {
							ioMap, _ := t.ignoreOnly(co.IgnoreOnly)
							e.monotone(sc, base, with, "ignore_only", func(a bufx.Annotation) bool { return sc.Src.annUnderAny(with.C, a, ioMap[a.Type]) })
						}
					}
					if len(ex) > 0 {
						if base, ok := res[key(nil, co, xi)]; ok {
							removed := stringSet{}
							for _, id := range ex {
								s, _ := t.expand(id)
								for k := range s {
									removed[k] = true
								}
							}
							e.monotone(sc, base, with, "except", func(a bufx.Annotation) bool { return removed[a.Type] })
						}
					}
					if xi {
						if base, ok := res[key(ex, co, false)]; ok {
							e.monotone(sc, base, with, "exclude-imports", func(a bufx.Annotation) bool { return sc.Src.annOnImport(a) })
						}
					}
				}
			}
		}
	})
}

// ---------------------------------------------------------------------------------------------
// Part B: lint configurations on the base image (which carries two fixed comment ignores, so that the
// version default of allow_comment_ignores takes part in every configuration).

var baseLintComments = []comment{
	{Name: "x.inner.enum", Lines: []string{"buf:lint:ignore ENUM_PASCAL_CASE"}},
	{Name: "y.enum", Lines: []string{"buf:lint:ignore ENUM_VALUE_PREFIX"}},
}

func (e *env) lintScene(comments []comment, versions []string, only stringSet) (*scene, bool) {
	return e.lintSceneIn("", comments, versions, only)
}

// lintSceneIn: the module in a sub-directory of a v2 workspace ("" = at the root).
func (e *env) lintSceneIn(moduleDir string, comments []comment, versions []string, only stringSet) (*scene, bool) {
	targets := lintTargets
	if moduleDir != "" {
		targets = []string{moduleDir + "/a", moduleDir + "/b"}
	}
	bi, err := buildFilesIn(e.ctx, moduleDir, lintFixture(), comments, targets)
	if err != nil {
		e.r.Incomplete("lint fixture does not build: " + err.Error())
		return nil, false
	}
	if bi.Imports[lintFileA] || bi.Imports[lintFileB] || !bi.Imports[lintFileC] {
		e.r.Incomplete(fmt.Sprintf("lint fixture: unexpected import flags %v", bi.Imports))
		return nil, false
	}
	sc := &scene{Kind: "lint", Image: bi.Image, Src: &source{Spans: bi.Spans, Comments: comments, Imports: bi.Imports}, Sources: bi.Sources}
	if !e.singletons(sc, versions, only) {
		return nil, false
	}
	return sc, true
}

func partB(e *env, versions []string) {
	sc, ok := e.lintScene(baseLintComments, versions, nil)
	if !ok {
		return
	}
	// the planted rules must fire, in both target files where planned, and the import file must contain
	// the same kinds of violations (checked by linting it as a target)
	for _, v := range versions {
		for _, id := range lintPlanted {
			if len(sc.Single[v][id]) == 0 {
				e.r.Incomplete("planted lint rule does not fire: " + id + " " + v)
			}
		}
	}
	asTarget, err := buildFiles(e.ctx, lintFixture(), nil, nil)
	if err == nil {
		c := cfg{Version: "v2", Type: "lint", Use: []string{"FIELD_LOWER_SNAKE_CASE", "ENUM_PASCAL_CASE", "COMMENT_ENUM"}}
		obs := e.observe(c, asTarget.Image, nil)
		for _, a := range obs.Anns {
			if a.Path == lintFileC {
				e.cnt.add("lint.import_file_had_singleton_candidates", 1)
			}
		}
	}
	e.exploreGrid(sc, versions, e.lintMenu, "B")
}

// ---------------------------------------------------------------------------------------------
// Part C: comment-ignore placements x IDs x allow on/off/default.

func partC(e *env, versions []string) {
	r := e.r
	placements := []string{
		"x.syntax", "x.outer", "x.inner", "x.inner.field", "x.inner.enum", "x.inner.enum.v0",
		"x.inner.kind", "x.oneof", "y.package", "y.enum", "y.enum.v1", "y.req", "z.zed.enum",
	}
	if !r.Quick() {
		placements = append(placements, "x.package", "x.import", "x.inner.enum.v1", "x.oneof.field", "x.outer.inner", "x.outer.zed", "y.syntax", "y.enum.v0",
			"y.req.field", "y.resp", "y.service", "y.service.rpc", "z.zed", "z.zed.field")
	}
	// ID texts: the planted rules, every rule ID that is a strict string prefix/extension of one of them,
	// and a few non-ID texts.
	idSet := stringSet{}
	prefixPairs := stringSet{}
	for _, id := range lintPlanted {
		idSet[id] = true
	}
	for _, v := range allVersions {
		t := e.tables(v.Name, "lint")
		for a := range t.Rules {
			for b := range t.Rules {
				if a != b && strings.HasPrefix(b, a) {
					prefixPairs[a+"<"+b] = true
					for _, p := range lintPlanted {
						if p == a || p == b {
							idSet[a] = true
							idSet[b] = true
						}
					}
				}
			}
		}
	}
	r.Set("lint_rule_id_prefix_pairs", prefixPairs.sorted())
	texts := idSet.sorted()
	texts = append(texts,
		"ENUM_VALUE",                        // a strict prefix of a rule ID that is not an ID
		"COMMENT_ENUM_VALUE, COMMENT_FIELD", // documented: only the first ID counts
		"FIELD_LOWER_SNAKE_CASE because of reasons",
		"field_lower_snake_case",
	)
	styles := []string{"alone", "after-doc"}
	if !r.Quick() {
		styles = append(styles, "before-doc")
	}
	type variant struct {
		placement, text, style string
	}
	var variants []variant
	for _, p := range placements {
		for _, t := range texts {
			for _, s := range styles {
				if s != "alone" && !(strings.HasPrefix(p, "x.inner.enum") || p == "y.enum" || (!r.Quick() && (p == "x.inner" || p == "y.enum.v1"))) {
					continue // the multi-line styles are explored on the enum-related placements
				}
				variants = append(variants, variant{p, t, s})
			}
		}
	}
	r.Set("comment_placements", placements)
	r.Set("comment_id_texts", texts)
	r.Set("comment_styles", styles)
	r.Set("comment_variants", len(variants))
	allows := []string{"", "on", "off"}
	r.ParallelFor(len(variants), 0, func(i int) {
		vr := variants[i]
		line := commentPrefix + " " + vr.text
		var lines []string
		switch vr.style {
		case "alone":
			lines = []string{line}
		case "after-doc":
			lines = []string{"Some documentation.", line}
		case "before-doc":
			lines = []string{line, "Some documentation."}
		}
		comments := []comment{{Name: vr.placement, Lines: lines}}
		tok := commentToken(line)
		// rules whose singletons are needed: planted + the token + COMMENTS + BASIC members
		sc, ok := e.lintScene(comments, versions, nil)
		if !ok {
			return
		}
		// the same sources without the directive line: no rule may report more, and (comment ignores off) none less
		if base, ok := e.baseScene(comments, versions, nil); ok {
			e.crossImage(sc, base, versions)
		}
		for _, v := range versions {
			t := e.tables(v, "lint")
			uses := [][]string{lintPlanted, {"COMMENTS", "BASIC"}}
			if !r.Quick() {
				uses = append(uses, nil) // the default rules
			}
			if _, isRule := t.Rules[tok]; isRule {
				uses = append(uses, []string{tok})
			}
			for _, use := range uses {
				res := map[string]outcome{}
				for _, allow := range allows {
					c := cfg{Version: v, Type: "lint", Use: use, AllowComments: allow}
					res[allow] = e.judge(sc, c, "C|"+vr.placement+"|"+vr.text+"|"+vr.style)
				}
				// one configuration where the comment meets ignore_only and except
				c := cfg{Version: v, Type: "lint", Use: lintPlanted, Except: []string{"ENUM_PASCAL_CASE"}, AllowComments: "on",
					IgnoreOnly: []kv{{ID: "COMMENT_ENUM", Paths: []string{"b"}}}}
				e.judge(sc, c, "C|"+vr.placement+"|"+vr.text+"|"+vr.style)
				// clause coverage and monotonicity of the comment suppression (allow on vs off, same image)
				on, off := res["on"], res["off"]
				if on.ObsSet != nil && off.ObsSet != nil {
					e.monotone(sc, off, on, "comment", func(a bufx.Annotation) bool {
						elem, ok := sc.Src.element(a.Path, a.StartLine)
						if !ok {
							return false
						}
						rel := sc.Src.relation(elem, vr.placement)
						return tok == a.Type && (rel == "own" || rel == "ancestor" || rel == "lexical-only")
					})
					e.commentCoverage(sc, vr.placement, tok, on, off, res[""], v)
				}
			}
		}
	})
}

// commentCoverage counts which comment clauses a variant exercised (on results already judged equal to the model).
func (e *env) commentCoverage(sc *scene, placement, tok string, on, off, dflt outcome, version string) {
	if !on.Judged || !off.Judged {
		return
	}
	t := e.tables(version, "lint")
	_, tokIsRule := t.Rules[tok]
	for k, a := range off.ObsSet {
		elem, ok := sc.Src.element(a.Path, a.StartLine)
		if !ok {
			continue
		}
		rel := sc.Src.relation(elem, placement)
		_, stillThere := on.ObsSet[k]
		inScope := rel == "own" || rel == "ancestor"
		if tok == a.Type && !inScope && rel != "lexical-only" && stillThere {
			e.cnt.add("comment.unrelated_not_suppressed", 1)
		}
		if tok == a.Type && inScope {
			// allow off kept it
			e.cnt.add("comment.disallowed_not_suppressed", 1)
			if dflt.Judged {
				if _, there := dflt.ObsSet[k]; there == (version != "v2") {
					e.cnt.add("comment.version_default_"+version, 1)
				}
			}
		}
		if tok != a.Type && inScope && stillThere {
			e.cnt.add("comment.other_id_not_suppressed", 1)
			if tokIsRule && (strings.HasPrefix(tok, a.Type) || strings.HasPrefix(a.Type, tok)) {
				e.cnt.add("comment.prefix_related_id_not_suppressed", 1)
			}
		}
		if tok != a.Type && inScope && (strings.HasPrefix(tok, a.Type) || strings.HasPrefix(a.Type, tok)) {
			e.cnt.add("comment.prefix_related_id_cases", 1)
		}
	}
}

// ---------------------------------------------------------------------------------------------
// Part D: breaking configurations x exclude-imports.

func (e *env) breakingScene(versions []string) (*scene, bool) {
	old, new := breakingFixture()
	moved, err := locateMoved(old, new)
	if err != nil {
		e.r.Incomplete("breaking fixture: " + err.Error())
		return nil, false
	}
	oldImage, oldImports, err := buildPlain(e.ctx, old, lintTargets)
	if err != nil {
		e.r.Incomplete("breaking fixture (old) does not build: " + err.Error())
		return nil, false
	}
	newImage, imports, err := buildPlain(e.ctx, new, lintTargets)
	if err != nil {
		e.r.Incomplete("breaking fixture (new) does not build: " + err.Error())
		return nil, false
	}
	if imports["a/v1/x.proto"] || imports["b/v1/y.proto"] || !imports["c/v1/z.proto"] || !imports["c/v1/bm.proto"] || imports["b/v1/m.proto"] ||
		imports["a/v1/zm.proto"] || imports["a/v1/svc.proto"] || imports["a/v1/x2.proto"] {
		e.r.Incomplete(fmt.Sprintf("breaking fixture: unexpected import flags %v", imports))
		return nil, false
	}
	if oldImports["a/v1/x.proto"] || oldImports["b/v1/y.proto"] || !oldImports["c/v1/z.proto"] || oldImports[breakingDeletedFile] {
		e.r.Incomplete(fmt.Sprintf("breaking fixture: unexpected import flags in the old image %v", oldImports))
		return nil, false
	}
	if _, ok := imports[breakingDeletedFile]; ok {
		e.r.Incomplete("breaking fixture: the deleted file is in the new image")
		return nil, false
	}
	sources := map[string]string{}
	for p, s := range old {
		sources["old/"+p] = s
	}
	for p, s := range new {
		sources["new/"+p] = s
	}
	sc := &scene{Kind: "breaking", Image: newImage, Against: oldImage, Sources: sources,
		Src: &source{Imports: imports, AgainstImports: oldImports, Moved: moved, DeletedFile: breakingDeletedFile}}
	if !e.singletons(sc, versions, nil) {
		return nil, false
	}
	return sc, true
}

func partD(e *env, versions []string) {
	sc, ok := e.breakingScene(versions)
	if !ok {
		return
	}
	for _, v := range versions {
		for _, id := range breakingPlanted {
			if len(sc.Single[v][id]) == 0 {
				e.r.Incomplete("planted breaking rule does not fire: " + id + " " + v)
			}
		}
	}
	e.exploreGrid(sc, versions, e.breakingMenu, "D")
}

// ---------------------------------------------------------------------------------------------
// Part E: the module lives in a sub-directory of a v2 workspace: ignore / ignore_only paths are written
// relative to the workspace, image paths are relative to the module.

func partE(e *env) {
	const dir = "proto"
	only := stringSet{}
	for _, id := range lintPlanted {
		only[id] = true
	}
	sc, ok := e.lintSceneIn(dir, nil, []string{"v2"}, only)
	if !ok {
		return
	}
	type pathCase struct {
		path     string
		inModule bool
		wholeMod bool
	}
	paths := []pathCase{
		{dir + "/" + lintFileA, true, false},
		{dir + "/b", true, false},
		{dir + "/b/v1/", true, false},
		{dir + "/a/v", true, false},
		{"a", false, false}, // same name as a module-relative directory, but outside the module
		{"b/v1/y.proto", false, false},
		{dir + "x/b", false, false}, // sibling directory whose name extends the module directory name
		{dir, true, true},           // the module directory itself (lint off for the module)
	}
	var cases []cfg
	for _, perModule := range []bool{false, true} {
		base := cfg{Version: "v2", Type: "lint", Use: lintPlanted, ModuleDir: dir, PerModule: perModule}
		cases = append(cases, base)
		for _, p := range paths {
			if perModule && !p.inModule {
				continue // a module-specific section must stay inside the module: rejected by the parser by design
			}
			c := base
			c.Ignore = []string{p.path}
			cases = append(cases, c)
			if p.wholeMod {
				continue // only meaningful for ignore
			}
			c = base
			c.IgnoreOnly = []kv{{ID: "FIELD_LOWER_SNAKE_CASE", Paths: []string{p.path}}}
			cases = append(cases, c)
			c = base
			c.IgnoreOnly = []kv{{ID: "COMMENTS", Paths: []string{p.path}}, {ID: "BASIC", Paths: []string{dir + "/" + lintFileA}}}
			c.Except = []string{"ENUM_PASCAL_CASE"}
			cases = append(cases, c)
		}
	}
	e.r.Set("subdir_module_cases", len(cases))
	e.r.ParallelFor(len(cases), 0, func(i int) {
		out := e.judge(sc, cases[i], "E")
		if out.Judged {
			e.cnt.add("subdir.cases", 1)
			base := cfg{Version: "v2", Type: "lint", Use: cases[i].Use, Except: cases[i].Except, ModuleDir: dir, PerModule: cases[i].PerModule}
			if len(cases[i].Ignore)+len(cases[i].IgnoreOnly) > 0 {
				b := e.judge(sc, base, "E")
				if b.ObsSet != nil && len(b.ObsSet) > len(out.ObsSet) {
					e.cnt.add("subdir.path_removed_annotation", 1)
				}
				if b.ObsSet != nil && len(b.ObsSet) == len(out.ObsSet) {
					e.cnt.add("subdir.path_outside_or_nonmatching_kept_all", 1)
				}
			}
		}
	})
}
