package c19

// Round 4: the map iteration seed as an enumerated dimension.
//
// Go starts every `range` over a map at a random bucket and a random in-bucket offset. Code that derives
// which token is sent from such an iteration gives an answer that differs from run to run; one execution
// may look right. The driver is therefore built with the runtime overlay overlay/mapseed.json (build tag
// `mapseed`, see seed_on.go), which makes the start position a process-wide setting, and the phases whose
// outcome could depend on it are run once per seed:
//
//   - the whole run executes under seed 0 (start at bucket 0, offset 0: for a map of <= 8 entries that is
//     insertion order), so that the verdict of every phase is reproducible;
//   - phases A, B, K, S, D replay every configuration that binds two or more hosts (a one-entry map has only
//     one iteration order) under seeds 1..numMapSeeds-1 as well. A map of <= 8 entries lives in one bucket;
//     the 8 seeds are the 8 start offsets, i.e. every entry is the first one visited under some seed.
//
// The setting is changed only between ParallelFor loops (never inside one).

const numMapSeeds = 8

type seedObs struct {
	seed int
	got  string
}

// mapSeedLive checks that the overlay is built in and steers iteration: a two-entry map must start with
// its first entry under seed 0 and with its second under seed 1, every time.
func mapSeedLive() bool {
	if !mapSeedBuilt() {
		return false
	}
	m := make(map[string]int)
	m["first"] = 1
	m["second"] = 2
	firstKey := func() string {
		for k := range m {
			return k
		}
		return ""
	}
	ok := true
	for rep := 0; rep < 64; rep++ {
		setMapSeed(0, true)
		a := firstKey()
		setMapSeed(1, true)
		b := firstKey()
		setMapSeed(5, true) // empty slot: wraps around to the first entry
		w := firstKey()
		ok = ok && a == "first" && b == "second" && w == "first"
	}
	setMapSeed(0, true)
	return ok
}

// acrossSeeds remembers the answer of one lookup the first time it is made and compares every later
// answer (a second call in the same pass, the same lookup under another map iteration seed) with it.
// A key is touched by one worker per pass, and passes are separated by the ParallelFor barrier.
func (c *checker) acrossSeeds(key, got string) (seedObs, bool) {
	c.seedMu.Lock()
	defer c.seedMu.Unlock()
	o, ok := c.seedSeen[key]
	if !ok {
		c.seedSeen[key] = seedObs{seed: c.seed, got: got}
		return seedObs{}, false
	}
	c.lookAcrossSeeds.Add(1)
	return o, o.got != got
}

// underOtherSeeds runs f(0..n-1) once under every map iteration seed but 0 (the seed of the main pass).
func (c *checker) underOtherSeeds(n int, f func(i int)) {
	if !c.seedLive || n == 0 {
		return
	}
	defer func() {
		c.seed = 0
		setMapSeed(0, true)
	}()
	for seed := 1; seed < numMapSeeds; seed++ {
		if c.r.Expired() {
			return
		}
		c.seed = seed
		setMapSeed(uint64(seed), true)
		c.r.ParallelFor(n, 0, f)
		c.multiReplayed.Add(int64(n))
	}
}
