// Package c19: credentials are only sent to the registry they were configured for.
//
// Model checking of the credential configuration language: every string over a small alphabet (up
// to a length bound) is a candidate BUF_TOKEN; the reference model reftoken (recogniser + sentence
// generator, cross-checked against each other) says which configuration the string denotes or that
// it is malformed; every (configuration, request host) lookup is replayed on buf's real providers.
// The same is done for generated .netrc files (refnetrc), for the provider chain behind the real
// authorization interceptor and connectclient.Make with a recording in-process HTTP client, and
// end to end through the in-process CLI (`buf registry whoami`) against loopback HTTP servers
// standing in for three registries.
package c19

import (
	"bytes"
	"context"
	"fmt"
	"hash/fnv"
	"io"
	"net/http"
	"net/http/httptest"
	"os"
	"path/filepath"
	"sort"
	"strings"
	"sync"
	"sync/atomic"
	"time"

	"connectrpc.com/connect"
	"github.com/bufbuild/buf/private/bufpkg/bufconnect"
	"github.com/bufbuild/buf/private/gen/proto/connect/buf/alpha/registry/v1alpha1/registryv1alpha1connect"
	registryv1alpha1 "github.com/bufbuild/buf/private/gen/proto/go/buf/alpha/registry/v1alpha1"
	"github.com/bufbuild/buf/private/pkg/app"
	"github.com/bufbuild/buf/private/pkg/connectclient"
	"github.com/bufbuild/buf/private/pkg/netrc"
	"github.com/bufbuild/bufverif/internal/bufx"
	"github.com/bufbuild/bufverif/internal/evid"
	"google.golang.org/protobuf/proto"
)

func init() {
	evid.Register(&evid.Check{ID: "C19", Level: "model_checking", Run: run,
		QuickBudget: 300 * time.Second, ThoroughBudget: 14 * time.Minute})
}

// ---------------------------------------------------------------------------------------------
// shared state of one run

type checker struct {
	r       *evid.Run
	scratch string
	fds     *fdGuard

	statesMu sync.Mutex
	states   map[uint64]struct{}

	// clause counters
	envStrings, envNone, envSingle, envMap, envReject, envRejectPartly    atomic.Int64
	envGreyRejected, envGreyAccepted                                      atomic.Int64
	lookTokenForHost, lookHostless, lookNoneNothingConfigured, lookNoLeak atomic.Int64
	selfChecked                                                           atomic.Int64
	nNamed, nDefault, nNamedNoPassword, nNone                             atomic.Int64
	chEnvWins, chEnvOnly, chNetrcUsed, chNeither, chEnvRejected           atomic.Int64
	chNoLeakEnv, chNoLeakNetrc                                            atomic.Int64
	e2eRuns, e2eRejected, e2eHeader, e2eNoHeader, e2eEnvWins, e2eNetrc    atomic.Int64
	e2eNoLeak                                                             atomic.Int64
	fSchedules, fOverlapDifferentTokens                                   atomic.Int64

	// round 4: case variants of host names, map iteration seeds (mapseeds.go)
	seed                                                                int  // map iteration seed of the pass that is running (set between ParallelFor loops only)
	seedLive                                                            bool // the runtime overlay is built in and works
	seedMu                                                              sync.Mutex
	seedSeen                                                            map[string]seedObs
	envFoldDup, envFoldDupRejected, envFoldDupAccepted                  atomic.Int64
	lookCaseVariantOnly, lookCaseZoneExact, lookCaseZoneFolded          atomic.Int64
	lookAmbiguous, lookAcrossSeeds, multiReplayed, chCaseVariantRequest atomic.Int64
	nCaseZone, nCaseZoneExact                                           atomic.Int64
}

func (c *checker) addStates(keys []string) {
	c.statesMu.Lock()
	for _, k := range keys {
		h := fnv.New64a()
		h.Write([]byte(k))
		c.states[h.Sum64()] = struct{}{}
	}
	c.statesMu.Unlock()
}

func (c *checker) lookup(n int) {
	c.r.Eval(n)
	c.r.Transitions.Add(int64(n))
	c.r.TracesValidated.Add(int64(n))
}

// Case is the written-out form of one explored case.
type Case struct {
	Phase       string   `json:"phase"`
	Constructor string   `json:"constructor,omitempty"`
	BufToken    string   `json:"buf_token"`
	Netrc       string   `json:"netrc,omitempty"`
	RequestHost string   `json:"request_host,omitempty"`
	Model       string   `json:"model"`
	Want        string   `json:"want_token"`
	Got         string   `json:"got_token"`
	Detail      string   `json:"detail,omitempty"`
	Sent        []string `json:"sent,omitempty"`
	Schedule    string   `json:"schedule,omitempty"` // phase F: config variant, thread hosts and step order
}

// ---------------------------------------------------------------------------------------------
// enumeration of all strings over a symbol alphabet

func pow(b, e int) int {
	n := 1
	for i := 0; i < e; i++ {
		n *= b
	}
	return n
}

// forAllStrings calls f(globalIndex, nsyms, text) for every sequence of at most maxLen symbols, in
// parallel, shortest first. done is called once per chunk so that callers can flush local state.
func forAllStrings(r *evid.Run, syms []string, maxLen int, f func(local *localState, idx, nsyms int, s string), done func(local *localState)) int {
	k := len(syms)
	starts := make([]int, maxLen+2)
	for l := 0; l <= maxLen; l++ {
		starts[l+1] = starts[l] + pow(k, l)
	}
	total := starts[maxLen+1]
	const chunk = 2048
	nChunks := (total + chunk - 1) / chunk
	r.ParallelFor(nChunks, 0, func(ci int) {
		local := &localState{}
		var sb strings.Builder
		digits := make([]int, maxLen)
		for idx := ci * chunk; idx < (ci+1)*chunk && idx < total; idx++ {
			l := sort.SearchInts(starts, idx+1) - 1
			off := idx - starts[l]
			for p := l - 1; p >= 0; p-- {
				digits[p] = off % k
				off /= k
			}
			sb.Reset()
			for p := 0; p < l; p++ {
				sb.WriteString(syms[digits[p]])
			}
			f(local, idx, l, sb.String())
		}
		done(local)
	})
	return total
}

type localState struct {
	states []string
	multi  []string
}

// ---------------------------------------------------------------------------------------------
// the implementation under test: env providers

type ctor struct {
	name string
	new  func(s string) (bufconnect.TokenProvider, error)
}

var ctors = []ctor{
	{"NewTokenProviderFromContainer", func(s string) (bufconnect.TokenProvider, error) {
		return bufconnect.NewTokenProviderFromContainer(app.NewEnvContainer(map[string]string{"BUF_TOKEN": s}))
	}},
	{"NewTokenProviderFromString", bufconnect.NewTokenProviderFromString},
}

// ownerFor picks, among the hosts a token is configured for, the one the relation to the request host is
// reported for: a case variant of q when there is one (round 4), else the first.
func ownerFor(owners []string, q string) string {
	for _, o := range owners {
		if o != q && foldASCII(o) == foldASCII(q) {
			return o
		}
	}
	return owners[0]
}

// classify names the structural reason of a lookup mismatch (signature detail).
func classify(cfg Config, q, want, got string) string {
	switch {
	case want == "" && got != "":
		if owners := cfg.Owners(got); len(owners) > 0 {
			return "token-of-other-host-sent/" + Relation(q, ownerFor(owners, q))
		}
		return "unconfigured-token-sent"
	case want != "" && got == "":
		return "configured-token-missing/" + cfg.Kind.String()
	}
	if cfg.GreyDup {
		for _, o := range cfg.Owners(got) {
			if o == q {
				return "later-duplicate-entry-wins"
			}
		}
	}
	if owners := cfg.Owners(got); len(owners) > 0 {
		return "token-of-other-host-sent-instead/" + Relation(q, ownerFor(owners, q))
	}
	return "wrong-token/" + cfg.Kind.String()
}

// checkEnv replays one BUF_TOKEN string on both constructors against the model.
func (c *checker) checkEnv(phase, s string, cfg Config, hosts []string) {
	r := c.r
	for _, ct := range ctors {
		p, err := ct.new(s)
		accepted := err == nil && p != nil
		if cfg.Kind == KReject {
			c.lookup(1)
			if accepted {
				var sent []string
				for _, q := range hosts {
					if got := p.RemoteToken(q); got != "" && len(sent) < 6 {
						sent = append(sent, fmt.Sprintf("%q->%q", q, got))
					}
				}
				r.Violate("env-parse/malformed-accepted/"+cfg.Malformed,
					fmt.Sprintf("%s(%q) succeeded although the string is malformed (%s); it is applied as %v instead of being rejected as a whole", ct.name, s, cfg.Malformed, sent),
					Case{Phase: phase, Constructor: ct.name, BufToken: s, Model: cfg.Canon(), Detail: cfg.Malformed, Sent: sent})
			}
			continue
		}
		if !accepted {
			c.lookup(1)
			if cfg.Grey() {
				c.envGreyRejected.Add(1)
				if cfg.FoldDup && c.seed == 0 {
					c.envFoldDupRejected.Add(1)
				}
				continue
			}
			r.Violate("env-parse/wellformed-rejected/"+cfg.Kind.String(),
				fmt.Sprintf("%s(%q) failed (%v) although the string is well-formed: %s", ct.name, s, err, cfg.Canon()),
				Case{Phase: phase, Constructor: ct.name, BufToken: s, Model: cfg.Canon(), Detail: fmt.Sprint(err)})
			continue
		}
		if cfg.Grey() {
			c.envGreyAccepted.Add(1)
			if cfg.FoldDup && c.seed == 0 {
				c.envFoldDupAccepted.Add(1)
			}
		}
		for _, q := range hosts {
			want := cfg.Lookup(q)
			got := p.RemoteToken(q)
			if got2 := p.RemoteToken(q); got2 != got {
				r.Violate("env-lookup/nondeterministic", fmt.Sprintf("RemoteToken(%q) of %q returned %q then %q", q, s, got, got2),
					Case{Phase: phase, Constructor: ct.name, BufToken: s, RequestHost: q, Model: cfg.Canon(), Want: want, Got: got + "|" + got2})
			}
			if cfg.Ambiguous(q) {
				// two answers are tolerated for this lookup (exact / first entry equal under case folding): it
				// must then be the same answer in every pass, whatever the map iteration seed
				// (a configuration with one binding is not replayed: the second call above is its comparison)
				c.lookAmbiguous.Add(1)
				var o seedObs
				differs := false
				if len(cfg.Bindings) >= 2 {
					o, differs = c.acrossSeeds(phase+"|"+ct.name+"|"+s+"|"+q, got)
				}
				if differs {
					r.Violate("env-lookup/nondeterministic",
						fmt.Sprintf("BUF_TOKEN=%q, request host %q: provider returns %q under map iteration seed %d and %q under seed %d", s, q, o.got, o.seed, got, c.seed),
						Case{Phase: phase, Constructor: ct.name, BufToken: s, RequestHost: q, Model: cfg.Canon(), Want: want, Got: o.got + "|" + got,
							Detail: fmt.Sprintf("map iteration seeds %d and %d", o.seed, c.seed)})
				}
			}
			if c.seed == 0 {
				if _, ok := cfg.FoldFirst(q); ok && want == "" {
					// open zone: q is a case variant of a configured host and not configured itself
					c.lookCaseVariantOnly.Add(1)
					if got == "" {
						c.lookCaseZoneExact.Add(1)
					} else {
						c.lookCaseZoneFolded.Add(1)
					}
				}
			}
			if got != want && !cfg.Tolerates(q, got) {
				why := classify(cfg, q, want, got)
				r.Violate("env-lookup/"+why,
					fmt.Sprintf("BUF_TOKEN=%q, request host %q: provider returns token %q, model %s says %q (%s)", s, q, got, cfg.Canon(), want, why),
					Case{Phase: phase, Constructor: ct.name, BufToken: s, RequestHost: q, Model: cfg.Canon(), Want: want, Got: got, Detail: why})
			}
		}
		c.lookup(len(hosts))
	}
	// clause accounting (once per string, from the model; replays under other map seeds are not counted again)
	if cfg.Kind == KReject || c.seed != 0 {
		return
	}
	if cfg.FoldDup {
		c.envFoldDup.Add(1)
	}
	for _, q := range hosts {
		want := cfg.Lookup(q)
		switch {
		case cfg.Kind == KSingle:
			c.lookHostless.Add(1)
		case want != "":
			c.lookTokenForHost.Add(1)
		case cfg.Kind == KMap:
			c.lookNoLeak.Add(1) // tokens exist for other hosts only: nothing may be sent
		default:
			c.lookNoneNothingConfigured.Add(1)
		}
	}
}

// hostVariants returns request hosts derived from the hosts a configuration names.
func hostVariants(cfg Config, s string, base []string, extra ...string) []string {
	seen := make(map[string]bool, len(base)+8)
	out := make([]string, 0, len(base)+8)
	add := func(h string) {
		if !seen[h] {
			seen[h] = true
			out = append(out, h)
		}
	}
	for _, h := range base {
		add(h)
	}
	for _, b := range cfg.Bindings {
		add(b.Host)
		add(b.Host + extra[0])
		add(extra[0] + b.Host)
		add(b.Host[:len(b.Host)-1])
		add(b.Host[1:])
		add(b.Token)
		add(b.Token + "@" + b.Host)
		// round 4: the configured host in another letter case
		add(swapCaseASCII(b.Host, true))
		add(swapCaseASCII(b.Host, false))
	}
	add(s)
	return out
}

// envSpace enumerates all strings over syms up to maxLen symbols (phase A / B).
func (c *checker) envSpace(phase string, syms []string, maxLen, selfCheckLen int, baseHosts []string, pad string) {
	r := c.r
	gen := Sentences(syms, selfCheckLen)
	var genHits atomic.Int64
	var multiMu sync.Mutex
	var multi []string // sentences that bind >= 2 hosts: replayed under every other map iteration seed
	total := forAllStrings(r, syms, maxLen, func(local *localState, idx, nsyms int, s string) {
		cfg := Parse(s)
		c.envStrings.Add(1)
		// model self-check: recogniser and generator agree
		if nsyms <= selfCheckLen {
			c.selfChecked.Add(1)
			g, ok := gen[s]
			if ok {
				genHits.Add(1)
			}
			if ok != (cfg.Kind != KReject) || (ok && !SameConfig(g, cfg)) {
				r.Incomplete(fmt.Sprintf("model self-check failed on %q: recogniser %s, generator %v %s", s, cfg.Canon(), ok, g.Canon()))
				return
			}
		}
		nontrivial := false
		switch cfg.Kind {
		case KNone:
			c.envNone.Add(1)
		case KSingle:
			c.envSingle.Add(1)
			nontrivial = true
		case KMap:
			c.envMap.Add(1)
			nontrivial = true
		case KReject:
			c.envReject.Add(1)
			if PartlyWellFormed(s) {
				c.envRejectPartly.Add(1)
				nontrivial = true
			}
		}
		if phase == "K" && !strings.Contains(s, "H") {
			nontrivial = false // the same string is a case of phase A's space already
		}
		if nontrivial {
			r.Distinct(phase + ":" + s)
		}
		if cfg.Kind == KMap && len(cfg.Bindings) >= 2 {
			local.multi = append(local.multi, s)
		}
		local.states = append(local.states, "env:"+cfg.Canon())
		hosts := baseHosts
		if cfg.Kind == KMap {
			hosts = hostVariants(cfg, s, baseHosts, pad)
		}
		c.checkEnv(phase, s, cfg, hosts)
		r.SampleEvery(idx+1, 150001, func() any {
			return map[string]any{"phase": phase, "buf_token": s, "model": cfg.Canon(), "malformed": cfg.Malformed, "request_hosts": len(hosts)}
		})
	}, func(local *localState) {
		c.addStates(local.states)
		if len(local.multi) > 0 {
			multiMu.Lock()
			multi = append(multi, local.multi...)
			multiMu.Unlock()
		}
	})
	sort.Strings(multi)
	c.underOtherSeeds(len(multi), func(i int) {
		cfg := Parse(multi[i])
		c.checkEnv(phase, multi[i], cfg, hostVariants(cfg, multi[i], baseHosts, pad))
	})
	r.Set(phase+"_sentences_binding_two_or_more_hosts_replayed_under_every_map_seed", len(multi))
	if int(genHits.Load()) != len(gen) && !r.Expired() {
		r.Incomplete(fmt.Sprintf("model self-check failed in %s: generator produced %d sentences, enumeration met %d of them", phase, len(gen), genHits.Load()))
	}
	r.Set(phase+"_alphabet", syms)
	r.Set(phase+"_max_symbols", maxLen)
	r.Set(phase+"_strings", total)
	r.Set(phase+"_generator_sentences_selfcheck", len(gen))
	r.Set(phase+"_selfcheck_max_symbols", selfCheckLen)
}

// ---------------------------------------------------------------------------------------------
// universe shared by the structured phases

const (
	H1 = "r.io"  // registry 1
	H2 = "xr.io" // registry 2: H1 is a proper suffix of H2
	H3 = "h3.io" // registry 3: never configured by name
	// H1C is H1 in another letter case (round 4): the same machine for DNS, another string for an exact-match lookup
	H1C = "R.io"
)

var secrets = []string{"tok1", "tok2", "tok3", "tok4", "tok5", "tok6", "tok7", "tok8", "pwA", "pwB", "pwD", "pwA2", "pwC"}

// structuredSentences builds every comma-joined list of 1..k entry forms (plus the empty string).
func structuredSentences(forms []string, k int) []string {
	out := []string{""}
	var rec func(prefix string, depth int)
	rec = func(prefix string, depth int) {
		for _, f := range forms {
			s := f
			if depth > 0 {
				s = prefix + "," + f
			}
			out = append(out, s)
			if depth+1 < k {
				rec(s, depth+1)
			}
		}
	}
	rec("", 0)
	// dedupe ("" as a one-element list equals the empty string)
	seen := map[string]bool{}
	var uniq []string
	for _, s := range out {
		if !seen[s] {
			seen[s] = true
			uniq = append(uniq, s)
		}
	}
	return uniq
}

func entryForms(hosts ...string) []string {
	var forms []string
	h1, h2 := hosts[0], hosts[1]
	for _, t := range []string{"tok1", "tok2", "", "tok1:x"} {
		for _, h := range append(append([]string(nil), hosts...), "") {
			forms = append(forms, t+"@"+h)
		}
	}
	return append(forms, "tok1", "tok1@"+h1+"@"+h2, "")
}

// structuredEnv replays structured sentences (up to three entries, malformations at every position).
func (c *checker) structuredEnv(k int) {
	r := c.r
	sentences := structuredSentences(entryForms(H1, H2, H3, H1C), k)
	base := []string{H1, H2, H3, "", "r.i", "io", ".io", "r.io:443", "xxr.io", "r.io.", "tok1", "default", H1C, "R.IO", "XR.io", "r.Io:443"}
	var multi []int
	for i, s := range sentences {
		if cfg := Parse(s); cfg.Kind == KMap && len(cfg.Bindings) >= 2 {
			multi = append(multi, i)
		}
	}
	r.ParallelFor(len(sentences), 0, func(i int) {
		s := sentences[i]
		cfg := Parse(s)
		c.envStrings.Add(1)
		switch cfg.Kind {
		case KNone:
			c.envNone.Add(1)
		case KSingle:
			c.envSingle.Add(1)
		case KMap:
			c.envMap.Add(1)
		case KReject:
			c.envReject.Add(1)
			if PartlyWellFormed(s) {
				c.envRejectPartly.Add(1)
			}
		}
		if cfg.Kind != KNone && (cfg.Kind != KReject || PartlyWellFormed(s)) {
			r.Distinct("S:" + s)
		}
		c.addStates([]string{"env:" + cfg.Canon()})
		c.checkEnv("S", s, cfg, hostVariants(cfg, s, base, "x"))
		r.SampleEvery(i, 1777, func() any {
			return map[string]any{"phase": "S", "buf_token": s, "model": cfg.Canon(), "malformed": cfg.Malformed}
		})
	})
	c.underOtherSeeds(len(multi), func(j int) {
		s := sentences[multi[j]]
		cfg := Parse(s)
		c.checkEnv("S", s, cfg, hostVariants(cfg, s, base, "x"))
	})
	r.Set("S_sentences_binding_two_or_more_hosts_replayed_under_every_map_seed", len(multi))
	r.Set("S_structured_sentences", len(sentences))
	r.Set("S_max_entries", k)
}

// ---------------------------------------------------------------------------------------------
// phase C: generated .netrc files

type netrcFile struct {
	entries []NEntry
	layout  int
	text    string
	env     map[string]string // HOME or NETRC
}

func (c *checker) writeNetrcFiles(sub string, universe [][]NEntry, layouts []int) ([]netrcFile, error) {
	files := make([]netrcFile, len(universe)*len(layouts))
	var errMu sync.Mutex
	var firstErr error
	fail := func(err error) {
		errMu.Lock()
		if firstErr == nil {
			firstErr = err
		}
		errMu.Unlock()
	}
	c.r.ParallelFor(len(files), 0, func(i int) {
		ui, layout := i/len(layouts), layouts[i%len(layouts)]
		entries := universe[ui]
		dir := filepath.Join(c.scratch, sub, fmt.Sprintf("%d-%d", ui, layout))
		if err := os.MkdirAll(dir, 0o700); err != nil {
			fail(err)
			return
		}
		text := RenderNetrc(entries, layout)
		f := netrcFile{entries: entries, layout: layout, text: text}
		if (ui+layout)%2 == 0 {
			f.env = map[string]string{"HOME": dir}
			if err := os.WriteFile(filepath.Join(dir, ".netrc"), []byte(text), 0o600); err != nil {
				fail(err)
				return
			}
		} else {
			p := filepath.Join(dir, "custom-netrc")
			f.env = map[string]string{"HOME": filepath.Join(dir, "no-such-home"), "NETRC": p}
			if err := os.WriteFile(p, []byte(text), 0o600); err != nil {
				fail(err)
				return
			}
		}
		files[i] = f
	})
	if firstErr != nil {
		return nil, firstErr
	}
	if c.r.Expired() {
		return nil, fmt.Errorf("deadline reached while writing the files")
	}
	return files, nil
}

func classifyNetrc(entries []NEntry, q, want, got string) string {
	owners := NOwner(entries, got)
	named := false
	for _, e := range entries {
		if !e.Default && e.Name == q {
			named = true
		}
	}
	switch {
	case got != "" && len(owners) == 0:
		return "unconfigured-token-sent"
	case want != "" && got == "":
		if named {
			return "machine-token-missing"
		}
		return "default-token-missing"
	case got != "" && owners[0] == "default" && named:
		return "default-overrides-machine-entry"
	case got != "" && owners[0] == q:
		return "later-duplicate-machine-wins"
	case got != "":
		return "token-of-other-machine-sent/" + Relation(q, owners[0])
	}
	return "wrong-token"
}

func (c *checker) netrcSpace() {
	r := c.r
	templates := []NEntry{
		{Name: H1, Login: "l1", Password: "pwA"},
		{Name: H2, Login: "l2", Password: "pwB"},
		{Default: true, Login: "ld", Password: "pwD"},
		{Name: H1, Login: "l1b", Password: "pwA2"},
		{Name: H1C, Login: "l1c", Password: "pwC"}, // round 4: the first machine in another letter case
	}
	universe := netrcUniverse(templates[:4], 4)
	// round 4: plus every ordered selection of <= 3 of the five templates that contains the case variant
	for _, entries := range netrcUniverse(templates, 3) {
		for _, e := range entries {
			if e.Name == H1C {
				universe = append(universe, entries)
				break
			}
		}
	}
	files, err := c.writeNetrcFiles("netrc", universe, []int{layoutOneLine, layoutMultiLine, layoutPasswordFirst})
	if err != nil {
		r.Incomplete("cannot write netrc files: " + err.Error())
		return
	}
	hosts := []string{H1, H2, H3, "", "r.i", "io", "r.io:443", "xxr.io", "default", "machine", H1C, "R.IO", "XR.io"}
	r.ParallelFor(len(files), 0, func(i int) {
		f := files[i]
		c.fds.opened(r, 2*len(hosts))
		container := app.NewEnvContainer(f.env)
		p := bufconnect.NewNetrcTokenProvider(container, netrc.GetMachineForName)
		if len(f.entries) > 0 {
			r.Distinct(fmt.Sprintf("C:%d:%s", f.layout, NCanon(f.entries)))
		}
		c.addStates([]string{NCanon(f.entries)})
		for _, q := range hosts {
			want := NLookup(f.entries, q)
			got := p.RemoteToken(q)
			foldTok, foldOK := NFoldFirst(f.entries, q)
			if foldOK && foldTok != want {
				// open zone (case variant of a machine name): two answers are tolerated, it has to be the same one twice
				c.nCaseZone.Add(1)
				if got == want {
					c.nCaseZoneExact.Add(1)
				}
				if got2 := p.RemoteToken(q); got2 != got {
					r.Violate("netrc-lookup/nondeterministic", fmt.Sprintf("netrc %q, request host %q: provider returns %q, then %q", f.text, q, got, got2),
						Case{Phase: "C", Netrc: f.text, RequestHost: q, Model: NCanon(f.entries), Want: want, Got: got + "|" + got2})
				}
			}
			if got != want && !(foldOK && got == foldTok) {
				why := classifyNetrc(f.entries, q, want, got)
				r.Violate("netrc-lookup/"+why,
					fmt.Sprintf("netrc %q, request host %q: provider returns %q, model %s says %q (%s)", f.text, q, got, NCanon(f.entries), want, why),
					Case{Phase: "C", Netrc: f.text, RequestHost: q, Model: NCanon(f.entries), Want: want, Got: got, Detail: why})
			}
			named, namedPw := false, false
			for _, e := range f.entries {
				if !e.Default && e.Name == q {
					named = true
					namedPw = namedPw || e.Password != ""
					break
				}
			}
			switch {
			case named && want != "":
				c.nNamed.Add(1)
			case named:
				c.nNamedNoPassword.Add(1)
			case want != "":
				c.nDefault.Add(1)
			default:
				c.nNone.Add(1)
			}
		}
		c.lookup(len(hosts))
		r.SampleEvery(i, 499, func() any {
			return map[string]any{"phase": "C", "netrc": f.text, "model": NCanon(f.entries)}
		})
	})
	r.Set("C_netrc_files", len(files))
	r.Set("C_netrc_entry_sequences", len(universe))
	r.Set("C_request_hosts", hosts)
}

// ---------------------------------------------------------------------------------------------
// phase D: provider chain behind the real interceptor and connectclient.Make, recording HTTP client

type hit struct {
	URLHost string
	Host    string
	Auth    []string
	Leaks   []string
}

type recorder struct {
	mu   sync.Mutex
	hits []hit
}

var currentUserResponse = func() []byte {
	b, err := proto.Marshal(registryv1alpha1.GetCurrentUserResponse_builder{
		User: registryv1alpha1.User_builder{Id: "1", Username: "verif"}.Build(),
	}.Build())
	if err != nil {
		panic(err)
	}
	return b
}()

func scanLeaks(req *http.Request) []string {
	var leaks []string
	for name, vals := range req.Header {
		if name == "Authorization" {
			continue
		}
		for _, v := range vals {
			for _, s := range secrets {
				if strings.Contains(v, s) {
					leaks = append(leaks, name+": "+v)
				}
			}
		}
	}
	url := req.URL.String()
	for _, s := range secrets {
		if strings.Contains(url, s) {
			leaks = append(leaks, "url: "+url)
		}
	}
	return leaks
}

func (rc *recorder) Do(req *http.Request) (*http.Response, error) {
	if req.Body != nil {
		_, _ = io.Copy(io.Discard, req.Body)
		_ = req.Body.Close()
	}
	h := snapshotRequest(req)
	rc.mu.Lock()
	rc.hits = append(rc.hits, h)
	rc.mu.Unlock()
	return okResponse(req), nil
}

func snapshotRequest(req *http.Request) hit {
	return hit{URLHost: req.URL.Host, Host: req.Host, Auth: append([]string(nil), req.Header.Values("Authorization")...), Leaks: scanLeaks(req)}
}

func okResponse(req *http.Request) *http.Response {
	return &http.Response{
		Status: "200 OK", StatusCode: 200, Proto: "HTTP/1.1", ProtoMajor: 1, ProtoMinor: 1,
		Header:        http.Header{"Content-Type": []string{"application/proto"}},
		Body:          io.NopCloser(bytes.NewReader(currentUserResponse)),
		ContentLength: int64(len(currentUserResponse)),
		Request:       req,
	}
}

func (rc *recorder) take() []hit {
	rc.mu.Lock()
	defer rc.mu.Unlock()
	h := rc.hits
	rc.hits = nil
	return h
}

var perms3 = [][]int{{0, 1, 2}, {2, 1, 0}, {1, 0, 2}, {0, 2, 1}, {1, 2, 0}, {2, 0, 1}}

// chainWant is the model of the whole chain: the environment configuration wins for a host it
// configures, otherwise the netrc file is consulted.
func chainWant(cfg Config, entries []NEntry, q string) (tok, source string) {
	if t := cfg.Lookup(q); t != "" {
		return t, "env"
	}
	if t := NLookup(entries, q); t != "" {
		return t, "netrc"
	}
	return "", ""
}

func classifyChain(cfg Config, entries []NEntry, q, want, wantSource, got string) string {
	envOwners := cfg.Owners(got)
	netrcOwners := NOwner(entries, got)
	named := false
	for _, e := range entries {
		named = named || (!e.Default && e.Name == q)
	}
	switch {
	case got == "" && want != "":
		return "configured-token-missing/" + wantSource
	case got != "" && wantSource == "env" && got == NLookup(entries, q):
		return "netrc-beats-env"
	case got != "" && cfg.GreyDup && contains(envOwners, q) && cfg.Lookup(q) != got:
		return "later-duplicate-env-entry-wins"
	case got != "" && named && len(netrcOwners) > 0 && netrcOwners[0] == "default" && cfg.Lookup(q) == "":
		return "default-overrides-machine-entry"
	case got != "" && len(envOwners) > 0 && cfg.Lookup(q) != got:
		return "env-token-of-other-host-sent/" + Relation(q, ownerFor(envOwners, q))
	case got != "" && len(netrcOwners) > 0 && NLookup(entries, q) != got:
		return "netrc-token-of-other-machine-sent/" + Relation(q, netrcOwners[0])
	case got != "" && want == "":
		return "unconfigured-token-sent"
	}
	return "wrong-token"
}

func contains(xs []string, x string) bool {
	for _, y := range xs {
		if y == x {
			return true
		}
	}
	return false
}

// checkHit compares one recorded request with the model. It returns the bare token that was sent.
func (c *checker) checkHit(phase, sigPrefix, s, netrcText string, cfg Config, entries []NEntry, q, urlHostWant string, hits []hit, schedule string) {
	r := c.r
	model := cfg.Canon() + " " + NCanon(entries)
	mk := func(want, got, detail string) Case {
		return Case{Phase: phase, BufToken: s, Netrc: netrcText, RequestHost: q, Model: model, Want: want, Got: got, Detail: detail, Schedule: schedule}
	}
	want, source := chainWant(cfg, entries, q)
	if len(hits) != 1 {
		r.Violate(sigPrefix+"/request-count", fmt.Sprintf("one call for host %q produced %d HTTP requests", q, len(hits)), mk(want, "", fmt.Sprint(hits)))
		return
	}
	h := hits[0]
	if h.URLHost != urlHostWant {
		r.Violate(sigPrefix+"/request-sent-to-other-host", fmt.Sprintf("client made for %q sent its request to %q", q, h.URLHost), mk(want, "", h.URLHost))
	}
	if len(h.Leaks) > 0 {
		r.Violate(sigPrefix+"/token-outside-authorization-header", fmt.Sprintf("a configured secret shows up outside the Authorization header: %v", h.Leaks), mk(want, "", strings.Join(h.Leaks, "; ")))
	}
	got := ""
	switch {
	case len(h.Auth) > 1:
		r.Violate(sigPrefix+"/several-authorization-headers", fmt.Sprintf("request for %q carries %d Authorization headers %q", q, len(h.Auth), h.Auth), mk(want, strings.Join(h.Auth, "|"), ""))
		return
	case len(h.Auth) == 1:
		if !strings.HasPrefix(h.Auth[0], "Bearer ") {
			r.Violate(sigPrefix+"/authorization-not-bearer", fmt.Sprintf("Authorization header %q is not a Bearer credential", h.Auth[0]), mk(want, h.Auth[0], ""))
			return
		}
		got = strings.TrimPrefix(h.Auth[0], "Bearer ")
		if got == "" {
			r.Violate(sigPrefix+"/empty-bearer", "Authorization header with an empty token", mk(want, h.Auth[0], ""))
			return
		}
	}
	if cfg.Ambiguous(q) {
		// the open zone of case variants tolerates two answers here: it has to be the same one in every call and under every map iteration seed
		if o, differs := c.acrossSeeds(phase+"|"+s+"|"+netrcText+"|"+q, got); differs {
			r.Violate(sigPrefix+"/nondeterministic",
				fmt.Sprintf("BUF_TOKEN=%q, netrc %q, request to %q: Authorization carries token %q under map iteration seed %d and %q under seed %d", s, netrcText, q, o.got, o.seed, got, c.seed),
				mk(want, o.got+"|"+got, fmt.Sprintf("map iteration seeds %d and %d", o.seed, c.seed)))
		}
	}
	// open zone of case variants (round 4): besides the chain model's answer, the token of the first env entry and -
	// when the environment has no entry spelled exactly like q - the password of the first netrc machine that equal q
	// under case folding are tolerated
	envFold, envFoldOK := cfg.FoldFirst(q)
	netrcFold, netrcFoldOK := NFoldFirst(entries, q)
	tolerated := (envFoldOK && got == envFold) || (cfg.Lookup(q) == "" && netrcFoldOK && got == netrcFold)
	if got != want && !tolerated {
		why := classifyChain(cfg, entries, q, want, source, got)
		r.Violate(sigPrefix+"/"+why,
			fmt.Sprintf("BUF_TOKEN=%q, netrc %q, request to %q: Authorization carries token %q, model says %q from %q (%s)", s, netrcText, q, got, want, source, why),
			mk(want, got, why))
	}
}

func (c *checker) chainSpace(k int, allPerms bool) {
	r := c.r
	sentences := structuredSentences(entryForms(H1, H2, H3, H1C), k)
	templates := []NEntry{
		{Name: H1, Login: "l1", Password: "pwA"},
		{Name: H2, Login: "l2", Password: "pwB"},
		{Default: true, Login: "ld", Password: "pwD"},
	}
	universe := netrcUniverse(templates, 3)
	files, err := c.writeNetrcFiles("chain", universe, []int{layoutOneLine})
	if err != nil {
		r.Incomplete("cannot write netrc files: " + err.Error())
		return
	}
	// the fourth client asks for H1 in another letter case (round 4); it is made with the others and called at a
	// position of the call order that rotates with the case index
	hosts := []string{H1, H2, H3, H1C}
	n := len(sentences) * len(files)
	one := func(i int) {
		first := c.seed == 0 // replays under other map seeds are not counted as new cases
		s := sentences[i/len(files)]
		f := files[i%len(files)]
		cfg := Parse(s)
		env := map[string]string{"BUF_TOKEN": s}
		for k, v := range f.env {
			env[k] = v
		}
		container := app.NewEnvContainer(env)
		envProvider, err := bufconnect.NewTokenProviderFromContainer(container)
		if err != nil || cfg.Kind == KReject {
			// acceptance itself is judged in checkEnv (phase S); a rejected configuration makes no requests
			if first {
				c.chEnvRejected.Add(1)
			}
			r.Eval(1)
			return
		}
		if first {
			c.addStates([]string{"env:" + cfg.Canon() + " " + NCanon(f.entries)})
			if cfg.Kind != KNone || len(f.entries) > 0 {
				r.Distinct(fmt.Sprintf("D:%s|%s", s, NCanon(f.entries)))
			}
		}
		netrcProvider := bufconnect.NewNetrcTokenProvider(container, netrc.GetMachineForName)
		c.fds.opened(r, 24)
		rec := &recorder{}
		config := connectclient.NewConfig(rec,
			connectclient.WithAddressMapper(func(a string) string { return "https://" + a }),
			connectclient.WithInterceptors([]connect.Interceptor{bufconnect.NewSetCLIVersionInterceptor("verif")}),
			connectclient.WithAuthInterceptorProvider(bufconnect.NewAuthorizationInterceptorProvider(envProvider, netrcProvider)),
		)
		// all clients are made first from the one shared config, then used in some order
		clients := make([]registryv1alpha1connect.AuthnServiceClient, len(hosts))
		for hi, h := range hosts {
			clients[hi] = connectclient.Make(config, h, registryv1alpha1connect.NewAuthnServiceClient)
		}
		orders := [][]int{perms3[i%6], perms3[(i+3)%6]}
		if allPerms {
			orders = perms3
		}
		for oi, order3 := range orders {
			at := (i + oi) % 4
			order := make([]int, 0, 4)
			order = append(order, order3[:min(at, 3)]...)
			order = append(order, 3)
			order = append(order, order3[min(at, 3):]...)
			for _, hi := range order {
				q := hosts[hi]
				_, err := clients[hi].GetCurrentUser(context.Background(), connect.NewRequest(&registryv1alpha1.GetCurrentUserRequest{}))
				hits := rec.take()
				if err != nil {
					r.Incomplete(fmt.Sprintf("phase D: in-process call failed: %v", err))
					return
				}
				c.checkHit("D", "chain", s, f.text, cfg, f.entries, q, q, hits, "")
				c.lookup(1)
				if !first {
					continue
				}
				envTok, netrcTok := cfg.Lookup(q), NLookup(f.entries, q)
				if _, ok := cfg.FoldFirst(q); ok && envTok == "" {
					c.chCaseVariantRequest.Add(1)
				}
				switch {
				case envTok != "" && netrcTok != "":
					c.chEnvWins.Add(1)
				case envTok != "":
					c.chEnvOnly.Add(1)
				case netrcTok != "":
					c.chNetrcUsed.Add(1)
				default:
					c.chNeither.Add(1)
					if cfg.Kind == KMap {
						c.chNoLeakEnv.Add(1)
					}
					if len(f.entries) > 0 {
						c.chNoLeakNetrc.Add(1)
					}
				}
			}
		}
		if first {
			r.SampleEvery(i, 7919, func() any {
				return map[string]any{"phase": "D", "buf_token": s, "netrc": f.text, "model": cfg.Canon() + " " + NCanon(f.entries)}
			})
		}
	}
	r.ParallelFor(n, 0, one)
	// configurations whose BUF_TOKEN binds two or more hosts: once more under every other map iteration seed
	var multi []int
	for si, s := range sentences {
		if cfg := Parse(s); cfg.Kind == KMap && len(cfg.Bindings) >= 2 {
			for fi := range files {
				multi = append(multi, si*len(files)+fi)
			}
		}
	}
	c.underOtherSeeds(len(multi), func(j int) { one(multi[j]) })
	r.Set("D_env_sentences", len(sentences))
	r.Set("D_netrc_files", len(files))
	r.Set("D_request_hosts", hosts)
	r.Set("D_call_orders_per_config", map[bool]int{true: 6, false: 2}[allPerms])
	r.Set("D_configs_binding_two_or_more_hosts_replayed_under_every_map_seed", len(multi))
}

// ---------------------------------------------------------------------------------------------
// phase E: end to end through the in-process CLI against loopback servers

type trio struct {
	servers [3]*httptest.Server
	addrs   [3]string
	recs    [3]*recorder
}

func newTrio() *trio {
	t := &trio{}
	for i := range t.servers {
		rec := &recorder{}
		t.recs[i] = rec
		srv := httptest.NewUnstartedServer(http.HandlerFunc(func(w http.ResponseWriter, req *http.Request) {
			_, _ = io.Copy(io.Discard, req.Body)
			h := hit{URLHost: req.Host, Host: req.Host, Auth: append([]string(nil), req.Header.Values("Authorization")...), Leaks: scanLeaks(req)}
			rec.mu.Lock()
			rec.hits = append(rec.hits, h)
			rec.mu.Unlock()
			w.Header().Set("Content-Type", "application/proto")
			w.Header().Set("Connection", "close")
			_, _ = w.Write(currentUserResponse)
		}))
		srv.Config.SetKeepAlivesEnabled(false)
		srv.Start()
		t.servers[i] = srv
		t.addrs[i] = strings.TrimPrefix(srv.URL, "http://")
	}
	return t
}

func (t *trio) close() {
	for _, s := range t.servers {
		s.Close()
	}
}

func substitute(s string, t *trio) string {
	return strings.NewReplacer("{1}", t.addrs[0], "{2}", t.addrs[1], "{3}", t.addrs[2]).Replace(s)
}

func (c *checker) e2eSpace(k, netrcLen int) {
	r := c.r
	forms := []string{"tok1@{1}", "tok2@{2}", "tok3@{1}", "tok4", "", "tok5@", "@{1}", "tok6@{1}@{2}", "tok7@{3}", "tok8:x@{2}"}
	sentences := structuredSentences(forms, k)
	templates := []NEntry{
		{Name: "{1}", Login: "l1", Password: "pwA"},
		{Name: "{2}", Login: "l2", Password: "pwB"},
		{Default: true, Login: "ld", Password: "pwD"},
	}
	universe := netrcUniverse(templates, netrcLen)
	cfgDir := filepath.Join(c.scratch, "bufconfig")
	if err := os.MkdirAll(cfgDir, 0o700); err != nil {
		r.Incomplete("cannot create config dir: " + err.Error())
		return
	}
	if err := os.WriteFile(filepath.Join(cfgDir, "config.yaml"), []byte("version: v1\ntls:\n  use: \"false\"\n"), 0o600); err != nil {
		r.Incomplete("cannot write config.yaml: " + err.Error())
		return
	}
	const nTrios = 16
	pool := make(chan *trio, nTrios)
	var trios []*trio
	for i := 0; i < nTrios; i++ {
		t := newTrio()
		trios = append(trios, t)
		pool <- t
	}
	defer func() {
		for _, t := range trios {
			t.close()
		}
	}()
	var seq atomic.Int64
	n := len(sentences) * len(universe)
	r.ParallelFor(n, 0, func(i int) {
		tmplS := sentences[i/len(universe)]
		tmplEntries := universe[i%len(universe)]
		t := <-pool
		defer func() { pool <- t }()
		s := substitute(tmplS, t)
		entries := make([]NEntry, len(tmplEntries))
		for j, e := range tmplEntries {
			e.Name = substitute(e.Name, t)
			entries[j] = e
		}
		tmplEntriesCanon := NCanon(tmplEntries)
		cfg := Parse(s)
		home := filepath.Join(c.scratch, "e2e", fmt.Sprint(seq.Add(1)))
		if err := os.MkdirAll(home, 0o700); err != nil {
			r.Incomplete("cannot create home: " + err.Error())
			return
		}
		defer os.RemoveAll(home)
		netrcText := RenderNetrc(entries, layoutOneLine)
		if len(entries) > 0 {
			if err := os.WriteFile(filepath.Join(home, ".netrc"), []byte(netrcText), 0o600); err != nil {
				r.Incomplete("cannot write netrc: " + err.Error())
				return
			}
		}
		c.addStates([]string{"e2e:" + Parse(tmplS).Canon() + " " + tmplEntriesCanon})
		if cfg.Kind != KNone || len(entries) > 0 {
			r.Distinct("E:" + tmplS + "|" + tmplEntriesCanon)
		}
		for hi := 0; hi < 3; hi++ {
			q := t.addrs[hi]
			env := map[string]string{"HOME": home, "BUF_CONFIG_DIR": cfgDir, "BUF_CACHE_DIR": filepath.Join(home, "cache")}
			if s != "" {
				env["BUF_TOKEN"] = s
			}
			var res bufx.CLIResult
			var all [3][]hit
			total := 0
			// a well-formed configuration whose run fails is retried twice, so that a transient loopback
			// socket error cannot turn into a verdict; only a failure that repeats is reported
			for attempt := 0; attempt < 3; attempt++ {
				runEnv := make(map[string]string, len(env))
				for k, v := range env {
					runEnv[k] = v
				}
				res = bufx.RunCLI(context.Background(), runEnv, "", "registry", "whoami", q)
				total = 0
				for j := range all {
					all[j] = t.recs[j].take()
					total += len(all[j])
				}
				if res.ExitCode == 0 || cfg.Kind == KReject || cfg.Grey() {
					break
				}
			}
			c.e2eRuns.Add(1)
			c.lookup(1)
			mk := func(detail string) Case {
				return Case{Phase: "E", BufToken: tmplS, Netrc: RenderNetrc(tmplEntries, layoutOneLine), RequestHost: fmt.Sprintf("{%d}", hi+1),
					Model: Parse(tmplS).Canon() + " " + tmplEntriesCanon, Detail: detail}
			}
			if cfg.Kind == KReject || (cfg.Grey() && res.ExitCode != 0 && total == 0) {
				c.e2eRejected.Add(1)
				if res.ExitCode == 0 || total != 0 {
					var sent []string
					for j := range all {
						for _, h := range all[j] {
							sent = append(sent, fmt.Sprintf("{%d}<-%q", j+1, h.Auth))
						}
					}
					cs := mk(cfg.Malformed)
					cs.Sent = sent
					r.Violate("e2e/malformed-accepted/"+cfg.Malformed,
						fmt.Sprintf("`buf registry whoami` with malformed BUF_TOKEN template %q (%s) exited %d and made %d requests %v", tmplS, cfg.Malformed, res.ExitCode, total, sent), cs)
				}
				continue
			}
			if res.ExitCode != 0 {
				r.Violate("e2e/wellformed-config-fails", fmt.Sprintf("`buf registry whoami {%d}` failed with exit %d: %s", hi+1, res.ExitCode, strings.TrimSpace(res.Stderr)), mk(res.Stderr))
				continue
			}
			for j := range all {
				if j != hi && len(all[j]) > 0 {
					r.Violate("e2e/request-sent-to-other-host", fmt.Sprintf("whoami for registry {%d} sent %d requests to registry {%d} (Authorization %q)", hi+1, len(all[j]), j+1, all[j][0].Auth), mk(""))
				}
			}
			c.checkHit("E", "e2e", tmplS, RenderNetrc(tmplEntries, layoutOneLine), cfg, entries, q, q, all[hi], "")
			envTok, netrcTok := cfg.Lookup(q), NLookup(entries, q)
			switch {
			case envTok != "" && netrcTok != "":
				c.e2eEnvWins.Add(1)
				c.e2eHeader.Add(1)
			case envTok != "":
				c.e2eHeader.Add(1)
			case netrcTok != "":
				c.e2eNetrc.Add(1)
				c.e2eHeader.Add(1)
			default:
				c.e2eNoHeader.Add(1)
				if cfg.Kind == KMap || len(entries) > 0 {
					c.e2eNoLeak.Add(1)
				}
			}
		}
		r.SampleEvery(i, 1201, func() any {
			return map[string]any{"phase": "E", "buf_token_template": tmplS, "netrc_template": RenderNetrc(tmplEntries, layoutOneLine)}
		})
	})
	r.Set("E_env_sentence_templates", len(sentences))
	r.Set("E_netrc_entry_sequences", len(universe))
	r.Set("E_loopback_registries", 3)
}

// ---------------------------------------------------------------------------------------------

func run(r *evid.Run) {
	r.Rule("A: every string of <= n characters over {t,u,h,:,@,','} as BUF_TOKEN; B: every string of <= m symbols over {tok1,tok2,r.io,xr.io,:,@,','}; " +
		"S: every comma-joined list of <= k entry forms (19 forms incl. empty parts, missing host, two '@', token with ':'); each replayed on both env constructors and, " +
		"when the reference grammar accepts it, looked up for every request host of a fixed set (A: all 84 strings of <= 3 characters over {t,u,h,:}) plus hosts derived " +
		"from the configured ones (extended, truncated, token text, whole string). C: every ordered selection of <= 4 of {machine r.io, machine xr.io, default, second machine r.io}, " +
		"each entry with/without password, 3 layouts, via HOME or NETRC. D: S-sentences x netrc files x 3 hosts through the real interceptor + connectclient.Make with a recording HTTP client, " +
		"clients made first and called in several orders. F: every interleaving (explicit enumeration of all step orders, one logical thread running at a time) of 2 threads x 3..4 steps / 3 threads x 3 (quick) or 4 (thorough) steps, " +
		"each thread = connectclient.Make for one of 3 hosts from ONE shared Config (parked inside the stub factory before the client is constructed, and after), then one request (parked inside the transport), " +
		"over BUF_TOKEN sentences x netrc files x host multisets x 3 Config constructions (bufcli.NewConnectClientConfig, NewConnectClientConfigWithToken, NewConfig with a spare-capacity interceptor slice). E: sentence templates x netrc files x 3 loopback registries through `buf registry whoami`. " +
		"G: the .netrc file as state: every history of <= d operations {PutMachines(h), PutMachines(h,h'), DeleteMachineForName(h) | h in 3 hosts} from every initial file (absent, empty, ordered selections of machine/default entries, 3 layouts, HOME/NETRC), " +
		"walked depth first on the real code with the bytes buf wrote carried from step to step, every host of a 6-host menu looked up after EVERY step against the reference model of the file; " +
		"G2: the same through `buf registry login --token-stdin` / `logout` / `whoami` against 3 loopback registries. " +
		"Round 4: K: every string of <= n characters over {t,u,h,H,@,','} (a host letter in both cases); S, D, C also contain r.io in a second letter case (R.io) as configured host / machine and as request host, " +
		"and every configured host is also requested in swapped letter case. The whole run executes under map iteration seed 0 (runtime overlay), and every configuration of A, B, K, S, D that binds two or more hosts is replayed under seeds 1..7 " +
		"(all 8 start offsets of a one-bucket map), lookups with two tolerated answers being compared across seeds. " +
		"A case is distinct/non-trivial when its configuration binds at least one token, or is malformed but contains a well-formed token@host part.")
	r.Assume("hosts are compared as exact strings (the property's anchor says exact-match lookup). Host names that differ only in ASCII letter case are an open zone: for a request host q the exact answer is accepted, and so is the token of the FIRST entry (BUF_TOKEN) / machine (.netrc) equal to q under case folding; a BUF_TOKEN with two such hosts may also be rejected. Never accepted: a later case variant winning, or an answer that changes between calls or map iteration seeds")
	r.Assume("map iteration seeds 0..7 cover every iteration start of maps with <= 8 entries (one bucket); BUF_TOKEN lists have <= 4 entries here. Larger maps (random per-map hash seed) are not steered")
	r.Assume("a host named twice in BUF_TOKEN is an open zone: rejecting is accepted, as is the first entry winning (a later entry winning is not). A token part of a token@host entry that contains the separator ':' is malformed (the property's quantifier lists ':' among the separators); a host-less token and a host may contain ':'")
	r.Assume("netrc histories: operations name only registry hosts (never the words `default`, `machine` or an empty name) and files end with a newline, as every file written by refnetrc or by buf itself does")
	r.Assume(".netrc files are the well-formed files written by refnetrc (machine/default, login, password keys); lexical corner cases of the third-party netrc parser (quotes, macdef, truncated files) are out of scope")
	r.Assume("TLS is switched off (tls.use=false in config.yaml) in phase E so that loopback servers can stand in for registries; the address-to-URL mapping is otherwise the production one")

	scratch, err := os.MkdirTemp("", "verif-c19-")
	if err != nil {
		r.Incomplete("cannot create scratch dir: " + err.Error())
		return
	}
	defer os.RemoveAll(scratch)
	c := &checker{r: r, scratch: scratch, states: map[uint64]struct{}{}, fds: newFDGuard(), seedSeen: map[string]seedObs{}}
	// the whole run executes under map iteration seed 0; phases A, B, K, S, D replay the configurations with two
	// or more bindings under seeds 1..7 as well (mapseeds.go)
	c.seedLive = mapSeedLive()
	r.Set("map_seed_overlay_active", c.seedLive)
	r.Set("map_iteration_seeds", numMapSeeds)
	if c.seedLive {
		setMapSeed(0, true)
		defer setMapSeed(0, false)
	} else {
		r.Incomplete("binary was built without the runtime map-seed overlay (go build -tags verif,mapseed -overlay overlay/mapseed.json): the map-iteration-seed dimension was not explored")
	}

	charSyms := []string{"t", "u", "h", ":", "@", ","}
	wordSyms := []string{"tok1", "tok2", H1, H2, ":", "@", ","}
	var hostsA []string
	hostsA = append(hostsA, "")
	plain := []string{"t", "u", "h", ":"}
	level := []string{""}
	for l := 1; l <= 3; l++ {
		var next []string
		for _, w := range level {
			for _, p := range plain {
				next = append(next, w+p)
			}
		}
		hostsA = append(hostsA, next...)
		level = next
	}
	// phase K (round 4): the character alphabet of phase A with an upper-case twin of `h` in place of `:`
	caseSyms := []string{"t", "u", "h", "H", "@", ","}
	hostsK := []string{""}
	level = []string{""}
	for l := 1; l <= 3; l++ {
		var next []string
		for _, w := range level {
			for _, p := range []string{"t", "u", "h", "H"} {
				next = append(next, w+p)
			}
		}
		hostsK = append(hostsK, next...)
		level = next
	}
	hostsB := []string{H1, H2, H3, "", "r.i", "io", ".io", "r.io:443", "r.io:tok1", "xxr.io", "r.io.", "tok1", "tok2", "r.ior.io", "default"}

	lenA, lenB, selfA, selfB, kS, kD, kE, netrcE := 7, 7, 7, 6, 3, 2, 2, 2
	lenK, selfK := 7, 7
	if !r.Quick() {
		lenA, lenB, selfA, selfB, kS, kD, kE, netrcE = 9, 8, 8, 7, 4, 3, 3, 2
		lenK, selfK = 8, 8
	}
	// phase F runs first: it performs the most netrc lookups per second and the netrc library releases its
	// file descriptors only through finalizers, which needs frequent collections, i.e. a small heap (see fdguard.go)
	phaseWall := map[string]float64{}
	only := os.Getenv("C19_PHASES") // development aid: comma-separated phase names; the run is then reported incomplete
	if only != "" {
		r.Incomplete("C19_PHASES is set: only phases " + only + " were run")
	}
	timed := func(name string, f func()) {
		if only != "" && !contains(strings.Split(only, ","), name) {
			return
		}
		t0 := time.Now()
		f()
		phaseWall[name] = float64(time.Since(t0).Milliseconds()) / 1000
	}
	timed("F", func() { c.interleavePhase(r.Quick()) })
	timed("A", func() { c.envSpace("A", charSyms, lenA, selfA, hostsA, "h") })
	timed("B", func() { c.envSpace("B", wordSyms, lenB, selfB, hostsB, "x") })
	timed("K", func() { c.envSpace("K", caseSyms, lenK, selfK, hostsK, "h") })
	timed("S", func() { c.structuredEnv(kS) })
	timed("C", func() { c.netrcSpace() })
	timed("D", func() { c.chainSpace(kD, !r.Quick()) })
	timed("G", func() { c.historyPhase(r.Quick()) })
	timed("E", func() { c.e2eSpace(kE, netrcE) })
	timed("G2", func() { c.historyCLIPhase(r.Quick()) })
	if os.Getenv("C19_PHASE_WALL") != "" {
		fmt.Fprintln(os.Stderr, "phase wall seconds:", phaseWall)
	}

	r.States.Store(int64(len(c.states)))
	if os.Getenv("C19_FD_DEBUG") != "" {
		fmt.Fprintln(os.Stderr, "fdguard: forced collections:", c.fds.forcedGC.Load())
	}
	r.Set("env_strings", c.envStrings.Load())
	r.Set("env_model_none", c.envNone.Load())
	r.Set("env_model_single_hostless", c.envSingle.Load())
	r.Set("env_model_host_map", c.envMap.Load())
	r.Set("env_model_malformed", c.envReject.Load())
	r.Set("env_model_malformed_with_wellformed_part", c.envRejectPartly.Load())
	r.Set("env_open_zone_rejected_by_impl", c.envGreyRejected.Load())
	r.Set("env_open_zone_accepted_by_impl", c.envGreyAccepted.Load())
	r.Set("env_model_selfchecked_strings", c.selfChecked.Load())
	r.Set("clause_env_token_for_configured_host", c.lookTokenForHost.Load())
	r.Set("clause_env_hostless_token_every_host", c.lookHostless.Load())
	r.Set("clause_env_no_token_for_unconfigured_host_while_others_configured", c.lookNoLeak.Load())
	r.Set("clause_env_nothing_configured", c.lookNoneNothingConfigured.Load())
	r.Set("clause_netrc_machine_token", c.nNamed.Load())
	r.Set("clause_netrc_default_token", c.nDefault.Load())
	r.Set("clause_netrc_machine_without_password_blocks_default", c.nNamedNoPassword.Load())
	r.Set("clause_netrc_no_token", c.nNone.Load())
	r.Set("clause_chain_env_beats_netrc", c.chEnvWins.Load())
	r.Set("clause_chain_env_only", c.chEnvOnly.Load())
	r.Set("clause_chain_netrc_fallback", c.chNetrcUsed.Load())
	r.Set("clause_chain_no_header", c.chNeither.Load())
	r.Set("clause_chain_no_header_while_env_configures_other_host", c.chNoLeakEnv.Load())
	r.Set("clause_chain_no_header_while_netrc_configures_other_machine", c.chNoLeakNetrc.Load())
	r.Set("chain_configs_with_rejected_env", c.chEnvRejected.Load())
	r.Set("e2e_cli_runs", c.e2eRuns.Load())
	r.Set("clause_e2e_malformed_rejected_no_request", c.e2eRejected.Load())
	r.Set("clause_e2e_header_sent", c.e2eHeader.Load())
	r.Set("clause_e2e_env_beats_netrc", c.e2eEnvWins.Load())
	r.Set("clause_e2e_netrc_fallback", c.e2eNetrc.Load())
	r.Set("clause_e2e_no_header", c.e2eNoHeader.Load())
	r.Set("clause_e2e_no_header_while_other_host_configured", c.e2eNoLeak.Load())
	r.Set("env_model_hosts_differing_only_in_case", c.envFoldDup.Load())
	r.Set("env_case_duplicates_rejected_by_impl", c.envFoldDupRejected.Load())
	r.Set("env_case_duplicates_accepted_by_impl", c.envFoldDupAccepted.Load())
	r.Set("clause_env_request_is_case_variant_of_configured_host", c.lookCaseVariantOnly.Load())
	r.Set("env_case_zone_impl_sends_nothing", c.lookCaseZoneExact.Load())
	r.Set("env_case_zone_impl_sends_token_of_case_variant", c.lookCaseZoneFolded.Load())
	r.Set("clause_lookups_with_two_tolerated_answers", c.lookAmbiguous.Load())
	r.Set("clause_lookups_compared_across_map_seeds_or_calls", c.lookAcrossSeeds.Load())
	r.Set("cases_replayed_under_other_map_seeds", c.multiReplayed.Load())
	r.Set("clause_chain_request_is_case_variant_of_env_host", c.chCaseVariantRequest.Load())
	r.Set("clause_netrc_request_is_case_variant_of_machine", c.nCaseZone.Load())
	r.Set("netrc_case_zone_impl_answers_exactly", c.nCaseZoneExact.Load())

	if r.Expired() {
		return
	}
	for _, cl := range []struct {
		name string
		n    int64
	}{
		{"env host map", c.envMap.Load()}, {"env host-less", c.envSingle.Load()}, {"env malformed with well-formed part", c.envRejectPartly.Load()},
		{"env no token for unconfigured host", c.lookNoLeak.Load()}, {"env token for configured host", c.lookTokenForHost.Load()},
		{"netrc machine", c.nNamed.Load()}, {"netrc default", c.nDefault.Load()}, {"netrc machine without password", c.nNamedNoPassword.Load()},
		{"chain env beats netrc", c.chEnvWins.Load()}, {"chain netrc fallback", c.chNetrcUsed.Load()}, {"chain no header", c.chNoLeakEnv.Load()},
		{"interleaved Make calls of threads with different tokens", c.fOverlapDifferentTokens.Load()},
		{"env hosts differing only in case", c.envFoldDup.Load()}, {"request host is a case variant of a configured host", c.lookCaseVariantOnly.Load()},
		{"chain request host is a case variant of an env host", c.chCaseVariantRequest.Load()},
		{"netrc request host is a case variant of a machine name", c.nCaseZone.Load()},
		{"e2e rejected", c.e2eRejected.Load()}, {"e2e env beats netrc", c.e2eEnvWins.Load()}, {"e2e netrc fallback", c.e2eNetrc.Load()}, {"e2e no leak", c.e2eNoLeak.Load()},
	} {
		if cl.n == 0 {
			r.Incomplete("clause never exercised: " + cl.name)
		}
	}
	if c.seedLive && only == "" {
		if c.multiReplayed.Load() == 0 {
			r.Incomplete("clause never exercised: configurations replayed under other map iteration seeds")
		}
		if c.envFoldDupAccepted.Load() > 0 && c.lookAcrossSeeds.Load() == 0 {
			r.Incomplete("clause never exercised: lookups with two tolerated answers compared across map iteration seeds")
		}
	}
}
