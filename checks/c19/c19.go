// Package c19 is the check for property C19 (see DESIGN.md section 3).
package c19
