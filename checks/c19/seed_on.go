//go:build mapseed

package c19

import "runtime"

// setMapSeed uses the runtime overlay (overlay/mapseed.json) that adds runtime.VerifSetMapSeed: every map
// iteration of the process then starts at the bucket/offset derived from seed. Process-wide: it is only
// called between ParallelFor loops, never inside one.
func setMapSeed(seed uint64, on bool) { runtime.VerifSetMapSeed(seed, on) }

func mapSeedBuilt() bool { return true }
