//go:build !mapseed

package c19

func setMapSeed(seed uint64, on bool) {}

func mapSeedBuilt() bool { return false }
