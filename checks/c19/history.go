package c19

// Phase G (round 3): the .netrc file as STATE - operation histories.
//
// Phases C/D/E/F only ever read .netrc files the harness wrote. buf also WRITES the file: `buf registry
// login` stores the validated token through netrc.PutMachines, `buf registry logout` removes machines
// through netrc.DeleteMachineForName, and every later request reads what these wrote. The property's
// "a token configured for one host is never sent to another host" therefore also quantifies over
// histories: which hosts a token is configured for after a login is decided by what the login wrote.
//
// G1 (API level): every history of at most d operations over the operation menu
//
//	put(h)        netrc.PutMachines(container, machine h with a fresh token)        h in {r.io, xr.io, h3.io}
//	put(h,h')     one PutMachines call with two machines (ordered pairs, h != h')
//	delete(h)     netrc.DeleteMachineForName(container, h)
//
// from every initial file of a universe (absent file, empty file, every ordered selection of entries
// {machine r.io, machine xr.io, default, second machine r.io} with/without password, 3 layouts, located
// through HOME or NETRC) is replayed on the real code against the reference model of the file (refnetrc:
// list of machine entries + optional default entry; NPut/NDelete). The history tree is walked depth first;
// the file buf wrote in step i is the file step i+1 starts from (its bytes are carried along, never
// re-rendered by the harness). After EVERY step every host of the lookup menu (the three operated hosts,
// a host that never gets an entry, a go.-prefixed and a lengthened neighbour) is looked up through the
// real bufconnect netrc token provider and must get exactly the token the model says.
//
// G2 (end to end): the same with the in-process CLI against three loopback registries: `buf registry
// login <addr> --token-stdin` (validates the token against the registry, then writes the netrc file) and
// `buf registry logout <addr>`, each followed by `buf registry whoami <addr>` for all three registries;
// the Authorization header every registry receives is judged by the phase D/E oracle against the model
// file. The login request itself must reach only its own registry and carry only the new token.

import (
	"context"
	"fmt"
	"os"
	"path/filepath"
	"strings"
	"sync/atomic"

	"github.com/bufbuild/buf/private/bufpkg/bufconnect"
	"github.com/bufbuild/buf/private/pkg/app"
	"github.com/bufbuild/buf/private/pkg/netrc"
	"github.com/bufbuild/bufverif/internal/bufx"
)

// H4 is a registry host that no operation ever names: it only ever resolves through the default entry.
const H4 = "h4.io"

// hop is one operation of a history.
type hop struct {
	kind  string   // "put" | "delete"
	hosts []string // put: one or two machines; delete: one name
}

func (o hop) String() string { return o.kind + "(" + strings.Join(o.hosts, ",") + ")" }

func historyOps(menu []string) []hop {
	var ops []hop
	for _, h := range menu {
		ops = append(ops, hop{"put", []string{h}})
	}
	for _, h := range menu {
		ops = append(ops, hop{"delete", []string{h}})
	}
	for _, a := range menu {
		for _, b := range menu {
			if a != b {
				ops = append(ops, hop{"put", []string{a, b}})
			}
		}
	}
	return ops
}

// putToken is the fresh token written by the operation at the given depth for its j-th machine.
func putToken(depth, opIndex, j int) string {
	return fmt.Sprintf("nw%d.%d.%d", depth, opIndex, j)
}

// historyCounters are the non-vacuity counters of phase G.
type historyCounters struct {
	nodes, initialFiles                                              atomic.Int64
	putNoEntryDefaultPresent, putNoEntryNoDefault, putReplaces       atomic.Int64
	putOnAbsentFile, putReplacesDuplicates                           atomic.Int64
	deleteExisting, deleteAbsent, deleteFallsToDefault               atomic.Int64
	lookFreshToken, lookDefaultAfterOp, lookOtherMachine, lookNone   atomic.Int64
	lookDefaultWhileOtherHostJustPut                                 atomic.Int64
	cliRuns, cliLogins, cliLogouts, cliWhoamiDefault, cliWhoamiFresh atomic.Int64
	cliLoginNoEntryDefaultPresent                                    atomic.Int64
}

func hasMachine(entries []NEntry, name string) (n int) {
	for _, e := range entries {
		if !e.Default && e.Name == name {
			n++
		}
	}
	return n
}

func hasDefault(entries []NEntry) bool {
	for _, e := range entries {
		if e.Default {
			return true
		}
	}
	return false
}

// classifyHistory names the structural reason of a lookup mismatch after an operation.
func classifyHistory(before, after []NEntry, op hop, fresh map[string]string, q, want, got string) string {
	isTarget := contains(op.hosts, q)
	if got != "" {
		for host, tok := range fresh {
			if tok == got && host != q {
				return "login-token-sent-to-other-host/" + Relation(q, host)
			}
		}
	}
	switch {
	case got == "" && want != "":
		switch {
		case op.kind == "put" && isTarget:
			return "login-token-missing"
		case hasMachine(after, q) > 0:
			return "machine-token-lost"
		}
		return "default-token-lost"
	case got != "" && op.kind == "delete" && isTarget && contains(NOwner(before, got), q):
		return "deleted-token-still-sent"
	case got != "" && op.kind == "put" && isTarget && got == NLookup(before, q):
		return "stale-token-after-login"
	case got != "":
		if owners := NOwner(before, got); len(owners) > 0 && !contains(owners, q) {
			return "token-of-other-machine-sent/" + Relation(q, owners[0])
		}
		if len(NOwner(before, got)) == 0 && len(NOwner(after, got)) == 0 {
			return "unconfigured-token-sent"
		}
	}
	return "wrong-token"
}

// applyModel applies op to the model file and returns the new model plus the fresh tokens by host.
func applyModel(entries []NEntry, op hop, depth, opIndex int) ([]NEntry, map[string]string) {
	fresh := map[string]string{}
	switch op.kind {
	case "put":
		for j, h := range op.hosts {
			tok := putToken(depth, opIndex, j)
			fresh[h] = tok
			entries = NPut(entries, h, "u", tok)
		}
	case "delete":
		entries, _ = NDelete(entries, op.hosts[0])
	}
	return entries, fresh
}

type historySpace struct {
	name    string
	initial []netrcFile // text + env; the file itself is (re)written by the walker
	absent  bool        // additionally start from "no file at all"
	depth   int
}

// historyPhase runs G1.
func (c *checker) historyPhase(quick bool) {
	r := c.r
	hc := &historyCounters{}
	menu := []string{H1, H2, H3}
	ops := historyOps(menu)
	lookups := []string{H1, H2, H3, H4, "go." + H1, "x" + H2}

	full := []NEntry{
		{Name: H1, Login: "l1", Password: "pwA"},
		{Name: H2, Login: "l2", Password: "pwB"},
		{Default: true, Login: "ld", Password: "pwD"},
		{Name: H1, Login: "l1b", Password: "pwA2"},
	}
	mkFiles := func(universe [][]NEntry, layouts []int) []netrcFile {
		var files []netrcFile
		for ui, entries := range universe {
			for _, layout := range layouts {
				files = append(files, netrcFile{entries: entries, layout: layout, text: RenderNetrc(entries, layout),
					env: map[string]string{"via": []string{"HOME", "NETRC"}[(ui+layout)%2]}})
			}
		}
		return files
	}
	allLayouts := []int{layoutOneLine, layoutMultiLine, layoutPasswordFirst}
	var spaces []historySpace
	if quick {
		spaces = []historySpace{
			{"wide", mkFiles(netrcUniverse(full, 3), allLayouts), true, 2},
			{"deep", mkFiles(netrcUniverse(full[:3], 2), []int{layoutOneLine}), true, 3},
		}
	} else {
		var withPassword [][]NEntry
		for _, u := range netrcUniverse(full[:3], 2) {
			all := true
			for _, e := range u {
				all = all && e.Password != ""
			}
			if all {
				withPassword = append(withPassword, u)
			}
		}
		spaces = []historySpace{
			{"wide", mkFiles(netrcUniverse(full, 4), allLayouts), true, 2},
			{"mid", mkFiles(netrcUniverse(full, 3), []int{layoutMultiLine}), true, 3},
			{"deep", mkFiles(withPassword, []int{layoutOneLine}), true, 4},
		}
	}
	// The walk rewrites one small file per node; an in-memory file system (when there is one) saves most of the
	// system time. Same naming and clean-up rules as the run's scratch directory.
	scratch := c.scratch
	if st, err := os.Stat("/dev/shm"); err == nil && st.IsDir() {
		if d, err := os.MkdirTemp("/dev/shm", "verif-c19-"); err == nil {
			scratch = d
			defer os.RemoveAll(d)
		}
	}
	var dirSeq atomic.Int64
	for _, sp := range spaces {
		files := sp.initial
		n := len(files)
		if sp.absent {
			n += 2 // the absent file, located through HOME and through NETRC
		}
		r.ParallelFor(n, 0, func(i int) {
			var f netrcFile
			absent := i >= len(files)
			if absent {
				f = netrcFile{env: map[string]string{"via": []string{"HOME", "NETRC"}[i-len(files)]}}
			} else {
				f = files[i]
			}
			dir := filepath.Join(scratch, "history", fmt.Sprint(dirSeq.Add(1)))
			if err := os.MkdirAll(dir, 0o700); err != nil {
				r.Incomplete("phase G: cannot create directory: " + err.Error())
				return
			}
			defer os.RemoveAll(dir)
			var path string
			var env map[string]string
			if f.env["via"] == "HOME" {
				path = filepath.Join(dir, ".netrc")
				env = map[string]string{"HOME": dir}
			} else {
				path = filepath.Join(dir, "custom-netrc")
				env = map[string]string{"HOME": filepath.Join(dir, "no-such-home"), "NETRC": path}
			}
			container := app.NewEnvContainer(env)
			provider := bufconnect.NewNetrcTokenProvider(container, netrc.GetMachineForName)
			hc.initialFiles.Add(1)
			initialText := "(no file)"
			if !absent {
				initialText = f.text
			}
			var states []string

			// restore puts the file into the state the real code left it in at a history node
			restore := func(content []byte, exists bool) bool {
				var err error
				if exists {
					err = os.WriteFile(path, content, 0o600)
				} else if err = os.Remove(path); os.IsNotExist(err) {
					err = nil
				}
				if err != nil {
					r.Incomplete("phase G: cannot restore netrc file: " + err.Error())
					return false
				}
				return true
			}
			var walk func(model []NEntry, content []byte, exists bool, depth int, trail []string) bool
			walk = func(model []NEntry, content []byte, exists bool, depth int, trail []string) bool {
				if depth == sp.depth {
					return true
				}
				for oi, op := range ops {
					if r.Expired() {
						return false
					}
					if !restore(content, exists) {
						return false
					}
					after, fresh := applyModel(model, op, depth, oi)
					// the operation on the real code
					var opErr error
					switch op.kind {
					case "put":
						var machines []netrc.Machine
						for j, h := range op.hosts {
							machines = append(machines, netrc.NewMachine(h, "u", putToken(depth, oi, j)))
						}
						opErr = netrc.PutMachines(container, machines...)
					case "delete":
						_, opErr = netrc.DeleteMachineForName(container, op.hosts[0])
					}
					c.fds.opened(r, 1+len(lookups))
					step := append(append([]string(nil), trail...), op.String())
					history := initialText + " | " + strings.Join(step, " ")
					if opErr != nil {
						r.Violate("netrc-history/operation-fails/"+op.kind,
							fmt.Sprintf("%s on a well-formed netrc file failed: %v (history: %s)", op, opErr, history),
							Case{Phase: "G", Netrc: string(content), Model: NCanon(model), Detail: opErr.Error(), Schedule: history})
						continue
					}
					// clause accounting from the model
					hc.nodes.Add(1)
					switch op.kind {
					case "put":
						for _, h := range op.hosts {
							switch k := hasMachine(model, h); {
							case !exists:
								hc.putOnAbsentFile.Add(1)
							case k > 1:
								hc.putReplacesDuplicates.Add(1)
							case k == 1:
								hc.putReplaces.Add(1)
							case hasDefault(model):
								hc.putNoEntryDefaultPresent.Add(1)
							default:
								hc.putNoEntryNoDefault.Add(1)
							}
						}
					case "delete":
						switch {
						case hasMachine(model, op.hosts[0]) == 0:
							hc.deleteAbsent.Add(1)
						case hasDefault(model):
							hc.deleteFallsToDefault.Add(1)
							hc.deleteExisting.Add(1)
						default:
							hc.deleteExisting.Add(1)
						}
					}
					// every host of the menu is looked up after the step
					for _, q := range lookups {
						want := NLookup(after, q)
						got := provider.RemoteToken(q)
						if got != want {
							why := classifyHistory(model, after, op, fresh, q, want, got)
							r.Violate("netrc-history/"+why,
								fmt.Sprintf("netrc history %s: afterwards a request to %q gets token %q, the model file %s says %q (%s)", history, q, got, NCanon(after), want, why),
								Case{Phase: "G", Netrc: initialText, RequestHost: q, Model: NCanon(after), Want: want, Got: got, Detail: why, Schedule: history})
						}
						switch {
						case want == "":
							hc.lookNone.Add(1)
						case fresh[q] == want:
							hc.lookFreshToken.Add(1)
						case hasMachine(after, q) > 0:
							hc.lookOtherMachine.Add(1)
						default:
							hc.lookDefaultAfterOp.Add(1)
							if op.kind == "put" {
								hc.lookDefaultWhileOtherHostJustPut.Add(1)
							}
						}
					}
					c.lookup(len(lookups))
					states = append(states, NCanon(after))
					if NCanon(after) != NCanon(model) {
						r.Distinct("G:" + history)
					}
					written, err := os.ReadFile(path)
					wrExists := err == nil
					if err != nil && !os.IsNotExist(err) {
						r.Incomplete("phase G: cannot read netrc file back: " + err.Error())
						return false
					}
					if !walk(after, written, wrExists, depth+1, step) {
						return false
					}
				}
				return true
			}
			var content []byte
			if !absent {
				content = []byte(f.text)
			}
			walk(f.entries, content, !absent, 0, nil)
			c.addStates(states)
			r.SampleEvery(i, 97, func() any {
				return map[string]any{"phase": "G", "space": sp.name, "initial_netrc": initialText, "located_via": f.env["via"], "history_depth": sp.depth, "operations": len(ops)}
			})
		})
		r.Set("G_"+sp.name+"_initial_files", n)
		r.Set("G_"+sp.name+"_history_depth", sp.depth)
	}
	var opNames []string
	for _, op := range ops {
		opNames = append(opNames, op.String())
	}
	r.Set("G_operations", opNames)
	r.Set("G_lookup_hosts_after_every_step", lookups)
	r.Set("G_history_nodes_replayed", hc.nodes.Load())
	r.Set("clause_history_put_for_host_without_entry_default_present", hc.putNoEntryDefaultPresent.Load())
	r.Set("clause_history_put_for_host_without_entry_no_default", hc.putNoEntryNoDefault.Load())
	r.Set("clause_history_put_replaces_entry", hc.putReplaces.Load())
	r.Set("clause_history_put_replaces_duplicate_entries", hc.putReplacesDuplicates.Load())
	r.Set("clause_history_put_creates_file", hc.putOnAbsentFile.Load())
	r.Set("clause_history_delete_existing", hc.deleteExisting.Load())
	r.Set("clause_history_delete_then_default_applies", hc.deleteFallsToDefault.Load())
	r.Set("clause_history_delete_absent", hc.deleteAbsent.Load())
	r.Set("clause_history_lookup_fresh_token", hc.lookFreshToken.Load())
	r.Set("clause_history_lookup_default_after_operation", hc.lookDefaultAfterOp.Load())
	r.Set("clause_history_lookup_default_right_after_put_of_other_host", hc.lookDefaultWhileOtherHostJustPut.Load())
	r.Set("clause_history_lookup_other_machine_after_operation", hc.lookOtherMachine.Load())
	r.Set("clause_history_lookup_none", hc.lookNone.Load())
	if r.Expired() {
		return
	}
	for _, cl := range []struct {
		name string
		n    int64
	}{
		{"history: put for a host without entry while a default entry exists", hc.putNoEntryDefaultPresent.Load()},
		{"history: put replaces an entry", hc.putReplaces.Load()}, {"history: put replaces duplicate entries", hc.putReplacesDuplicates.Load()},
		{"history: put creates the file", hc.putOnAbsentFile.Load()}, {"history: delete of an existing machine", hc.deleteExisting.Load()},
		{"history: delete after which the default applies", hc.deleteFallsToDefault.Load()}, {"history: delete of an absent machine", hc.deleteAbsent.Load()},
		{"history: lookup of the fresh token", hc.lookFreshToken.Load()}, {"history: default entry looked up right after a put for another host", hc.lookDefaultWhileOtherHostJustPut.Load()},
		{"history: other machine looked up after an operation", hc.lookOtherMachine.Load()}, {"history: no token after an operation", hc.lookNone.Load()},
	} {
		if cl.n == 0 {
			r.Incomplete("clause never exercised: " + cl.name)
		}
	}
}

// ---------------------------------------------------------------------------------------------
// G2: login / logout / whoami through the in-process CLI against loopback registries

type cliOp struct {
	kind string // "login" | "logout"
	reg  int    // registry index 0..2
}

func (o cliOp) String() string { return fmt.Sprintf("%s{%d}", o.kind, o.reg+1) }

func (c *checker) historyCLIPhase(quick bool) {
	r := c.r
	hc := &historyCounters{}
	templates := []NEntry{
		{Name: "{1}", Login: "l1", Password: "pwA"},
		{Name: "{2}", Login: "l2", Password: "pwB"},
		{Default: true, Login: "ld", Password: "pwD"},
	}
	var universe [][]NEntry
	depth := 2
	if quick {
		// every ordered selection of <= 2 entries with password, plus the two shapes in which a missing password matters
		for _, u := range netrcUniverse(templates, 2) {
			all := true
			for _, e := range u {
				all = all && e.Password != ""
			}
			if all {
				universe = append(universe, u)
			}
		}
		nopw := func(e NEntry) NEntry { e.Password = ""; return e }
		universe = append(universe, []NEntry{nopw(templates[2])}, []NEntry{nopw(templates[0]), templates[2]})
	} else {
		universe = netrcUniverse(templates, 2)
		depth = 3
	}
	var ops []cliOp
	for reg := 0; reg < 3; reg++ {
		ops = append(ops, cliOp{"login", reg})
	}
	for reg := 0; reg < 3; reg++ {
		ops = append(ops, cliOp{"logout", reg})
	}
	cfgDir := filepath.Join(c.scratch, "bufconfig-history")
	if err := os.MkdirAll(cfgDir, 0o700); err != nil {
		r.Incomplete("cannot create config dir: " + err.Error())
		return
	}
	if err := os.WriteFile(filepath.Join(cfgDir, "config.yaml"), []byte("version: v1\ntls:\n  use: \"false\"\n"), 0o600); err != nil {
		r.Incomplete("cannot write config.yaml: " + err.Error())
		return
	}
	const nTrios = 16
	pool := make(chan *trio, nTrios)
	var trios []*trio
	for i := 0; i < nTrios; i++ {
		t := newTrio()
		trios = append(trios, t)
		pool <- t
	}
	defer func() {
		for _, t := range trios {
			t.close()
		}
	}()
	// work item = (initial file, first operation): the subtree below the first operation
	n := len(universe) * len(ops)
	var seq atomic.Int64
	r.ParallelFor(n, 0, func(i int) {
		tmplEntries := universe[i/len(ops)]
		firstOp := i % len(ops)
		t := <-pool
		defer func() { pool <- t }()
		entries := make([]NEntry, len(tmplEntries))
		for j, e := range tmplEntries {
			e.Name = substitute(e.Name, t)
			entries[j] = e
		}
		tmplText := RenderNetrc(tmplEntries, layoutOneLine)
		if len(tmplEntries) == 0 {
			tmplText = "(no file)"
		}
		home := filepath.Join(c.scratch, "history-cli", fmt.Sprint(seq.Add(1)))
		if err := os.MkdirAll(home, 0o700); err != nil {
			r.Incomplete("cannot create home: " + err.Error())
			return
		}
		defer os.RemoveAll(home)
		path := filepath.Join(home, ".netrc")
		baseEnv := map[string]string{"HOME": home, "BUF_CONFIG_DIR": cfgDir, "BUF_CACHE_DIR": filepath.Join(home, "cache")}
		runCLI := func(stdin string, args ...string) (bufx.CLIResult, [3][]hit, int) {
			env := make(map[string]string, len(baseEnv))
			for k, v := range baseEnv {
				env[k] = v
			}
			res := bufx.RunCLI(context.Background(), env, stdin, args...)
			var all [3][]hit
			total := 0
			for j := range all {
				all[j] = t.recs[j].take()
				total += len(all[j])
			}
			hc.cliRuns.Add(1)
			return res, all, total
		}
		// issued: every token handed out by a login of this history -> the registry it was issued for
		var walk func(model []NEntry, content []byte, exists bool, d int, trail []string, issued map[string]int, only int) bool
		walk = func(model []NEntry, content []byte, exists bool, d int, trail []string, issued map[string]int, only int) bool {
			if d == depth {
				return true
			}
			for oi, op := range ops {
				if only >= 0 && oi != only {
					continue
				}
				if r.Expired() {
					return false
				}
				var err error
				if exists {
					err = os.WriteFile(path, content, 0o600)
				} else if err = os.Remove(path); os.IsNotExist(err) {
					err = nil
				}
				if err != nil {
					r.Incomplete("phase G2: cannot restore netrc file: " + err.Error())
					return false
				}
				addr := t.addrs[op.reg]
				step := append(append([]string(nil), trail...), op.String())
				history := tmplText + " | " + strings.Join(step, " ")
				after := model
				mk := func(q int, detail string) Case {
					cs := Case{Phase: "G2", Netrc: tmplText, Model: unsubstitute(NCanon(after), t), Detail: detail, Schedule: history}
					if q >= 0 {
						cs.RequestHost = fmt.Sprintf("{%d}", q+1)
					}
					return cs
				}
				fresh := ""
				iss := issued // tokens issued on the path to this node (siblings do not see each other's)
				var res bufx.CLIResult
				var all [3][]hit
				total := 0
				switch op.kind {
				case "login":
					fresh = fmt.Sprintf("lg%d.%d", d, oi)
					extended := map[string]int{fresh: op.reg}
					for k, v := range issued {
						extended[k] = v
					}
					iss = extended
					hc.cliLogins.Add(1)
					if hasMachine(model, addr) == 0 && hasDefault(model) {
						hc.cliLoginNoEntryDefaultPresent.Add(1)
					}
					after = NPut(model, addr, "verif", fresh)
					after, _ = NDelete(after, "go."+addr)
					for attempt := 0; attempt < 3; attempt++ {
						res, all, total = runCLI(fresh+"\n", "registry", "login", addr, "--token-stdin")
						if res.ExitCode == 0 {
							break
						}
					}
					if res.ExitCode != 0 {
						r.Violate("e2e-history/login-fails", fmt.Sprintf("`buf registry login {%d} --token-stdin` failed with exit %d: %s (history %s)", op.reg+1, res.ExitCode, strings.TrimSpace(res.Stderr), history), mk(op.reg, res.Stderr))
						continue
					}
					// the token being validated must travel to its own registry only
					for j := range all {
						for _, h := range all[j] {
							if j != op.reg {
								r.Violate("e2e-history/login-request-sent-to-other-host", fmt.Sprintf("login to registry {%d} sent a request to registry {%d} (Authorization %q); history %s", op.reg+1, j+1, h.Auth, history), mk(j, ""))
							} else if len(h.Auth) != 1 || h.Auth[0] != "Bearer "+fresh {
								r.Violate("e2e-history/login-request-carries-other-credential", fmt.Sprintf("login to registry {%d} with token %q sent Authorization %q; history %s", op.reg+1, fresh, h.Auth, history), mk(j, strings.Join(h.Auth, "|")))
							}
						}
					}
					if len(all[op.reg]) == 0 {
						r.Violate("e2e-history/login-without-validation-request", fmt.Sprintf("login to registry {%d} made no request to it; history %s", op.reg+1, history), mk(op.reg, ""))
					}
				case "logout":
					hc.cliLogouts.Add(1)
					after, _ = NDelete(model, addr)
					after, _ = NDelete(after, "go."+addr)
					res, all, total = runCLI("", "registry", "logout", addr)
					if res.ExitCode != 0 {
						r.Violate("e2e-history/logout-fails", fmt.Sprintf("`buf registry logout {%d}` failed with exit %d: %s (history %s)", op.reg+1, res.ExitCode, strings.TrimSpace(res.Stderr), history), mk(op.reg, res.Stderr))
						continue
					}
					if total != 0 {
						r.Violate("e2e-history/logout-makes-requests", fmt.Sprintf("logout of registry {%d} made %d requests; history %s", op.reg+1, total, history), mk(op.reg, ""))
					}
				}
				c.lookup(1)
				// a request to every registry after the step
				afterText := RenderNetrc(after, layoutOneLine)
				for q := 0; q < 3; q++ {
					qa := t.addrs[q]
					for attempt := 0; attempt < 3; attempt++ {
						res, all, total = runCLI("", "registry", "whoami", qa)
						if res.ExitCode == 0 {
							break
						}
					}
					c.lookup(1)
					if res.ExitCode != 0 {
						r.Violate("e2e-history/whoami-fails", fmt.Sprintf("`buf registry whoami {%d}` failed with exit %d: %s (history %s)", q+1, res.ExitCode, strings.TrimSpace(res.Stderr), history), mk(q, res.Stderr))
						continue
					}
					for j := range all {
						if j != q && len(all[j]) > 0 {
							r.Violate("e2e-history/request-sent-to-other-host", fmt.Sprintf("whoami for registry {%d} sent %d requests to registry {%d} (Authorization %q); history %s", q+1, len(all[j]), j+1, all[j][0].Auth, history), mk(q, ""))
						}
					}
					if len(all[q]) == 1 && len(all[q][0].Auth) == 1 {
						// a token a login of this history obtained for ANOTHER registry is the defect class of its own
						got := strings.TrimPrefix(all[q][0].Auth[0], "Bearer ")
						if reg, ok := iss[got]; ok && reg != q {
							cs := mk(q, "")
							cs.Want, cs.Got = NLookup(after, qa), got
							r.Violate("e2e-history/login-token-sent-to-other-host",
								fmt.Sprintf("history %s: token %q was obtained by a login to registry {%d}, afterwards `buf registry whoami {%d}` sends it to registry {%d}; the model file %s says %q",
									history, got, reg+1, q+1, q+1, unsubstitute(NCanon(after), t), NLookup(after, qa)), cs)
							continue
						}
					}
					c.checkHit("G2", "e2e-history", "", unsubstitute(afterText, t), Config{Kind: KNone}, after, qa, qa, all[q], unsubstitute(history, t))
					switch want := NLookup(after, qa); {
					case want == "":
					case want == fresh:
						hc.cliWhoamiFresh.Add(1)
					case hasMachine(after, qa) == 0:
						hc.cliWhoamiDefault.Add(1)
					}
				}
				if NCanon(after) != NCanon(model) {
					r.Distinct("G2:" + history)
				}
				c.addStates([]string{"e2e-history:" + unsubstitute(NCanon(after), t)})
				written, err := os.ReadFile(path)
				wrExists := err == nil
				if err != nil && !os.IsNotExist(err) {
					r.Incomplete("phase G2: cannot read netrc file back: " + err.Error())
					return false
				}
				if !walk(after, written, wrExists, d+1, step, iss, -1) {
					return false
				}
			}
			return true
		}
		var content []byte
		exists := len(entries) > 0
		if exists {
			content = []byte(RenderNetrc(entries, layoutOneLine))
		}
		walk(entries, content, exists, 0, nil, nil, firstOp)
		r.SampleEvery(i, 29, func() any {
			return map[string]any{"phase": "G2", "initial_netrc_template": tmplText, "first_operation": ops[firstOp].String(), "history_depth": depth}
		})
	})
	r.Set("G2_initial_netrc_templates", len(universe))
	r.Set("G2_history_depth", depth)
	r.Set("G2_operations", []string{"login{1..3} --token-stdin", "logout{1..3}"})
	r.Set("G2_cli_runs", hc.cliRuns.Load())
	r.Set("clause_e2e_history_logins", hc.cliLogins.Load())
	r.Set("clause_e2e_history_logouts", hc.cliLogouts.Load())
	r.Set("clause_e2e_history_login_for_registry_without_entry_default_present", hc.cliLoginNoEntryDefaultPresent.Load())
	r.Set("clause_e2e_history_whoami_with_fresh_login_token", hc.cliWhoamiFresh.Load())
	r.Set("clause_e2e_history_whoami_with_default_entry_after_operation", hc.cliWhoamiDefault.Load())
	if r.Expired() {
		return
	}
	for _, cl := range []struct {
		name string
		n    int64
	}{
		{"e2e history: login for a registry without entry while a default entry exists", hc.cliLoginNoEntryDefaultPresent.Load()},
		{"e2e history: whoami with the fresh login token", hc.cliWhoamiFresh.Load()},
		{"e2e history: whoami answered by the default entry after an operation", hc.cliWhoamiDefault.Load()},
		{"e2e history: logouts", hc.cliLogouts.Load()},
	} {
		if cl.n == 0 {
			r.Incomplete("clause never exercised: " + cl.name)
		}
	}
}

// unsubstitute replaces the loopback addresses of a trio by their template names, so that messages,
// replays and state keys do not depend on port numbers.
func unsubstitute(s string, t *trio) string {
	return strings.NewReplacer(t.addrs[0], "{1}", t.addrs[1], "{2}", t.addrs[2], "{3}").Replace(s)
}
