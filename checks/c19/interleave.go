package c19

// Phase F: every interleaving of 2..3 logical threads that each make a client for one registry host
// from ONE shared connectclient.Config and then send one request through it.
//
// connectclient.Make hands the per-address option slice to the caller-supplied stub factory; the
// interceptor chain is only built (copied) when the factory constructs the connect client. The
// factory and the HTTP transport are supplied by the harness, so they are scheduling points under
// our control:
//
//	step "make"      Make is entered: auth interceptor for the address is obtained, options are
//	                 assembled, the factory is called and parks BEFORE constructing the client
//	step "construct" the factory constructs the real generated client (chain is built), Make returns
//	step "call"      GetCurrentUser is called; the request reaches the thread's transport, which parks
//	                 (only when the transport seam is enabled; otherwise the call completes here)
//	step "finish"    the transport re-reads the request, answers, the call returns
//
// A schedule is a sequence of thread ids in which every thread occurs once per step; all of them are
// enumerated (multinomial count) by an explicit enumerator and executed by a controller that lets
// exactly one thread run at a time (channel hand-over, no free-running goroutines, no timing).
// On every schedule every recorded request must carry exactly the token the model assigns to the host
// of ITS thread. The shared Config is built per schedule by the production constructors
// (bufcli.NewConnectClientConfig / NewConnectClientConfigWithToken: the real interceptor slice with its
// real len/cap is the shared object) and, as a third variant, by connectclient.NewConfig with an
// interceptor slice that has spare capacity (a valid input of the package's API).

import (
	"context"
	"fmt"
	"io"
	"net/http"
	"os"
	"path/filepath"
	"runtime"
	"sort"
	"strings"
	"sync"
	"sync/atomic"
	"time"

	"connectrpc.com/connect"
	"github.com/bufbuild/buf/private/buf/bufcli"
	"github.com/bufbuild/buf/private/bufpkg/bufconnect"
	"github.com/bufbuild/buf/private/gen/proto/connect/buf/alpha/registry/v1alpha1/registryv1alpha1connect"
	registryv1alpha1 "github.com/bufbuild/buf/private/gen/proto/go/buf/alpha/registry/v1alpha1"
	"github.com/bufbuild/buf/private/pkg/app"
	"github.com/bufbuild/buf/private/pkg/app/appext"
	"github.com/bufbuild/buf/private/pkg/connectclient"
	"github.com/bufbuild/buf/private/pkg/netrc"
	"github.com/bufbuild/bufverif/internal/bufx"
)

// interleavings returns every sequence over thread ids 0..n-1 in which each id occurs exactly k times,
// in lexicographic order.
func interleavings(n, k int) [][]uint8 {
	var out [][]uint8
	left := make([]int, n)
	for i := range left {
		left[i] = k
	}
	cur := make([]uint8, 0, n*k)
	var rec func()
	rec = func() {
		if len(cur) == n*k {
			out = append(out, append([]uint8(nil), cur...))
			return
		}
		for t := 0; t < n; t++ {
			if left[t] == 0 {
				continue
			}
			left[t]--
			cur = append(cur, uint8(t))
			rec()
			cur = cur[:len(cur)-1]
			left[t]++
		}
	}
	rec()
	return out
}

// overlapPairs returns a bit mask over ordered thread pairs (a,b): bit a*n+b is set when thread b's
// first step (its whole Make up to the factory) runs while thread a is parked inside its factory,
// i.e. between a's first and second step.
func overlapPairs(schedule []uint8, n int) uint32 {
	first := make([]int, n)
	second := make([]int, n)
	seen := make([]int, n)
	for pos, t := range schedule {
		switch seen[t] {
		case 0:
			first[t] = pos
		case 1:
			second[t] = pos
		}
		seen[t]++
	}
	var mask uint32
	for a := 0; a < n; a++ {
		for b := 0; b < n; b++ {
			if a != b && first[a] < first[b] && first[b] < second[a] {
				mask |= 1 << uint(a*n+b)
			}
		}
	}
	return mask
}

// multisets returns all non-decreasing index tuples of length n over 0..m-1 (thread ids are
// interchangeable because all schedules are enumerated, so host assignments are needed up to order).
func multisets(n, m int) [][]int {
	var out [][]int
	cur := make([]int, 0, n)
	var rec func(min int)
	rec = func(min int) {
		if len(cur) == n {
			out = append(out, append([]int(nil), cur...))
			return
		}
		for i := min; i < m; i++ {
			cur = append(cur, i)
			rec(i)
			cur = cur[:len(cur)-1]
		}
	}
	rec(0)
	return out
}

// ---------------------------------------------------------------------------------------------
// logical threads

type lthread struct {
	id            int
	host          string
	resume        chan struct{}
	parked        chan struct{}
	finished      bool // written by the thread before its last park, read by the controller after it
	parkTransport bool
	usedFactory   bool
	usedTransport bool
	pre, post     []hit // request as seen when the transport is entered / after it was resumed
	err           error
	panicked      any
}

func (t *lthread) yield() {
	t.parked <- struct{}{}
	<-t.resume
}

// Do is the thread's own recording transport (connect.HTTPClient).
func (t *lthread) Do(req *http.Request) (*http.Response, error) {
	if req.Body != nil {
		_, _ = io.Copy(io.Discard, req.Body)
		_ = req.Body.Close()
	}
	t.pre = append(t.pre, snapshotRequest(req))
	if t.parkTransport && !t.usedTransport {
		t.usedTransport = true
		t.yield()
	}
	t.post = append(t.post, snapshotRequest(req))
	return okResponse(req), nil
}

func (t *lthread) body(config *connectclient.Config) {
	client := connectclient.Make(config, t.host,
		func(_ connect.HTTPClient, address string, options ...connect.ClientOption) registryv1alpha1connect.AuthnServiceClient {
			if !t.usedFactory {
				t.usedFactory = true
				t.yield() // Make has assembled its options; the client (interceptor chain) is not built yet
			}
			return registryv1alpha1connect.NewAuthnServiceClient(t, address, options...)
		})
	t.yield() // client made, not used yet
	_, t.err = client.GetCurrentUser(context.Background(), connect.NewRequest(&registryv1alpha1.GetCurrentUserRequest{}))
}

func (t *lthread) start(config *connectclient.Config) {
	go func() {
		<-t.resume
		defer func() {
			t.panicked = recover()
			t.finished = true
			t.parked <- struct{}{}
		}()
		t.body(config)
	}()
}

// runSchedule executes one schedule. It returns false when the controller lost a thread (harness problem).
func runSchedule(config *connectclient.Config, hosts []string, schedule []uint8, transportSeam bool) ([]*lthread, int, bool) {
	threads := make([]*lthread, len(hosts))
	for i, h := range hosts {
		threads[i] = &lthread{id: i, host: h, resume: make(chan struct{}), parked: make(chan struct{}), parkTransport: transportSeam}
		threads[i].start(config)
	}
	skipped := 0
	step := func(t *lthread) bool {
		t.resume <- struct{}{}
		select {
		case <-t.parked:
			return true
		case <-time.After(60 * time.Second):
			return false
		}
	}
	for _, tid := range schedule {
		t := threads[tid]
		if t.finished {
			skipped++
			continue
		}
		if !step(t) {
			return threads, skipped, false
		}
	}
	for _, t := range threads {
		for !t.finished {
			skipped++
			if !step(t) {
				return threads, skipped, false
			}
		}
	}
	return threads, skipped, true
}

// ---------------------------------------------------------------------------------------------
// configurations

type schedConfig struct {
	variant string
	s       string // BUF_TOKEN / token string
	cfg     Config
	file    netrcFile // entries nil for the variant that does not consult netrc
	build   func() (*connectclient.Config, error)
}

func appextContainer(env map[string]string) (appext.Container, error) {
	base := app.NewContainer(env, strings.NewReader(""), io.Discard, io.Discard, "buf")
	nameContainer, err := appext.NewNameContainer(base, "buf")
	if err != nil {
		return nil, err
	}
	return appext.NewContainer(nameContainer, bufx.Logger), nil
}

// tokenSetup is one credential configuration: a BUF_TOKEN sentence and a netrc file.
type tokenSetup struct {
	s    string
	file netrcFile
}

func setupProduct(sentences []string, files []netrcFile) []tokenSetup {
	var out []tokenSetup
	for _, s := range sentences {
		for _, f := range files {
			out = append(out, tokenSetup{s, f})
		}
	}
	return out
}

// schedConfigs turns credential configurations into shared-Config constructions: two per setup (the
// CLI's constructor, NewConfig with a spare-capacity interceptor slice) and one per distinct non-empty
// sentence for the CLI's explicit-token constructor (which does not consult netrc).
func (c *checker) schedConfigs(setups []tokenSetup, cfgDir string) []schedConfig {
	var out []schedConfig
	noHome := filepath.Join(c.scratch, "sched-no-home")
	withToken := map[string]bool{}
	for _, su := range setups {
		s, f := su.s, su.file
		cfg := Parse(s)
		if cfg.Kind == KReject || cfg.Grey() {
			continue // acceptance is judged in phases A/B/S/E
		}
		env := map[string]string{"BUF_CONFIG_DIR": cfgDir, "BUF_CACHE_DIR": filepath.Join(noHome, "cache")}
		if s != "" {
			env["BUF_TOKEN"] = s
		}
		for k, v := range f.env {
			env[k] = v
		}
		out = append(out, schedConfig{variant: "cli", s: s, cfg: cfg, file: f, build: func() (*connectclient.Config, error) {
			container, err := appextContainer(env)
			if err != nil {
				return nil, err
			}
			return bufcli.NewConnectClientConfig(container)
		}})
		out = append(out, schedConfig{variant: "spare-capacity", s: s, cfg: cfg, file: f, build: func() (*connectclient.Config, error) {
			container := app.NewEnvContainer(env)
			envProvider, err := bufconnect.NewTokenProviderFromContainer(container)
			if err != nil {
				return nil, err
			}
			netrcProvider := bufconnect.NewNetrcTokenProvider(container, netrc.GetMachineForName)
			shared := make([]connect.Interceptor, 0, 8)
			shared = append(shared, bufconnect.NewSetCLIVersionInterceptor("verif"))
			return connectclient.NewConfig(nopHTTPClient{},
				connectclient.WithAddressMapper(func(a string) string { return "https://" + a }),
				connectclient.WithInterceptors(shared),
				connectclient.WithAuthInterceptorProvider(bufconnect.NewAuthorizationInterceptorProvider(envProvider, netrcProvider)),
			), nil
		}})
		if s != "" && !withToken[s] {
			withToken[s] = true
			tokenEnv := map[string]string{"BUF_CONFIG_DIR": cfgDir, "BUF_CACHE_DIR": filepath.Join(noHome, "cache"), "HOME": noHome}
			out = append(out, schedConfig{variant: "cli-with-token", s: s, cfg: cfg, build: func() (*connectclient.Config, error) {
				container, err := appextContainer(tokenEnv)
				if err != nil {
					return nil, err
				}
				return bufcli.NewConnectClientConfigWithToken(container, s)
			}})
		}
	}
	return out
}

// nopHTTPClient is the Config's own HTTP client in the spare-capacity variant; the harness factory
// never uses the Config's client, so any request reaching it is a harness error.
type nopHTTPClient struct{}

func (nopHTTPClient) Do(*http.Request) (*http.Response, error) {
	return nil, fmt.Errorf("verif: request through the Config's HTTP client")
}

// ---------------------------------------------------------------------------------------------

type schedSpace struct {
	name          string
	nThreads      int
	transportSeam bool
	configs       []schedConfig
}

func (c *checker) interleaveSpace(spaces []schedSpace) {
	r := c.r
	hosts := []string{H1, H2, H3}
	type item struct {
		space     *schedSpace
		sc        *schedConfig
		hostIdx   []int
		schedules [][]uint8
		overlaps  []uint32
		group     string
	}
	const chunk = 1024
	var items []item
	total := 0
	for si := range spaces {
		sp := &spaces[si]
		steps := 3
		if sp.transportSeam {
			steps = 4
		}
		all := interleavings(sp.nThreads, steps)
		ov := make([]uint32, len(all))
		for i, s := range all {
			ov[i] = overlapPairs(s, sp.nThreads)
		}
		assignments := multisets(sp.nThreads, len(hosts))
		for ci := range sp.configs {
			sc := &sp.configs[ci]
			for _, hs := range assignments {
				group := fmt.Sprintf("F:%s:%s|%s|%s|%v", sp.name, sc.variant, sc.s, NCanon(sc.file.entries), hs)
				for lo := 0; lo < len(all); lo += chunk {
					hi := lo + chunk
					if hi > len(all) {
						hi = len(all)
					}
					items = append(items, item{space: sp, sc: sc, hostIdx: hs, schedules: all[lo:hi], overlaps: ov[lo:hi], group: group})
				}
			}
		}
		r.Set("F_"+sp.name+"_threads", sp.nThreads)
		r.Set("F_"+sp.name+"_steps_per_thread", steps)
		r.Set("F_"+sp.name+"_schedules_per_case", len(all))
		r.Set("F_"+sp.name+"_configs", len(sp.configs))
		r.Set("F_"+sp.name+"_host_assignments", len(assignments))
		total += len(all) * len(sp.configs) * len(assignments)
	}
	var outcomesMu sync.Mutex
	outcomes := map[string]map[string]struct{}{}
	const sampleStride = 40009
	sampled := map[int]any{}
	var executed, overlapping, overlappingSameTok, buildFailed, skippedSteps atomic.Int64
	r.ParallelFor(len(items), 0, func(i int) {
		it := items[i]
		sc := it.sc
		n := it.space.nThreads
		hs := make([]string, n)
		wants := make([]string, n)
		for j, hi := range it.hostIdx {
			hs[j] = hosts[hi]
			wants[j], _ = chainWant(sc.cfg, sc.file.entries, hs[j])
		}
		// ordered pairs of threads whose expected tokens differ
		var diffMask uint32
		for a := 0; a < n; a++ {
			for b := 0; b < n; b++ {
				if a != b && wants[a] != wants[b] {
					diffMask |= 1 << uint(a*n+b)
				}
			}
		}
		if diffMask != 0 {
			r.Distinct(it.group)
		}
		local := map[string]struct{}{}
		for si, schedule := range it.schedules {
			if r.Expired() {
				return
			}
			c.fds.opened(r, n)
			config, err := sc.build()
			if err != nil || config == nil {
				buildFailed.Add(1)
				r.Incomplete(fmt.Sprintf("phase F: %s config for BUF_TOKEN=%q cannot be built: %v", sc.variant, sc.s, err))
				return
			}
			threads, skipped, ok := runSchedule(config, hs, schedule, it.space.transportSeam)
			if !ok {
				r.Incomplete(fmt.Sprintf("phase F: controller lost a thread on schedule %v", schedule))
				return
			}
			skippedSteps.Add(int64(skipped))
			executed.Add(1)
			if it.overlaps[si]&diffMask != 0 {
				overlapping.Add(1)
			} else if it.overlaps[si] != 0 {
				overlappingSameTok.Add(1)
			}
			desc := ""
			describe := func() string {
				if desc == "" {
					ids := make([]string, len(schedule))
					for k, t := range schedule {
						ids[k] = fmt.Sprint(t)
					}
					stepNames := "make,construct,call"
					if it.space.transportSeam {
						stepNames = "make,construct,call,finish"
					}
					desc = fmt.Sprintf("config=%s threads=%v steps(%s) order=%s", sc.variant, hs, stepNames, strings.Join(ids, ""))
				}
				return desc
			}
			var outcome []string
			for _, t := range threads {
				if t.panicked != nil {
					r.Incomplete(fmt.Sprintf("phase F: thread for %q panicked: %v (%s)", t.host, t.panicked, describe()))
					return
				}
				if t.err != nil {
					r.Incomplete(fmt.Sprintf("phase F: in-process call for %q failed: %v (%s)", t.host, t.err, describe()))
					return
				}
				c.checkHit("F", "interleave", sc.s, sc.file.text, sc.cfg, sc.file.entries, t.host, t.host, t.post, describe())
				if len(t.pre) == len(t.post) {
					for k := range t.pre {
						if fmt.Sprint(t.pre[k]) != fmt.Sprint(t.post[k]) {
							// the request changed while it was in flight: judge what the transport saw first as well
							c.checkHit("F", "interleave", sc.s, sc.file.text, sc.cfg, sc.file.entries, t.host, t.host, t.pre[k:k+1], describe()+" (request as first seen by the transport)")
						}
					}
				}
				c.lookup(1)
				o := "?"
				if len(t.post) == 1 {
					o = strings.Join(t.post[0].Auth, "|")
				}
				outcome = append(outcome, o)
			}
			local[strings.Join(outcome, " ; ")] = struct{}{}
			// samples are collected by index and emitted after the loop, so that the evidence does not depend on
			// which worker gets there first
			if idx := i*chunk + si + 1; idx%sampleStride == 0 {
				sm := map[string]any{"phase": "F", "buf_token": sc.s, "netrc": sc.file.text, "schedule": describe(), "authorization_per_thread": outcome}
				outcomesMu.Lock()
				sampled[idx] = sm
				outcomesMu.Unlock()
			}
		}
		outcomesMu.Lock()
		m := outcomes[it.group]
		if m == nil {
			m = map[string]struct{}{}
			outcomes[it.group] = m
		}
		for k := range local {
			m[k] = struct{}{}
		}
		outcomesMu.Unlock()
	})
	sampleIdx := make([]int, 0, len(sampled))
	for idx := range sampled {
		sampleIdx = append(sampleIdx, idx)
	}
	sort.Ints(sampleIdx)
	for k, idx := range sampleIdx {
		if k == 2 {
			break
		}
		sm := sampled[idx]
		r.SampleEvery(0, 1, func() any { return sm })
	}
	// schedule-independence summary: how many distinct per-thread Authorization vectors each
	// (config, host assignment) produced over all its schedules (1 = the schedule never matters)
	groups := make([]string, 0, len(outcomes))
	for g := range outcomes {
		groups = append(groups, g)
	}
	sort.Strings(groups)
	maxOutcomes, sumOutcomes := 0, 0
	for _, g := range groups {
		sumOutcomes += len(outcomes[g])
		if len(outcomes[g]) > maxOutcomes {
			maxOutcomes = len(outcomes[g])
		}
	}
	c.fSchedules.Store(executed.Load())
	c.fOverlapDifferentTokens.Store(overlapping.Load())
	r.Set("F_schedules_planned", total)
	r.Set("F_schedules_executed", executed.Load())
	r.Set("F_cases_config_x_hosts", len(groups))
	r.Set("F_distinct_outcomes_total", sumOutcomes)
	r.Set("F_max_distinct_outcomes_per_case", maxOutcomes)
	r.Set("F_steps_skipped_because_thread_finished_early", skippedSteps.Load())
	r.Set("clause_interleave_make_overlaps_make_of_thread_with_different_token", overlapping.Load())
	r.Set("F_schedules_overlapping_same_token_only", overlappingSameTok.Load())
}

// interleavePhase builds the configuration sets of phase F and runs them.
func (c *checker) interleavePhase(quick bool) {
	r := c.r
	cfgDir := filepath.Join(c.scratch, "sched-bufconfig") // empty: default configuration (TLS on, https)
	if err := os.MkdirAll(cfgDir, 0o700); err != nil {
		r.Incomplete("cannot create config dir: " + err.Error())
		return
	}
	templates := []NEntry{
		{Name: H1, Login: "l1", Password: "pwA"},
		{Name: H2, Login: "l2", Password: "pwB"},
		{Default: true, Login: "ld", Password: "pwD"},
	}
	both := "tok1@" + H1 + ",tok2@" + H2
	// wide: every list of <= 2 of {tok1@r.io, tok2@xr.io, tok3@h3.io, tok4} x every netrc of <= 2 entries
	wideSentences := structuredSentences([]string{"tok1@" + H1, "tok2@" + H2, "tok3@" + H3, "tok4"}, 2)
	wideFiles, err := c.writeNetrcFiles("sched-wide", netrcUniverse(templates, 2), []int{layoutOneLine})
	if err != nil {
		r.Incomplete("cannot write netrc files: " + err.Error())
		return
	}
	// mid: 7 sentences x 6 netrc files
	midSentences := []string{"", "tok1@" + H1, "tok2@" + H2, "tok3@" + H3, "tok4", both, both + ",tok3@" + H3}
	midFiles, err := c.writeNetrcFiles("sched-mid", [][]NEntry{nil, {templates[2]}, {templates[0], templates[1]}, {templates[0]},
		{templates[1], templates[2]}, {{Name: H1, Login: "l1"}, templates[2]}}, []int{layoutOneLine})
	if err != nil {
		r.Incomplete("cannot write netrc files: " + err.Error())
		return
	}
	// narrow: four setups in which the three hosts get pairwise different credentials (env only, env +
	// netrc default, netrc only, env + netrc machine + netrc default)
	narrowFiles, err := c.writeNetrcFiles("sched-narrow", [][]NEntry{nil, {templates[2]}, {templates[0], templates[1]}, {templates[1], templates[2]}}, []int{layoutOneLine})
	if err != nil {
		r.Incomplete("cannot write netrc files: " + err.Error())
		return
	}
	narrow := []tokenSetup{{both, narrowFiles[0]}, {both, narrowFiles[1]}, {"", narrowFiles[2]}, {"tok1@" + H1, narrowFiles[3]}}
	wideConfigs := c.schedConfigs(setupProduct(wideSentences, wideFiles), cfgDir)
	narrowConfigs := c.schedConfigs(narrow, cfgDir)
	var spaces []schedSpace
	if quick {
		spaces = []schedSpace{
			{name: "wide2", nThreads: 2, transportSeam: false, configs: wideConfigs},
			{name: "seam2", nThreads: 2, transportSeam: true, configs: narrowConfigs},
			{name: "narrow3", nThreads: 3, transportSeam: false, configs: narrowConfigs},
		}
	} else {
		spaces = []schedSpace{
			{name: "wide2", nThreads: 2, transportSeam: true, configs: wideConfigs},
			{name: "mid3", nThreads: 3, transportSeam: false, configs: c.schedConfigs(setupProduct(midSentences, midFiles), cfgDir)},
			{name: "narrow3", nThreads: 3, transportSeam: true, configs: c.schedConfigs(narrow[:2], cfgDir)},
		}
	}
	// The phase runs before the others, on a small heap. A pointer-free ballast keeps collections from
	// becoming so frequent that they serialise the workers, while they stay frequent enough (one per ~32 MB
	// allocated, a few hundred schedules) for the netrc library's file finalizers (see fdguard.go).
	ballast := make([]byte, 32<<20)
	c.interleaveSpace(spaces)
	runtime.KeepAlive(ballast)
}
