package c19

// fdGuard keeps the number of open file descriptors of the process bounded.
//
// The third-party netrc parser buf uses (jdx/go-netrc) opens the netrc file on every lookup and never
// closes it; the descriptor is only released by the os.File finalizer, i.e. after a garbage collection
// noticed the file. A check that performs tens of thousands of lookups per second can therefore run out
// of descriptors when collections are rare (large heap). When that happens buf treats the unreadable
// file as "no token configured" (fail-closed, not a C19 matter), which the oracles would misread as a
// missing credential. The guard counts lookups and, before the descriptors can get near RLIMIT_NOFILE,
// forces a collection and waits for the finalizers.

import (
	"fmt"
	"os"
	"runtime"
	"sync"
	"sync/atomic"
	"syscall"
	"time"

	"github.com/bufbuild/bufverif/internal/evid"
)

type fdGuard struct {
	mu       sync.Mutex
	pending  atomic.Int64
	limit    int64
	forcedGC atomic.Int64
}

func newFDGuard() *fdGuard {
	g := &fdGuard{limit: 1024}
	var rl syscall.Rlimit
	if err := syscall.Getrlimit(syscall.RLIMIT_NOFILE, &rl); err == nil && rl.Cur > 0 && rl.Cur < 1<<20 {
		g.limit = int64(rl.Cur)
	}
	return g
}

func countFDs() int64 {
	entries, err := os.ReadDir("/proc/self/fd")
	if err != nil {
		return 0
	}
	return int64(len(entries))
}

// opened is called with the number of netrc lookups a worker is about to perform / has performed.
func (g *fdGuard) opened(r *evid.Run, n int) {
	budget := g.limit / 8
	if g.pending.Add(int64(n)) < budget {
		return
	}
	g.mu.Lock()
	defer g.mu.Unlock()
	if g.pending.Load() < budget {
		return // another worker has just checked
	}
	g.pending.Store(0)
	if countFDs() <= g.limit/4 {
		return
	}
	g.forcedGC.Add(1)
	t0 := time.Now()
	before := countFDs()
	defer func() {
		if os.Getenv("C19_FD_DEBUG") != "" {
			fmt.Fprintf(os.Stderr, "fdguard: before=%d after=%d waited=%v\n", before, countFDs(), time.Since(t0))
		}
	}()
	runtime.GC()
	for i := 0; i < 10000 && countFDs() > g.limit/8; i++ {
		time.Sleep(time.Millisecond)
		if i%1000 == 999 {
			runtime.GC()
		}
	}
	if n := countFDs(); n > g.limit/4 {
		r.Incomplete(fmt.Sprintf("harness: %d file descriptors stay open (limit %d) after forced collections", n, g.limit))
	}
}
