package c19

// reftoken: reference model of the BUF_TOKEN value, written from the documented format
//
//	""                         no token
//	TOKEN                      one host-less token, applies to every host
//	TOKEN@HOST(,TOKEN@HOST)*   one token per host, exact host match
//
// `@` and `,` are the only splitters; tokens and hosts are non-empty and contain neither. The TOKEN of a
// TOKEN@HOST entry does not contain `:` either (round 3, see below); hosts may (ports), and so may a
// host-less token.
// The model is given twice, independently of each other and of buf's parser:
//   - Parse: a left-to-right character scanner (recogniser),
//   - Sentences: a generator of all well-formed sentences up to a symbol length (grammar).
// The check compares the two on every enumerated string (model self-check) before it compares the
// implementation with the model.
//
// One zone is deliberately left open because neither the property nor the doc comments decide it:
//   - GreyDup: the same HOST appears in two entries (buf rejects; "the first configured source wins"
//     would also be fine). What is never fine is a later entry winning.
//
// Round 4 - host names that differ only in letter case (`R.io` / `r.io`). The model's answer is the exact
// one (Lookup: the first entry whose host is byte-equal to the request host). Host names are case-insensitive
// in DNS, so the property does not decide whether `tok@R.io` applies to `r.io`; that is a second open zone,
// kept as narrow as "the first configured source wins deterministically" allows:
//   - FoldDup: two entries whose hosts are equal under ASCII case folding but not byte-equal. buf may reject
//     the string (a case-insensitive duplicate check) or accept it.
//   - Tolerates: besides the exact answer, the token of the FIRST entry whose host equals the request host
//     under case folding is accepted (that is what a consistently case-insensitive reading with "first
//     wins" would send). Anything else is a violation: a LATER case variant winning over an exact or an
//     earlier folded entry, a token of an unrelated host, and - judged across lookups and across map
//     iteration seeds - an answer that is not always the same one (Ambiguous lookups are compared).
//
// Until round 3 a further zone was open: a TOKEN of a TOKEN@HOST entry containing `:` ("GreyColon":
// rejecting and accepting with exactly the written binding were both tolerated). It is closed now: the
// property's quantifier names `:` next to `@` and `,` as a SEPARATOR of the BUF_TOKEN language, and the
// property demands that a malformed string is rejected as a whole; a token part that contains a separator
// (the `user:token@host` spelling of a pasted netrc-style credential) is malformed - class
// `token-with-colon` - and accepting it would send `Bearer user:token`, a string nobody configured as a
// token. The host-less form is not touched by this (the property says a single host-less token applies
// by design; it has no parts a separator could delimit) and neither is the host part (`r.io:443`).

import (
	"bytes"
	"sort"
	"strings"
)

// Kind is the model verdict for a BUF_TOKEN string.
type Kind int

const (
	KNone   Kind = iota // empty string: no token anywhere
	KSingle             // one host-less token for every host
	KMap                // host-keyed tokens
	KReject             // malformed as a whole
)

func (k Kind) String() string {
	return [...]string{"none", "single", "map", "reject"}[k]
}

// Binding is one TOKEN@HOST entry.
type Binding struct {
	Host  string `json:"host"`
	Token string `json:"token"`
}

// Config is the model configuration denoted by a BUF_TOKEN string.
type Config struct {
	Kind      Kind
	Token     string    // KSingle
	Bindings  []Binding // KMap, in sentence order (duplicates kept: first wins)
	GreyDup   bool      // some host occurs twice
	FoldDup   bool      // two hosts are equal under case folding but not byte-equal (round 4)
	Malformed string    // KReject: structural class of the first malformed entry
}

// Grey reports whether the implementation may also reject this (otherwise well-formed) string.
func (c Config) Grey() bool { return c.GreyDup || c.FoldDup }

// foldASCII lower-cases the ASCII letters of s (the model's notion of "equal up to letter case").
func foldASCII(s string) string {
	for i := 0; i < len(s); i++ {
		if 'A' <= s[i] && s[i] <= 'Z' {
			b := []byte(s)
			for j := i; j < len(b); j++ {
				if 'A' <= b[j] && b[j] <= 'Z' {
					b[j] += 'a' - 'A'
				}
			}
			return string(b)
		}
	}
	return s
}

// swapCaseASCII toggles the case of every ASCII letter (all=true) or of the first letter only.
func swapCaseASCII(s string, all bool) string {
	b := []byte(s)
	for i := range b {
		switch {
		case 'a' <= b[i] && b[i] <= 'z':
			b[i] -= 'a' - 'A'
		case 'A' <= b[i] && b[i] <= 'Z':
			b[i] += 'a' - 'A'
		default:
			continue
		}
		if !all {
			break
		}
	}
	return string(b)
}

// FoldFirst returns the token of the first entry whose host equals q under case folding.
func (c Config) FoldFirst(q string) (string, bool) {
	if c.Kind != KMap {
		return "", false
	}
	fq := foldASCII(q)
	for _, b := range c.Bindings {
		if b.Host == q || foldASCII(b.Host) == fq {
			return b.Token, true
		}
	}
	return "", false
}

// Tolerates reports whether got is an acceptable answer for host q: the exact answer, or (open zone, see
// the file comment) the token of the first entry that matches q under case folding.
func (c Config) Tolerates(q, got string) bool {
	if got == c.Lookup(q) {
		return true
	}
	t, ok := c.FoldFirst(q)
	return ok && got == t
}

// Ambiguous reports whether Tolerates accepts two different answers for q; such lookups must give the
// same answer every time (repeated calls, every map iteration seed).
func (c Config) Ambiguous(q string) bool {
	t, ok := c.FoldFirst(q)
	return ok && t != c.Lookup(q)
}

// Lookup returns the token the model sends to host q ("" = no Authorization header).
func (c Config) Lookup(q string) string {
	switch c.Kind {
	case KSingle:
		return c.Token
	case KMap:
		for _, b := range c.Bindings {
			if b.Host == q {
				return b.Token
			}
		}
	}
	return ""
}

// Owners returns the hosts for which tok is configured.
func (c Config) Owners(tok string) []string {
	var out []string
	for _, b := range c.Bindings {
		if b.Token == tok {
			out = append(out, b.Host)
		}
	}
	return out
}

// Canon is a canonical rendering of the denoted configuration (the model "state").
func (c Config) Canon() string {
	switch c.Kind {
	case KNone:
		return "none"
	case KSingle:
		return "single(" + c.Token + ")"
	case KReject:
		return "reject"
	}
	seen := map[string]bool{}
	var parts []string
	for _, b := range c.Bindings {
		if seen[b.Host] {
			continue
		}
		seen[b.Host] = true
		parts = append(parts, b.Host+"<-"+b.Token)
	}
	sort.Strings(parts)
	s := "map(" + strings.Join(parts, " ") + ")"
	if c.GreyDup {
		s += "+dup"
	}
	if c.FoldDup {
		s += "+casedup"
	}
	return s
}

// Parse is the recogniser: one pass over the bytes of s.
func Parse(s string) Config {
	if s == "" {
		return Config{Kind: KNone}
	}
	splitters := 0
	for i := 0; i < len(s); i++ {
		if s[i] == '@' || s[i] == ',' {
			splitters++
		}
	}
	if splitters == 0 {
		return Config{Kind: KSingle, Token: s}
	}
	cfg := Config{Kind: KMap}
	seen := map[string]bool{}
	seenFold := map[string]string{}
	var tok, host []byte
	ats := 0
	bad := ""
	closeEntry := func() {
		if bad != "" {
			return
		}
		switch {
		case ats == 0 && len(tok) == 0:
			bad = "empty-entry"
		case ats == 0:
			bad = "entry-without-host"
		case ats > 1:
			bad = "entry-with-several-at"
		case len(tok) == 0:
			bad = "empty-token"
		case len(host) == 0:
			bad = "empty-host"
		case bytes.IndexByte(tok, ':') >= 0:
			bad = "token-with-colon"
		default:
			h, t := string(host), string(tok)
			if seen[h] {
				cfg.GreyDup = true
			}
			seen[h] = true
			if first, ok := seenFold[foldASCII(h)]; !ok {
				seenFold[foldASCII(h)] = h
			} else if first != h {
				cfg.FoldDup = true
			}
			cfg.Bindings = append(cfg.Bindings, Binding{Host: h, Token: t})
		}
		tok, host, ats = tok[:0], host[:0], 0
	}
	for i := 0; i < len(s); i++ {
		switch ch := s[i]; {
		case ch == ',':
			closeEntry()
		case ch == '@':
			ats++
		case ats == 0:
			tok = append(tok, ch)
		default:
			// after the first '@' everything belongs to the host part; a second '@' is counted above
			host = append(host, ch)
		}
	}
	closeEntry()
	if bad != "" {
		return Config{Kind: KReject, Malformed: bad}
	}
	return cfg
}

// PartlyWellFormed reports whether a rejected string contains at least one well-formed TOKEN@HOST
// entry, i.e. whether "partial application" would actually configure something.
func PartlyWellFormed(s string) bool {
	for _, part := range strings.Split(s, ",") {
		if strings.Count(part, "@") == 1 && !strings.HasPrefix(part, "@") && !strings.HasSuffix(part, "@") {
			return true
		}
	}
	return false
}

// Sentences is the generator: every well-formed sentence of at most maxSyms symbols over the symbol
// alphabet syms (which must contain "@" and ","; every other symbol is an ordinary piece of a token
// or host). The result maps the sentence text to the configuration it denotes.
func Sentences(syms []string, maxSyms int) map[string]Config {
	var plain []string
	for _, s := range syms {
		if s != "@" && s != "," {
			plain = append(plain, s)
		}
	}
	// words[n] = all concatenations of exactly n plain symbols
	words := make([][]string, maxSyms+1)
	words[0] = []string{""}
	for n := 1; n <= maxSyms; n++ {
		for _, w := range words[n-1] {
			for _, p := range plain {
				words[n] = append(words[n], w+p)
			}
		}
	}
	out := map[string]Config{"": {Kind: KNone}}
	for n := 1; n <= maxSyms; n++ {
		for _, w := range words[n] {
			out[w] = Config{Kind: KSingle, Token: w}
		}
	}
	// entries[n] = all TOKEN@HOST of exactly n symbols
	type entry struct {
		text string
		b    Binding
	}
	entries := make([][]entry, maxSyms+1)
	for n := 3; n <= maxSyms; n++ {
		for a := 1; a <= n-2; a++ {
			for _, t := range words[a] {
				if strings.Contains(t, ":") {
					continue // a separator inside the token part: not a sentence
				}
				for _, h := range words[n-1-a] {
					entries[n] = append(entries[n], entry{t + "@" + h, Binding{Host: h, Token: t}})
				}
			}
		}
	}
	var rec func(prefix string, bs []Binding, left int)
	rec = func(prefix string, bs []Binding, left int) {
		if len(bs) > 0 {
			cfg := Config{Kind: KMap, Bindings: append([]Binding(nil), bs...)}
			seen := map[string]bool{}
			for i, b := range bs {
				if seen[b.Host] {
					cfg.GreyDup = true
				}
				seen[b.Host] = true
				for _, a := range bs[:i] {
					if a.Host != b.Host && strings.EqualFold(a.Host, b.Host) {
						cfg.FoldDup = true
					}
				}
			}
			out[prefix] = cfg
			left-- // the joining comma
			prefix += ","
		}
		for n := 3; n <= left; n++ {
			for _, e := range entries[n] {
				rec(prefix+e.text, append(bs, e.b), left-n)
			}
		}
	}
	rec("", nil, maxSyms)
	return out
}

// SameConfig compares two model configurations structurally.
func SameConfig(a, b Config) bool {
	if a.Kind != b.Kind || a.Token != b.Token || a.GreyDup != b.GreyDup || a.FoldDup != b.FoldDup || len(a.Bindings) != len(b.Bindings) {
		return false
	}
	for i := range a.Bindings {
		if a.Bindings[i] != b.Bindings[i] {
			return false
		}
	}
	return true
}

// Relation names how request host q relates to the host a leaked token was configured for.
func Relation(q, owner string) string {
	switch {
	case q == "":
		return "empty-request-host"
	case q == owner:
		return "same"
	case strings.EqualFold(q, owner):
		return "case-variant"
	case strings.HasPrefix(owner, q):
		return "request-is-prefix-of-configured"
	case strings.HasSuffix(owner, q):
		return "request-is-suffix-of-configured"
	case strings.Contains(owner, q):
		return "request-is-substring-of-configured"
	case strings.HasPrefix(q, owner):
		return "configured-is-prefix-of-request"
	case strings.HasSuffix(q, owner):
		return "configured-is-suffix-of-request"
	case strings.Contains(q, owner):
		return "configured-is-substring-of-request"
	}
	return "unrelated"
}
