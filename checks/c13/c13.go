// Package c13: no path can escape a bucket's root.
//
// Bounded-exhaustive exploration: every path string of 1..N components over the alphabet
// {a, ., .., "", a.b, ..a, ...} (each with/without leading and trailing slash) x every bucket shape
// x every operation is executed on the real buckets, with sentinel objects placed outside every root.
// Oracles: (state) everything outside the root is unchanged and no read returned sentinel data;
// (refpath) a name that lexically escapes, or is absolute, is rejected with an error.
package c13

import (
	"archive/tar"
	"archive/zip"
	"bytes"
	"context"
	"fmt"
	"io"
	"log/slog"
	"os"
	"path/filepath"
	"sort"
	"strings"
	"sync"
	"time"

	"github.com/bufbuild/buf/private/bufpkg/bufprotoplugin"
	"github.com/bufbuild/buf/private/pkg/normalpath"
	"github.com/bufbuild/buf/private/pkg/storage"
	"github.com/bufbuild/buf/private/pkg/storage/storagearchive"
	"github.com/bufbuild/buf/private/pkg/storage/storagemem"
	"github.com/bufbuild/buf/private/pkg/storage/storageos"
	"github.com/bufbuild/bufverif/internal/evid"
	"github.com/bufbuild/bufverif/internal/hook"
	"google.golang.org/protobuf/proto"
	"google.golang.org/protobuf/types/pluginpb"
)

func init() {
	evid.Register(&evid.Check{ID: "C13", Level: "exploration", Run: run, QuickBudget: 300 * time.Second, ThoroughBudget: 20 * time.Minute})
}

var alphabet = []string{"a", ".", "..", "", "a.b", "..a", "..."}

// RefPath is the reference model of lexical resolution.
type RefPath struct {
	Absolute bool
	Escapes  bool   // some prefix of the path resolves above the starting directory
	Normal   string // normal form when !Escapes && !Absolute ("." for the root)
}

// Resolve is the boring stack machine.
func Resolve(p string) RefPath {
	r := RefPath{Absolute: strings.HasPrefix(p, "/")}
	var stack []string
	for _, c := range strings.Split(p, "/") {
		switch c {
		case "", ".":
		case "..":
			if len(stack) == 0 {
				r.Escapes = true
			} else {
				stack = stack[:len(stack)-1]
			}
		default:
			stack = append(stack, c)
		}
	}
	if len(stack) == 0 {
		r.Normal = "."
	} else {
		r.Normal = strings.Join(stack, "/")
	}
	return r
}

// Paths enumerates all strings of 1..maxComponents components, with slash decorations.
func Paths(maxComponents int) []string {
	var out []string
	seen := map[string]bool{}
	add := func(s string) {
		if !seen[s] {
			seen[s] = true
			out = append(out, s)
		}
	}
	var rec func(prefix []string, left int)
	rec = func(prefix []string, left int) {
		if len(prefix) > 0 {
			base := strings.Join(prefix, "/")
			add(base)
			add("/" + base)
			add(base + "/")
			add("/" + base + "/")
		}
		if left == 0 {
			return
		}
		for _, c := range alphabet {
			rec(append(append([]string(nil), prefix...), c), left-1)
		}
	}
	rec(nil, maxComponents)
	return out
}

const sentinelMark = "SENTINEL-OUTSIDE-ROOT"

// fixture is one bucket shape instance with content inside and sentinels outside.
type fixture struct {
	rb       storage.ReadBucket
	wb       storage.WriteBucket // nil for read-only shapes
	outside  func() string       // "" if everything outside the root is as created
	restore  func()              // recreate inside + outside content
	readOnly bool
}

type shape struct {
	name string
	make func(scratch string) *fixture
}

// content laid out in a parent namespace; the root of every view is "root" or "root/in".
var parentFiles = map[string]string{
	"sentinel.txt":     sentinelMark + "-1",
	"rootx/s.txt":      sentinelMark + "-2",
	"a":                sentinelMark + "-3", // a sibling of the root named like an alphabet component
	"root/in.txt":      "inside-1",
	"root/a":           "inside-a",
	"root/in/deep.txt": "inside-2",
	"root/in/a":        "inside-in-a",
	"root/sub/in2.txt": "inside-3",
}

func underPrefix(path, prefix string) bool {
	return path == prefix || strings.HasPrefix(path, prefix+"/")
}

func memParent() storage.ReadWriteBucket {
	b := storagemem.NewReadWriteBucket()
	for p, c := range parentFiles {
		if err := storage.PutPath(context.Background(), b, p, []byte(c)); err != nil {
			panic(err)
		}
	}
	return b
}

func memOutsideCheck(parent storage.ReadWriteBucket, rootPrefix string) func() string {
	return func() string {
		ctx := context.Background()
		got := map[string]string{}
		if err := parent.Walk(ctx, "", func(info storage.ObjectInfo) error {
			if underPrefix(info.Path(), rootPrefix) {
				return nil
			}
			data, err := storage.ReadPath(ctx, parent, info.Path())
			if err != nil {
				return err
			}
			got[info.Path()] = string(data)
			return nil
		}); err != nil {
			return "walk of parent failed: " + err.Error()
		}
		for p, c := range parentFiles {
			if underPrefix(p, rootPrefix) {
				continue
			}
			if got[p] != c {
				return fmt.Sprintf("outside object %q changed or vanished (now %q)", p, got[p])
			}
			delete(got, p)
		}
		for p := range got {
			return fmt.Sprintf("new object %q created outside root %q", p, rootPrefix)
		}
		return ""
	}
}

func memRestore(parent storage.ReadWriteBucket) func() {
	return func() {
		ctx := context.Background()
		_ = parent.DeleteAll(ctx, "")
		for p, c := range parentFiles {
			_ = storage.PutPath(ctx, parent, p, []byte(c))
		}
	}
}

func memViewShape(name, rootPrefix string, view func(parent storage.ReadWriteBucket) (storage.ReadBucket, storage.WriteBucket)) shape {
	return shape{name: name, make: func(string) *fixture {
		parent := memParent()
		rb, wb := view(parent)
		return &fixture{rb: rb, wb: wb, outside: memOutsideCheck(parent, rootPrefix), restore: memRestore(parent), readOnly: wb == nil}
	}}
}

func writeDiskParent(outer string) {
	for p, c := range parentFiles {
		full := filepath.Join(outer, filepath.FromSlash(p))
		_ = os.MkdirAll(filepath.Dir(full), 0o755)
		_ = os.WriteFile(full, []byte(c), 0o644)
	}
}

func diskOutsideCheck(outer, rootPrefix string) func() string {
	return func() string {
		got := map[string]string{}
		_ = filepath.Walk(outer, func(path string, info os.FileInfo, err error) error {
			if err != nil || info.IsDir() {
				return nil
			}
			rel, _ := filepath.Rel(outer, path)
			rel = filepath.ToSlash(rel)
			if underPrefix(rel, rootPrefix) {
				return nil
			}
			data, _ := os.ReadFile(path)
			got[rel] = string(data)
			return nil
		})
		for p, c := range parentFiles {
			if underPrefix(p, rootPrefix) {
				continue
			}
			if got[p] != c {
				return fmt.Sprintf("outside file %q changed or vanished (now %q)", p, got[p])
			}
			delete(got, p)
		}
		for p := range got {
			return fmt.Sprintf("new file %q created outside root %q", p, rootPrefix)
		}
		if _, err := os.Stat(outer); err != nil {
			return "the directory containing the root vanished"
		}
		return ""
	}
}

var diskSeq struct {
	sync.Mutex
	n int
}

func diskShape(name string, symlinks bool, rootPrefix string, wrap func(b storage.ReadWriteBucket) (storage.ReadBucket, storage.WriteBucket)) shape {
	return shape{name: name, make: func(scratch string) *fixture {
		diskSeq.Lock()
		diskSeq.n++
		outer := filepath.Join(scratch, fmt.Sprintf("outer%d", diskSeq.n), "deep", "er") // room above for ../..
		diskSeq.Unlock()
		// sentinel even above "outer"
		_ = os.MkdirAll(outer, 0o755)
		above := filepath.Join(filepath.Dir(outer), "above.txt")
		_ = os.WriteFile(above, []byte(sentinelMark+"-above"), 0o644)
		writeDiskParent(outer)
		var opts []storageos.ProviderOption
		if symlinks {
			opts = append(opts, storageos.ProviderWithSymlinks())
		}
		var bopts []storageos.ReadWriteBucketOption
		if symlinks {
			bopts = append(bopts, storageos.ReadWriteBucketWithSymlinksIfSupported())
		}
		mk := func() (storage.ReadBucket, storage.WriteBucket) {
			b, err := storageos.NewProvider(opts...).NewReadWriteBucket(filepath.Join(outer, "root"), bopts...)
			if err != nil {
				panic(err)
			}
			return wrap(b)
		}
		rb, wb := mk()
		fx := &fixture{rb: rb, wb: wb}
		check := diskOutsideCheck(outer, rootPrefix)
		fx.outside = func() string {
			if d := check(); d != "" {
				return d
			}
			if data, err := os.ReadFile(above); err != nil || string(data) != sentinelMark+"-above" {
				return "file above the parent directory changed or vanished"
			}
			return ""
		}
		fx.restore = func() {
			_ = os.RemoveAll(outer)
			_ = os.MkdirAll(outer, 0o755)
			_ = os.WriteFile(above, []byte(sentinelMark+"-above"), 0o644)
			writeDiskParent(outer)
		}
		return fx
	}}
}

func shapes() []shape {
	plain := func(b storage.ReadWriteBucket) (storage.ReadBucket, storage.WriteBucket) { return b, b }
	return []shape{
		diskShape("os", false, "root", plain),
		diskShape("os+symlinks", true, "root", plain),
		diskShape("map(os,in)", false, "root/in", func(b storage.ReadWriteBucket) (storage.ReadBucket, storage.WriteBucket) {
			m := storage.MapReadWriteBucket(b, storage.MapOnPrefix("in"))
			return m, m
		}),
		memViewShape("map(mem,root)", "root", func(p storage.ReadWriteBucket) (storage.ReadBucket, storage.WriteBucket) {
			m := storage.MapReadWriteBucket(p, storage.MapOnPrefix("root"))
			return m, m
		}),
		memViewShape("map(mem,root/in)", "root/in", func(p storage.ReadWriteBucket) (storage.ReadBucket, storage.WriteBucket) {
			m := storage.MapReadWriteBucket(p, storage.MapOnPrefix("root/in"))
			return m, m
		}),
		memViewShape("map(map(mem,root),in)", "root/in", func(p storage.ReadWriteBucket) (storage.ReadBucket, storage.WriteBucket) {
			m := storage.MapReadWriteBucket(storage.MapReadWriteBucket(p, storage.MapOnPrefix("root")), storage.MapOnPrefix("in"))
			return m, m
		}),
		memViewShape("map(mem,chain(root,in))", "root/in", func(p storage.ReadWriteBucket) (storage.ReadBucket, storage.WriteBucket) {
			m := storage.MapReadWriteBucket(p, storage.MapChain(storage.MapOnPrefix("root"), storage.MapOnPrefix("in")))
			return m, m
		}),
		memViewShape("mapRead+mapWrite(mem,root)", "root", func(p storage.ReadWriteBucket) (storage.ReadBucket, storage.WriteBucket) {
			return storage.MapReadBucket(p, storage.MapOnPrefix("root")), storage.MapWriteBucket(p, storage.MapOnPrefix("root"))
		}),
		memViewShape("limit(map(mem,root))", "root", func(p storage.ReadWriteBucket) (storage.ReadBucket, storage.WriteBucket) {
			return storage.MapReadBucket(p, storage.MapOnPrefix("root")), storage.LimitWriteBucket(storage.MapWriteBucket(p, storage.MapOnPrefix("root")), 1<<20)
		}),
		memViewShape("filter(map(mem,root),contained in)", "root", func(p storage.ReadWriteBucket) (storage.ReadBucket, storage.WriteBucket) {
			return storage.FilterReadBucket(storage.MapReadBucket(p, storage.MapOnPrefix("root")), storage.MatchPathContained("in")), nil
		}),
		memViewShape("filter(map(mem,root),not ext)", "root", func(p storage.ReadWriteBucket) (storage.ReadBucket, storage.WriteBucket) {
			return storage.FilterReadBucket(storage.MapReadBucket(p, storage.MapOnPrefix("root")), storage.MatchNot(storage.MatchPathExt(".proto"))), nil
		}),
		memViewShape("filter(mem,not equal sentinels)", "root", func(p storage.ReadWriteBucket) (storage.ReadBucket, storage.WriteBucket) {
			// the view is the parent namespace minus three objects excluded by exact path; they hold the sentinel data
			return storage.FilterReadBucket(p, storage.MatchNot(storage.MatchOr(storage.MatchPathEqual("sentinel.txt"), storage.MatchPathEqual("rootx/s.txt"), storage.MatchPathEqual("a")))), nil
		}),
		memViewShape("filter(mem,and(not equal a,not contained rootx,not equal sentinel))", "root", func(p storage.ReadWriteBucket) (storage.ReadBucket, storage.WriteBucket) {
			return storage.FilterReadBucket(p, storage.MatchAnd(storage.MatchNot(storage.MatchPathEqual("a")), storage.MatchNot(storage.MatchPathContained("rootx")), storage.MatchNot(storage.MatchPathEqual("sentinel.txt")))), nil
		}),
		diskShape("filter(os-parent,not equal a)", false, "root", func(b storage.ReadWriteBucket) (storage.ReadBucket, storage.WriteBucket) {
			// disk bucket rooted at "root": exclude root/a by exact path; its content is checked not to be served
			return storage.FilterReadBucket(b, storage.MatchNot(storage.MatchPathEqual("a"))), nil
		}),
		memViewShape("multi(map(mem,root/in),map(mem,root/sub))", "root", func(p storage.ReadWriteBucket) (storage.ReadBucket, storage.WriteBucket) {
			return storage.MultiReadBucket(storage.MapReadBucket(p, storage.MapOnPrefix("root/in")), storage.MapReadBucket(p, storage.MapOnPrefix("root/sub"))), nil
		}),
		memViewShape("overlay(map(mem,root/in),map(mem,root))", "root", func(p storage.ReadWriteBucket) (storage.ReadBucket, storage.WriteBucket) {
			return storage.OverlayReadBucket(storage.MapReadBucket(p, storage.MapOnPrefix("root/in")), storage.MapReadBucket(p, storage.MapOnPrefix("root"))), nil
		}),
		memViewShape("strip(map(mem,root))", "root", func(p storage.ReadWriteBucket) (storage.ReadBucket, storage.WriteBucket) {
			return storage.StripReadBucketExternalPaths(storage.MapReadBucket(p, storage.MapOnPrefix("root"))), nil
		}),
	}
}

// objectOps take the name of one object (not a prefix).
var objectOps = map[string]bool{"Get": true, "Stat": true, "Put": true, "PutAtomic": true, "Delete": true, "CopyPathTo": true}

var opNames = []string{"Get", "Stat", "Walk", "Put", "PutAtomic", "Delete", "DeleteAll", "CopyPathTo", "CopyInto"}

type caseT struct {
	Shape string `json:"shape"`
	Op    string `json:"op"`
	Path  string `json:"path"`
}

// doOp runs one operation; returns (error of the op, data read by the op).
func doOp(ctx context.Context, fx *fixture, op, p string) (err error, read []string, mutating bool) {
	defer func() {
		if rec := recover(); rec != nil {
			err = fmt.Errorf("PANIC: %v", rec)
		}
	}()
	switch op {
	case "Get":
		data, e := storage.ReadPath(ctx, fx.rb, p)
		return e, []string{string(data)}, false
	case "Stat":
		_, e := fx.rb.Stat(ctx, p)
		return e, nil, false
	case "Walk":
		var datas []string
		e := fx.rb.Walk(ctx, p, func(info storage.ObjectInfo) error {
			data, err := storage.ReadPath(ctx, fx.rb, info.Path())
			if err == nil {
				datas = append(datas, string(data))
			}
			return nil
		})
		return e, datas, false
	}
	if fx.wb == nil {
		return nil, nil, false
	}
	switch op {
	case "Put":
		return storage.PutPath(ctx, fx.wb, p, []byte("written-by-test")), nil, true
	case "PutAtomic":
		return storage.PutPath(ctx, fx.wb, p, []byte("written-by-test"), storage.PutWithAtomic()), nil, true
	case "Delete":
		return fx.wb.Delete(ctx, p), nil, true
	case "DeleteAll":
		return fx.wb.DeleteAll(ctx, p), nil, true
	case "CopyPathTo":
		src, _ := storagemem.NewReadBucket(map[string][]byte{"src.txt": []byte("copied")})
		return storage.CopyPath(ctx, src, "src.txt", fx.wb, p), nil, true
	case "CopyInto":
		// copy a whole bucket into a view of the destination rooted at prefix p
		src, _ := storagemem.NewReadBucket(map[string][]byte{"src.txt": []byte("copied")})
		_, e := storage.Copy(ctx, src, storage.MapWriteBucket(fx.wb, storage.MapOnPrefix(p)))
		return e, nil, true
	}
	return nil, nil, false
}

func run(r *evid.Run) {
	maxComp := 3
	if !r.Quick() {
		maxComp = 4
	}
	paths := Paths(maxComp)
	r.Rule(fmt.Sprintf("case = (bucket shape, operation, path string); path strings = all sequences of 1..%d components over {a . .. '' a.b ..a ...} joined by '/', each also with a leading and/or trailing '/'; archive entries and plugin file names use the same strings; a case is non-trivial when the path contains a '..', '.', empty or absolute component (distinct key = shape/op/path)", maxComp))
	r.Assume("trees contain no symlinks pointing outside the root (following such a symlink is a documented feature of the symlink-enabled disk bucket, not a path-string escape)")
	r.Assume("unix path semantics only (normalpath_windows.go is not built on this platform)")
	r.Set("path_strings", len(paths))
	scratch, err := os.MkdirTemp("", "verif-c13-")
	if err != nil {
		r.Incomplete(err.Error())
		return
	}
	defer os.RemoveAll(scratch)
	ctx := context.Background()

	// normalpath directly
	for _, p := range paths {
		ref := Resolve(p)
		got, err := normalpath.NormalizeAndValidate(p)
		r.Eval(1)
		if (ref.Escapes || ref.Absolute) && err == nil {
			r.Violate("normalpath/accepts-escape/"+normalForm(p), fmt.Sprintf("NormalizeAndValidate(%q) = %q, nil although the path %s", p, got, why(ref)), caseT{"normalpath", "NormalizeAndValidate", p})
		}
		if !ref.Escapes && !ref.Absolute {
			if err != nil {
				r.Violate("normalpath/rejects-inside", fmt.Sprintf("NormalizeAndValidate(%q) failed (%v) although it resolves inside to %q", p, err, ref.Normal), caseT{"normalpath", "NormalizeAndValidate", p})
			} else if got != ref.Normal {
				r.Violate("normalpath/wrong-normal-form", fmt.Sprintf("NormalizeAndValidate(%q) = %q, reference normal form %q", p, got, ref.Normal), caseT{"normalpath", "NormalizeAndValidate", p})
			}
		}
	}

	shs := shapes()
	names := []string{}
	for _, s := range shs {
		names = append(names, s.name)
	}
	r.Set("bucket_shapes", names)
	r.Set("operations", opNames)
	// one work item = (shape, chunk of paths); each has its own fixture
	const chunk = 200
	type item struct {
		sh     shape
		lo, hi int
	}
	var items []item
	for _, sh := range shs {
		for lo := 0; lo < len(paths); lo += chunk {
			items = append(items, item{sh, lo, min(lo+chunk, len(paths))})
		}
	}
	r.ParallelFor(len(items), 0, func(i int) {
		it := items[i]
		fx := it.sh.make(scratch)
		for pi := it.lo; pi < it.hi; pi++ {
			p := paths[pi]
			ref := Resolve(p)
			for _, op := range opNames {
				if fx.wb == nil && op != "Get" && op != "Stat" && op != "Walk" {
					continue
				}
				err, read, mutating := doOp(ctx, fx, op, p)
				r.Eval(1)
				c := caseT{it.sh.name, op, p}
				if strings.Contains(p, "..") || ref.Absolute || strings.Contains("/"+p+"/", "/./") || strings.Contains(p, "//") {
					r.Distinct(it.sh.name + "|" + op + "|" + p)
				}
				r.SampleEvery(pi*len(opNames), 7919, func() any { return c })
				if err != nil && strings.HasPrefix(err.Error(), "PANIC") {
					r.Violate("panic/"+it.sh.name+"/"+op, fmt.Sprintf("%s.%s(%q) panicked: %v", it.sh.name, op, p, err), c)
				}
				for _, d := range read {
					if strings.Contains(d, sentinelMark) {
						r.Violate("read-outside/"+it.sh.name+"/"+op+"/"+normalForm(p), fmt.Sprintf("%s.%s(%q) returned the content of an object outside the root", it.sh.name, op, p), c)
					}
				}
				if (ref.Escapes || ref.Absolute) && err == nil {
					r.Violate("accepted/"+it.sh.name+"/"+op+"/"+normalForm(p), fmt.Sprintf("%s.%s(%q) succeeded although the name %s; such names must be rejected with an error", it.sh.name, op, p, why(ref)), c)
				}
				if objectOps[op] && !ref.Escapes && !ref.Absolute && ref.Normal == "." && err == nil {
					// a spelling of the root is not an object name: creating or deleting "the root" acts on the parent
					r.Violate("accepted-root-as-object/"+it.sh.name+"/"+op, fmt.Sprintf("%s.%s(%q) succeeded although the name denotes the bucket root itself", it.sh.name, op, p), c)
				}
				if mutating {
					if d := fx.outside(); d != "" {
						r.Violate("escaped/"+it.sh.name+"/"+op+"/"+normalForm(p), fmt.Sprintf("%s.%s(%q): %s", it.sh.name, op, p, d), c)
						fx.restore()
					} else if err == nil {
						if fx.rb != nil {
							_ = fx.rb.Walk(ctx, "", func(info storage.ObjectInfo) error {
								if lr := Resolve(info.Path()); lr.Escapes || lr.Absolute || lr.Normal == "." || lr.Normal != info.Path() {
									r.Violate("listed-invalid-name/"+it.sh.name+"/"+op, fmt.Sprintf("after %s.%s(%q) the bucket lists an object named %q, which is not a normalized name inside the root", it.sh.name, op, p, info.Path()), c)
								}
								return nil
							})
						}
						fx.restore()
					}
				}
			}
		}
	})

	archives(r, paths, scratch)
	histories(r, scratch)
	gitCloneLinks(r, scratch)
	pluginNames(r, paths)
	constructors(r, paths)
	rootSpellings(r, paths, scratch)
}

// constructors: buckets built from a path->data map must reject every escaping, absolute or root name.
func constructors(r *evid.Run, paths []string) {
	for _, p := range paths {
		ref := Resolve(p)
		var err error
		var listed []string
		func() {
			defer func() {
				if rec := recover(); rec != nil {
					err = fmt.Errorf("PANIC: %v", rec)
				}
			}()
			var b storage.ReadBucket
			b, err = storagemem.NewReadBucket(map[string][]byte{p: []byte("x"), "inside.proto": []byte("y")})
			if err == nil {
				_ = b.Walk(context.Background(), "", func(info storage.ObjectInfo) error {
					listed = append(listed, info.Path())
					return nil
				})
			}
		}()
		r.Eval(1)
		c := caseT{"storagemem.NewReadBucket", "construct", p}
		if strings.Contains(p, "..") || ref.Absolute {
			r.Distinct("construct|" + p)
		}
		if err != nil && strings.HasPrefix(err.Error(), "PANIC") {
			r.Violate("panic/constructor", fmt.Sprintf("NewReadBucket with key %q panicked: %v", p, err), c)
			continue
		}
		if (ref.Escapes || ref.Absolute || ref.Normal == ".") && err == nil {
			r.Violate("accepted/storagemem.NewReadBucket/"+normalFormOrRoot(p), fmt.Sprintf("storagemem.NewReadBucket accepted the key %q (%s); the bucket lists %v", p, whyOrRoot(ref), listed), c)
		}
		for _, l := range listed {
			if lr := Resolve(l); lr.Escapes || lr.Absolute || lr.Normal == "." {
				r.Violate("listed-invalid-name/storagemem.NewReadBucket", fmt.Sprintf("a bucket built with key %q lists the object name %q", p, l), c)
			}
		}
	}
}

func whyOrRoot(ref RefPath) string {
	if !ref.Escapes && !ref.Absolute {
		return "denotes the root itself"
	}
	return why(ref)
}

func normalFormOrRoot(p string) string {
	if ref := Resolve(p); !ref.Escapes && !ref.Absolute && ref.Normal == "." {
		return "<root>"
	}
	return normalForm(p)
}

// rootSpellings: names that denote the bucket root itself, on the disk bucket, in two situations the main loop
// does not produce: an EMPTY root directory (removing "the object" would remove the root from its parent) and
// the instant between the creation of an atomic put's staging file and its close (the staging file of "the
// root" would live in the parent directory). Serial, because the hook callback is process-wide.
func rootSpellings(r *evid.Run, paths []string, scratch string) {
	ctx := context.Background()
	hook.Install()
	defer hook.SetOnPoint(nil)
	n := 0
	for _, symlinks := range []bool{false, true} {
		for _, p := range paths {
			ref := Resolve(p)
			if ref.Escapes || ref.Absolute || ref.Normal != "." {
				continue
			}
			outer := filepath.Join(scratch, fmt.Sprintf("rs%d", n))
			n++
			root := filepath.Join(outer, "root")
			_ = os.MkdirAll(root, 0o755)
			_ = os.WriteFile(filepath.Join(outer, "sentinel.txt"), []byte(sentinelMark), 0o644)
			var po []storageos.ProviderOption
			var bo []storageos.ReadWriteBucketOption
			if symlinks {
				po = append(po, storageos.ProviderWithSymlinks())
				bo = append(bo, storageos.ReadWriteBucketWithSymlinksIfSupported())
			}
			b, err := storageos.NewProvider(po...).NewReadWriteBucket(root, bo...)
			if err != nil {
				r.Incomplete(err.Error())
				return
			}
			outsideNow := func() string {
				entries, _ := os.ReadDir(outer)
				for _, e := range entries {
					if e.Name() != "root" && e.Name() != "sentinel.txt" {
						return "new entry " + e.Name() + " next to the root"
					}
				}
				if _, err := os.Stat(root); err != nil {
					return "the root directory was removed from its parent"
				}
				return ""
			}
			name := "os"
			if symlinks {
				name = "os+symlinks"
			}
			for _, op := range []string{"Delete", "DeleteAll-then-Delete", "PutAtomic", "Put"} {
				c := caseT{name + "(empty root)", op, p}
				r.Eval(1)
				r.Distinct("rootspelling|" + name + "|" + op + "|" + p)
				hook.SetOnPoint(func(label string) error {
					if d := outsideNow(); d != "" {
						r.Violate("escaped/"+name+"(empty root)/"+op+"/during", fmt.Sprintf("%s.%s(%q) at %s: %s", name, op, p, label, d), c)
					}
					return nil
				})
				var err error
				switch op {
				case "Delete", "DeleteAll-then-Delete":
					err = b.Delete(ctx, p)
				case "PutAtomic":
					err = storage.PutPath(ctx, b, p, []byte("x"), storage.PutWithAtomic())
				case "Put":
					err = storage.PutPath(ctx, b, p, []byte("x"))
				}
				hook.SetOnPoint(nil)
				if d := outsideNow(); d != "" {
					r.Violate("escaped/"+name+"(empty root)/"+op, fmt.Sprintf("%s.%s(%q) on an empty root: %s", name, op, p, d), c)
					_ = os.MkdirAll(root, 0o755)
				}
				if err == nil {
					r.Violate("accepted-root-as-object/"+name+"(empty root)/"+op, fmt.Sprintf("%s.%s(%q) succeeded although the name denotes the bucket root itself", name, op, p), c)
				}
			}
			os.RemoveAll(outer)
		}
	}
	r.Set("root_spelling_cases", n)
}

func why(ref RefPath) string {
	if ref.Absolute {
		return "is absolute"
	}
	return "lexically escapes the root"
}

// normalForm is used in signatures so that one defect on many spellings is one finding per normal form.
func normalForm(p string) string {
	n := normalpath.Normalize(p)
	if strings.HasPrefix(n, "/") {
		return "<abs>"
	}
	if n == ".." {
		return ".."
	}
	if strings.HasPrefix(n, "../") {
		return "../*"
	}
	return "<inside>"
}

// ---- archives ----

// archiveEntryKinds: the kind of the archive entry that carries the name under test. Only regular files are
// extracted, but an escaping or absolute NAME must be rejected on an entry of any kind.
var archiveEntryKinds = []string{"file", "dir", "symlink", "hardlink", "fifo"}

func tarWith(name, kind string) []byte {
	var buf bytes.Buffer
	w := tar.NewWriter(&buf)
	_ = w.WriteHeader(&tar.Header{Typeflag: tar.TypeReg, Name: "ok/first.txt", Size: 2, Mode: 0o644})
	_, _ = w.Write([]byte("ok"))
	switch kind {
	case "file":
		_ = w.WriteHeader(&tar.Header{Typeflag: tar.TypeReg, Name: name, Size: 7, Mode: 0o644})
		_, _ = w.Write([]byte("payload"))
	case "dir":
		_ = w.WriteHeader(&tar.Header{Typeflag: tar.TypeDir, Name: name, Mode: 0o755})
	case "symlink":
		_ = w.WriteHeader(&tar.Header{Typeflag: tar.TypeSymlink, Name: name, Linkname: "ok/first.txt", Mode: 0o777})
	case "hardlink":
		_ = w.WriteHeader(&tar.Header{Typeflag: tar.TypeLink, Name: name, Linkname: "ok/first.txt", Mode: 0o644})
	case "fifo":
		_ = w.WriteHeader(&tar.Header{Typeflag: tar.TypeFifo, Name: name, Mode: 0o644})
	}
	_ = w.WriteHeader(&tar.Header{Typeflag: tar.TypeReg, Name: "ok/last.txt", Size: 2, Mode: 0o644})
	_, _ = w.Write([]byte("ok"))
	_ = w.Close()
	return buf.Bytes()
}

// zipWith: zip has no hard links or fifos; kinds other than file, dir and symlink yield nil.
func zipWith(name, kind string) []byte {
	var buf bytes.Buffer
	w := zip.NewWriter(&buf)
	f, _ := w.CreateHeader(&zip.FileHeader{Name: "ok/first.txt", Method: zip.Store})
	_, _ = f.Write([]byte("ok"))
	hdr := &zip.FileHeader{Name: name, Method: zip.Store}
	switch kind {
	case "file":
	case "dir":
		hdr.SetMode(os.ModeDir | 0o755)
	case "symlink":
		hdr.SetMode(os.ModeSymlink | 0o777)
	default:
		return nil
	}
	f, err := w.CreateHeader(hdr)
	if err == nil && kind != "dir" {
		_, _ = f.Write([]byte("ok/first.txt"))
	}
	_ = w.Close()
	return buf.Bytes()
}

func archives(r *evid.Run, paths []string, scratch string) {
	ctx := context.Background()
	type item struct{ lo, hi int }
	var items []item
	for lo := 0; lo < len(paths); lo += 100 {
		items = append(items, item{lo, min(lo+100, len(paths))})
	}
	memShape := memViewShape("untar->map(mem,root)", "root", func(p storage.ReadWriteBucket) (storage.ReadBucket, storage.WriteBucket) {
		m := storage.MapReadWriteBucket(p, storage.MapOnPrefix("root"))
		return m, m
	})
	osShape := diskShape("untar->os", false, "root", func(b storage.ReadWriteBucket) (storage.ReadBucket, storage.WriteBucket) { return b, b })
	r.ParallelFor(len(items), 0, func(i int) {
		fxs := map[string]*fixture{"map(mem,root)": memShape.make(scratch), "os": osShape.make(scratch)}
		for pi := items[i].lo; pi < items[i].hi; pi++ {
			name := paths[pi]
			for _, ekind := range archiveEntryKinds {
				if strings.HasSuffix(name, "/") && ekind != "dir" {
					// a trailing slash makes it a directory entry
					continue
				}
				for strip := uint32(0); strip <= 2; strip++ {
					// what remains after stripping components, per the reference
					for kind, fx := range fxs {
						for _, format := range []string{"tar", "zip"} {
							if format == "zip" && zipWith("x", ekind) == nil {
								continue
							}
							esfx := ""
							if ekind != "file" {
								esfx = "/" + ekind + "-entry"
							}
							var err error
							func() {
								defer func() {
									if rec := recover(); rec != nil {
										err = fmt.Errorf("PANIC: %v", rec)
									}
								}()
								if format == "tar" {
									err = storagearchive.Untar(ctx, bytes.NewReader(tarWith(name, ekind)), fx.wb, storagearchive.UntarWithStripComponentCount(strip))
								} else {
									data := zipWith(name, ekind)
									err = storagearchive.Unzip(ctx, bytes.NewReader(data), int64(len(data)), fx.wb, storagearchive.UnzipWithStripComponentCount(strip))
								}
							}()
							r.Eval(1)
							c := caseT{format + "->" + kind + fmt.Sprintf("(strip=%d)", strip), "extract " + ekind + " entry", name}
							if strings.Contains(name, "..") || strings.HasPrefix(name, "/") {
								r.Distinct("archive|" + c.Shape + "|" + ekind + "|" + name)
							}
							if err != nil && strings.HasPrefix(err.Error(), "PANIC") {
								r.Violate("panic/archive/"+format, fmt.Sprintf("extracting entry %q panicked: %v", name, err), c)
							}
							if ref := Resolve(name); (ref.Escapes || ref.Absolute) && err == nil {
								r.Violate(fmt.Sprintf("accepted/archive/%s/strip%d/%s%s", format, strip, normalForm(name), esfx), fmt.Sprintf("%s %s entry %q (strip %d) was accepted without error although the entry name %s", format, ekind, name, strip, why(ref)), c)
							}
							if d := fx.outside(); d != "" {
								r.Violate("escaped/archive/"+format+"/"+kind+esfx, fmt.Sprintf("%s %s entry %q (strip %d) into %s: %s", format, ekind, name, strip, kind, d), c)
							}
							fx.restore()
						}
					}
				}
			}
		}
	})
}

// ---- plugin response file names ----

func pluginNames(r *evid.Run, paths []string) {
	ctx := context.Background()
	rw := bufprotoplugin.NewResponseWriter(slog.New(slog.NewTextHandler(io.Discard, nil)))
	sh := memViewShape("plugin-out=map(mem,root)", "root", func(p storage.ReadWriteBucket) (storage.ReadBucket, storage.WriteBucket) {
		m := storage.MapReadWriteBucket(p, storage.MapOnPrefix("root"))
		return m, m
	})
	fx := sh.make("")
	for _, name := range paths {
		for _, insertion := range []bool{false, true} {
			file := &pluginpb.CodeGeneratorResponse_File{Name: proto.String(name), Content: proto.String("generated")}
			var opts []bufprotoplugin.WriteResponseOption
			if insertion {
				file.InsertionPoint = proto.String("ip")
				opts = append(opts, bufprotoplugin.WriteResponseWithInsertionPointReadBucket(fx.rb))
			}
			var err error
			func() {
				defer func() {
					if rec := recover(); rec != nil {
						err = fmt.Errorf("PANIC: %v", rec)
					}
				}()
				err = rw.WriteResponse(ctx, fx.wb, &pluginpb.CodeGeneratorResponse{File: []*pluginpb.CodeGeneratorResponse_File{file}}, opts...)
			}()
			r.Eval(1)
			ref := Resolve(name)
			c := caseT{"plugin-response(insertion=" + fmt.Sprint(insertion) + ")", "WriteResponse", name}
			if strings.Contains(name, "..") || ref.Absolute {
				r.Distinct("plugin|" + c.Shape + "|" + name)
			}
			if err != nil && strings.HasPrefix(err.Error(), "PANIC") {
				r.Violate("panic/plugin", fmt.Sprintf("WriteResponse with file %q panicked: %v", name, err), c)
			}
			if (ref.Escapes || ref.Absolute) && err == nil {
				r.Violate("accepted/plugin-response/"+normalForm(name), fmt.Sprintf("plugin response file name %q was accepted although it %s", name, why(ref)), c)
			}
			if d := fx.outside(); d != "" {
				r.Violate("escaped/plugin-response/"+normalForm(name), fmt.Sprintf("plugin response file name %q: %s", name, d), c)
			}
			fx.restore()
		}
	}
	_ = sort.Strings
}
