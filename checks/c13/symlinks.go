package c13

import (
	"context"
	"fmt"
	"io"
	"log/slog"
	"os"
	"os/exec"
	"path/filepath"
	"strings"

	"github.com/bufbuild/buf/private/pkg/app"
	"github.com/bufbuild/buf/private/pkg/git"
	"github.com/bufbuild/buf/private/pkg/storage"
	"github.com/bufbuild/buf/private/pkg/storage/storagemem"
	"github.com/bufbuild/buf/private/pkg/storage/storageos"
	"github.com/bufbuild/bufverif/internal/evid"
)

// The git cloner: a clone must contain the repository's files only; links to the outside that are checked into the
// repository must not be followed when the clone is copied into the bucket (the cloner opens the clone directory
// without symlink support on purpose, whatever provider the CLI configured).
//
// Not checked here, on purpose: links that already exist INSIDE the root of an on-disk bucket and point outside it.
// The property is about path strings, and the on-disk bucket without symlink support resolves links in intermediate
// directories like the operating system does (on the unchanged tree Get("lnkd/s.txt") with root/lnkd -> ../outside
// serves the outside file); only a link as the last or the directly enclosing component is refused. "Links inside
// the root are never followed" is therefore not a behaviour of buf that a check could demand (see run()'s Assume).

type linkCase struct {
	Shape string `json:"shape"`
	Op    string `json:"op"`
	Path  string `json:"path"`
}

func gitCloneLinks(r *evid.Run, scratch string) {
	ctx := context.Background()
	gitPath, err := exec.LookPath("git")
	if err != nil {
		r.Incomplete("git clone links: no git binary")
		return
	}
	outer := filepath.Join(scratch, "gitlinks")
	repo := filepath.Join(outer, "repo")
	outside := filepath.Join(outer, "outside")
	_ = os.MkdirAll(filepath.Join(repo, "pkg"), 0o755)
	_ = os.MkdirAll(filepath.Join(outside, "ext"), 0o755)
	_ = os.WriteFile(filepath.Join(outside, "leak.proto"), []byte("// "+sentinelMark+"-git-1\nsyntax = \"proto3\";\n"), 0o644)
	_ = os.WriteFile(filepath.Join(outside, "ext", "inner.proto"), []byte("// "+sentinelMark+"-git-2\nsyntax = \"proto3\";\n"), 0o644)
	_ = os.WriteFile(filepath.Join(repo, "a.proto"), []byte("syntax = \"proto3\";\npackage a;\n"), 0o644)
	_ = os.WriteFile(filepath.Join(repo, "pkg", "b.proto"), []byte("syntax = \"proto3\";\npackage b;\n"), 0o644)
	_ = os.Symlink("../outside/leak.proto", filepath.Join(repo, "leak.proto"))
	_ = os.Symlink("../../outside/ext", filepath.Join(repo, "pkg", "ext"))
	_ = os.Symlink(filepath.Join(outside, "leak.proto"), filepath.Join(repo, "abs.proto"))
	_ = os.Symlink("a.proto", filepath.Join(repo, "inside_link.proto"))
	env := append(os.Environ(), "GIT_CONFIG_GLOBAL=/dev/null", "GIT_CONFIG_SYSTEM=/dev/null", "HOME="+outer,
		"GIT_AUTHOR_NAME=v", "GIT_AUTHOR_EMAIL=v@example.com", "GIT_COMMITTER_NAME=v", "GIT_COMMITTER_EMAIL=v@example.com")
	for _, args := range [][]string{{"init", "-q", "-b", "main"}, {"add", "-A"}, {"commit", "-q", "-m", "links"}} {
		cmd := exec.Command(gitPath, args...)
		cmd.Dir = repo
		cmd.Env = env
		if out, err := cmd.CombinedOutput(); err != nil {
			r.Incomplete(fmt.Sprintf("git clone links: git %v: %v %s", args, err, out))
			return
		}
	}
	envContainer := app.NewEnvContainer(map[string]string{"HOME": outer, "GIT_CONFIG_GLOBAL": "/dev/null", "GIT_CONFIG_SYSTEM": "/dev/null", "PATH": os.Getenv("PATH")})
	n := 0
	for _, symlinkProvider := range []bool{false, true} {
		for _, subDir := range []string{"", "pkg"} {
			for _, named := range []bool{false, true} {
				n++
				var popts []storageos.ProviderOption
				if symlinkProvider {
					// the provider the CLI uses
					popts = append(popts, storageos.ProviderWithSymlinks())
				}
				cloner := git.NewCloner(slog.New(slog.NewTextHandler(io.Discard, nil)), storageos.NewProvider(popts...), git.ClonerOptions{})
				dest := storagemem.NewReadWriteBucket()
				opts := git.CloneToBucketOptions{SubDir: subDir}
				if named {
					opts.Name = git.NewBranchName("main")
				}
				err := cloner.CloneToBucket(ctx, envContainer, "file://"+repo, 1, dest, opts)
				c := linkCase{fmt.Sprintf("git clone (symlink-enabled provider=%v, subdir=%q, branch named=%v)", symlinkProvider, subDir, named), "CloneToBucket", "file://repo"}
				r.Eval(1)
				r.Distinct(fmt.Sprintf("gitlink|%v", c))
				if err != nil {
					// refusing the repository is fine; nothing may have been read from outside
					continue
				}
				files := 0
				_ = dest.Walk(ctx, "", func(info storage.ObjectInfo) error {
					files++
					data, _ := storage.ReadPath(ctx, dest, info.Path())
					if strings.Contains(string(data), sentinelMark) {
						r.Violate("read-outside/git-clone-followed-link", fmt.Sprintf("%s: the cloned bucket holds %q with the content of a file outside the repository (a checked-in link to the outside was followed)", c.Shape, info.Path()), c)
					}
					return nil
				})
				if files == 0 {
					r.Incomplete("git clone links: empty clone")
				}
			}
		}
	}
	r.Set("git_clone_link_cases", n)
}
