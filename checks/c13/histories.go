package c13

import (
	"context"
	"fmt"
	"os"
	"path/filepath"
	"regexp"
	"sort"
	"strings"
	"sync/atomic"

	"github.com/bufbuild/buf/private/pkg/storage"
	"github.com/bufbuild/buf/private/pkg/storage/storageos"
	"github.com/bufbuild/bufverif/internal/enum"
	"github.com/bufbuild/bufverif/internal/evid"
)

// histories: operation HISTORIES on the on-disk bucket, with the world outside the root observed after every
// step and also between Put, Write and Close of every writer.
//
// The single-operation phase of run() starts every case from the same populated root and looks at the outside
// only when an operation has returned. Three things are out of its reach and are enumerated here:
//   - sequences that empty the root or one of its directories (a "remove the now-empty parent directories"
//     step must stop at the root);
//   - roots given as RELATIVE paths (the working directory is the scratch directory for this phase), where
//     external paths are relative and any comparison with the absolute root silently never matches;
//   - the time between Put and Close, and abandoned writers: whatever a writer stages must be staged inside the
//     root, so the system temp directory ($TMPDIR points into the watched area) must stay empty.
//
// Everything is valid input (all names are plain names inside the root): the oracle is only the state clause of
// the property - nothing outside the root is created, changed or deleted.

type histOp struct {
	kind string // Put, PutAtomic, PutAbandon, PutAtomicAbandon, Delete, DeleteAll
	path string
}

func (o histOp) String() string { return o.kind + "(" + o.path + ")" }

var histAlphabet = []histOp{
	{"Put", "a"}, {"Put", "d/b"}, {"Put", "n/e/w"},
	{"PutAtomic", "a"}, {"PutAtomic", "n/e/w"},
	{"PutAbandon", "n/e/w"}, {"PutAtomicAbandon", "a"},
	{"Delete", "a"}, {"Delete", "d/b"}, {"Delete", "n/e/w"},
	{"DeleteAll", "d"}, {"DeleteAll", "n"}, {"DeleteAll", ""},
}

type histCase struct {
	Root     string   `json:"root_spelling"`
	Symlinks bool     `json:"symlinks"`
	Ops      []string `json:"ops"`
	Step     string   `json:"observed_at"`
}

var histDirName = regexp.MustCompile(`^h[0-9]+$`)

func histories(r *evid.Run, scratch string) {
	ctx := context.Background()
	depth := 3
	// the phase owns the process working directory and $TMPDIR; nothing else runs concurrently with it
	oldWD, err := os.Getwd()
	if err != nil {
		r.Incomplete("histories: " + err.Error())
		return
	}
	base := filepath.Join(scratch, "hist")
	tmpWatch := filepath.Join(base, "tmpwatch")
	if err := os.MkdirAll(tmpWatch, 0o755); err != nil {
		r.Incomplete("histories: " + err.Error())
		return
	}
	if err := os.Chdir(base); err != nil {
		r.Incomplete("histories: " + err.Error())
		return
	}
	oldTmp, hadTmp := os.LookupEnv("TMPDIR")
	os.Setenv("TMPDIR", tmpWatch)
	defer func() {
		_ = os.Chdir(oldWD)
		if hadTmp {
			os.Setenv("TMPDIR", oldTmp)
		} else {
			os.Unsetenv("TMPDIR")
		}
	}()
	if os.TempDir() != tmpWatch {
		r.Incomplete("histories: cannot redirect the system temp directory")
		return
	}

	seqs := enum.Sequences(len(histAlphabet), 1, depth)
	rootSpellings := []string{"abs", "rel", "dot-rel"}
	type item struct {
		spelling string
		symlinks bool
		lo, hi   int
	}
	var items []item
	const chunk = 60
	for _, sp := range rootSpellings {
		for _, sl := range []bool{false, true} {
			for lo := 0; lo < len(seqs); lo += chunk {
				items = append(items, item{sp, sl, lo, min(lo+chunk, len(seqs))})
			}
		}
	}
	r.Set("history_alphabet", func() []string {
		var out []string
		for _, o := range histAlphabet {
			out = append(out, o.String())
		}
		return out
	}())
	r.Set("history_depth", depth)
	r.Set("history_root_spellings", rootSpellings)
	var nSeq, nObs, nEmptied, nMidWrite atomic.Int64
	var dirSeq atomic.Int64
	r.ParallelFor(len(items), 0, func(i int) {
		it := items[i]
		for si := it.lo; si < it.hi; si++ {
			seq := seqs[si]
			name := fmt.Sprintf("h%d", dirSeq.Add(1))
			outer := filepath.Join(base, name)
			// layout: outer/keep.txt (sentinel), outer/lone/ holds nothing but the root
			rootAbs := filepath.Join(outer, "lone", "root")
			_ = os.MkdirAll(filepath.Join(rootAbs, "d"), 0o755)
			_ = os.WriteFile(filepath.Join(outer, "keep.txt"), []byte(sentinelMark+"-keep"), 0o644)
			_ = os.WriteFile(filepath.Join(rootAbs, "a"), []byte("inside-a"), 0o644)
			_ = os.WriteFile(filepath.Join(rootAbs, "d", "b"), []byte("inside-b"), 0o644)
			var rootArg string
			switch it.spelling {
			case "abs":
				rootArg = rootAbs
			case "rel":
				rootArg = name + "/lone/root"
			case "dot-rel":
				rootArg = "./" + name + "/lone/root"
			}
			var popts []storageos.ProviderOption
			var bopts []storageos.ReadWriteBucketOption
			if it.symlinks {
				popts = append(popts, storageos.ProviderWithSymlinks())
				bopts = append(bopts, storageos.ReadWriteBucketWithSymlinksIfSupported())
			}
			bucket, err := storageos.NewProvider(popts...).NewReadWriteBucket(rootArg, bopts...)
			if err != nil {
				r.Incomplete("histories: NewReadWriteBucket(" + rootArg + "): " + err.Error())
				_ = os.RemoveAll(outer)
				return
			}
			var opNames []string
			for _, k := range seq {
				opNames = append(opNames, histAlphabet[k].String())
			}
			observe := func(step string) bool {
				nObs.Add(1)
				d := histOutside(base, outer, tmpWatch)
				if d.sig == "" {
					return true
				}
				c := histCase{it.spelling, it.symlinks, opNames, step}
				r.Violate("escaped/history/os/"+d.sig, fmt.Sprintf("disk bucket (root given as %s path%s), history %s, observed %s: %s", it.spelling, map[bool]string{true: ", symlinks enabled"}[it.symlinks], strings.Join(opNames, "; "), step, d.what), c)
				return false
			}
			var abandoned []storage.WriteObjectCloser
			ok := true
			for k, oi := range seq {
				if !ok {
					break
				}
				op := histAlphabet[oi]
				at := fmt.Sprintf("after step %d %s", k+1, op)
				switch op.kind {
				case "Put", "PutAtomic", "PutAbandon", "PutAtomicAbandon":
					var o []storage.PutOption
					if strings.Contains(op.kind, "Atomic") {
						o = append(o, storage.PutWithAtomic())
					}
					w, err := bucket.Put(ctx, op.path, o...)
					if err != nil {
						ok = observe(at + " (Put failed: " + err.Error() + ")")
						continue
					}
					nMidWrite.Add(1)
					ok = observe(fmt.Sprintf("during step %d %s, between Put and Write", k+1, op))
					_, _ = w.Write([]byte("written-by-history"))
					if ok {
						ok = observe(fmt.Sprintf("during step %d %s, between Write and Close", k+1, op))
					}
					if strings.HasSuffix(op.kind, "Abandon") {
						// the writer is never closed while the history runs (a caller that returned early, or a
						// process that died): what it staged so far must be inside the root
						abandoned = append(abandoned, w)
					} else {
						_ = w.Close()
					}
				case "Delete":
					_ = bucket.Delete(ctx, op.path)
				case "DeleteAll":
					_ = bucket.DeleteAll(ctx, op.path)
				}
				if ok {
					ok = observe(at)
				}
			}
			if ents, err := os.ReadDir(rootAbs); err != nil || len(ents) == 0 {
				nEmptied.Add(1)
			}
			for _, w := range abandoned {
				_ = w.Close()
			}
			if ok {
				observe("after closing the abandoned writers")
			}
			nSeq.Add(1)
			r.Eval(1)
			if len(seq) > 1 {
				r.Distinct(fmt.Sprintf("history|%s|%v|%s", it.spelling, it.symlinks, strings.Join(opNames, ";")))
			}
			r.SampleEvery(si, 1499, func() any { return histCase{it.spelling, it.symlinks, opNames, "every step"} })
			_ = os.RemoveAll(outer)
			// staged files of a defective tree must not pile up and be blamed on the next history
			if ents, _ := os.ReadDir(tmpWatch); len(ents) > 0 {
				for _, e := range ents {
					_ = os.RemoveAll(filepath.Join(tmpWatch, e.Name()))
				}
			}
		}
	})
	r.Set("histories_run", nSeq.Load())
	r.Set("history_observations", nObs.Load())
	r.Set("history_mid_write_observations", nMidWrite.Load())
	r.Set("histories_ending_with_empty_or_removed_root", nEmptied.Load())
	if !r.Expired() && (nEmptied.Load() == 0 || nMidWrite.Load() == 0) {
		r.Incomplete("histories: no history emptied the root / no writer was observed mid-write")
	}
}

type histDiff struct{ sig, what string }

func (d histDiff) String() string { return d.what }

// histOutside looks at everything that is not below outer/lone/root.
func histOutside(base, outer, tmpWatch string) histDiff {
	// the system temp directory
	if ents, err := os.ReadDir(tmpWatch); err != nil {
		return histDiff{"temp-dir-vanished", "the system temp directory vanished"}
	} else if len(ents) > 0 {
		return histDiff{"staged-in-system-temp-dir", fmt.Sprintf("a file %q was created in the system temp directory, outside the root", ents[0].Name())}
	}
	// the working directory: nothing but the per-history directories and tmpwatch
	ents, err := os.ReadDir(base)
	if err != nil {
		return histDiff{"working-directory-vanished", "the working directory vanished"}
	}
	for _, e := range ents {
		if e.Name() != "tmpwatch" && !histDirName.MatchString(e.Name()) {
			return histDiff{"created-in-working-directory", fmt.Sprintf("%q was created in the working directory, outside the root", e.Name())}
		}
	}
	// outer: keep.txt and lone/ only
	if data, err := os.ReadFile(filepath.Join(outer, "keep.txt")); err != nil || string(data) != sentinelMark+"-keep" {
		return histDiff{"sentinel-changed", "the sentinel file next to the root's parent changed or vanished"}
	}
	if st, err := os.Stat(filepath.Join(outer, "lone")); err != nil || !st.IsDir() {
		return histDiff{"directory-above-root-removed", "the directory that contains the root was removed"}
	}
	var names []string
	for _, dir := range []string{outer, filepath.Join(outer, "lone")} {
		es, _ := os.ReadDir(dir)
		for _, e := range es {
			names = append(names, filepath.Join(filepath.Base(dir), e.Name()))
		}
	}
	sort.Strings(names)
	for _, n := range names {
		switch filepath.Base(n) {
		case "keep.txt", "lone", "root":
		default:
			return histDiff{"created-next-to-root", fmt.Sprintf("%q was created outside the root", n)}
		}
	}
	return histDiff{}
}
