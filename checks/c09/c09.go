// Package c09 is the check for property C09 (see DESIGN.md section 3).
package c09
