package c09

import (
	"context"
	"encoding/json"
	"fmt"
	"os"
	"path/filepath"
	"sort"
	"strings"

	"github.com/bufbuild/buf/private/bufpkg/bufmodule"
	"github.com/bufbuild/buf/private/bufpkg/bufmodule/bufmodulestore"
	"github.com/bufbuild/buf/private/bufpkg/bufmodule/bufmoduletesting"
	"github.com/bufbuild/buf/private/bufpkg/bufparse"
	"github.com/bufbuild/bufverif/internal/bufx"
	"github.com/bufbuild/bufverif/internal/evid"
	"github.com/google/uuid"
)

// commitStore: every single-file tampering of a complete commit-cache entry, and every crash
// snapshot of a commit store, through both lookup routes (by module key = digest pinned, by commit key).
func commitStore(r *evid.Run, scratch string) {
	ctx := context.Background()
	omni, err := bufmoduletesting.NewOmniProvider(bufmoduletesting.ModuleData{
		Name:       "buf.build/acme/main",
		CommitID:   uuid.MustParse("00000000-0000-4000-8000-0000000000aa"),
		PathToData: map[string][]byte{"a.proto": []byte("syntax = \"proto3\";\npackage a;\n")},
	})
	if err != nil {
		r.Incomplete(err.Error())
		return
	}
	ref, _ := bufparse.NewRef("buf.build", "acme", "main", "")
	outcomes := map[string]int{}
	n := 0
	for _, digestType := range []bufmodule.DigestType{bufmodule.DigestTypeB5, bufmodule.DigestTypeB4} {
		keys, err := omni.GetModuleKeysForModuleRefs(ctx, []bufparse.Ref{ref}, digestType)
		if err != nil {
			r.Incomplete(err.Error())
			return
		}
		commits, err := omni.GetCommitsForModuleKeys(ctx, keys)
		if err != nil {
			r.Incomplete(err.Error())
			return
		}
		pinned, _ := keys[0].Digest()
		commitKey, err := bufmodule.ModuleKeyToCommitKey(keys[0])
		if err != nil {
			r.Incomplete(err.Error())
			return
		}
		base := newDir(scratch)
		if err := bufmodulestore.NewCommitStore(bufx.Logger, osBucket(base)).PutCommits(ctx, commits); err != nil {
			r.Incomplete("commit store put failed: " + err.Error())
			return
		}
		snap := snapshotDir(base)
		os.RemoveAll(base)
		var files []string
		for p := range snap {
			files = append(files, p)
		}
		sort.Strings(files)
		if len(files) != 1 {
			r.Incomplete(fmt.Sprintf("commit store wrote %d files, expected 1", len(files)))
			return
		}
		f := files[0]
		content := snap[f]
		type tamper struct {
			desc    string
			content *string // nil = delete the file
		}
		str := func(s string) *string { return &s }
		tampers := []tamper{{"untouched", str(content)}, {"delete the file", nil}, {"empty file", str("")}, {"truncate to half", str(content[:len(content)/2])}, {"null", str("null")}, {"empty object", str("{}")}, {"array", str("[]")}}
		// every single-byte substitution that keeps the byte class (digit->digit, hex->hex, other ^1)
		for i := 0; i < len(content); i++ {
			b := []byte(content)
			switch {
			case b[i] >= '0' && b[i] <= '8':
				b[i]++
			case b[i] == '9':
				b[i] = '0'
			case b[i] >= 'a' && b[i] <= 'e':
				b[i]++
			case b[i] == 'f':
				b[i] = 'a'
			default:
				b[i] ^= 0x01
			}
			tampers = append(tampers, tamper{fmt.Sprintf("substitute byte %d", i), str(string(b))})
		}
		// every well-formed document obtained by deleting one field, or blanking one value
		var doc map[string]any
		if err := json.Unmarshal([]byte(content), &doc); err == nil {
			var fieldNames []string
			for k := range doc {
				fieldNames = append(fieldNames, k)
			}
			sort.Strings(fieldNames)
			for _, k := range fieldNames {
				for _, mode := range []string{"delete", "empty-string", "null", "number"} {
					m := map[string]any{}
					for kk, vv := range doc {
						m[kk] = vv
					}
					switch mode {
					case "delete":
						delete(m, k)
					case "empty-string":
						m[k] = ""
					case "null":
						m[k] = nil
					case "number":
						m[k] = 7
					}
					b, _ := json.Marshal(m)
					tampers = append(tampers, tamper{fmt.Sprintf("well-formed document with field %q %s", k, mode), str(string(b))})
				}
			}
			// a digest of the other type
			other := "b4"
			if strings.HasPrefix(fmt.Sprint(doc["digest"]), "b4") {
				other = "b5"
			}
			if d, ok := doc["digest"].(string); ok && len(d) > 3 {
				m := map[string]any{}
				for kk, vv := range doc {
					m[kk] = vv
				}
				m["digest"] = other + d[2:]
				b, _ := json.Marshal(m)
				tampers = append(tampers, tamper{"well-formed document with the digest type swapped", str(string(b))})
			}
		}
		for ti, t := range tampers {
			dir := newDir(scratch)
			if t.content != nil {
				restoreDir(dir, map[string]string{f: *t.content})
			}
			for _, route := range []string{"by-module-key", "by-commit-key"} {
				c := caseT{Section: "commit-store", Module: digestType.String(), Layout: route, Detail: "tampering: " + t.desc}
				out := func() (out string) {
					defer func() {
						if rec := recover(); rec != nil {
							out = "PANIC: " + fmt.Sprint(rec)
						}
					}()
					store := bufmodulestore.NewCommitStore(bufx.Logger, osBucket(dir))
					var found []bufmodule.Commit
					var missing int
					var err error
					if route == "by-module-key" {
						var nf []bufmodule.ModuleKey
						found, nf, err = store.GetCommitsForModuleKeys(ctx, keys)
						missing = len(nf)
					} else {
						var nf []bufmodule.CommitKey
						found, nf, err = store.GetCommitsForCommitKeys(ctx, []bufmodule.CommitKey{commitKey})
						missing = len(nf)
					}
					if err != nil {
						return "error"
					}
					if len(found)+missing != 1 {
						return fmt.Sprintf("BAD-COUNT found=%d missing=%d", len(found), missing)
					}
					if len(found) == 0 {
						return "miss"
					}
					if found[0] == nil {
						return "NIL-FOUND"
					}
					mk := found[0].ModuleKey()
					if mk == nil {
						return "NIL-MODULE-KEY"
					}
					d, derr := mk.Digest()
					if derr != nil {
						return "digest-error"
					}
					if route == "by-module-key" && !bufmodule.DigestEqual(d, pinned) {
						return "WRONG-DIGEST served " + d.String()
					}
					if _, terr := found[0].CreateTime(); terr != nil {
						return "create-time-error"
					}
					return "hit"
				}()
				outcomes[route+":"+strings.SplitN(out, " ", 2)[0]]++
				n++
				r.Eval(1)
				r.Distinct(fmt.Sprintf("commit|%s|%s|%s", digestType, route, t.desc))
				r.SampleEvery(ti, 97, func() any { return c })
				if strings.HasPrefix(out, "PANIC") || strings.HasPrefix(out, "NIL") || strings.HasPrefix(out, "BAD") || strings.HasPrefix(out, "WRONG") {
					kind := strings.SplitN(out, " ", 2)[0]
					kind = strings.TrimSuffix(kind, ":")
					r.Violate(fmt.Sprintf("commit-store/%s/%s/%s", kind, route, tamperClass(t.desc)), fmt.Sprintf("commit store (%s, %s) after %s: %s", digestType, route, t.desc, out), c)
				}
				if t.desc == "untouched" && out != "hit" {
					r.Violate("commit-store/untouched-entry-not-served/"+route, "a complete commit entry is not served: "+out, c)
				}
			}
			os.RemoveAll(dir)
		}
	}
	r.Set("commit_store_cases", n)
	r.Set("commit_store_outcomes", outcomes)
	_ = filepath.Join
}

func tamperClass(desc string) string {
	switch {
	case strings.HasPrefix(desc, "substitute byte"):
		return "byte-substitution"
	case strings.HasPrefix(desc, "well-formed document"):
		return "well-formed-but-invalid-document"
	}
	return strings.ReplaceAll(desc, " ", "-")
}
