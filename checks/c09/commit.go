package c09

import "github.com/bufbuild/bufverif/internal/evid"

func commitStore(r *evid.Run, scratch string) {}
