package c09

import (
	"context"
	"fmt"
	"os"
	"sort"
	"strings"
	"sync/atomic"

	"github.com/bufbuild/buf/private/bufpkg/bufmodule"
	"github.com/bufbuild/buf/private/bufpkg/bufmodule/bufmodulecache"
	"github.com/bufbuild/buf/private/bufpkg/bufmodule/bufmodulestore"
	"github.com/bufbuild/buf/private/bufpkg/bufmodule/bufmoduletesting"
	"github.com/bufbuild/buf/private/bufpkg/bufparse"
	"github.com/bufbuild/buf/private/pkg/filelock"
	"github.com/bufbuild/buf/private/pkg/uuidutil"
	"github.com/bufbuild/bufverif/internal/bufx"
	"github.com/bufbuild/bufverif/internal/enum"
	"github.com/bufbuild/bufverif/internal/evid"
	"github.com/bufbuild/bufverif/internal/wrap"
	"github.com/google/uuid"
)

// cacheHistories: the caching providers (module data and commits) asked for SEVERAL keys at once on a cache
// whose content depends on what earlier requests left behind.
//
// State space: which of three modules are already cached (8 subsets, produced by the real store, and also by a
// real earlier request = histories of two requests). Alphabet: every ordered selection of 1..3 distinct keys
// (15 requests). Every (state, request) and every (state, request, request) is executed on a fresh directory.
// Oracle: the i-th value returned is exactly the content pinned by the i-th requested key - module name, commit,
// digest, files, dependency digests - whatever is cached; and afterwards every requested key is a valid hit.

type histModule struct {
	name  string
	files map[string]string
}

var histModules = []histModule{
	{"buf.build/acme/alpha", map[string]string{"alpha.proto": "syntax = \"proto3\";\npackage alpha;\nmessage A {}\n"}},
	{"buf.build/acme/beta", map[string]string{"beta.proto": "syntax = \"proto3\";\npackage beta;\nmessage B {}\n", "LICENSE": "beta license"}},
	{"buf.build/acme/gamma", map[string]string{"g/gamma.proto": "syntax = \"proto3\";\npackage gamma;\nimport \"alpha.proto\";\nmessage G { alpha.A a = 1; }\n"}},
}

type histWorld struct {
	omni    bufmoduletesting.OmniProvider
	keys    []bufmodule.ModuleKey
	commits []bufmodule.Commit
}

func newHistWorld(digestType bufmodule.DigestType) (*histWorld, error) {
	ctx := context.Background()
	var datas []bufmoduletesting.ModuleData
	for i, m := range histModules {
		d := bufmoduletesting.ModuleData{Name: m.name, CommitID: uuid.MustParse(fmt.Sprintf("00000000-0000-4000-8000-0000000000b%d", i+1)), PathToData: map[string][]byte{}}
		for p, c := range m.files {
			d.PathToData[p] = []byte(c)
		}
		datas = append(datas, d)
	}
	omni, err := bufmoduletesting.NewOmniProvider(datas...)
	if err != nil {
		return nil, err
	}
	w := &histWorld{omni: omni}
	for _, m := range histModules {
		parts := strings.Split(m.name, "/")
		ref, err := bufparse.NewRef(parts[0], parts[1], parts[2], "")
		if err != nil {
			return nil, err
		}
		ks, err := omni.GetModuleKeysForModuleRefs(ctx, []bufparse.Ref{ref}, digestType)
		if err != nil {
			return nil, err
		}
		w.keys = append(w.keys, ks[0])
	}
	w.commits, err = omni.GetCommitsForModuleKeys(ctx, w.keys)
	return w, err
}

type histCase struct {
	Provider string  `json:"provider"`
	Layout   string  `json:"layout"`
	Digest   string  `json:"digest_type"`
	Cached   []int   `json:"cached_before"`
	Requests [][]int `json:"requests"`
}

func cacheHistories(r *evid.Run, scratch string) {
	ctx := context.Background()
	// every ordered selection of 1..3 distinct module indices
	var requests [][]int
	for _, sub := range enum.Subsets(3, 1, 3) {
		for _, perm := range enum.Permutations(len(sub)) {
			req := make([]int, len(sub))
			for i, p := range perm {
				req[i] = sub[p]
			}
			requests = append(requests, req)
		}
	}
	cachedSets := enum.Subsets(3, 0, 3)
	type item struct {
		provider string
		tar      bool
		b4       bool
		cached   []int
		reqs     [][]int
	}
	var items []item
	for _, provider := range []string{"module-data", "commit"} {
		for _, tar := range []bool{false, true} {
			if provider == "commit" && tar {
				continue // the commit store has one layout
			}
			for _, b4 := range []bool{false, true} {
				if b4 && r.Quick() && provider == "module-data" {
					continue
				}
				for _, cached := range cachedSets {
					for _, q1 := range requests {
						items = append(items, item{provider, tar, b4, cached, [][]int{q1}})
						if len(cached) == 0 {
							// histories: the cache content is what the first request left
							for _, q2 := range requests {
								items = append(items, item{provider, tar, b4, cached, [][]int{q1, q2}})
							}
						}
					}
				}
			}
		}
	}
	r.Set("cache_history_cases", len(items))
	r.Set("cache_history_requests", len(requests))
	var mixed, total atomic.Int64
	r.ParallelFor(len(items), 0, func(i int) {
		it := items[i]
		dt := bufmodule.DigestTypeB5
		if it.b4 {
			dt = bufmodule.DigestTypeB4
		}
		w, err := newHistWorld(dt)
		if err != nil {
			r.Incomplete("cache histories: " + err.Error())
			return
		}
		dir := newDir(scratch)
		defer os.RemoveAll(dir)
		c := histCase{it.provider, layoutName(it.tar), dt.String(), it.cached, it.reqs}
		total.Add(1)
		r.Eval(1)
		r.SampleEvery(i, 1999, func() any { return c })
		fail := func(kind, what string) {
			r.Violate("cache-history/"+it.provider+"/"+kind+"/"+layoutName(it.tar), fmt.Sprintf("%s provider, %s, cached before %v, requests %v: %s", it.provider, layoutName(it.tar), it.cached, it.reqs, what), c)
		}
		defer func() {
			if rec := recover(); rec != nil {
				fail("PANIC", fmt.Sprint(rec))
			}
		}()
		switch it.provider {
		case "module-data":
			newS := func() bufmodulestore.ModuleDataStore {
				return newStore(osBucket(dir), filelock.NewNopLocker(), it.tar)
			}
			if len(it.cached) > 0 {
				var pre []bufmodule.ModuleKey
				for _, k := range it.cached {
					pre = append(pre, w.keys[k])
				}
				mds, err := w.omni.GetModuleDatasForModuleKeys(ctx, pre)
				if err == nil {
					err = newS().PutModuleDatas(ctx, mds)
				}
				if err != nil {
					r.Incomplete("cache histories: pre-store failed: " + err.Error())
					return
				}
			}
			cachedNow := map[int]bool{}
			for _, k := range it.cached {
				cachedNow[k] = true
			}
			for qi, req := range it.reqs {
				hit, miss := 0, 0
				var ks []bufmodule.ModuleKey
				for _, k := range req {
					ks = append(ks, w.keys[k])
					if cachedNow[k] {
						hit++
					} else {
						miss++
					}
				}
				if hit > 0 && miss > 0 {
					mixed.Add(1)
					r.Distinct(fmt.Sprintf("hist|md|%v|%v|%v|%v", it.tar, it.b4, it.cached, it.reqs))
				}
				// a fresh provider per request = a later buf invocation
				provider := bufmodulecache.NewModuleDataProvider(bufx.Logger, w.omni, newS())
				mds, err := provider.GetModuleDatasForModuleKeys(ctx, ks)
				if err != nil {
					fail("error", fmt.Sprintf("request %d failed without any fault: %v", qi+1, err))
					return
				}
				if len(mds) != len(req) {
					fail("wrong-count", fmt.Sprintf("request %d for %d keys returned %d values", qi+1, len(req), len(mds)))
					return
				}
				for pos, k := range req {
					if d := histCheckModuleData(ctx, mds[pos], w.keys[k], histModules[k]); d != "" {
						fail("WRONG-CONTENT", fmt.Sprintf("request %d, position %d (key of %s): %s", qi+1, pos, histModules[k].name, d))
						return
					}
					cachedNow[k] = true
				}
			}
			// afterwards every requested key is served from the cache alone
			for k := range cachedNow {
				found, _, err := newS().GetModuleDatasForModuleKeys(ctx, []bufmodule.ModuleKey{w.keys[k]})
				if err != nil || len(found) != 1 {
					fail("not-cached-after-request", fmt.Sprintf("%s is not served by the store after it was requested (err %v)", histModules[k].name, err))
					return
				}
				if d := histCheckModuleData(ctx, found[0], w.keys[k], histModules[k]); d != "" {
					fail("WRONG-CONTENT-in-cache", fmt.Sprintf("%s: %s", histModules[k].name, d))
					return
				}
			}
		case "commit":
			newS := func() bufmodulestore.CommitStore { return bufmodulestore.NewCommitStore(bufx.Logger, osBucket(dir)) }
			if len(it.cached) > 0 {
				var pre []bufmodule.Commit
				for _, k := range it.cached {
					pre = append(pre, w.commits[k])
				}
				if err := newS().PutCommits(ctx, pre); err != nil {
					r.Incomplete("cache histories: commit pre-store failed: " + err.Error())
					return
				}
			}
			cachedNow := map[int]bool{}
			for _, k := range it.cached {
				cachedNow[k] = true
			}
			for qi, req := range it.reqs {
				hit, miss := 0, 0
				var cks []bufmodule.CommitKey
				for _, k := range req {
					ck, err := bufmodule.ModuleKeyToCommitKey(w.keys[k])
					if err != nil {
						r.Incomplete(err.Error())
						return
					}
					cks = append(cks, ck)
					if cachedNow[k] {
						hit++
					} else {
						miss++
					}
				}
				if hit > 0 && miss > 0 {
					mixed.Add(1)
					r.Distinct(fmt.Sprintf("hist|commit|%v|%v|%v", it.b4, it.cached, it.reqs))
				}
				provider := bufmodulecache.NewCommitProvider(bufx.Logger, w.omni, newS())
				commits, err := provider.GetCommitsForCommitKeys(ctx, cks)
				if err != nil {
					fail("error", fmt.Sprintf("request %d failed without any fault: %v", qi+1, err))
					return
				}
				if len(commits) != len(req) {
					fail("wrong-count", fmt.Sprintf("request %d for %d keys returned %d values", qi+1, len(req), len(commits)))
					return
				}
				for pos, k := range req {
					got := commits[pos]
					if got == nil {
						fail("NIL-FOUND", fmt.Sprintf("request %d, position %d: nil commit", qi+1, pos))
						return
					}
					want := w.keys[k]
					wd, _ := want.Digest()
					gd, derr := got.ModuleKey().Digest()
					if got.ModuleKey().FullName().String() != want.FullName().String() || got.ModuleKey().CommitID() != want.CommitID() || derr != nil || gd.String() != wd.String() {
						fail("WRONG-CONTENT", fmt.Sprintf("request %d, position %d asked for the commit %s of %s and got the commit %s of %s", qi+1, pos,
							uuidutil.ToDashless(want.CommitID()), want.FullName(), uuidutil.ToDashless(got.ModuleKey().CommitID()), got.ModuleKey().FullName()))
						return
					}
					cachedNow[k] = true
				}
			}
		}
	})
	r.Set("cache_history_requests_mixing_hits_and_misses", mixed.Load())
	if !r.Expired() && total.Load() > 0 && mixed.Load() == 0 {
		r.Incomplete("cache histories: no request mixed cached and uncached keys")
	}
}

// histCheckModuleData compares one returned ModuleData with what the requested key pins ("" = equal).
func histCheckModuleData(ctx context.Context, md bufmodule.ModuleData, want bufmodule.ModuleKey, m histModule) string {
	if md == nil {
		return "nil ModuleData"
	}
	got := md.ModuleKey()
	wd, _ := want.Digest()
	gd, err := got.Digest()
	if err != nil {
		return "digest of the returned key: " + err.Error()
	}
	if got.FullName().String() != want.FullName().String() || got.CommitID() != want.CommitID() || gd.String() != wd.String() {
		return fmt.Sprintf("returned the data of %s (commit %s), requested %s (commit %s)", got.FullName(), uuidutil.ToDashless(got.CommitID()), want.FullName(), uuidutil.ToDashless(want.CommitID()))
	}
	bucket, err := md.Bucket()
	if err != nil {
		return "bucket: " + err.Error()
	}
	files, err := wrap.Snapshot(ctx, bucket)
	if err != nil {
		return "reading the served files: " + err.Error()
	}
	var names []string
	for p := range files {
		names = append(names, p)
	}
	sort.Strings(names)
	for p, c := range m.files {
		if files[p] != c {
			return fmt.Sprintf("served files %v do not hold the pinned content of %q", names, p)
		}
	}
	if len(files) != len(m.files) {
		return fmt.Sprintf("served files %v, pinned files are %d", names, len(m.files))
	}
	return ""
}
