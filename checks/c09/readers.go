package c09

import (
	"context"
	"fmt"
	"os"
	"sort"
	"strings"
	"sync"
	"sync/atomic"
	"time"

	"github.com/bufbuild/buf/private/bufpkg/bufmodule"
	"github.com/bufbuild/buf/private/pkg/filelock"
	"github.com/bufbuild/buf/private/pkg/storage"
	"github.com/bufbuild/bufverif/internal/evid"
)

// concurrentReaders: two readers of ONE loaded ModuleData of a tampered entry. The digest of a cached module is
// verified lazily, the first time any accessor is used; the second reader is started while the first one is
// parked at its k-th storage operation inside that verification (every k), and must not be handed the modified
// content either: each reader gets an error or exactly the pinned content.
//
// The seam is the bucket the harness hands to the store: the first reader is parked inside a Get/Stat/Walk of
// that bucket. The second reader is given a bounded time to finish or block (on the unchanged code it blocks until
// the first one is done); the verdict never depends on that time: whatever happens, no reader may return content
// that differs from the pinned content without an error.

type gateBucket struct {
	storage.ReadWriteBucket
	armed   atomic.Bool
	n       atomic.Int64
	blockAt int64
	parked  chan struct{}
	release chan struct{}
	once    sync.Once
}

func (g *gateBucket) point() {
	if !g.armed.Load() {
		return
	}
	k := g.n.Add(1) - 1
	if g.blockAt >= 0 && k == g.blockAt {
		g.once.Do(func() {
			close(g.parked)
			<-g.release
		})
	}
}

func (g *gateBucket) Get(ctx context.Context, path string) (storage.ReadObjectCloser, error) {
	g.point()
	return g.ReadWriteBucket.Get(ctx, path)
}

func (g *gateBucket) Stat(ctx context.Context, path string) (storage.ObjectInfo, error) {
	g.point()
	return g.ReadWriteBucket.Stat(ctx, path)
}

func (g *gateBucket) Walk(ctx context.Context, prefix string, f func(storage.ObjectInfo) error) error {
	g.point()
	return g.ReadWriteBucket.Walk(ctx, prefix, f)
}

type readersCase struct {
	Module  string `json:"module"`
	Tamper  string `json:"tamper"`
	ParkAt  int64  `json:"first_reader_parked_at_storage_op"`
	Reader1 int    `json:"reader1_accessor_order"`
	Reader2 int    `json:"reader2_accessor_order"`
}

func concurrentReaders(r *evid.Run, scratch string) {
	ctx := context.Background()
	type item struct {
		spec   ModuleSpec
		tamper string
		state  map[string]string
		parkAt int64
		o1, o2 int
	}
	var items []item
	positions := 0
	for _, spec := range Modules {
		base := newDir(scratch)
		inst, err := NewInstance(spec)
		if err != nil {
			r.Incomplete(err.Error())
			return
		}
		if err := Store(ctx, newStore(osBucket(base), filelock.NewNopLocker(), false), inst); err != nil {
			r.Incomplete("concurrent readers: " + err.Error())
			return
		}
		snap := snapshotDir(base)
		os.RemoveAll(base)
		var files []string
		for p := range snap {
			if strings.HasSuffix(p, ".proto") || strings.HasSuffix(p, "LICENSE") {
				files = append(files, p)
			}
		}
		sort.Strings(files)
		for _, f := range files {
			content := snap[f]
			for _, t := range []struct {
				name string
				val  string
			}{
				{"flip last byte of " + short(f), content[:len(content)-1] + string(content[len(content)-1]^0x01)},
				{"append a byte to " + short(f), content + "x"},
			} {
				state := map[string]string{}
				for k, v := range snap {
					state[k] = v
				}
				state[f] = t.val
				// recording run: how many storage operations does the first use of the data perform?
				n := readersRun(ctx, r, scratch, spec, state, -1, 0, 0, nil)
				if n <= 0 {
					continue
				}
				positions += int(n)
				for k := int64(0); k < n; k++ {
					for o2 := 0; o2 < 3; o2++ {
						items = append(items, item{spec, t.name, state, k, 0, o2})
					}
					if !r.Quick() {
						for o1 := 1; o1 < 3; o1++ {
							for o2 := 0; o2 < 3; o2++ {
								items = append(items, item{spec, t.name, state, k, o1, o2})
							}
						}
					}
				}
			}
		}
	}
	r.Set("concurrent_reader_cases", len(items))
	r.Set("concurrent_reader_park_positions", positions)
	var overlapped atomic.Int64
	r.ParallelFor(len(items), 0, func(i int) {
		it := items[i]
		c := readersCase{it.spec.Name, it.tamper, it.parkAt, it.o1, it.o2}
		r.Eval(1)
		r.Distinct(fmt.Sprintf("readers|%v", c))
		r.SampleEvery(i, 101, func() any { return c })
		readersRun(ctx, r, scratch, it.spec, it.state, it.parkAt, it.o1, it.o2, func(which string, out Outcome, detail string, parked bool) {
			if parked {
				overlapped.Add(1)
			}
			if out.Bad() || out == ValidHit {
				// ValidHit cannot be right either: the entry IS modified
				r.Violate(fmt.Sprintf("concurrent-readers/%s/%s", which, out), fmt.Sprintf("%s, %s: the %s (started while the first one was parked at storage operation %d of the lazy digest verification) got %s: %s", it.spec.Name, it.tamper, which, it.parkAt, out, detail), c)
			}
		})
	})
	r.Set("concurrent_reader_cases_with_first_reader_parked", overlapped.Load())
	if !r.Expired() && len(items) > 0 && overlapped.Load() == 0 {
		r.Incomplete("concurrent readers: the first reader was never parked inside the digest verification")
	}
}

// readersRun loads the (tampered) entry once and runs two readers on the loaded ModuleData. parkAt < 0 = recording
// run with one reader: returns the number of gated storage operations.
func readersRun(ctx context.Context, r *evid.Run, scratch string, spec ModuleSpec, state map[string]string, parkAt int64, o1, o2 int, report func(which string, out Outcome, detail string, parked bool)) int64 {
	dir := newDir(scratch)
	defer os.RemoveAll(dir)
	restoreDir(dir, state)
	inst, err := NewInstance(spec)
	if err != nil {
		r.Incomplete(err.Error())
		return 0
	}
	g := &gateBucket{ReadWriteBucket: osBucket(dir), blockAt: parkAt, parked: make(chan struct{}), release: make(chan struct{})}
	store := newStore(g, filelock.NewNopLocker(), false)
	found, _, err := store.GetModuleDatasForModuleKeys(ctx, []bufmodule.ModuleKey{inst.Key})
	if err != nil || len(found) != 1 {
		return 0 // the entry is not served at all: nothing to read concurrently
	}
	md := found[0]
	g.armed.Store(true)
	if parkAt < 0 {
		checkModuleData(ctx, md, inst, 0)
		return g.n.Load()
	}
	type res struct {
		out    Outcome
		detail string
	}
	done1 := make(chan res, 1)
	go func() {
		o, d := checkModuleData(ctx, md, inst, o1)
		done1 <- res{o, d}
	}()
	parked := false
	select {
	case <-g.parked:
		parked = true
	case r1 := <-done1:
		// the first reader finished before reaching that operation (fewer operations with this accessor order)
		done1 <- r1
	}
	done2 := make(chan res, 1)
	go func() {
		o, d := checkModuleData(ctx, md, inst, o2)
		done2 <- res{o, d}
	}()
	var r2 res
	got2 := false
	select {
	case r2 = <-done2:
		got2 = true
	case <-time.After(80 * time.Millisecond):
		// blocked behind the first reader (or merely slow): let the first reader go on
	}
	if parked {
		close(g.release)
	}
	r1 := <-done1
	if !got2 {
		r2 = <-done2
	}
	report("first reader", r1.out, r1.detail, parked)
	report("second reader", r2.out, r2.detail, parked)
	return 0
}
