package c09

import (
	"fmt"
	"os"
	"os/exec"
	"path/filepath"
	"strings"

	"github.com/bufbuild/bufverif/internal/evid"
)

// racePass (thorough tier only) builds cmd/racepass with the Go race detector and runs the driver
// bodies free-running. It is a supplement, not a deciding step: the cooperative scheduler's hand-offs
// are happens-before edges, so unsynchronised accesses can only be seen in a free-running run.
func racePass(r *evid.Run) {
	if r.Quick() {
		return
	}
	src := evid.SourceRoot()
	bin := filepath.Join(src, "bin", "racepass")
	build := exec.Command("go", "build", "-race", "-tags", "verif", "-o", bin, "./cmd/racepass")
	build.Dir = src
	build.Env = append(os.Environ(), "CGO_ENABLED=1")
	if out, err := build.CombinedOutput(); err != nil {
		r.Set("race_pass", "not run: build with -race failed: "+firstLine(string(out)))
		return
	}
	run := exec.Command(bin)
	run.Env = append(os.Environ(), "GORACE=halt_on_error=1 exitcode=66")
	out, err := run.CombinedOutput()
	switch {
	case err == nil && strings.Contains(string(out), "RACEPASS"):
		r.Set("race_pass", strings.TrimSpace(lastLine(string(out)))+" (free-running, -race, no data race reported)")
	case strings.Contains(string(out), "DATA RACE"):
		// reported as information: an in-process data race is not by itself a violation of the property
		// (which is about processes sharing a cache directory), but it is worth a look
		r.Set("race_pass", "DATA RACE reported by the race detector: "+firstLine(string(out)))
		fmt.Println("note: race pass reported a data race:\n" + string(out))
	default:
		r.Set("race_pass", fmt.Sprintf("not conclusive: %v %s", err, firstLine(string(out))))
	}
}

func firstLine(s string) string {
	s = strings.TrimSpace(s)
	if i := strings.IndexByte(s, '\n'); i >= 0 {
		return s[:i]
	}
	return s
}

func lastLine(s string) string {
	s = strings.TrimSpace(s)
	if i := strings.LastIndexByte(s, '\n'); i >= 0 {
		return s[i+1:]
	}
	return s
}
