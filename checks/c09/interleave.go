package c09

import (
	"context"
	"encoding/json"
	"fmt"
	"os"
	"os/exec"
	"sort"
	"strconv"
	"strings"
	"sync"
	"time"

	"github.com/bufbuild/buf/private/pkg/filelock"
	"github.com/bufbuild/bufverif/internal/evid"
	"github.com/bufbuild/bufverif/internal/hook"
	"github.com/bufbuild/bufverif/internal/sched"
	"github.com/bufbuild/bufverif/internal/wrap"
)

// ---- scheduler-visible reader/writer lock table shared by the "processes" ----

type lockEntry struct {
	writer  bool
	readers int
}

type lockTable struct{ m map[string]*lockEntry }

func (t *lockTable) get(path string) *lockEntry {
	e := t.m[path]
	if e == nil {
		e = &lockEntry{}
		t.m[path] = e
	}
	return e
}

type procLocker struct {
	t *lockTable
	s *sched.Sched
}

type unlockFunc func() error

func (f unlockFunc) Unlock() error { return f() }

func (l *procLocker) Lock(ctx context.Context, path string, _ ...filelock.LockOption) (filelock.Unlocker, error) {
	e := l.t.get(path)
	l.s.PointWhen("lock", func() bool { return !e.writer && e.readers == 0 })
	e.writer = true
	return unlockFunc(func() error {
		l.s.Point("unlock")
		e.writer = false
		return nil
	}), nil
}

func (l *procLocker) RLock(ctx context.Context, path string, _ ...filelock.LockOption) (filelock.Unlocker, error) {
	e := l.t.get(path)
	l.s.PointWhen("rlock", func() bool { return !e.writer })
	e.readers++
	return unlockFunc(func() error {
		l.s.Point("runlock")
		e.readers--
		return nil
	}), nil
}

// Scenario is a set of processes on one key.
type Scenario struct {
	Name  string
	Procs []string // "put" | "get"
	// Initial: "" (empty cache) or "crashed" (directory left by a store that died before publishing)
	Initial string
	// Faults adds, at every put/close of a storing process, the environment choice "this operation fails"
	Faults bool
}

// Scenarios is the menu.
var Scenarios = []Scenario{
	{Name: "put|get", Procs: []string{"put", "get"}},
	{Name: "put|put", Procs: []string{"put", "put"}},
	{Name: "put|put|get", Procs: []string{"put", "put", "get"}},
	{Name: "put|get|get", Procs: []string{"put", "get", "get"}},
	{Name: "crashed;put|get", Procs: []string{"put", "get"}, Initial: "crashed"},
	{Name: "crashed;put|put", Procs: []string{"put", "put"}, Initial: "crashed"},
	{Name: "put|put+fault", Procs: []string{"put", "put"}, Faults: true},
	{Name: "put|get+fault", Procs: []string{"put", "get"}, Faults: true},
}

type schedViolation struct {
	Sig   string   `json:"sig"`
	What  string   `json:"what"`
	Trace []string `json:"trace"`
}

type schedResult struct {
	Executions int              `json:"executions"`
	Points     int              `json:"points"`
	MaxPoints  int              `json:"max_points"`
	Outcomes   map[string]int   `json:"outcomes"`
	Distinct   map[string]bool  `json:"distinct"`
	Violations []schedViolation `json:"violations"`
	Deadlocks  int              `json:"deadlocks"`
	Stuck      []string         `json:"stuck"`
	Capped     bool             `json:"capped"`
	NonDet     string           `json:"nondeterminism"`
	Sample     []string         `json:"sample"`
}

// crashedSnapshot produces the directory left by a store that died just before publishing module.yaml / the tar.
func crashedSnapshot(scratch string, spec ModuleSpec, tar bool) map[string]string {
	dir := newDir(scratch)
	defer os.RemoveAll(dir)
	inst, err := NewInstance(spec)
	if err != nil {
		return nil
	}
	var last map[string]string
	hook.SetOnPoint(func(label string) error {
		if label == "os.rename.before" {
			last = snapshotDir(dir)
		}
		return nil
	})
	_ = Store(context.Background(), newStore(osBucket(dir), filelock.NewNopLocker(), tar), inst)
	hook.SetOnPoint(nil)
	return last
}

// exploreScenario runs the DFS for one (scenario, module, layout) in this process.
func exploreScenario(sc Scenario, spec ModuleSpec, tar bool, bound, shard, nshards int, scratch string, deadline time.Time) schedResult {
	hook.Install()
	hook.SetSchedLabels(map[string]bool{}) // schedule at bucket-level operations only; disk sub-steps add no visible state
	defer hook.SetSchedLabels(nil)
	res := schedResult{Outcomes: map[string]int{}, Distinct: map[string]bool{}}
	var initial map[string]string
	if sc.Initial == "crashed" {
		initial = crashedSnapshot(scratch, spec, tar)
	}
	ctx := context.Background()
	var mu sync.Mutex
	// one (key, data) pair per process index, reused over executions: module data only reads its own
	// in-memory source; nothing is shared between the processes of one execution
	procInst := make([]*Instance, len(sc.Procs)+1)
	for i := range procInst {
		inst, err := NewInstance(spec)
		if err != nil {
			panic(err)
		}
		procInst[i] = inst
	}
	setup := func(s *sched.Sched) func(x *sched.Exec) {
		dir := newDir(scratch)
		if initial != nil {
			restoreDir(dir, initial)
		}
		table := &lockTable{m: map[string]*lockEntry{}}
		type procResult struct {
			kind    string
			outcome Outcome
			detail  string
			err     error
			done    bool
		}
		results := make([]*procResult, len(sc.Procs))
		faulted := false
		for i, kind := range sc.Procs {
			i, kind := i, kind
			inst := procInst[i]
			pr := &procResult{kind: kind}
			results[i] = pr
			name := fmt.Sprintf("%s%d", kind, i)
			pb := &pointBucket{ReadWriteBucket: osBucket(dir), before: func(op, path string) { s.Point(op + ":" + short(path)) }}
			if kind == "put" && sc.Faults {
				// environment choice: this write-side operation fails (at most one failure per execution)
				pb.fault = func(op, path string) error {
					if faulted {
						return nil
					}
					if s.Choose("fault:"+op+":"+short(path), 2) == 1 {
						faulted = true
						return fmt.Errorf("%s %s: %w", op, short(path), wrap.ErrInjected)
					}
					return nil
				}
			}
			order := i
			store := newStore(pb, &procLocker{t: table, s: s}, tar)
			s.Go(name, func() {
				if kind == "put" {
					pr.err = Store(ctx, store, inst)
				} else {
					pr.outcome, pr.detail = LoadOrder(ctx, store, inst, order)
				}
				pr.done = true
			})
		}
		return func(x *sched.Exec) {
			defer os.RemoveAll(dir)
			mu.Lock()
			defer mu.Unlock()
			trace := x.Trace()
			if x.Deadlock {
				res.Deadlocks++
				res.Violations = append(res.Violations, schedViolation{"interleave/deadlock/" + layoutName(tar), fmt.Sprintf("%s/%s: deadlock, threads blocked at %v", sc.Name, spec.Name, x.Blocked), trace})
				return
			}
			if x.Horizon {
				return
			}
			var key []string
			anyPutOK := false
			for i, pr := range results {
				if !pr.done {
					res.Violations = append(res.Violations, schedViolation{"interleave/thread-did-not-finish", fmt.Sprintf("%s: process %d did not finish", sc.Name, i), trace})
					return
				}
				if pr.kind == "put" {
					k := "put:ok"
					if pr.err != nil {
						k = "put:error"
						if strings.HasPrefix(pr.err.Error(), "PANIC") {
							res.Violations = append(res.Violations, schedViolation{"interleave/panic-in-store/" + layoutName(tar), fmt.Sprintf("%s/%s: %v", sc.Name, spec.Name, pr.err), trace})
						}
					} else {
						anyPutOK = true
					}
					key = append(key, k)
				} else {
					key = append(key, "get:"+string(pr.outcome))
					if pr.outcome.Bad() {
						res.Violations = append(res.Violations, schedViolation{fmt.Sprintf("interleave/load-%s/%s", pr.outcome, layoutName(tar)), fmt.Sprintf("%s/%s: a concurrent load returned %s: %s", sc.Name, spec.Name, pr.outcome, pr.detail), trace})
					}
				}
			}
			// quiescent state: the entry must be loadable or repairable
			inst := procInst[len(sc.Procs)]
			final, fdetail := Load(ctx, newStore(osBucket(dir), filelock.NewNopLocker(), tar), inst)
			key = append(key, "final:"+string(final))
			if final.Bad() {
				res.Violations = append(res.Violations, schedViolation{fmt.Sprintf("interleave/final-load-%s/%s", final, layoutName(tar)), fmt.Sprintf("%s/%s: load after all processes ended returned %s: %s", sc.Name, spec.Name, final, fdetail), trace})
			} else if anyPutOK && final != ValidHit {
				res.Violations = append(res.Violations, schedViolation{fmt.Sprintf("interleave/acknowledged-store-not-loadable-%s/%s", final, layoutName(tar)), fmt.Sprintf("%s/%s: a store returned success but the quiescent entry loads as %s (%s)", sc.Name, spec.Name, final, fdetail), trace})
			} else if final != ValidHit {
				inst2, _ := NewInstance(spec)
				if err := Store(ctx, newStore(osBucket(dir), filelock.NewNopLocker(), tar), inst2); err == nil {
					inst3, _ := NewInstance(spec)
					if o, d := Load(ctx, newStore(osBucket(dir), filelock.NewNopLocker(), tar), inst3); o != ValidHit {
						res.Violations = append(res.Violations, schedViolation{fmt.Sprintf("interleave/not-repaired-%s/%s", o, layoutName(tar)), fmt.Sprintf("%s/%s: a later store did not repair the entry: %s %s", sc.Name, spec.Name, o, d), trace})
					}
				}
			}
			res.Outcomes[strings.Join(key, " ")]++
			res.Distinct[strings.Join(trace, ";")] = true
			if len(res.Sample) == 0 && len(x.Points) > 3 {
				res.Sample = trace
			}
		}
	}
	cfg := sched.Config{Bound: bound, DelayBounded: true, Shard: shard, NShards: nshards, Deadline: deadline, Horizon: 3000}
	// determinism proof: the default schedule twice
	if shard == 0 {
		a := sched.RunOnce(cfg, nil, setup)
		b := sched.RunOnce(cfg, nil, setup)
		if strings.Join(a.Trace(), ";") != strings.Join(b.Trace(), ";") {
			res.NonDet = fmt.Sprintf("baseline schedule not reproducible: %v vs %v", a.Trace(), b.Trace())
			return res
		}
		res.Outcomes = map[string]int{}
		res.Distinct = map[string]bool{}
	}
	st := sched.Explore(cfg, setup)
	res.Executions = st.Executions
	res.Points = st.Points
	res.MaxPoints = st.MaxPoints
	res.Stuck = st.StuckInfo
	res.Capped = st.Capped
	return res
}

func schedWorker(args []string) int {
	// args: scenario module tar bound shard nshards scratch deadlineUnix
	si, _ := strconv.Atoi(args[0])
	mi, _ := strconv.Atoi(args[1])
	tar, _ := strconv.ParseBool(args[2])
	bound, _ := strconv.Atoi(args[3])
	shard, _ := strconv.Atoi(args[4])
	nshards, _ := strconv.Atoi(args[5])
	dl, _ := strconv.ParseInt(args[7], 10, 64)
	wdir, err := os.MkdirTemp(args[6], "w")
	if err != nil {
		fmt.Println(err)
		return 3
	}
	defer os.RemoveAll(wdir)
	res := exploreScenario(Scenarios[si], Modules[mi], tar, bound, shard, nshards, wdir, time.Unix(dl, 0))
	// distinct traces are only counted
	out := struct {
		schedResult
		DistinctCount int `json:"distinct_count"`
	}{res, len(res.Distinct)}
	out.Distinct = nil
	b, _ := json.Marshal(out)
	fmt.Println("RESULT " + string(b))
	return 0
}

func interleavings(r *evid.Run, scratch string) {
	self, _ := os.Executable()
	type job struct {
		si, mi int
		tar    bool
		shard  int
		bound  int
	}
	nshards := 4
	var jobs []job
	maxBound := 0
	for si, sc := range Scenarios {
		for mi := range Modules {
			for _, tar := range []bool{false, true} {
				three := len(sc.Procs) >= 3
				b := 3
				if r.Quick() {
					if mi == 3 || (three && tar) {
						continue
					}
					if three {
						b = 2
					}
				} else {
					b = 4
					if three {
						b = 3
					}
				}
				if b > maxBound {
					maxBound = b
				}
				for sh := 0; sh < nshards; sh++ {
					jobs = append(jobs, job{si, mi, tar, sh, b})
				}
			}
		}
	}
	bound := maxBound
	deadline := time.Now().Add(55 * time.Second)
	if !r.Quick() {
		deadline = time.Now().Add(20 * time.Minute)
	}
	totalExec, totalPoints, maxPoints := 0, 0, 0
	outcomeKinds := map[string]int{}
	perScenario := map[string]int{}
	perJob := map[string]int{}
	var mu sync.Mutex
	r.ParallelFor(len(jobs), 0, func(i int) {
		j := jobs[i]
		cmd := exec.Command(self, "worker", "c09sched", strconv.Itoa(j.si), strconv.Itoa(j.mi), strconv.FormatBool(j.tar), strconv.Itoa(j.bound),
			strconv.Itoa(j.shard), strconv.Itoa(nshards), scratch, strconv.FormatInt(deadline.Unix(), 10))
		out, err := cmd.Output()
		name := fmt.Sprintf("%s/%s/%s bound %d shard %d", Scenarios[j.si].Name, Modules[j.mi].Name, layoutName(j.tar), j.bound, j.shard)
		var res struct {
			schedResult
			DistinctCount int `json:"distinct_count"`
		}
		found := false
		for _, line := range strings.Split(string(out), "\n") {
			if strings.HasPrefix(line, "RESULT ") {
				if json.Unmarshal([]byte(line[7:]), &res) == nil {
					found = true
				}
			}
		}
		if !found {
			r.Incomplete(fmt.Sprintf("scheduler worker %s failed: %v", name, err))
			return
		}
		mu.Lock()
		defer mu.Unlock()
		totalExec += res.Executions
		totalPoints += res.Points
		if res.MaxPoints > maxPoints {
			maxPoints = res.MaxPoints
		}
		perScenario[Scenarios[j.si].Name] += res.Executions
		perJob[fmt.Sprintf("%s/%s/%s bound %d", Scenarios[j.si].Name, Modules[j.mi].Name, layoutName(j.tar), j.bound)] += res.Executions
		for k, v := range res.Outcomes {
			outcomeKinds[Scenarios[j.si].Name+" => "+k] += v
		}
		r.Eval(res.Executions)
		for d := 0; d < res.DistinctCount; d++ {
			r.Distinct(fmt.Sprintf("sched|%s|%d", name, d))
		}
		if res.NonDet != "" {
			r.Incomplete("harness-nondeterminism in " + name + ": " + res.NonDet)
		}
		if len(res.Stuck) > 0 {
			r.Incomplete(fmt.Sprintf("harness-stuck in %s: %v", name, res.Stuck))
		}
		if res.Capped {
			r.Incomplete("interleaving exploration of " + name + " hit the deadline")
		}
		if len(res.Sample) > 0 && j.shard == 1 {
			r.Sample(caseT{Section: "interleaving", Module: Modules[j.mi].Name, Layout: layoutName(j.tar), Detail: Scenarios[j.si].Name, Trace: res.Sample})
		}
		for _, v := range res.Violations {
			r.Violate(v.Sig, v.What, caseT{Section: "interleaving", Module: Modules[j.mi].Name, Layout: layoutName(j.tar), Detail: Scenarios[j.si].Name, Trace: v.Trace})
		}
	})
	r.Set("interleaving_preemption_bound", bound)
	r.Set("interleaving_executions", totalExec)
	r.Set("interleaving_decision_points", totalPoints)
	r.Set("interleaving_max_points_per_execution", maxPoints)
	r.Set("interleaving_executions_per_scenario", perScenario)
	r.Set("interleaving_executions_per_job", perJob)
	keys := make([]string, 0, len(outcomeKinds))
	for k := range outcomeKinds {
		keys = append(keys, k)
	}
	sort.Strings(keys)
	r.Set("interleaving_distinct_outcomes", len(keys))
	r.Set("interleaving_outcomes", outcomeKinds)
	if len(keys) < 3 {
		r.Incomplete("vacuity: interleaving exploration saw fewer than 3 distinct outcome vectors")
	}
}
