package c14

import (
	"context"
	"errors"
	"fmt"
	"io/fs"
	"sort"
	"strings"

	"github.com/bufbuild/buf/private/pkg/storage"
	"github.com/bufbuild/buf/private/pkg/storage/storagemem"
	"github.com/bufbuild/bufverif/internal/enum"
	"github.com/bufbuild/bufverif/internal/evid"
)

// liveViews: union and overlay views are created ONCE over two live members and stay alive while the members
// change: every sequence of puts and deletes on either member (the same path may move between the members, be in
// both, or in none) is applied and the long-lived views are observed after every step. A view that remembers
// anything from an earlier observation (which member served a path, a listing) shows here.
//
// Reference model: two maps. union: Get/Stat of a path in exactly one member = that object; in both = the
// "exists in multiple locations" error; in none = not-exist; Walk reports the duplicate as an error, otherwise
// visits the union of the members once each. overlay: the first member that has the path wins.

type liveOp struct {
	Member  int    `json:"member"`
	Path    string `json:"path"`
	Content string `json:"content"` // "" = delete
	Delete  bool   `json:"delete"`
}

func (o liveOp) String() string {
	if o.Delete {
		return fmt.Sprintf("m%d.Delete(%s)", o.Member+1, o.Path)
	}
	return fmt.Sprintf("m%d.Put(%s,%q)", o.Member+1, o.Path, o.Content)
}

type liveCase struct {
	View string   `json:"view"`
	Ops  []string `json:"ops"`
}

func liveViews(r *evid.Run) {
	ctx := context.Background()
	paths := []string{"a/x", "ab"}
	var alphabet []liveOp
	for m := 0; m < 2; m++ {
		for _, p := range paths {
			alphabet = append(alphabet, liveOp{Member: m, Path: p, Content: "one"}, liveOp{Member: m, Path: p, Content: "other"}, liveOp{Member: m, Path: p, Delete: true})
		}
	}
	depth := 3
	if !r.Quick() {
		depth = 4
	}
	seqs := enum.Sequences(len(alphabet), 1, depth)
	r.Set("live_view_alphabet", len(alphabet))
	r.Set("live_view_depth", depth)
	r.Set("live_view_sequences", len(seqs))
	type item struct{ lo, hi int }
	var items []item
	for lo := 0; lo < len(seqs); lo += 200 {
		items = append(items, item{lo, min(lo+200, len(seqs))})
	}
	r.ParallelFor(len(items), 0, func(i int) {
		for si := items[i].lo; si < items[i].hi; si++ {
			seq := seqs[si]
			members := []storage.ReadWriteBucket{storagemem.NewReadWriteBucket(), storagemem.NewReadWriteBucket()}
			model := []map[string]string{{}, {}}
			union := storage.MultiReadBucket(members[0], members[1])
			overlay := storage.OverlayReadBucket(members[0], members[1])
			var names []string
			r.Eval(1)
			r.TracesValidated.Add(1)
			moved := false
			for _, k := range seq {
				op := alphabet[k]
				names = append(names, op.String())
				if op.Delete {
					err := members[op.Member].Delete(ctx, op.Path)
					if _, ok := model[op.Member][op.Path]; ok {
						if err != nil {
							r.Violate("live-view/member-op-error", fmt.Sprintf("%v: %v", names, err), liveCase{"member", names})
							return
						}
						delete(model[op.Member], op.Path)
					}
				} else {
					if err := storage.PutPath(ctx, members[op.Member], op.Path, []byte(op.Content)); err != nil {
						r.Violate("live-view/member-op-error", fmt.Sprintf("%v: %v", names, err), liveCase{"member", names})
						return
					}
					if _, other := model[1-op.Member][op.Path]; other {
						moved = true
					}
					model[op.Member][op.Path] = op.Content
				}
				for _, v := range []struct {
					name string
					rb   storage.ReadBucket
				}{{"union", union}, {"overlay", overlay}} {
					if d := liveObserve(ctx, v.name, v.rb, model, paths); d != "" {
						kind := strings.SplitN(d, ":", 2)[0]
						r.Violate("live-view/"+v.name+"/"+kind, fmt.Sprintf("long-lived %s over two live members after %v: %s", v.name, names, d), liveCase{v.name, names})
						return
					}
				}
			}
			if moved && len(seq) > 1 {
				r.Distinct("live|" + strings.Join(names, ";"))
			}
			r.SampleEvery(si, 997, func() any { return liveCase{"union+overlay", names} })
		}
	})
}

// liveObserve compares one view with the two-map model; "" = equal, otherwise "<kind>: details".
func liveObserve(ctx context.Context, view string, rb storage.ReadBucket, model []map[string]string, paths []string) string {
	dupAny := false
	var wantList []string
	for _, p := range paths {
		c0, in0 := model[0][p]
		c1, in1 := model[1][p]
		var want string
		wantErr := "" // "", "notexist", "multiple"
		switch {
		case in0 && in1:
			if view == "union" {
				wantErr = "multiple"
				dupAny = true
			} else {
				want = c0
			}
			wantList = append(wantList, p)
		case in0:
			want = c0
			wantList = append(wantList, p)
		case in1:
			want = c1
			wantList = append(wantList, p)
		default:
			wantErr = "notexist"
		}
		data, err := storage.ReadPath(ctx, rb, p)
		_, serr := rb.Stat(ctx, p)
		for which, e := range map[string]error{"Get": err, "Stat": serr} {
			switch wantErr {
			case "multiple":
				if e == nil || !storage.IsExistsMultipleLocations(e) {
					return fmt.Sprintf("hides-duplicate: %s(%q) returned %v although both members hold the path", which, p, e)
				}
			case "notexist":
				if e == nil || !errors.Is(e, fs.ErrNotExist) {
					return fmt.Sprintf("absent-object-served: %s(%q) returned %v although no member holds the path", which, p, e)
				}
			default:
				if e != nil {
					return fmt.Sprintf("object-not-served: %s(%q) failed: %v", which, p, e)
				}
			}
		}
		if wantErr == "" && string(data) != want {
			return fmt.Sprintf("stale-or-wrong-content: Get(%q) = %q, the model says %q (members: m1=%v m2=%v)", p, data, want, model[0], model[1])
		}
	}
	var got []string
	werr := rb.Walk(ctx, "", func(info storage.ObjectInfo) error {
		got = append(got, info.Path())
		return nil
	})
	if dupAny {
		if werr == nil || !storage.IsExistsMultipleLocations(werr) {
			return fmt.Sprintf("hides-duplicate: Walk returned %v although a path is in both members", werr)
		}
		return ""
	}
	if werr != nil {
		return "walk-error: " + werr.Error()
	}
	sort.Strings(got)
	sort.Strings(wantList)
	if strings.Join(got, "\x00") != strings.Join(wantList, "\x00") {
		return fmt.Sprintf("walk-differs: Walk visited %q, the model has %q", got, wantList)
	}
	return ""
}
