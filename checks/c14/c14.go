// Package c14: every bucket implementation and combinator behaves as one path-to-bytes map.
//
// Explicit-state model checking (engine C): breadth-first search over all states of a reference
// model (map from normalized path to content over a small prefix-free universe). Every model
// transition is replayed on the real implementation: a fresh real bucket is driven along the
// shortest model path to the source state, the operation is applied, and the complete observation
// menu (Get/Stat of every spelling of every path, Walk of every prefix) is compared with the model.
// In addition all operation sequences up to a depth are enumerated from the initial state (engine B)
// to catch hidden implementation state the model does not have.
package c14

import (
	"bytes"
	"context"
	"errors"
	"fmt"
	"os"
	"path/filepath"
	"sort"
	"strings"
	"sync"
	"sync/atomic"
	"time"

	"github.com/bufbuild/buf/private/pkg/storage"
	"github.com/bufbuild/buf/private/pkg/storage/storagearchive"
	"github.com/bufbuild/buf/private/pkg/storage/storagemem"
	"github.com/bufbuild/buf/private/pkg/storage/storageos"
	"github.com/bufbuild/bufverif/internal/evid"
)

func init() {
	evid.Register(&evid.Check{ID: "C14", Level: "model_checking", Run: run, QuickBudget: 300 * time.Second, ThoroughBudget: 25 * time.Minute})
}

// Universe is prefix-free as a whole and forces the path-wise vs string-wise collision a / ab.
var Universe = []string{"a/x", "a/y", "ab", "b/c/d"}

var contents = []string{"", "1", bigContent(70 * 1024)}

var absent = []string{"a", "a/z", "zz", "b/c"}

var prefixes = []string{"", ".", "a", "a/", "a/x", "ab", "b", "b/c", "c", "./a/../a"}

func spellings(p string) []string {
	first, rest, _ := strings.Cut(p, "/")
	s := []string{p, "./" + p, "z/../" + p}
	if rest != "" {
		s = append(s, first+"//"+rest, first+"/./"+rest)
	} else {
		s = append(s, p+"/.", "./"+p+"/")
	}
	return s
}

// State is the model state: content index+1 per universe path (0 = absent).
type State [4]int8

func (s State) String() string {
	var parts []string
	for i, c := range s {
		if c > 0 {
			parts = append(parts, fmt.Sprintf("%s=%d", Universe[i], c-1))
		}
	}
	return "{" + strings.Join(parts, ",") + "}"
}

// Op is one operation of the alphabet.
type Op struct {
	Kind    string `json:"kind"` // put | putatomic | delete | deleteall
	Path    string `json:"path"` // as spelled
	Target  int    `json:"-"`    // universe index for put/delete, -1 otherwise
	Content int    `json:"content,omitempty"`
}

func (o Op) String() string {
	if strings.HasPrefix(o.Kind, "put") {
		return fmt.Sprintf("%s(%q,c%d)", o.Kind, o.Path, o.Content)
	}
	return fmt.Sprintf("%s(%q)", o.Kind, o.Path)
}

func pathUnder(prefix, p string) bool {
	// path-wise containment on normalized relative paths ("." = root)
	if prefix == "." || prefix == "" {
		return true
	}
	return p == prefix || strings.HasPrefix(p, prefix+"/")
}

func normalize(p string) string {
	var stack []string
	for _, c := range strings.Split(p, "/") {
		switch c {
		case "", ".":
		case "..":
			if len(stack) > 0 {
				stack = stack[:len(stack)-1]
			}
		default:
			stack = append(stack, c)
		}
	}
	if len(stack) == 0 {
		return "."
	}
	return strings.Join(stack, "/")
}

// Apply is the model transition. wantNotExist says the operation must fail with a not-exist error.
func Apply(s State, o Op) (next State, wantNotExist bool) {
	next = s
	switch o.Kind {
	case "put", "putatomic":
		next[o.Target] = int8(o.Content + 1)
	case "delete":
		if s[o.Target] == 0 {
			return s, true
		}
		next[o.Target] = 0
	case "deleteall":
		n := normalize(o.Path)
		for i, p := range Universe {
			if pathUnder(n, p) {
				next[i] = 0
			}
		}
	}
	return next, false
}

// Alphabet returns the operations (simplest first). full adds alternate spellings for writes.
func Alphabet(full bool) []Op {
	var ops []Op
	for i, p := range Universe {
		for c := range contents {
			ops = append(ops, Op{Kind: "put", Path: p, Target: i, Content: c})
		}
	}
	for i, p := range Universe {
		ops = append(ops, Op{Kind: "delete", Path: p, Target: i})
	}
	for _, q := range prefixes {
		ops = append(ops, Op{Kind: "deleteall", Path: q, Target: -1})
	}
	for i, p := range Universe {
		for c := range contents {
			ops = append(ops, Op{Kind: "putatomic", Path: p, Target: i, Content: c})
		}
	}
	if full {
		for i, p := range Universe {
			for _, sp := range spellings(p)[1:] {
				ops = append(ops, Op{Kind: "put", Path: sp, Target: i, Content: 1})
				ops = append(ops, Op{Kind: "delete", Path: sp, Target: i})
			}
		}
	}
	return ops
}

// Impl is a writable implementation under test.
type Impl struct {
	Name string
	New  func(scratch string) (storage.ReadBucket, storage.WriteBucket, func())
}

var dirSeq atomic.Int64

func newDir(scratch string) string {
	d := filepath.Join(scratch, fmt.Sprintf("d%d", dirSeq.Add(1)))
	_ = os.MkdirAll(d, 0o755)
	return d
}

func osBucket(scratch string, symlinks bool) (storage.ReadWriteBucket, func()) {
	d := newDir(scratch)
	var po []storageos.ProviderOption
	var bo []storageos.ReadWriteBucketOption
	if symlinks {
		po = append(po, storageos.ProviderWithSymlinks())
		bo = append(bo, storageos.ReadWriteBucketWithSymlinksIfSupported())
	}
	b, err := storageos.NewProvider(po...).NewReadWriteBucket(d, bo...)
	if err != nil {
		panic(err)
	}
	return b, func() { os.RemoveAll(d) }
}

// Impls lists the writable implementations and combinators.
func Impls() []Impl {
	nop := func() {}
	rw := func(b storage.ReadWriteBucket) (storage.ReadBucket, storage.WriteBucket, func()) { return b, b, nop }
	return []Impl{
		{"mem", func(string) (storage.ReadBucket, storage.WriteBucket, func()) {
			return rw(storagemem.NewReadWriteBucket())
		}},
		{"os", func(s string) (storage.ReadBucket, storage.WriteBucket, func()) {
			b, c := osBucket(s, false)
			return b, b, c
		}},
		{"os+symlinks", func(s string) (storage.ReadBucket, storage.WriteBucket, func()) {
			b, c := osBucket(s, true)
			return b, b, c
		}},
		{"map(mem,p)", func(string) (storage.ReadBucket, storage.WriteBucket, func()) {
			base := storagemem.NewReadWriteBucket()
			// decoys next to the prefix that a string-wise prefix test would catch
			_ = storage.PutPath(context.Background(), base, "pq/a/x", []byte("decoy"))
			_ = storage.PutPath(context.Background(), base, "a/x", []byte("decoy"))
			return rw(storage.MapReadWriteBucket(base, storage.MapOnPrefix("p")))
		}},
		{"map(map(mem,p),q/r)", func(string) (storage.ReadBucket, storage.WriteBucket, func()) {
			base := storagemem.NewReadWriteBucket()
			_ = storage.PutPath(context.Background(), base, "p/q/rr/ab", []byte("decoy"))
			return rw(storage.MapReadWriteBucket(storage.MapReadWriteBucket(base, storage.MapOnPrefix("p")), storage.MapOnPrefix("q/r")))
		}},
		{"map(mem,chain(p,q))", func(string) (storage.ReadBucket, storage.WriteBucket, func()) {
			return rw(storage.MapReadWriteBucket(storagemem.NewReadWriteBucket(), storage.MapChain(storage.MapOnPrefix("p"), storage.MapOnPrefix("q"))))
		}},
		{"map(os,p)", func(s string) (storage.ReadBucket, storage.WriteBucket, func()) {
			b, c := osBucket(s, false)
			_ = storage.PutPath(context.Background(), b, "pq/ab", []byte("decoy"))
			m := storage.MapReadWriteBucket(b, storage.MapOnPrefix("p"))
			return m, m, c
		}},
		{"mapRead(mem,p)+limit(mapWrite(mem,p))", func(string) (storage.ReadBucket, storage.WriteBucket, func()) {
			base := storagemem.NewReadWriteBucket()
			return storage.MapReadBucket(base, storage.MapOnPrefix("p")), storage.LimitWriteBucket(storage.MapWriteBucket(base, storage.MapOnPrefix("p")), 1<<30), nop
		}},
		{"strip(mem)+mem", func(string) (storage.ReadBucket, storage.WriteBucket, func()) {
			base := storagemem.NewReadWriteBucket()
			return storage.StripReadBucketExternalPaths(base), base, nop
		}},
		{"filter(mem,true)+mem", func(string) (storage.ReadBucket, storage.WriteBucket, func()) {
			base := storagemem.NewReadWriteBucket()
			return storage.FilterReadBucket(base, storage.MatchOr(storage.MatchPathContained("."), storage.MatchPathEqual("ab"))), base, nop
		}},
		{"multi(map(mem,m1),map(mem,m2)) split a|rest", func(string) (storage.ReadBucket, storage.WriteBucket, func()) {
			// writes are routed to two members by path; reads go through the union
			m1, m2 := storagemem.NewReadWriteBucket(), storagemem.NewReadWriteBucket()
			return storage.MultiReadBucket(m1, m2), &splitWriter{m1: m1, m2: m2}, nop
		}},
		{"overlay(m1,m2) split a|rest", func(string) (storage.ReadBucket, storage.WriteBucket, func()) {
			m1, m2 := storagemem.NewReadWriteBucket(), storagemem.NewReadWriteBucket()
			return storage.OverlayReadBucket(m1, m2), &splitWriter{m1: m1, m2: m2}, nop
		}},
	}
}

// splitWriter routes paths under "a" to m1 and everything else to m2 (harness glue so that union
// and overlay read buckets can be driven through the same operation alphabet).
type splitWriter struct{ m1, m2 storage.ReadWriteBucket }

func (w *splitWriter) pick(path string) storage.ReadWriteBucket {
	if pathUnder("a", normalize(path)) {
		return w.m1
	}
	return w.m2
}
func (w *splitWriter) Put(ctx context.Context, path string, o ...storage.PutOption) (storage.WriteObjectCloser, error) {
	return w.pick(path).Put(ctx, path, o...)
}
func (w *splitWriter) Delete(ctx context.Context, path string) error {
	return w.pick(path).Delete(ctx, path)
}
func (w *splitWriter) DeleteAll(ctx context.Context, prefix string) error {
	return errors.Join(w.m1.DeleteAll(ctx, prefix), w.m2.DeleteAll(ctx, prefix))
}
func (w *splitWriter) SetExternalAndLocalPathsSupported() bool { return false }

func applyReal(ctx context.Context, wb storage.WriteBucket, o Op) error {
	switch o.Kind {
	case "put":
		return storage.PutPath(ctx, wb, o.Path, []byte(contents[o.Content]))
	case "putatomic":
		return storage.PutPath(ctx, wb, o.Path, []byte(contents[o.Content]), storage.PutWithAtomic())
	case "delete":
		return wb.Delete(ctx, o.Path)
	case "deleteall":
		return wb.DeleteAll(ctx, o.Path)
	}
	return nil
}

// observe compares the full observation menu with the model; returns "" or the first difference.
func observe(ctx context.Context, rb storage.ReadBucket, s State, allSpellings bool) (string, string) {
	for i, p := range Universe {
		sps := spellings(p)
		if !allSpellings {
			sps = sps[:2]
		}
		for _, sp := range sps {
			data, err := storage.ReadPath(ctx, rb, sp)
			info, serr := rb.Stat(ctx, sp)
			if s[i] == 0 {
				if err == nil {
					return "get-absent", fmt.Sprintf("Get(%q) returned %d bytes but the model has no object %q", sp, len(data), p)
				}
				if !errors.Is(err, os.ErrNotExist) {
					return "get-absent-class", fmt.Sprintf("Get(%q) of an absent object failed with a non-not-exist error: %v", sp, err)
				}
				if serr == nil || !errors.Is(serr, os.ErrNotExist) {
					return "stat-absent", fmt.Sprintf("Stat(%q) of an absent object: %v", sp, serr)
				}
				continue
			}
			want := contents[s[i]-1]
			if err != nil {
				return "get-present", fmt.Sprintf("Get(%q) failed (%v) but the model has %d bytes at %q", sp, err, len(want), p)
			}
			if string(data) != want {
				return "get-content", fmt.Sprintf("Get(%q) returned %d bytes, model has %d bytes", sp, len(data), len(want))
			}
			if serr != nil {
				return "stat-present", fmt.Sprintf("Stat(%q) failed (%v) for a present object", sp, serr)
			}
			if normalize(info.Path()) != p {
				// (mapped buckets echo the spelling they were given; only the denoted object is compared)
				return "stat-path", fmt.Sprintf("Stat(%q).Path() = %q, which does not denote %q", sp, info.Path(), p)
			}
		}
	}
	for _, p := range absent {
		if _, err := storage.ReadPath(ctx, rb, p); err == nil || !errors.Is(err, os.ErrNotExist) {
			return "get-nonobject", fmt.Sprintf("Get(%q) (never an object) gave %v, want a not-exist error", p, err)
		}
		if _, err := rb.Stat(ctx, p); err == nil || !errors.Is(err, os.ErrNotExist) {
			return "stat-nonobject", fmt.Sprintf("Stat(%q) (never an object) gave %v, want a not-exist error", p, err)
		}
	}
	for _, q := range prefixes {
		var got []string
		err := rb.Walk(ctx, q, func(info storage.ObjectInfo) error {
			got = append(got, info.Path())
			return nil
		})
		if err != nil {
			return "walk-error", fmt.Sprintf("Walk(%q) failed: %v", q, err)
		}
		var want []string
		n := normalize(q)
		for i, p := range Universe {
			if s[i] > 0 && pathUnder(n, p) {
				want = append(want, p)
			}
		}
		sort.Strings(got)
		sort.Strings(want)
		if strings.Join(got, "|") != strings.Join(want, "|") {
			return "walk-set", fmt.Sprintf("Walk(%q) visited %v, model says %v", q, got, want)
		}
	}
	return "", ""
}

type trace struct {
	Impl  string   `json:"impl"`
	Ops   []string `json:"ops"`
	State string   `json:"model_state_after"`
}

// replay drives a fresh instance along ops and checks op results and (optionally) observations after each step.
func replay(ctx context.Context, impl Impl, scratch string, ops []Op, observeAll bool, allSpellings bool) (sig, what string, final State) {
	rb, wb, cleanup := impl.New(scratch)
	defer cleanup()
	defer func() {
		if rec := recover(); rec != nil {
			sig, what = "panic", fmt.Sprintf("panic: %v", rec)
		}
	}()
	var s State
	for i, o := range ops {
		next, wantNotExist := Apply(s, o)
		err := applyReal(ctx, wb, o)
		if wantNotExist {
			if err == nil || !errors.Is(err, os.ErrNotExist) {
				return "delete-absent", fmt.Sprintf("step %d %s on an absent object returned %v, want a not-exist error", i, o, err), s
			}
		} else if err != nil {
			return "op-error/" + o.Kind, fmt.Sprintf("step %d %s failed: %v (model state before: %s)", i, o, err, s), s
		}
		s = next
		if observeAll || i == len(ops)-1 {
			if k, d := observe(ctx, rb, s, allSpellings); k != "" {
				return "observe/" + k, fmt.Sprintf("after %v (model %s): %s", opStrings(ops[:i+1]), s, d), s
			}
		}
	}
	if len(ops) == 0 {
		if k, d := observe(ctx, rb, s, allSpellings); k != "" {
			return "observe/" + k, "initial state: " + d, s
		}
	}
	return "", "", s
}

func opStrings(ops []Op) []string {
	out := make([]string, len(ops))
	for i, o := range ops {
		out[i] = o.String()
	}
	return out
}

func run(r *evid.Run) {
	ctx := context.Background()
	scratch, err := os.MkdirTemp("", "verif-c14-")
	if err != nil {
		r.Incomplete(err.Error())
		return
	}
	defer os.RemoveAll(scratch)
	r.Rule("model = map over the prefix-free universe {a/x, a/y, ab, b/c/d} with contents {empty, 1 byte, 70 KiB}; BFS over all reachable model states with every operation of the alphabet (put/atomic put of every path x content, delete of every path, delete-all of 10 prefixes incl. '', '.', a file, 'a' vs 'ab', unnormalized spellings); each transition replayed on a fresh real bucket along the shortest model path, then the full observation menu (Get+Stat of 5 spellings of every path and 4 non-object paths, Walk of 10 prefixes) compared with the model")
	r.Assume("universe is prefix-free as a whole (the disk bucket documents that deletes may leave orphan directories, so a path that is a strict prefix of another is outside the quantifier)")
	// cheap, high-yield parts first: every model state through every derived view, then short sequences
	derived(r, nil, scratch)
	pathVariety(r, scratch)
	liveViews(r)
	sequences(r, scratch)
	ops := Alphabet(!r.Quick())
	if r.Quick() {
		// quick: the BFS uses the two small contents (81 states); the 70 KiB content is exercised by the
		// derived views (all 256 states) and the sequence enumeration
		var small []Op
		for _, o := range ops {
			if strings.HasPrefix(o.Kind, "put") && o.Content == 2 {
				continue
			}
			small = append(small, o)
		}
		ops = small
	}
	// BFS over the model
	type node struct {
		state State
		path  []Op
	}
	seen := map[State]int{}
	var order []node
	queue := []node{{}}
	seen[State{}] = 0
	type transition struct {
		from int
		op   Op
	}
	var transitions []transition
	for len(queue) > 0 {
		n := queue[0]
		queue = queue[1:]
		idx := len(order)
		order = append(order, n)
		for _, o := range ops {
			next, _ := Apply(n.state, o)
			transitions = append(transitions, transition{idx, o})
			if _, ok := seen[next]; !ok {
				seen[next] = -1
				queue = append(queue, node{next, append(append([]Op(nil), n.path...), o)})
			}
		}
	}
	r.States.Store(int64(len(order)))
	maxDepth := 0
	for _, n := range order {
		if len(n.path) > maxDepth {
			maxDepth = len(n.path)
		}
	}
	r.Set("model_states", len(order))
	r.Set("max_depth", maxDepth)
	impls := Impls()
	var names []string
	for _, im := range impls {
		names = append(names, im.Name)
	}
	r.Set("implementations", names)
	r.Set("alphabet_size", len(ops))

	type work struct {
		impl Impl
		t    transition
	}
	var items []work
	for _, im := range impls {
		for _, t := range transitions {
			items = append(items, work{im, t})
		}
	}
	var sampleMu sync.Mutex
	sampled := 0
	r.ParallelFor(len(items), 0, func(i int) {
		w := items[i]
		from := order[w.t.from]
		seq := append(append([]Op(nil), from.path...), w.t.op)
		sig, what, final := replay(ctx, w.impl, scratch, seq, false, true)
		r.Transitions.Add(1)
		r.TracesValidated.Add(1)
		r.Eval(1)
		r.Distinct(w.impl.Name + "|" + from.state.String() + "|" + w.t.op.String())
		if (i+r.Seed)%9973 == 0 {
			sampleMu.Lock()
			if sampled < 5 {
				sampled++
				r.Sample(trace{w.impl.Name, opStrings(seq), final.String()})
			}
			sampleMu.Unlock()
		}
		if sig != "" {
			r.Violate(sig+"/"+w.impl.Name+"/"+w.t.op.Kind, w.impl.Name+": "+what, trace{w.impl.Name, opStrings(seq), final.String()})
		}
	})

}

// sequences is engine B: all operation sequences up to a depth from the initial state, observing after every step.
func sequences(r *evid.Run, scratch string) {
	ctx := context.Background()
	impls := Impls()
	// engine B: all sequences up to depth d from the initial state, observing after every step
	depth := 2
	small := smallAlphabet()
	if !r.Quick() {
		depth = 3
	}
	var seqs [][]Op
	var gen func(cur []Op, left int)
	gen = func(cur []Op, left int) {
		if len(cur) > 0 {
			seqs = append(seqs, append([]Op(nil), cur...))
		}
		if left == 0 {
			return
		}
		for _, o := range small {
			gen(append(cur, o), left-1)
		}
	}
	gen(nil, depth)
	// only maximal sequences need running because every step is observed
	var maximal [][]Op
	for _, s := range seqs {
		if len(s) == depth {
			maximal = append(maximal, s)
		}
	}
	r.Set("sequence_depth", depth)
	r.Set("sequences_per_impl", len(maximal))
	type swork struct {
		impl Impl
		seq  []Op
	}
	var sitems []swork
	for _, im := range impls {
		for _, s := range maximal {
			sitems = append(sitems, swork{im, s})
		}
	}
	r.ParallelFor(len(sitems), 0, func(i int) {
		w := sitems[i]
		sig, what, final := replay(ctx, w.impl, scratch, w.seq, true, false)
		r.Eval(1)
		r.TracesValidated.Add(1)
		if sig != "" {
			r.Violate("seq/"+sig+"/"+w.impl.Name, w.impl.Name+": "+what, trace{w.impl.Name, opStrings(w.seq), final.String()})
		}
	})

}

// smallAlphabet is the reduced alphabet for plain sequence enumeration (one content per put).
func smallAlphabet() []Op {
	var ops []Op
	for i, p := range Universe {
		ops = append(ops, Op{Kind: "put", Path: p, Target: i, Content: 1})
		ops = append(ops, Op{Kind: "delete", Path: p, Target: i})
	}
	ops = append(ops, Op{Kind: "putatomic", Path: "ab", Target: 2, Content: 0})
	for _, q := range []string{"", "a", "ab", "b/c", "a/x"} {
		ops = append(ops, Op{Kind: "deleteall", Path: q, Target: -1})
	}
	return ops
}

// ---- derived read-only views: for every model state, materialise it and compare views ----

func materialise(ctx context.Context, wb storage.WriteBucket, s State) {
	for i, p := range Universe {
		if s[i] > 0 {
			if err := storage.PutPath(ctx, wb, p, []byte(contents[s[i]-1])); err != nil {
				panic(err)
			}
		}
	}
}

func derived(r *evid.Run, nodes any, scratch string) {
	ctx := context.Background()
	// all 4^4 model states directly
	var states []State
	for a := int8(0); a < 4; a++ {
		for b := int8(0); b < 4; b++ {
			for c := int8(0); c < 4; c++ {
				for d := int8(0); d < 4; d++ {
					states = append(states, State{a, b, c, d})
				}
			}
		}
	}
	type view struct {
		name string
		// build returns the read bucket for a materialised state and the model state it must show
		build func(s State) (storage.ReadBucket, State, func(), error)
	}
	memWith := func(s State) storage.ReadWriteBucket {
		b := storagemem.NewReadWriteBucket()
		materialise(ctx, b, s)
		return b
	}
	nop := func() {}
	views := []view{
		{"tar round trip", func(s State) (storage.ReadBucket, State, func(), error) {
			var buf bytes.Buffer
			if err := storagearchive.Tar(ctx, memWith(s), &buf); err != nil {
				return nil, s, nop, err
			}
			out := storagemem.NewReadWriteBucket()
			err := storagearchive.Untar(ctx, &buf, out)
			return out, s, nop, err
		}},
		{"zip round trip", func(s State) (storage.ReadBucket, State, func(), error) {
			var buf bytes.Buffer
			if err := storagearchive.Zip(ctx, memWith(s), &buf, true); err != nil {
				return nil, s, nop, err
			}
			out := storagemem.NewReadWriteBucket()
			err := storagearchive.Unzip(ctx, bytes.NewReader(buf.Bytes()), int64(buf.Len()), out)
			return out, s, nop, err
		}},
		{"tar -> strip 1 of prefixed", func(s State) (storage.ReadBucket, State, func(), error) {
			var buf bytes.Buffer
			pre := storagemem.NewReadWriteBucket()
			materialise(ctx, storage.MapWriteBucket(pre, storage.MapOnPrefix("top")), s)
			if err := storagearchive.Tar(ctx, pre, &buf); err != nil {
				return nil, s, nop, err
			}
			out := storagemem.NewReadWriteBucket()
			err := storagearchive.Untar(ctx, &buf, out, storagearchive.UntarWithStripComponentCount(1))
			return out, s, nop, err
		}},
		{"copy mem->os", func(s State) (storage.ReadBucket, State, func(), error) {
			b, cleanup := osBucket(scratch, false)
			_, err := storage.Copy(ctx, memWith(s), b)
			return b, s, cleanup, err
		}},
		{"copy os->mem (CopyReadBucket)", func(s State) (storage.ReadBucket, State, func(), error) {
			b, cleanup := osBucket(scratch, false)
			materialise(ctx, b, s)
			out, err := storagemem.CopyReadBucket(ctx, b)
			return out, s, cleanup, err
		}},
		{"filter contained a", func(s State) (storage.ReadBucket, State, func(), error) {
			want := s
			want[2], want[3] = 0, 0
			return storage.FilterReadBucket(memWith(s), storage.MatchPathContained("a")), want, nop, nil
		}},
		{"filter not(contained a)", func(s State) (storage.ReadBucket, State, func(), error) {
			want := s
			want[0], want[1] = 0, 0
			return storage.FilterReadBucket(memWith(s), storage.MatchNot(storage.MatchPathContained("a"))), want, nop, nil
		}},
		{"filter equal ab", func(s State) (storage.ReadBucket, State, func(), error) {
			want := State{0, 0, s[2], 0}
			return storage.FilterReadBucket(memWith(s), storage.MatchPathEqual("ab")), want, nop, nil
		}},
		{"filter equalOrContained b/c", func(s State) (storage.ReadBucket, State, func(), error) {
			want := State{0, 0, 0, s[3]}
			return storage.FilterReadBucket(memWith(s), storage.MatchPathEqualOrContained("b/c")), want, nop, nil
		}},
	}
	var vnames []string
	for _, v := range views {
		vnames = append(vnames, v.name)
	}
	r.Set("derived_views", vnames)
	type item struct {
		v view
		s State
	}
	var items []item
	for _, v := range views {
		for _, s := range states {
			items = append(items, item{v, s})
		}
	}
	r.ParallelFor(len(items), 0, func(i int) {
		it := items[i]
		rb, want, cleanup, err := it.v.build(it.s)
		defer cleanup()
		r.Eval(1)
		r.TracesValidated.Add(1)
		if err != nil {
			r.Violate("view-build/"+it.v.name, fmt.Sprintf("%s of state %s failed: %v", it.v.name, it.s, err), trace{it.v.name, nil, it.s.String()})
			return
		}
		if k, d := observe(ctx, rb, want, true); k != "" {
			r.Violate("view/"+k+"/"+it.v.name, fmt.Sprintf("%s of state %s: %s", it.v.name, it.s, d), trace{it.v.name, nil, it.s.String()})
		}
	})

	// union reports a path present in two members, overlay serves the first
	for _, s := range states {
		for dup := range Universe {
			if s[dup] == 0 {
				continue
			}
			m1, m2 := storagemem.NewReadWriteBucket(), storagemem.NewReadWriteBucket()
			materialise(ctx, m1, s)
			other := contents[(int(s[dup]))%3] // a different content
			_ = storage.PutPath(ctx, m2, Universe[dup], []byte(other))
			r.Eval(1)
			multi := storage.MultiReadBucket(m1, m2)
			_, err := storage.ReadPath(ctx, multi, Universe[dup])
			if err == nil || !storage.IsExistsMultipleLocations(err) {
				r.Violate("multi/hides-duplicate/get", fmt.Sprintf("union Get(%q) with the path in two members returned %v instead of reporting it", Universe[dup], err), trace{"multi", nil, s.String()})
			}
			werr := multi.Walk(ctx, "", func(storage.ObjectInfo) error { return nil })
			if werr == nil || !storage.IsExistsMultipleLocations(werr) {
				r.Violate("multi/hides-duplicate/walk", fmt.Sprintf("union Walk with %q in two members returned %v instead of reporting it", Universe[dup], werr), trace{"multi", nil, s.String()})
			}
			overlay := storage.OverlayReadBucket(m1, m2)
			if k, d := observe(ctx, overlay, s, false); k != "" {
				r.Violate("overlay/"+k, fmt.Sprintf("overlay(first=%s, second has other %q): %s", s, Universe[dup], d), trace{"overlay", nil, s.String()})
			}
		}
	}
}

// bigContent returns n bytes that are position-encoded (no period), so that a chunk written twice,
// dropped or reordered changes the content.
func bigContent(n int) string {
	var b strings.Builder
	for i := 0; b.Len() < n; i++ {
		fmt.Fprintf(&b, "%07d|", i)
	}
	return b.String()[:n]
}

// pathVariety: the map behaviour must not depend on what a valid relative path looks like. Every subset of
// size <= 2 of a list of unusual but valid names (spaces, tabs, non-ASCII, long components, long paths, dots,
// case) x contents is put into every writable implementation and taken through every transfer route
// (tar, zip, copy to the other kind and back); get/stat/walk must return exactly what was put.
func pathVariety(r *evid.Run, scratch string) {
	ctx := context.Background()
	long := strings.Repeat("n", 120)
	names := []string{
		"ü/ö b.proto", "a b/c d.txt", "tab\tname.proto", long + "/x.proto", long + "/" + long + "/" + long + "/deep.proto",
		"日本/語.proto", "dot.dir/.hidden", "UPPER/lower", "upper/LOWER", "a..b/c...d", "-dash/--x", "percent%41/x",
		// names that look like somebody's temporary or hidden files are ordinary objects
		".tmp", ".tmpl", "t/.tmpfile12345", ".tmpd/x", "t/x.tmp", "t/x~",
		// siblings of the directory "s" whose next byte sorts below, at and above '/' (prefix walks are path-wise)
		"s/x", "s.txt", "s-b/x", "s b/y", "s0/z", "s/x.d/e",
	}
	cont := []string{"", "1", bigContent(70 * 1024)}
	type set map[string]string
	var sets []set
	for i, n := range names {
		sets = append(sets, set{n: cont[i%3]})
		for j := i + 1; j < len(names); j++ {
			sets = append(sets, set{n: cont[(i+j)%3], names[j]: cont[(i+j+1)%3]})
		}
	}
	routes := []string{"direct-mem", "direct-os", "tar", "zip", "mem->os", "os->mem", "tar-from-os", "zip-from-os", "map(mem,p)", "map(os,p)",
		"copypath(mem->os)", "copypath(os->mem)", "copypath(mem->mem)", "copypath(os->os)", "copypath(same mem)", "copypath(same os)"}
	type item struct {
		s     set
		route string
	}
	var items []item
	for _, s := range sets {
		for _, rt := range routes {
			items = append(items, item{s, rt})
		}
	}
	r.Set("path_variety_names", len(names))
	r.Set("path_variety_cases", len(items))
	r.ParallelFor(len(items), 0, func(i int) {
		it := items[i]
		r.Eval(1)
		r.TracesValidated.Add(1)
		var keys []string
		for k := range it.s {
			keys = append(keys, k)
		}
		sort.Strings(keys)
		c := trace{"path-variety/" + it.route, keys, ""}
		fail := func(kind, what string) {
			r.Violate("path-variety/"+kind+"/"+it.route, fmt.Sprintf("%s with paths %q: %s", it.route, keys, what), c)
		}
		put := func(wb storage.WriteBucket) bool {
			for _, k := range keys {
				if err := storage.PutPath(ctx, wb, k, []byte(it.s[k])); err != nil {
					fail("put-error", fmt.Sprintf("put %q failed: %v", k, err))
					return false
				}
			}
			return true
		}
		var result storage.ReadBucket
		var cleanups []func()
		defer func() {
			for _, f := range cleanups {
				f()
			}
		}()
		newOS := func() storage.ReadWriteBucket {
			b, c := osBucket(scratch, false)
			cleanups = append(cleanups, c)
			return b
		}
		var err error
		switch it.route {
		case "direct-mem":
			b := storagemem.NewReadWriteBucket()
			if !put(b) {
				return
			}
			result = b
		case "direct-os":
			b := newOS()
			if !put(b) {
				return
			}
			result = b
		case "map(mem,p)", "map(os,p)":
			var base storage.ReadWriteBucket = storagemem.NewReadWriteBucket()
			if it.route == "map(os,p)" {
				base = newOS()
			}
			m := storage.MapReadWriteBucket(base, storage.MapOnPrefix("p/q"))
			if !put(m) {
				return
			}
			result = m
		case "tar", "zip", "tar-from-os", "zip-from-os":
			var src storage.ReadWriteBucket = storagemem.NewReadWriteBucket()
			if strings.HasSuffix(it.route, "-from-os") {
				src = newOS()
			}
			if !put(src) {
				return
			}
			var buf bytes.Buffer
			out := storagemem.NewReadWriteBucket()
			if strings.HasPrefix(it.route, "tar") {
				if err = storagearchive.Tar(ctx, src, &buf); err == nil {
					err = storagearchive.Untar(ctx, &buf, out)
				}
			} else {
				if err = storagearchive.Zip(ctx, src, &buf, true); err == nil {
					err = storagearchive.Unzip(ctx, bytes.NewReader(buf.Bytes()), int64(buf.Len()), out)
				}
			}
			if err != nil {
				fail("round-trip-error", err.Error())
				return
			}
			result = out
		case "copypath(mem->os)", "copypath(os->mem)", "copypath(mem->mem)", "copypath(os->os)", "copypath(same mem)", "copypath(same os)":
			// CopyPath of every object to a DIFFERENT name: the destination gets exactly the new names, the
			// source keeps exactly the old ones
			mk := func(kind string) storage.ReadWriteBucket {
				if kind == "os" {
					return newOS()
				}
				return storagemem.NewReadWriteBucket()
			}
			var src, dst storage.ReadWriteBucket
			switch it.route {
			case "copypath(mem->os)":
				src, dst = mk("mem"), mk("os")
			case "copypath(os->mem)":
				src, dst = mk("os"), mk("mem")
			case "copypath(mem->mem)":
				src, dst = mk("mem"), mk("mem")
			case "copypath(os->os)":
				src, dst = mk("os"), mk("os")
			case "copypath(same mem)":
				src = mk("mem")
				dst = src
			default:
				src = mk("os")
				dst = src
			}
			if !put(src) {
				return
			}
			want := map[string]string{}
			for i, k := range keys {
				to := "copied/" + k
				if i%2 == 1 {
					to = k + ".copy"
				}
				var opts []storage.CopyOption
				if i%2 == 0 {
					opts = append(opts, storage.CopyWithAtomic())
				}
				if err := storage.CopyPath(ctx, src, k, dst, to, opts...); err != nil {
					fail("copypath-error", fmt.Sprintf("CopyPath(%q -> %q): %v", k, to, err))
					return
				}
				want[to] = it.s[k]
				if src == dst {
					want[k] = it.s[k]
				}
			}
			gotDst, err := wrapSnapshot(ctx, dst)
			if err != nil {
				fail("walk-error", err.Error())
				return
			}
			if d := diffMaps(gotDst, want); d != "" {
				fail("copypath-destination", d)
				return
			}
			gotSrc, err := wrapSnapshot(ctx, src)
			if err != nil {
				fail("walk-error", err.Error())
				return
			}
			if src != dst {
				if d := diffMaps(gotSrc, map[string]string(it.s)); d != "" {
					fail("copypath-source-changed", d)
				}
			}
			return
		case "mem->os":
			src := storagemem.NewReadWriteBucket()
			if !put(src) {
				return
			}
			dst := newOS()
			if _, err = storage.Copy(ctx, src, dst); err != nil {
				fail("copy-error", err.Error())
				return
			}
			result = dst
		case "os->mem":
			src := newOS()
			if !put(src) {
				return
			}
			if result, err = storagemem.CopyReadBucket(ctx, src); err != nil {
				fail("copy-error", err.Error())
				return
			}
		}
		got, err := wrapSnapshot(ctx, result)
		if err != nil {
			fail("walk-error", err.Error())
			return
		}
		for _, k := range keys {
			g, ok := got[k]
			if !ok {
				fail("lost", fmt.Sprintf("object %q is missing (bucket lists %d objects)", k, len(got)))
				return
			}
			if g != it.s[k] {
				fail("content", fmt.Sprintf("object %q has %d bytes, %d were put", k, len(g), len(it.s[k])))
				return
			}
			if _, err := result.Stat(ctx, k); err != nil {
				fail("stat", fmt.Sprintf("stat %q: %v", k, err))
				return
			}
		}
		if len(got) != len(keys) {
			fail("extra", fmt.Sprintf("bucket lists %d objects, %d were put", len(got), len(keys)))
		}
		// walks of every directory prefix of every object (and of the object itself): exactly the objects that
		// are path-wise below the prefix, whatever other names sort between them
		prefixSet := map[string]bool{}
		for _, k := range keys {
			parts := strings.Split(k, "/")
			for n := 1; n <= len(parts); n++ {
				prefixSet[strings.Join(parts[:n], "/")] = true
			}
		}
		for prefix := range prefixSet {
			var wantUnder, gotUnder []string
			for _, k := range keys {
				if k == prefix || strings.HasPrefix(k, prefix+"/") {
					wantUnder = append(wantUnder, k)
				}
			}
			if err := result.Walk(ctx, prefix, func(info storage.ObjectInfo) error {
				gotUnder = append(gotUnder, info.Path())
				return nil
			}); err != nil {
				fail("prefix-walk-error", fmt.Sprintf("Walk(%q): %v", prefix, err))
				return
			}
			sort.Strings(wantUnder)
			sort.Strings(gotUnder)
			if strings.Join(wantUnder, "\x00") != strings.Join(gotUnder, "\x00") {
				fail("prefix-walk", fmt.Sprintf("Walk(%q) visited %q, the objects below that prefix are %q", prefix, gotUnder, wantUnder))
				return
			}
		}
	})
}

func diffMaps(got, want map[string]string) string {
	for k, v := range want {
		g, ok := got[k]
		if !ok {
			return fmt.Sprintf("object %q is missing", k)
		}
		if g != v {
			return fmt.Sprintf("object %q has %d bytes, expected %d", k, len(g), len(v))
		}
	}
	for k := range got {
		if _, ok := want[k]; !ok {
			return fmt.Sprintf("unexpected object %q", k)
		}
	}
	return ""
}

func wrapSnapshot(ctx context.Context, b storage.ReadBucket) (map[string]string, error) {
	out := map[string]string{}
	err := b.Walk(ctx, "", func(info storage.ObjectInfo) error {
		data, err := storage.ReadPath(ctx, b, info.Path())
		if err != nil {
			return err
		}
		out[info.Path()] = string(data)
		return nil
	})
	return out, err
}
