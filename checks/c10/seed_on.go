//go:build mapseed

package c10

import "runtime"

// setMapSeed uses the runtime overlay (overlay/mapseed.json) that adds runtime.VerifSetMapSeed: every map
// iteration of the process then starts at the bucket/offset derived from seed (seeds 0..7 give every
// rotation of a map with <= 8 entries).
func setMapSeed(seed uint64, on bool) { runtime.VerifSetMapSeed(seed, on) }

func mapSeedAvailable() bool { return true }
