package c10

import (
	"context"
	"encoding/json"
	"fmt"
	"testing"
	"time"
)

func mkGraph(n int, edges ...[2]int) Graph {
	g := Graph{N: n, Adj: make([][]bool, n)}
	for i := range g.Adj {
		g.Adj[i] = make([]bool, n)
	}
	for _, e := range edges {
		g.Adj[e[0]][e[1]] = true
	}
	return g
}

func js(v any) string { b, _ := json.Marshal(v); return string(b) }

func probe(t *testing.T, s Spec, targets ...Target) {
	ctx := context.Background()
	s.Graph = s.G.String()
	ok, why := s.valid()
	fmt.Println("=== spec", s.key(), ok, why)
	t0 := time.Now()
	b, err := build(ctx, s)
	if err != nil {
		fmt.Println("  build error:", err)
		return
	}
	fmt.Println("  build", time.Since(t0))
	for _, k := range sortedKeys(b.Files) {
		if len(k) > 5 && (k[len(k)-4:] == "yaml" || k[len(k)-4:] == "lock") {
			fmt.Printf("  --- %s\n%s", k, b.Files[k])
		}
	}
	for _, tg := range targets {
		t0 = time.Now()
		ws, err := b.workspace(ctx, tg)
		fmt.Println("  target", tg, "ws err:", err, time.Since(t0))
		if err != nil {
			continue
		}
		fmt.Println("   modules", js(observeModules(ws)))
		for _, m := range ws.Modules() {
			d, err := observeDeps(m)
			fmt.Println("   deps", m.OpaqueID(), js(d), errClass(err), err)
		}
		dg, err := observeDAG(ws)
		fmt.Println("   dag", js(dg), errClass(err))
		t0 = time.Now()
		img, err := observeImage(ctx, ws)
		fmt.Println("   image", js(img), errClass(err), err, time.Since(t0))
		ls, err := observeLsFiles(ctx, ws)
		fmt.Println("   ls", js(ls), errClass(err), err)
	}
}

func sortedKeys(m map[string]string) []string {
	var k []string
	for x := range m {
		k = append(k, x)
	}
	return sortedStrings(k)
}

func TestProbe(t *testing.T) {
	g := mkGraph(3, [2]int{0, 1}, [2]int{1, 2}, [2]int{0, 2})
	for _, l := range []string{"incl", "excl"} {
		s := newSpec(g, []Kind{KLocal, KLocal, KNamed}, true)
		s.Layout = l
		probe(t, s, Target{"all", 0}, Target{"dir", 0}, Target{"file", 0}, Target{"path", 1})
	}
	s := newSpec(g, []Kind{KLocal, KLocal, KNamed}, false)
	s.Layout = "roots"
	probe(t, s, Target{"all", 0}, Target{"dir", 0}, Target{"file", 0}, Target{"path", 1})
}
