package c10

import (
	"fmt"
	"sort"
	"strings"
)

// Kind is how a node of the module-level import digraph is provided.
type Kind int

const (
	KLocal  Kind = iota // local module directory without a name
	KNamed              // local module directory with a name
	KRemote             // only served by the provider, pinned in buf.lock
	KBoth               // local module directory with a name AND a commit of the same name pinned in buf.lock
)

func (k Kind) String() string { return [...]string{"local", "named", "remote", "both"}[k] }

// MarshalText makes kinds readable in evidence and replay files.
func (k Kind) MarshalText() ([]byte, error) { return []byte(k.String()), nil }

func (k Kind) local() bool { return k != KRemote }

func modName(i int) string { return fmt.Sprintf("buf.test/acme/m%d", i) }
func modDir(i int) string  { return fmt.Sprintf("m%d", i) }
func aPath(i int) string   { return fmt.Sprintf("p%d/a.proto", i) }
func bPath(i int) string   { return fmt.Sprintf("p%d/b.proto", i) }

const wktPath = "google/protobuf/empty.proto"

// wktNode is the node whose a.proto imports a well-known type.
const wktNode = 1

// wktProvPath is the well-known-type path a module of the workspace can itself provide (a vendored copy, as
// buf.build/protocolbuffers/wellknowntypes does): Spec.WKTProv. The import edges INTO that module are then
// realised only by imports of this path.
const wktProvPath = "google/protobuf/timestamp.proto"

const wktProvContent = "syntax = \"proto3\";\npackage google.protobuf;\nmessage Timestamp {\n  int64 seconds = 1;\n  int32 nanos = 2;\n}\n"

// Graph is the module-level import digraph: Adj[i][j] = some file of module i imports a file of module j.
type Graph struct {
	N   int
	Adj [][]bool
}

func (g Graph) outs(i int) []int {
	var o []int
	for j := 0; j < g.N; j++ {
		if g.Adj[i][j] {
			o = append(o, j)
		}
	}
	return o
}

func (g Graph) String() string {
	var e []string
	for i := 0; i < g.N; i++ {
		for j := 0; j < g.N; j++ {
			if g.Adj[i][j] {
				e = append(e, fmt.Sprintf("%d>%d", i, j))
			}
		}
	}
	return fmt.Sprintf("n%d[%s]", g.N, strings.Join(e, ","))
}

// reach is the reference reachability: nodes reachable from s by one or more edges.
// (Boring worklist; deliberately not the recursive shape of getModuleDepsRec.)
func (g Graph) reach(s int) []bool {
	seen := make([]bool, g.N)
	work := g.outs(s)
	for len(work) > 0 {
		u := work[0]
		work = work[1:]
		if seen[u] {
			continue
		}
		seen[u] = true
		work = append(work, g.outs(u)...)
	}
	return seen
}

func (g Graph) onCycle(s int) bool { return g.reach(s)[s] }

// RefDep is an expected dependency.
type RefDep struct {
	ID     string `json:"id"`
	Direct bool   `json:"direct"`
}

// The file layout of a module version. Every module i has
//
//	p<i>/a.proto  leaf (node wktNode imports a WKT)
//	p<i>/b.proto  imports p<i>/a.proto and, per out-edge i->j: p<j>/b.proto when j>i ("deep"),
//	              p<j>/a.proto when j<i ("shallow")
//
// so the file-level import graph is acyclic for every module-level digraph (module cycles without
// file cycles), the module-level edges are exactly the digraph, and file closures go through
// several modules.
//
// wkt >= 0: node wkt additionally provides wktProvPath (only its marker-less version), and every edge
// i->wkt is realised by an import of that path alone (no other file of module wkt is imported by i).
func moduleFiles(i int, outs []int, marker string, extraImports []string, wkt int) map[string]string {
	files := map[string]string{}
	var a strings.Builder
	fmt.Fprintf(&a, "syntax = \"proto3\";\npackage p%d;\n", i)
	if i == wktNode {
		fmt.Fprintf(&a, "import \"%s\";\n", wktPath)
		fmt.Fprintf(&a, "message A%d { .google.protobuf.Empty e = 1; }\n", i)
	} else {
		fmt.Fprintf(&a, "message A%d {}\n", i)
	}
	files[aPath(i)] = a.String()
	var b strings.Builder
	fmt.Fprintf(&b, "syntax = \"proto3\";\npackage p%d;\nimport \"%s\";\n", i, aPath(i))
	fields := []string{fmt.Sprintf(".p%d.A%d own = 1;", i, i)}
	for _, j := range outs {
		if j == wkt && j != i {
			fmt.Fprintf(&b, "import \"%s\";\n", wktProvPath)
			fields = append(fields, fmt.Sprintf(".google.protobuf.Timestamp f%d = %d;", j, j+2))
		} else if j > i {
			fmt.Fprintf(&b, "import \"%s\";\n", bPath(j))
			fields = append(fields, fmt.Sprintf(".p%d.B%d f%d = %d;", j, j, j, j+2))
		} else {
			fmt.Fprintf(&b, "import \"%s\";\n", aPath(j))
			fields = append(fields, fmt.Sprintf(".p%d.A%d f%d = %d;", j, j, j, j+2))
		}
	}
	for _, imp := range extraImports {
		fmt.Fprintf(&b, "import \"%s\";\n", imp)
	}
	fmt.Fprintf(&b, "message B%d { %s }\n", i, strings.Join(fields, " "))
	files[bPath(i)] = b.String()
	if i == wkt && marker == "" {
		files[wktProvPath] = wktProvContent
	}
	if marker != "" {
		files[fmt.Sprintf("p%d/%s.proto", i, marker)] = fmt.Sprintf("syntax = \"proto3\";\npackage p%d;\nmessage M%d {}\n", i, i)
	}
	return files
}

// fileImports is the reference file-level import relation of the effective module versions.
func fileImports(g Graph, wkt int) map[string][]string {
	m := map[string][]string{}
	for i := 0; i < g.N; i++ {
		if i == wktNode {
			m[aPath(i)] = []string{wktPath}
		} else {
			m[aPath(i)] = nil
		}
		imps := []string{aPath(i)}
		for _, j := range g.outs(i) {
			if j == wkt && j != i {
				imps = append(imps, wktProvPath)
			} else if j > i {
				imps = append(imps, bPath(j))
			} else {
				imps = append(imps, aPath(j))
			}
		}
		m[bPath(i)] = imps
	}
	m[wktPath] = nil
	m[wktProvPath] = nil
	return m
}

// RefFile is an expected image file.
type RefFile struct {
	Path     string `json:"path"`
	IsImport bool   `json:"is_import"`
}

// refImage is the reference image content: the target files (not imports) plus the closure of their
// imports (imports unless they are target files themselves), sorted by path.
func refImage(g Graph, wkt int, targetFiles []string) []RefFile {
	imports := fileImports(g, wkt)
	isTarget := map[string]bool{}
	for _, f := range targetFiles {
		isTarget[f] = true
	}
	seen := map[string]bool{}
	work := append([]string(nil), targetFiles...)
	for len(work) > 0 {
		f := work[len(work)-1]
		work = work[:len(work)-1]
		if seen[f] {
			continue
		}
		seen[f] = true
		work = append(work, imports[f]...)
	}
	var out []RefFile
	for f := range seen {
		out = append(out, RefFile{Path: f, IsImport: !isTarget[f]})
	}
	sort.Slice(out, func(i, j int) bool { return out[i].Path < out[j].Path })
	return out
}
