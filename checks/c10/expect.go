package c10

import (
	"sort"
)

// ---- refgraph: the reference model of what the property demands ----

// targetNodes are the nodes whose module is a target for t.
func (s Spec) targetNodes(t Target) []int {
	if t.Kind == "all" {
		return s.locals()
	}
	return []int{t.Node}
}

// targetFiles are the files that are targets (non-imports) for t.
func (s Spec) targetFiles(t Target) []string {
	switch t.Kind {
	case "file", "path":
		return []string{bPath(t.Node)}
	}
	var out []string
	for _, i := range s.targetNodes(t) {
		out = append(out, aPath(i), bPath(i))
		// the vendored well-known type lies outside the package directory p<i> (pathdir target)
		if i == s.WKTProv && t.Kind != "pathdir" {
			out = append(out, wktProvPath)
		}
	}
	return out
}

func (s Spec) commitOf(i int) string {
	if s.Kinds[i] == KRemote {
		if i == s.TwoCommit {
			return commitString(commitIDAge(i, s.newestPinnedAge())) // the newest pinned commit wins
		}
		return commitString(commitID(i, false))
	}
	return "" // a module present locally wins over a pinned commit of the same name
}

func (s Spec) nameOf(i int) string {
	if s.Kinds[i] == KLocal {
		return ""
	}
	return modName(i)
}

// expectModules: every node of the workspace is in the module set exactly once; local kinds as local modules without
// commit, provider-only kinds at their newest commit; targets per targetNodes.
func (s Spec) expectModules(t Target) []ModObs {
	isTarget := map[int]bool{}
	for _, i := range s.targetNodes(t) {
		isTarget[i] = true
	}
	var out []ModObs
	for i := range s.Kinds {
		if !s.present(i) {
			continue // a provider-only module nobody pins is not part of the workspace
		}
		out = append(out, ModObs{ID: s.modID(i), Local: s.Kinds[i].local(), Target: isTarget[i], Commit: s.commitOf(i)})
	}
	sort.Slice(out, func(i, j int) bool { return out[i].ID < out[j].ID })
	return out
}

// expectDeps: deps(M) = modules reachable from M minus M, direct iff first hop; a module on a cycle
// must get an error instead.
func (s Spec) expectDeps(i int) (onCycle bool, deps []RefDep) {
	if s.G.onCycle(i) {
		return true, nil
	}
	r := s.G.reach(i)
	deps = []RefDep{}
	for j := 0; j < s.G.N; j++ {
		if r[j] && j != i {
			deps = append(deps, RefDep{ID: s.modID(j), Direct: s.G.Adj[i][j]})
		}
	}
	sort.Slice(deps, func(a, b int) bool { return deps[a].ID < deps[b].ID })
	return false, deps
}

// closure is targets plus everything reachable from them.
func (s Spec) closure(t Target) []bool {
	in := make([]bool, s.G.N)
	for _, i := range s.targetNodes(t) {
		in[i] = true
		for j, r := range s.G.reach(i) {
			if r {
				in[j] = true
			}
		}
	}
	return in
}

// expectDAG: nodes = targets and what they reach, edges = the import edges among them; an error
// when any of those modules is on a cycle.
func (s Spec) expectDAG(t Target) (cycle bool, obs *DAGObs) {
	in := s.closure(t)
	for i, x := range in {
		if x && s.G.onCycle(i) {
			return true, nil
		}
	}
	obs = &DAGObs{}
	for i, x := range in {
		if !x {
			continue
		}
		obs.Nodes = append(obs.Nodes, s.modID(i))
		for _, j := range s.G.outs(i) {
			obs.Edges = append(obs.Edges, [2]string{s.modID(i), s.modID(j)})
		}
	}
	sort.Strings(obs.Nodes)
	sortEdges(obs.Edges)
	return false, obs
}

// expectImage: target files are non-imports, the closure of their imports are imports, each file
// attributed to the effective version of its module.
func (s Spec) expectImage(t Target) []ImgFile {
	var out []ImgFile
	for _, f := range refImage(s.G, s.WKTProv, s.targetFiles(t)) {
		x := ImgFile{Path: f.Path, IsImport: f.IsImport}
		if i := s.ownerOf(f.Path); i >= 0 {
			x.Module = s.nameOf(i)
			x.Commit = s.commitOf(i)
		}
		out = append(out, x)
	}
	return out
}

// ownerOf is the node whose module provides path p; -1 for a well-known type no module provides.
func (s Spec) ownerOf(p string) int {
	if p == wktProvPath {
		return s.WKTProv
	}
	if p == wktPath {
		return -1
	}
	var i int
	// p<i>/...
	for k := 1; k < len(p) && p[k] != '/'; k++ {
		i = i*10 + int(p[k]-'0')
	}
	return i
}

// needsFile reports whether the image for t needs path p (it is a target file or in the import closure).
func (s Spec) needsFile(t Target, p string) bool {
	for _, f := range refImage(s.G, s.WKTProv, s.targetFiles(t)) {
		if f.Path == p {
			return true
		}
	}
	return false
}
