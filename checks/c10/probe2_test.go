package c10

import (
	"context"
	"fmt"
	"os"
	"path/filepath"
	"testing"
	"time"

	"github.com/bufbuild/bufverif/internal/bufx"
)

func writeTree(dir string, files map[string]string) error {
	for p, c := range files {
		full := filepath.Join(dir, p)
		if err := os.MkdirAll(filepath.Dir(full), 0o755); err != nil {
			return err
		}
		if err := os.WriteFile(full, []byte(c), 0o644); err != nil {
			return err
		}
	}
	return nil
}

func cliProbe(t *testing.T, s Spec) {
	ctx := context.Background()
	s.Graph = s.G.String()
	b, err := build(ctx, s)
	if err != nil {
		t.Fatal(err)
	}
	dir, _ := os.MkdirTemp("", "verif-c10-")
	defer os.RemoveAll(dir)
	if err := writeTree(dir, b.Files); err != nil {
		t.Fatal(err)
	}
	fmt.Println("=== cli", s.key())
	run := func(args ...string) {
		t0 := time.Now()
		res := bufx.RunCLI(ctx, nil, "", args...)
		out := res.Stdout
		if len(out) > 600 {
			out = fmt.Sprintf("<%d bytes>", len(out))
		}
		fmt.Printf("  $ buf %v -> exit %d (%v)\n   stdout: %q\n   stderr: %q\n", args, res.ExitCode, time.Since(t0), out, res.Stderr)
	}
	run("dep", "graph", dir)
	run("dep", "graph", dir+"/m0")
	run("dep", "graph", dir+"/m0/p0/b.proto")
	run("ls-files", "--include-imports", "--format", "import", dir)
	run("ls-files", "--include-imports", "--format", "import", dir+"/m0/p0/b.proto")
	run("ls-files", "--include-imports", "--format", "import", dir, "--path", dir+"/m0/p0/b.proto")
	run("build", dir, "-o", "-#format=json")
	run("build", dir+"/m0", "-o", "-#format=binpb")
}

func TestCLIProbe(t *testing.T) {
	cliProbe(t, newSpec(mkGraph(3, [2]int{0, 1}, [2]int{1, 2}), []Kind{KLocal, KNamed, KBoth}, true))
	cliProbe(t, newSpec(mkGraph(3, [2]int{0, 1}, [2]int{1, 2}), []Kind{KLocal, KNamed, KBoth}, false))
	cliProbe(t, newSpec(mkGraph(2, [2]int{0, 1}, [2]int{1, 0}), []Kind{KLocal, KNamed}, false))
	s := newSpec(mkGraph(2, [2]int{0, 1}), []Kind{KLocal, KNamed}, true)
	s.MissingIn = 1
	cliProbe(t, s)
	s = newSpec(mkGraph(2, [2]int{0, 1}), []Kind{KLocal, KNamed}, true)
	s.DupFrom, s.DupInto = 1, 0
	cliProbe(t, s)
}
