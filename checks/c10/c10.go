// Package c10 is the check for property C10 (see DESIGN.md section 3).
package c10
