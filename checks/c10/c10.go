// Package c10: workspace dependency resolution is exact and ambiguity is an error.
//
// Bounded-exhaustive exploration: every module-level import digraph on n <= 3 (thorough: 4) nodes x
// every way of providing each node (local unnamed / local named / registry commit pinned in buf.lock /
// local AND pinned) x {buf.work.yaml + v1 modules, v2 buf.yaml} x every target choice (workspace,
// each module directory, a proto-file reference, --path) is materialised as a memory bucket plus an
// in-process registry and opened through bufworkspace.GetWorkspaceForBucket. The observations
// (module set, Module.ModuleDeps/IsDirect, ModuleSetToDAG, the built image, the ls-files file list,
// and the CLI commands `dep graph`, `ls-files --include-imports`, `build` on scratch directories)
// are compared with a small reference model (refgraph, expect.go) computed from the digraph alone.
// Ambiguity plants (a path in two modules, an import nobody provides, two commits of one name) are
// enumerated over the same digraphs. strengthen.go adds: a module providing a well-known type (family W),
// three commits of one name under every map iteration order (family M), registry faults (family F).
// retarget.go adds the dependency reports (RemoteDepsForModuleSet, unused deps, push deps; family R) and the
// re-targeting histories (WithTargetOpaqueIDs once and twice, every oracle re-evaluated; family T).
package c10

import (
	"context"
	"fmt"
	"os"
	"reflect"
	"runtime/debug"
	"sort"
	"strconv"
	"sync"
	"sync/atomic"
	"time"

	"github.com/bufbuild/bufverif/internal/enum"
	"github.com/bufbuild/bufverif/internal/evid"
)

func init() {
	evid.Register(&evid.Check{ID: "C10", Level: "exploration", Run: run, QuickBudget: 300 * time.Second, ThoroughBudget: 45 * time.Minute})
}

// Case is what gets written out for samples and violations.
type Case struct {
	Spec     Spec   `json:"spec"`
	Target   Target `json:"target"`
	Module   string `json:"module,omitempty"`
	Observed any    `json:"observed,omitempty"`
	Expected any    `json:"expected,omitempty"`
	Error    string `json:"error,omitempty"`
	Files    any    `json:"files,omitempty"`
	// Retargets is the re-targeting history (family T): the target node sets handed to WithTargetOpaqueIDs, in order.
	Retargets [][]int `json:"retargets,omitempty"`
}

type counters struct {
	workspaces, depsExact, depsWithTransitive, depsNonEmpty, cycleDemanded, cycleNotDemandedReachesCycle atomic.Int64
	dagExact, dagCycle                                                                                   atomic.Int64
	precedence, newestCommit                                                                             atomic.Int64
	images, imageImportFiles, imageNonTargetModuleFiles, lsfiles, lsWithWKT                              atomic.Int64
	dupDepsDemands, dupImageDemands, dupNoDemand                                                         atomic.Int64
	missDepsDemands, missImageDemands                                                                    atomic.Int64
	filtered, layoutSpecs                                                                                atomic.Int64
	wktDeps, wktImageFiles, threeCommits, dupWKTDemands                                                  atomic.Int64
	faultSurfaced, faultExact, faultPlantDemands                                                         atomic.Int64
	remoteDepsCycle, remoteDepsExact, remoteDepsNonEmpty, remoteReachesShadowed, unusedDeps, pushDeps    atomic.Int64
	lookups, retargets, retargetChains, retargetLs, retargetImages, retargetImagePinnedImports           atomic.Int64
	remoteDepsPlantDemands                                                                               atomic.Int64
	xCases, xNonDotRoot, xWouldAddDep, xWouldBeAmbiguous, aloneCases                                     atomic.Int64
}

type checker struct {
	r *evid.Run
	c counters
	// stopEarly (C10_STOP_ON_VIOLATION=1, mutant runs) skips remaining work items once something was found
	stopEarly bool
	// cycleErrorBroken is set when ModuleDeps of a module on a cycle returned no error: ModuleSetToDAG
	// (and `buf dep graph`) rely on that error to terminate, so they are not called on cyclic closures
	// any more (a Go stack overflow is fatal and would lose the violation already recorded).
	cycleErrorBroken atomic.Bool

	fstats faultStats

	// record (replay only) collects what was violated
	recordMu sync.Mutex
	record   map[string]string

	start   time.Time
	budget  time.Duration
	soft    time.Time
	softCut atomic.Bool
}

func (ck *checker) done() bool {
	if ck.stopEarly && ck.r.ViolationCount() > 0 {
		return true
	}
	if !ck.soft.IsZero() && time.Now().After(ck.soft) {
		ck.softCut.Store(true)
		return true
	}
	return false
}

// family runs one family under a soft deadline at the given fraction of the budget, so that a slow
// machine cuts every family a little instead of starving the later ones.
func (ck *checker) family(name string, fraction float64, f func()) {
	ck.soft = ck.start.Add(time.Duration(float64(ck.budget) * fraction))
	ck.softCut.Store(false)
	t0 := time.Now()
	f()
	ck.r.Set("family_wall_s_"+name, float64(int(time.Since(t0).Seconds()*10))/10) // informational only
	if ck.softCut.Load() {
		ck.r.Incomplete(fmt.Sprintf("family %s: its share of the time budget (until %.0f%% of %s) was used up before all work items ran", name, fraction*100, ck.budget))
	}
	ck.soft = time.Time{}
}

func fromEnum(g enum.Digraph) Graph { return Graph{N: g.N, Adj: g.Adj} }

func allKinds(n int, alphabet []Kind) [][]Kind {
	var out [][]Kind
	dims := make([]int, n)
	for i := range dims {
		dims[i] = len(alphabet)
	}
	enum.Product(dims, func(idx []int) bool {
		ks := make([]Kind, n)
		for i, x := range idx {
			ks[i] = alphabet[x]
		}
		out = append(out, ks)
		return true
	})
	return out
}

func (s Spec) targets() []Target {
	if s.Alone {
		// a module without a workspace file: its directory is the input (the parent directory is not a workspace;
		// a proto-file reference below a v1/v1beta1 buf.yaml that no workspace file controls is opened as a module
		// of its own directory with the default configuration, so its imports are not relative to the roots)
		return []Target{{"dir", 0}}
	}
	ts := []Target{{Kind: "all"}}
	for _, i := range s.locals() {
		if !s.shared() { // in the shared-directory layouts the module directory is the whole workspace
			ts = append(ts, Target{"dir", i})
		}
		ts = append(ts, Target{"file", i}, Target{"path", i})
		if !s.twoRoots() { // with two roots the package directory of one root holds only one of the files
			ts = append(ts, Target{"pathdir", i})
		}
	}
	return ts
}

type item struct {
	g     Graph
	kinds []Kind
}

func run(r *evid.Run) {
	ck := &checker{r: r, stopEarly: os.Getenv("C10_STOP_ON_VIOLATION") != ""}
	if ck.stopEarly {
		r.Incomplete("C10_STOP_ON_VIOLATION: remaining work is skipped after the first violation")
	}
	r.Rule("one case = (module import digraph, node kinds, v1|v2, plant, target); all digraphs on n nodes x all kind vectors that can exist x both config versions x all targets are run; a case is counted distinct non-trivial when its digraph has an edge or it carries a plant (key = spec/target). Further dimensions: a module that itself provides a well-known-type path and is imported through it alone (every node with an in-edge); three commits of one name pinned by three buf.lock files x every assignment of commits to locks x map-iteration start seeds 0..7; registry faults (faulty provider-served module x fault point) on the plain graphs and on the plants; re-targeting histories (multi-step): the module set of every opened workspace is re-targeted with WithTargetOpaqueIDs onto every non-empty subset of its modules and, two steps deep, onto pairs of them, and every oracle is evaluated again on the result with the reference recomputed for the new targets (key = spec/target/retarget:history); excluded directories: every local module has directories its configuration excludes (v1 / v2 excludes, v1beta1 with the default root, with one root other than the module directory, with two roots; also as a module without workspace file) holding files that would add dependencies, a missing import or a duplicate path if they counted, judged against the reference of the same digraph without them")
	r.Assume("a file in a directory that the module's configuration excludes is not a file of the module: it is not listed, not built, and its imports are neither dependencies nor ambiguities of the workspace")
	r.Assume("registry commits are self-contained and acyclic (a provider-only module imports only provider modules); kind vectors violating this are filtered and counted")
	r.Assume("create times of two commits of one name differ (ties are C02's business)")
	r.Assume("an injected registry fault is an error other than fs.ErrNotExist (download failure, digest mismatch, I/O error of the module's bucket); under a fault an observation must fail or still equal the reference, and must not report an ambiguity (cycle, duplicate path, import not provided) the workspace does not have")
	r.Assume("map iteration order is controlled through the runtime overlay (build tag mapseed): with <= 8 entries the seeds 0..7 give every rotation of the insertion order, and the insertion order of the commits of one name is the order of the buf.lock files, which is enumerated")
	r.Assume("remote modules are served by an in-process provider (bufmoduletesting.OmniProvider per commit generation, routed by commit id); the CLI families use only modules present locally because the CLI's registry client cannot be replaced offline")
	r.Assume("the dependency reports derived from a module set (RemoteDepsForModuleSet, the unused-dep report, the push module and dep lists) are judged against the same reference as ModuleDeps: the provider-only modules reachable from the local modules (from the local targets and the local modules they reach, for push) at their effective commits, direct iff a local module of that root set imports them itself; a module present locally is never a remote dep")
	r.Assume("re-targeting (ModuleSet.WithTargetOpaqueIDs) changes which modules are targets and nothing else: same modules, names, commits, deps; target files are all files of the new target modules, except that a module keeps the path restriction the workspace was opened with (only the history the CLI itself produces, the target module alone, is judged there)")
	r.Assume("a module that merely reaches a cycle it is not on gets exact deps; the cycle error is demanded only from ModuleDeps of modules on the cycle and from ModuleSetToDAG / dep graph")

	maxN := 3
	if !r.Quick() {
		maxN = 4
	}
	// C10_MAXN caps the number of nodes (development aid; the run is then marked incomplete)
	if v, err := strconv.Atoi(os.Getenv("C10_MAXN")); err == nil && v >= 1 && v < maxN {
		maxN = v
		r.Incomplete("C10_MAXN caps the number of nodes")
	}
	r.Set("max_nodes", maxN)

	// C10_ONLY=graphs|layouts|plants|wkt|multi|faults|cli runs one family (development aid; the run is then marked incomplete)
	only := os.Getenv("C10_ONLY")
	if only != "" {
		r.Incomplete("C10_ONLY=" + only + ": only one family was run")
	}
	ck.start = time.Now()
	ck.budget = 150 * time.Second
	if !r.Quick() {
		ck.budget = 20 * time.Minute
	}
	if n, err := strconv.Atoi(os.Getenv("VERIF_BUDGET_S")); err == nil {
		ck.budget = time.Duration(n) * time.Second
	}
	// Image builds allocate a lot on a small live heap; a quarter of the CPU went into the collector.
	defer debug.SetGCPercent(debug.SetGCPercent(400))
	// Everything outside family M runs under map seed 0 (when the overlay is built in), so that a dependence
	// on map iteration order shows up reproducibly and in family M only.
	setMapSeed(0, true)
	defer setMapSeed(0, false)
	// cumulative shares of the time budget, from the measured cost of the families in each tier
	// (fourth round: the layouts family grew by the excluded-directory specs)
	share := map[string]float64{"graphs": 0.32, "layouts": 0.60, "plants": 0.71, "wkt": 0.79, "multi": 0.82, "faults": 0.85, "cli": 1.0}
	if !r.Quick() {
		share = map[string]float64{"graphs": 0.30, "layouts": 0.44, "plants": 0.54, "wkt": 0.74, "multi": 0.83, "faults": 0.85, "cli": 1.0}
	}
	families := []struct {
		name string
		f    func()
	}{
		{"graphs", func() { ck.familyGraphs(maxN) }},
		{"layouts", func() { ck.familyLayouts(min(maxN, 3)) }},
		{"plants", func() { ck.familyPlants(maxN) }},
		{"wkt", func() { ck.familyWKT(maxN) }},
		{"multi", func() { ck.familyMultiCommit() }},
		{"faults", func() { ck.familyFaults(min(maxN, 3)) }},
		{"cli", func() { ck.familyCLI(min(maxN, 3)) }},
	}
	for _, fam := range families {
		if only == "" || only == fam.name {
			ck.family(fam.name, share[fam.name], fam.f)
		}
	}

	c := &ck.c
	r.Set("workspaces_opened", c.workspaces.Load())
	r.Set("kind_vectors_filtered", c.filtered.Load())
	r.Set("layout_specs_run", c.layoutSpecs.Load())
	r.Set("clause_deps_exact_sets_compared", c.depsExact.Load())
	r.Set("clause_deps_nonempty", c.depsNonEmpty.Load())
	r.Set("clause_isdirect_with_transitive_dep", c.depsWithTransitive.Load())
	r.Set("clause_cycle_error_demanded_from_moduledeps", c.cycleDemanded.Load())
	r.Set("clause_reaches_cycle_not_on_it_exact_deps", c.cycleNotDemandedReachesCycle.Load())
	r.Set("clause_dag_exact", c.dagExact.Load())
	r.Set("clause_dag_cycle_error_demanded", c.dagCycle.Load())
	r.Set("clause_local_beats_pinned", c.precedence.Load())
	r.Set("clause_newest_commit_wins", c.newestCommit.Load())
	r.Set("clause_images_compared", c.images.Load())
	r.Set("clause_image_files_of_nontarget_modules", c.imageNonTargetModuleFiles.Load())
	r.Set("clause_lsfiles_compared", c.lsfiles.Load())
	r.Set("clause_lsfiles_with_wkt", c.lsWithWKT.Load())
	r.Set("clause_duplicate_path_demands_deps", c.dupDepsDemands.Load())
	r.Set("clause_duplicate_path_demands_image", c.dupImageDemands.Load())
	r.Set("clause_missing_import_demands_deps", c.missDepsDemands.Load())
	r.Set("clause_missing_import_demands_image", c.missImageDemands.Load())
	r.Set("clause_dep_only_through_wkt_path_of_provider", c.wktDeps.Load())
	r.Set("clause_image_with_module_provided_wkt", c.wktImageFiles.Load())
	r.Set("clause_duplicate_wkt_path_demands_deps", c.dupWKTDemands.Load())
	r.Set("clause_three_commits_of_one_name", c.threeCommits.Load())
	r.Set("clause_fault_surfaced_as_error", c.faultSurfaced.Load())
	r.Set("clause_fault_not_in_the_way_exact_result", c.faultExact.Load())
	r.Set("clause_fault_on_plant_demands", c.faultPlantDemands.Load())
	r.Set("clause_remote_deps_report_exact", c.remoteDepsExact.Load())
	r.Set("clause_remote_deps_report_nonempty", c.remoteDepsNonEmpty.Load())
	r.Set("clause_remote_deps_report_cycle_error_demanded", c.remoteDepsCycle.Load())
	r.Set("clause_remote_module_imports_locally_shadowed_module", c.remoteReachesShadowed.Load())
	r.Set("clause_remote_deps_report_on_plant_demands", c.remoteDepsPlantDemands.Load())
	r.Set("clause_unused_dep_report_compared", c.unusedDeps.Load())
	r.Set("clause_push_dep_list_compared", c.pushDeps.Load())
	r.Set("clause_pinned_module_lookups", c.lookups.Load())
	r.Set("retarget_histories", c.retargets.Load())
	r.Set("retarget_histories_two_steps", c.retargetChains.Load())
	r.Set("retarget_lsfiles_compared", c.retargetLs.Load())
	r.Set("retarget_images_compared", c.retargetImages.Load())
	r.Set("retarget_image_imports_of_pinned_modules", c.retargetImagePinnedImports.Load())
	r.Set("clause_excluded_dir_cases", c.xCases.Load())
	r.Set("clause_excluded_dir_below_a_root_other_than_dot", c.xNonDotRoot.Load())
	r.Set("clause_excluded_file_imports_a_module_that_is_no_dependency", c.xWouldAddDep.Load())
	r.Set("clause_excluded_file_would_be_an_ambiguity", c.xWouldBeAmbiguous.Load())
	r.Set("clause_module_without_workspace_file", c.aloneCases.Load())
	r.Set("map_seed_controlled", mapSeedAvailable())
	neverExercised(r, map[string]int64{
		"deps exact": c.depsExact.Load(), "isdirect transitive": c.depsWithTransitive.Load(), "cycle": c.cycleDemanded.Load(),
		"dag": c.dagExact.Load(), "dag cycle": c.dagCycle.Load(), "local beats pinned": c.precedence.Load(),
		"newest commit": c.newestCommit.Load(), "images": c.images.Load(), "non-target files": c.imageNonTargetModuleFiles.Load(),
		"ls-files": c.lsfiles.Load(), "duplicate": c.dupDepsDemands.Load() + c.dupImageDemands.Load(),
		"missing import":                    c.missDepsDemands.Load() + c.missImageDemands.Load(),
		"dep through a module-provided wkt": c.wktDeps.Load(), "image with a module-provided wkt": c.wktImageFiles.Load(),
		"three commits of one name": c.threeCommits.Load(), "duplicate well-known-type path": c.dupWKTDemands.Load(), "fault surfaced": c.faultSurfaced.Load(),
		"fault on a plant":   c.faultPlantDemands.Load(),
		"remote deps report": c.remoteDepsNonEmpty.Load(), "remote module imports a locally shadowed module": c.remoteReachesShadowed.Load(),
		"remote deps report on a plant": c.remoteDepsPlantDemands.Load(), "unused dep report": c.unusedDeps.Load(), "push dep list": c.pushDeps.Load(),
		"pinned module lookups": c.lookups.Load(), "re-targeting histories": c.retargets.Load(), "two-step re-targeting histories": c.retargetChains.Load(),
		"image of a re-targeted set with imports of a pinned module": c.retargetImagePinnedImports.Load(),
		"excluded directory": c.xCases.Load(), "excluded directory below a root other than the module directory": c.xNonDotRoot.Load(),
		"excluded file importing a module that is no dependency": c.xWouldAddDep.Load(), "excluded file that would be an ambiguity": c.xWouldBeAmbiguous.Load(),
		"module without workspace file": c.aloneCases.Load(),
	})
}

// ---------------------------------------------------------------------------------------------
// family A: all digraphs x kinds x versions x two-commit variants x targets

func (ck *checker) familyGraphs(maxN int) {
	r := ck.r
	var items []item
	graphs := 0
	for n := 1; n <= maxN; n++ {
		alphabet := []Kind{KLocal, KNamed, KRemote, KBoth}
		gs := enum.Digraphs(n, false)
		graphs += len(gs)
		for _, eg := range gs {
			g := fromEnum(eg)
			for _, ks := range allKinds(n, alphabet) {
				if n == 4 && !kindVectorN4(ks) {
					continue
				}
				items = append(items, item{g, ks})
			}
		}
	}
	r.Set("digraphs", graphs)
	r.Set("graph_kind_items", len(items))
	if maxN == 4 {
		r.Set("n4_kind_vectors", "n=4 uses the kind vectors with at most one non-plain node: all-local-unnamed, all-local-named, and one node of kind remote or both among named ones")
	}
	ctx := context.Background()
	r.ParallelFor(len(items), 0, func(idx int) {
		if ck.done() {
			return
		}
		it := items[idx]
		base := newSpec(it.g, it.kinds, false)
		if ok, _ := base.valid(); !ok {
			ck.c.filtered.Add(1)
			return
		}
		for _, v2 := range []bool{false, true} {
			specs := []Spec{newSpec(it.g, it.kinds, v2)}
			if !v2 {
				for i, k := range it.kinds {
					if k == KRemote && len(base.pinners(i)) >= 2 {
						for o := 0; o < 2; o++ {
							s := newSpec(it.g, it.kinds, false)
							s.TwoCommit, s.TCOrder = i, o
							specs = append(specs, s)
						}
					}
				}
			}
			for _, s := range specs {
				ck.runSpec(ctx, idx, s)
			}
		}
	})
}

// family A': the same oracles on other layouts of the local modules: v2 modules sharing one directory
// and separated by includes / by excludes; v1beta1 modules with two roots under a buf.work.yaml.
func (ck *checker) familyLayouts(maxN int) {
	r := ck.r
	var specs []Spec
	for n := 1; n <= maxN; n++ {
		for _, eg := range enum.Digraphs(n, false) {
			g := fromEnum(eg)
			plain := allKinds(n, []Kind{KLocal, KNamed})
			special := append([][]Kind(nil), plain...)
			for at := 0; at < n; at++ {
				for _, k := range []Kind{KRemote, KBoth} {
					ks := make([]Kind, n)
					for i := range ks {
						ks[i] = KNamed
					}
					ks[at] = k
					special = append(special, ks)
				}
			}
			for _, layout := range []string{"incl", "excl", "roots"} {
				vectors := special
				if layout == "roots" {
					vectors = plain
				}
				for _, ks := range vectors {
					s := newSpec(g, ks, layout != "roots")
					s.Layout = layout
					if ok, _ := s.valid(); !ok {
						ck.c.filtered.Add(1)
						continue
					}
					specs = append(specs, s)
				}
			}
		}
	}
	xspecs := excludedSpecs(maxN, r.Quick())
	r.Set("excluded_dir_specs", len(xspecs))
	specs = append(specs, xspecs...)
	r.Set("layout_specs", len(specs))
	ctx := context.Background()
	r.ParallelFor(len(specs), 0, func(idx int) {
		if ck.done() {
			return
		}
		ck.runSpec(ctx, idx, specs[idx])
		ck.c.layoutSpecs.Add(1)
	})
}

// xLayouts are the layouts with an excluded directory in every local module, xContents what it can hold.
var (
	xLayouts  = []string{"x1", "x2", "xb", "xb1", "xroots"}
	xContents = []string{"importer", "missing", "vendored", "all"}
)

// excludedSpecs (fourth round): every local module has a directory its configuration excludes, and the directory
// holds files that would change the answer if they counted as files of the module (imports of the other modules,
// an import nobody provides, a copy of another module's file). Dimensions: digraph x kind vector x configuration
// form (v1 excludes, v2 excludes, v1beta1 with the default root, with one root other than ".", with two roots) x
// content of the excluded directory; n = 1 also as a module that stands alone (no buf.work.yaml), there also the
// plain two-roots layout. The reference is the one of the same digraph without the directory.
// Quick: n <= 2 every plain kind vector, n = 3 the uniform ones; thorough: every plain vector, and for the v1/v2
// forms with all three directories also one remote|both node among named ones.
func excludedSpecs(maxN int, quick bool) []Spec {
	var specs []Spec
	for n := 1; n <= maxN; n++ {
		for _, eg := range enum.Digraphs(n, false) {
			g := fromEnum(eg)
			plain := allKinds(n, []Kind{KLocal, KNamed})
			if n == 3 && quick {
				plain = [][]Kind{uniformKinds(3, KLocal), uniformKinds(3, KNamed)}
			}
			special := append([][]Kind(nil), plain...)
			if !quick {
				for at := 0; at < n; at++ {
					for _, k := range []Kind{KRemote, KBoth} {
						special = append(special, withKind(n, k, at, KNamed))
					}
				}
			}
			for _, layout := range xLayouts {
				for _, content := range xContents {
					vectors := plain
					if (layout == "x1" || layout == "x2") && content == "all" {
						vectors = special
					}
					for _, ks := range vectors {
						for _, alone := range []bool{false, true} {
							s := newSpec(g, ks, layout == "x2")
							s.Layout, s.Excluded, s.Alone = layout, content, alone
							if ok, _ := s.valid(); !ok {
								continue
							}
							specs = append(specs, s)
						}
					}
				}
			}
			if n == 1 {
				for _, ks := range plain {
					for _, layout := range []string{"", "roots"} {
						s := newSpec(g, ks, false)
						s.Layout, s.Alone = layout, true
						specs = append(specs, s)
					}
				}
			}
		}
	}
	return specs
}

// kindVectorN4 keeps the n=4 kind vectors with at most one non-plain node.
func kindVectorN4(ks []Kind) bool { return atMostOneNonPlain(ks) }

// atMostOneNonPlain: all nodes local unnamed, all local named, or one remote|both node among named ones.
func atMostOneNonPlain(ks []Kind) bool {
	cnt := map[Kind]int{}
	for _, k := range ks {
		cnt[k]++
	}
	if cnt[KLocal] == len(ks) || cnt[KNamed] == len(ks) {
		return true
	}
	return cnt[KLocal] == 0 && cnt[KNamed] == len(ks)-1
}

func hasEdge(g Graph) bool {
	for i := range g.Adj {
		for j := range g.Adj[i] {
			if g.Adj[i][j] {
				return true
			}
		}
	}
	return false
}

func (ck *checker) runSpec(ctx context.Context, idx int, s Spec) {
	ck.runSpecTargets(ctx, idx, s, s.targets())
}

func (ck *checker) runSpecTargets(ctx context.Context, idx int, s Spec, targets []Target) {
	r := ck.r
	b, err := build(ctx, s)
	if err != nil {
		r.Incomplete(fmt.Sprintf("harness: cannot build spec %s: %v", s.key(), err))
		return
	}
	for ti, t := range targets {
		r.Eval(1)
		if hasEdge(s.G) {
			r.Distinct(s.key() + "/" + t.String())
		}
		r.SampleEvery(idx*16+ti, 7919, func() any { return Case{Spec: s, Target: t, Expected: s.expectModules(t)} })
		ck.checkCase(ctx, b, t, wantImage(r, s, t))
	}
}

// wantImage bounds the expensive image builds (the ls-files oracle, which is compared against the
// same reference, runs on every case). Quick: every target for n <= 2; for n = 3 the kind vectors with at
// most one non-plain node (all unnamed, all named, one remote|both among named ones; every other vector
// has its images at n <= 2 and in the thorough tier), there the workspace target and, in the default
// layout, the proto-file target of the lowest-numbered local module. Thorough: every target for n <= 3;
// for n = 4 the workspace target of the uniform kind vectors.
func wantImage(r *evid.Run, s Spec, t Target) bool {
	if s.G.N <= 2 {
		return true
	}
	if s.G.N == 3 {
		if s.WKTProv >= 0 {
			// family W: the workspace target and the proto-file target of the lowest-numbered local module
			return t.Kind == "all" || (t.Kind == "file" && t.Node == s.locals()[0])
		}
		if s.xLayout() {
			// excluded-directory layouts: the workspace target and (thorough) the proto-file target of the
			// lowest-numbered local module; every target at n <= 2
			return t.Kind == "all" || (!r.Quick() && t.Kind == "file" && t.Node == s.locals()[0])
		}
		if !r.Quick() {
			return true
		}
		if !atMostOneNonPlain(s.Kinds) {
			return false
		}
		return t.Kind == "all" || (s.Layout == "" && t.Kind == "file" && t.Node == s.locals()[0])
	}
	if t.Kind != "all" {
		return false
	}
	for _, k := range s.Kinds {
		if k != s.Kinds[0] {
			return false
		}
	}
	return true
}

func (ck *checker) violate(sig, what string, b *Built, t Target, c Case) {
	c.Spec, c.Target = b.Spec, t
	c.Files = b.Files
	if ck.record != nil {
		ck.recordMu.Lock()
		ck.record[sig] = what
		ck.recordMu.Unlock()
		return
	}
	ck.r.Violate(sig, what, c)
}

func (ck *checker) checkCase(ctx context.Context, b *Built, t Target, withImage bool) {
	ws, err := b.workspace(ctx, t)
	if err != nil {
		ck.violate("workspace/unexpected-error/"+errClass(err), "opening a well-formed workspace failed: "+err.Error(), b, t, Case{Error: err.Error()})
		return
	}
	ck.c.workspaces.Add(1)
	s := resolveIDs(ctx, b.Spec, ws)
	// In the shared-directory layouts a file or --path target lies in the directory of every module, so
	// which modules count as targets is not determined by the property; only the image content is.
	maskTargets := s.shared() && t.Kind != "all"

	// --- module set: every node once, local beats pinned, newest commit wins, targets
	gotMods, wantMods := observeModules(ws), s.expectModules(t)
	if maskTargets {
		for i := range gotMods {
			gotMods[i].Target = false
		}
		for i := range wantMods {
			wantMods[i].Target = false
		}
	}
	if !reflect.DeepEqual(gotMods, wantMods) {
		ck.violate(moduleSetSignature(s, gotMods, wantMods), "module set differs from the reference", b, t, Case{Observed: gotMods, Expected: wantMods})
	}
	for i, k := range s.Kinds {
		if k == KBoth && len(s.pinners(i)) > 0 {
			ck.c.precedence.Add(1)
		}
	}
	if s.TwoCommit >= 0 {
		ck.c.newestCommit.Add(1)
		if s.distinctAges() >= 3 {
			ck.c.threeCommits.Add(1)
		}
	}

	if s.Alone {
		ck.c.aloneCases.Add(1)
	}
	if s.xLayout() {
		ck.c.xCases.Add(1)
		if s.nonDotRoot() {
			ck.c.xNonDotRoot.Add(1)
		}
		if s.Excluded == "importer" || s.Excluded == "all" {
			// some local module's excluded file imports a module that the module itself neither imports nor reaches
			for _, i := range s.locals() {
				reach := s.G.reach(i)
				for j := range s.Kinds {
					if j != i && s.present(j) && !reach[j] {
						ck.c.xWouldAddDep.Add(1)
						break
					}
				}
			}
		}
		if s.Excluded != "importer" { // a missing import and/or a path in two modules
			ck.c.xWouldBeAmbiguous.Add(1)
		}
	}

	// --- ModuleDeps of every module of the set
	for i := range s.Kinds {
		if !s.present(i) {
			continue
		}
		m := ws.GetModuleForOpaqueID(s.modID(i))
		if m == nil {
			continue // already reported by the module set oracle
		}
		got, err := observeDeps(m)
		onCycle, want := s.expectDeps(i)
		switch {
		case onCycle:
			ck.c.cycleDemanded.Add(1)
			if err == nil {
				ck.cycleErrorBroken.Store(true)
				ck.violate("deps/module-on-cycle/no-error", "ModuleDeps of a module on an import cycle returned deps instead of an error", b, t, Case{Module: s.modID(i), Observed: got})
			} else if cls := errClass(err); cls != "cycle" {
				ck.violate("deps/module-on-cycle/wrong-error/"+cls, "ModuleDeps of a module on an import cycle returned an error that is not a ModuleCycleError: "+err.Error(), b, t, Case{Module: s.modID(i), Error: err.Error()})
			}
		case err != nil:
			ck.violate("deps/module-not-on-cycle/error/"+errClass(err), "ModuleDeps failed for a module that is on no cycle: "+err.Error(), b, t, Case{Module: s.modID(i), Error: err.Error(), Expected: want})
		default:
			ck.c.depsExact.Add(1)
			if len(want) > 0 {
				ck.c.depsNonEmpty.Add(1)
			}
			for _, d := range want {
				if !d.Direct {
					ck.c.depsWithTransitive.Add(1)
					break
				}
			}
			if s.WKTProv >= 0 && s.WKTProv != i && s.G.reach(i)[s.WKTProv] {
				ck.c.wktDeps.Add(1)
			}
			for j, reach := range s.G.reach(i) {
				if reach && s.G.onCycle(j) {
					ck.c.cycleNotDemandedReachesCycle.Add(1)
					break
				}
			}
			if !reflect.DeepEqual(got, want) {
				ck.violate(depsSignature(got, want), "ModuleDeps differs from reachable-minus-self / first-hop", b, t, Case{Module: s.modID(i), Observed: got, Expected: want})
			}
		}
	}

	// --- ModuleSetToDAG
	dagCycle, wantDAG := s.expectDAG(t)
	var gotDAG *DAGObs
	skipDAG := dagCycle && ck.cycleErrorBroken.Load()
	if !skipDAG {
		gotDAG, err = observeDAG(ws)
	}
	switch {
	case skipDAG:
		ck.r.Incomplete("ModuleSetToDAG not called on cyclic closures after ModuleDeps missed a cycle (it would not terminate)")
	case maskTargets:
	case dagCycle:
		ck.c.dagCycle.Add(1)
		if err == nil {
			ck.violate("dag/cycle-in-closure/no-error", "ModuleSetToDAG succeeded although a module on a cycle is in the closure of the targets", b, t, Case{Observed: gotDAG})
		} else if cls := errClass(err); cls != "cycle" {
			ck.violate("dag/cycle-in-closure/wrong-error/"+cls, "ModuleSetToDAG: "+err.Error(), b, t, Case{Error: err.Error()})
		}
	case err != nil:
		ck.violate("dag/acyclic-closure/error/"+errClass(err), "ModuleSetToDAG failed: "+err.Error(), b, t, Case{Error: err.Error(), Expected: wantDAG})
	default:
		ck.c.dagExact.Add(1)
		if !reflect.DeepEqual(gotDAG.Nodes, wantDAG.Nodes) {
			ck.violate("dag/wrong-nodes", "ModuleSetToDAG node set differs from targets plus reachable", b, t, Case{Observed: gotDAG, Expected: wantDAG})
		} else if !reflect.DeepEqual(gotDAG.Edges, wantDAG.Edges) {
			ck.violate("dag/wrong-edges", "ModuleSetToDAG edge set differs from the import edges", b, t, Case{Observed: gotDAG, Expected: wantDAG})
		}
	}

	// --- lookups by commit id / name, the dependency reports, and the re-targeting histories
	ck.checkLookups("", b, t, s, ws, nil)
	reportTargets := s.targetNodes(t)
	if maskTargets {
		reportTargets = nil
	}
	ck.checkReports("", b, t, s, ws, ws, reportTargets, nil)
	if !maskTargets && s.MapSeed <= 0 { // family M: the histories run under map seed 0 only
		ck.checkRetarget(ctx, b, t, s, ws, withImage)
	}

	// --- ls-files (cheap, every case) and image (bounded)
	wantImg := s.expectImage(t)
	wantLs := make([]RefFile, len(wantImg))
	hasWKT := false
	for i, f := range wantImg {
		wantLs[i] = RefFile{Path: f.Path, IsImport: f.IsImport}
		hasWKT = hasWKT || f.Path == wktPath
	}
	gotLs, err := observeLsFiles(ctx, ws)
	if err != nil {
		ck.violate("lsfiles/error/"+errClass(err), "ls-files computation failed on a well-formed workspace: "+err.Error(), b, t, Case{Error: err.Error()})
	} else {
		ck.c.lsfiles.Add(1)
		if hasWKT {
			ck.c.lsWithWKT.Add(1)
		}
		if !reflect.DeepEqual(gotLs, wantLs) {
			ck.violate(fileListSignature("lsfiles", refPaths(gotLs), refPaths(wantLs)), "ls-files --include-imports list differs from the files the image must contain", b, t, Case{Observed: gotLs, Expected: wantLs})
		}
	}
	if !withImage {
		return
	}
	gotImg, err := observeImage(ctx, ws)
	if err != nil {
		ck.violate("image/error/"+errClass(err), "building the image of a well-formed workspace failed: "+err.Error(), b, t, Case{Error: err.Error()})
		return
	}
	ck.c.images.Add(1)
	targets := map[int]bool{}
	for _, i := range s.targetNodes(t) {
		targets[i] = true
	}
	for _, f := range wantImg {
		if o := s.ownerOf(f.Path); o >= 0 && !targets[o] {
			ck.c.imageNonTargetModuleFiles.Add(1)
		}
		if f.Path == wktProvPath {
			ck.c.wktImageFiles.Add(1)
		}
	}
	if !reflect.DeepEqual(gotImg, wantImg) {
		sig := fileListSignature("image", imgPaths(gotImg), imgPaths(wantImg))
		if sig == "image/import-flags-differ" || sig == "image/same-files" {
			// distinguish flags from attribution
			flagsEqual := true
			for i := range gotImg {
				if gotImg[i].IsImport != wantImg[i].IsImport {
					flagsEqual = false
				}
			}
			if flagsEqual {
				sig = "image/module-attribution-differs"
			} else {
				sig = "image/import-flags-differ"
			}
		}
		ck.violate(sig, "image differs from target files + import closure (non-target files only as imports)", b, t, Case{Observed: gotImg, Expected: wantImg})
	}
	// ls-files == image file list, directly
	if gotLs != nil && !reflect.DeepEqual(refPaths(gotLs), imgPaths(gotImg)) {
		ck.violate("lsfiles-vs-image/differ", "ls-files --include-imports and the built image disagree", b, t, Case{Observed: gotLs, Expected: gotImg})
	}
}

type pathFlag struct {
	Path     string
	IsImport bool
}

func refPaths(fs []RefFile) []pathFlag {
	out := make([]pathFlag, len(fs))
	for i, f := range fs {
		out[i] = pathFlag{f.Path, f.IsImport}
	}
	return out
}

func imgPaths(fs []ImgFile) []pathFlag {
	out := make([]pathFlag, len(fs))
	for i, f := range fs {
		out[i] = pathFlag{f.Path, f.IsImport}
	}
	return out
}

func fileListSignature(prefix string, got, want []pathFlag) string {
	gs, ws := map[string]bool{}, map[string]bool{}
	for _, f := range got {
		gs[f.Path] = true
	}
	for _, f := range want {
		ws[f.Path] = true
	}
	missing, extra := false, false
	for p := range ws {
		if !gs[p] {
			missing = true
		}
	}
	for p := range gs {
		if !ws[p] {
			extra = true
		}
	}
	switch {
	case missing && extra:
		return prefix + "/files-missing-and-extra"
	case missing:
		return prefix + "/files-missing"
	case extra:
		return prefix + "/files-extra"
	}
	if !reflect.DeepEqual(got, want) {
		return prefix + "/import-flags-differ"
	}
	return prefix + "/same-files"
}

func moduleSetSignature(s Spec, got, want []ModObs) string {
	gm := map[string]ModObs{}
	for _, m := range got {
		gm[m.ID] = m
	}
	if len(got) != len(want) {
		return "moduleset/wrong-module-count"
	}
	for i, k := range s.Kinds {
		if !s.present(i) {
			continue
		}
		m, ok := gm[s.modID(i)]
		if !ok {
			return "moduleset/module-missing/" + k.String()
		}
		if k == KBoth && (!m.Local || m.Commit != "") {
			return "moduleset/precedence/pinned-commit-chosen-over-local-module"
		}
		if k == KRemote && i == s.TwoCommit && m.Commit != commitString(commitIDAge(i, s.newestPinnedAge())) {
			for _, a := range s.ages() {
				if a > s.newestPinnedAge() && m.Commit == commitString(commitIDAge(i, a)) {
					return "moduleset/precedence/older-commit-chosen"
				}
			}
		}
	}
	for i := range want {
		if got[i].ID == want[i].ID && got[i].Target != want[i].Target {
			return "moduleset/wrong-target-flag"
		}
	}
	return "moduleset/other"
}

func depsSignature(got, want []RefDep) string {
	if len(got) != len(want) {
		if len(got) < len(want) {
			return "deps/dep-missing"
		}
		return "deps/dep-extra"
	}
	for i := range got {
		if got[i].ID != want[i].ID {
			return "deps/wrong-set"
		}
	}
	for i := range got {
		if got[i].Direct != want[i].Direct {
			if got[i].Direct {
				return "deps/transitive-flagged-direct"
			}
			return "deps/direct-flagged-transitive"
		}
	}
	return "deps/other"
}

// neverExercised marks the run incomplete for every clause counter that stayed zero (sorted, deterministic).
func neverExercised(r *evid.Run, m map[string]int64) {
	if r.Expired() {
		return
	}
	names := make([]string, 0, len(m))
	for n := range m {
		names = append(names, n)
	}
	sort.Strings(names)
	for _, n := range names {
		if m[n] == 0 {
			r.Incomplete("clause never exercised: " + n)
		}
	}
}
