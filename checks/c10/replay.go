package c10

import (
	"context"
	"encoding/json"
	"fmt"
	"os"
	"sort"
	"strings"
	"time"

	"github.com/bufbuild/bufverif/internal/evid"
)

func init() { evid.RegisterReplay("C10", replay) }

// UnmarshalText is the inverse of MarshalText.
func (k *Kind) UnmarshalText(b []byte) error {
	for _, c := range []Kind{KLocal, KNamed, KRemote, KBoth} {
		if c.String() == string(b) {
			*k = c
			return nil
		}
	}
	return fmt.Errorf("unknown kind %q", b)
}

// parseGraph reads the Graph.String() form "n3[0>1,1>2]".
func parseGraph(s string) (Graph, error) {
	var n int
	open := strings.Index(s, "[")
	if open < 0 || !strings.HasSuffix(s, "]") {
		return Graph{}, fmt.Errorf("cannot parse graph %q", s)
	}
	if _, err := fmt.Sscanf(s[:open], "n%d", &n); err != nil || n < 1 || n > 6 {
		return Graph{}, fmt.Errorf("cannot parse graph %q", s)
	}
	g := Graph{N: n, Adj: make([][]bool, n)}
	for i := range g.Adj {
		g.Adj[i] = make([]bool, n)
	}
	body := s[open+1 : len(s)-1]
	if body == "" {
		return g, nil
	}
	for _, e := range strings.Split(body, ",") {
		var i, j int
		if _, err := fmt.Sscanf(e, "%d>%d", &i, &j); err != nil || i < 0 || j < 0 || i >= n || j >= n {
			return Graph{}, fmt.Errorf("cannot parse edge %q", e)
		}
		g.Adj[i][j] = true
	}
	return g, nil
}

// replay re-judges one recorded case (spec + target) on the current tree with every oracle that applies to it.
func replay(raw json.RawMessage) (string, bool) {
	var c struct {
		Spec   Spec   `json:"spec"`
		Target Target `json:"target"`
	}
	// fields a replay file written before the check was strengthened does not have keep their "none" value
	c.Spec = Spec{TwoCommit: -1, DupFrom: -1, DupInto: -1, MissingIn: -1, MapSeed: -1, WKTProv: -1}
	if err := json.Unmarshal(raw, &c); err != nil {
		return "cannot decode the case: " + err.Error(), false
	}
	g, err := parseGraph(c.Spec.Graph)
	if err != nil {
		return err.Error(), false
	}
	s := c.Spec
	s.G = g
	if len(s.Kinds) != g.N {
		return "kinds do not match the graph", false
	}
	if ok, why := s.valid(); !ok {
		return "the spec is not valid: " + why, false
	}
	ctx := context.Background()
	b, err := build(ctx, s)
	if err != nil {
		return "cannot build the spec: " + err.Error(), false
	}
	r := evid.NewRun("C10", "replay", "exploration", 5*time.Minute)
	ck := &checker{r: r, record: map[string]string{}}
	plant := s.DupFrom >= 0 || s.MissingIn >= 0
	if s.MapSeed >= 0 {
		if !mapSeedAvailable() {
			return "the case needs a controlled map iteration seed, and this binary was built without the mapseed tag/overlay", false
		}
		setMapSeed(uint64(s.MapSeed), true)
		defer setMapSeed(0, false)
	}
	switch {
	case s.Fault != nil:
		ck.checkFault(ctx, b, c.Target, true)
	case plant:
		ck.checkPlant(ctx, b, c.Target)
	default:
		ck.checkCase(ctx, b, c.Target, true)
	}
	if s.Fault == nil && (len(s.remotes()) == 0 || onlyBoth(s)) {
		if dir, err := os.MkdirTemp("", "verif-c10-"); err == nil {
			defer os.RemoveAll(dir)
			if writeTree(dir, b.Files) == nil {
				var cc cliCounters
				ck.checkCLI(ctx, &cc, b, dir, c.Target)
			}
		}
	}
	if len(ck.record) == 0 {
		return fmt.Sprintf("%s target %s: all oracles hold", s.key(), c.Target), false
	}
	var sigs []string
	for sig, what := range ck.record {
		sigs = append(sigs, sig+": "+what)
	}
	sort.Strings(sigs)
	return fmt.Sprintf("%s target %s: %s", s.key(), c.Target, strings.Join(sigs, "; ")), true
}

func onlyBoth(s Spec) bool {
	for _, k := range s.Kinds {
		if k == KRemote {
			return false
		}
	}
	return true
}
