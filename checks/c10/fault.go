package c10

import (
	"context"
	"errors"
	"strings"
	"sync/atomic"

	"github.com/bufbuild/buf/private/bufpkg/bufmodule"
	"github.com/bufbuild/buf/private/pkg/storage"
	"github.com/bufbuild/buf/private/pkg/storage/storagemem"
)

// errInjected is what an injected registry fault returns. It is deliberately not fs.ErrNotExist: a
// module whose content cannot be obtained is not a module that lacks the file.
var errInjected = errors.New("c10: injected registry fault (module content unavailable)")

// faultOps are the enumerated fault points of the ModuleDataProvider side (see Fault).
var faultOpsQuick = []string{"data", "tamper", "stat"}
var faultOpsAll = []string{"data", "tamper", "bucket", "stat", "read", "walk"}

// faultProvider serves everything like the multiProvider except the content (or, op commit, the commit
// metadata) of the module called name.
type faultProvider struct {
	*multiProvider
	name string
	op   string
	hits atomic.Int64
}

func (p *faultProvider) GetModuleDatasForModuleKeys(ctx context.Context, keys []bufmodule.ModuleKey) ([]bufmodule.ModuleData, error) {
	if p.op == "commit" {
		return p.multiProvider.GetModuleDatasForModuleKeys(ctx, keys)
	}
	out := make([]bufmodule.ModuleData, 0, len(keys))
	for _, k := range keys {
		if k.FullName().String() != p.name {
			ds, err := p.multiProvider.GetModuleDatasForModuleKeys(ctx, []bufmodule.ModuleKey{k})
			if err != nil {
				return nil, err
			}
			out = append(out, ds...)
			continue
		}
		p.hits.Add(1)
		if p.op == "data" {
			return nil, errInjected
		}
		ds, err := p.multiProvider.GetModuleDatasForModuleKeys(ctx, []bufmodule.ModuleKey{k})
		if err != nil {
			return nil, err
		}
		if len(ds) != 1 {
			return nil, errors.New("c10 provider: expected one ModuleData")
		}
		d, op := ds[0], p.op
		out = append(out, bufmodule.NewModuleData(ctx, k,
			func() (storage.ReadBucket, error) {
				if op == "bucket" {
					return nil, errInjected
				}
				b, err := d.Bucket()
				if err != nil {
					return nil, err
				}
				if op == "tamper" {
					return tamperedBucket(ctx, b)
				}
				return &faultBucket{ReadBucket: b, op: op}, nil
			},
			func() ([]bufmodule.ModuleKey, error) { return d.DepModuleKeys() },
			func() (bufmodule.ObjectData, error) { return d.V1Beta1OrV1BufYAMLObjectData() },
			func() (bufmodule.ObjectData, error) { return d.V1Beta1OrV1BufLockObjectData() },
		))
	}
	return out, nil
}

func (p *faultProvider) GetCommitsForModuleKeys(ctx context.Context, keys []bufmodule.ModuleKey) ([]bufmodule.Commit, error) {
	if p.op == "commit" {
		for _, k := range keys {
			if k.FullName().String() == p.name {
				p.hits.Add(1)
				return nil, errInjected
			}
		}
	}
	return p.multiProvider.GetCommitsForModuleKeys(ctx, keys)
}

// faultBucket fails one kind of operation of a module's bucket.
type faultBucket struct {
	storage.ReadBucket
	op string
}

func (b *faultBucket) Get(ctx context.Context, path string) (storage.ReadObjectCloser, error) {
	if b.op == "read" {
		return nil, errInjected
	}
	return b.ReadBucket.Get(ctx, path)
}

func (b *faultBucket) Stat(ctx context.Context, path string) (storage.ObjectInfo, error) {
	if b.op == "stat" {
		return nil, errInjected
	}
	return b.ReadBucket.Stat(ctx, path)
}

func (b *faultBucket) Walk(ctx context.Context, prefix string, f func(storage.ObjectInfo) error) error {
	if b.op == "walk" {
		return errInjected
	}
	return b.ReadBucket.Walk(ctx, prefix, f)
}

// tamperedBucket is the content of b with every proto file changed, so that it no longer matches the digest
// the buf.lock pins.
func tamperedBucket(ctx context.Context, b storage.ReadBucket) (storage.ReadBucket, error) {
	files := map[string][]byte{}
	if err := b.Walk(ctx, "", func(oi storage.ObjectInfo) error {
		data, err := storage.ReadPath(ctx, b, oi.Path())
		if err != nil {
			return err
		}
		if strings.HasSuffix(oi.Path(), ".proto") {
			data = append(data, []byte("// tampered\n")...)
		}
		files[oi.Path()] = data
		return nil
	}); err != nil {
		return nil, err
	}
	return storagemem.NewReadBucket(files)
}

// faultSurfaced reports whether err is (or wraps) what the injected fault produces.
func faultSurfaced(err error) bool {
	if errors.Is(err, errInjected) {
		return true
	}
	var mismatch *bufmodule.DigestMismatchError
	return errors.As(err, &mismatch)
}
