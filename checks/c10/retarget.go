package c10

import (
	"context"
	"fmt"
	"reflect"
	"sort"
	"strings"

	"github.com/bufbuild/buf/private/buf/bufworkspace"
	"github.com/bufbuild/buf/private/bufpkg/bufmodule"
	"github.com/bufbuild/buf/private/bufpkg/bufparse"
	"github.com/bufbuild/buf/private/pkg/uuidutil"
	"github.com/google/uuid"
)

// Third strengthening round (see NOTES.md):
//
//	R  the dependency REPORTS computed from a module set: RemoteDepsForModuleSet (buf.lock pruning/updating,
//	   unused-dep detection), MalformedDepsForWorkspace (the unused-dep warning), and the push dependency
//	   list (ModuleSetTargetLocalModulesAndTransitiveLocalDeps -> RemoteDepsForModules), against a reference
//	   computed from the digraph and the node kinds alone; plus the lookups of the module set by commit id
//	   and by name and ModuleToModuleKey of every pinned module.
//	T  re-targeting histories: the module set of an opened workspace is re-targeted with
//	   ModuleSet.WithTargetOpaqueIDs (as bufctl does for every target module before it builds the lint /
//	   breaking / generate image), once and twice in a row, and EVERY oracle of the check is evaluated again
//	   on the re-targeted set with the reference recomputed for the new target set; the set it was derived
//	   from must not change.

// RemoteDepObs is one reported remote dependency.
type RemoteDepObs struct {
	ID     string `json:"id"`
	Direct bool   `json:"direct"`
	Commit string `json:"commit,omitempty"`
	Local  bool   `json:"local,omitempty"`
}

func remoteDepObs(deps []bufmodule.RemoteDep) []RemoteDepObs {
	out := make([]RemoteDepObs, 0, len(deps))
	for _, d := range deps {
		out = append(out, RemoteDepObs{ID: d.OpaqueID(), Direct: d.IsDirect(), Commit: commitString(d.CommitID()), Local: d.IsLocal()})
	}
	sort.Slice(out, func(i, j int) bool { return out[i].ID < out[j].ID })
	return out
}

// observeRemoteDeps is what `buf dep prune/update` and the unused-dep detection start from.
func observeRemoteDeps(ms bufmodule.ModuleSet) ([]RemoteDepObs, error) {
	deps, err := bufmodule.RemoteDepsForModuleSet(ms)
	if err != nil {
		return nil, err
	}
	return remoteDepObs(deps), nil
}

// observePushDeps is the dependency list the uploader computes for `buf push`: the remote deps of the
// targeted local modules and their transitive local deps.
func observePushDeps(ms bufmodule.ModuleSet) ([]string, []RemoteDepObs, error) {
	mods, err := bufmodule.ModuleSetTargetLocalModulesAndTransitiveLocalDeps(ms)
	if err != nil {
		return nil, nil, err
	}
	ids := make([]string, 0, len(mods))
	for _, m := range mods {
		ids = append(ids, m.OpaqueID())
	}
	sort.Strings(ids)
	deps, err := bufmodule.RemoteDepsForModules(mods)
	if err != nil {
		return ids, nil, err
	}
	return ids, remoteDepObs(deps), nil
}

// ---- reference

// expectModulesFor is expectModules for an explicit target node set.
func (s Spec) expectModulesFor(targets []int) []ModObs {
	isTarget := map[int]bool{}
	for _, i := range targets {
		isTarget[i] = true
	}
	var out []ModObs
	for i := range s.Kinds {
		if !s.present(i) {
			continue
		}
		out = append(out, ModObs{ID: s.modID(i), Local: s.Kinds[i].local(), Target: isTarget[i], Commit: s.commitOf(i)})
	}
	sort.Slice(out, func(i, j int) bool { return out[i].ID < out[j].ID })
	return out
}

// closureOf is the node set plus everything reachable from it.
func (s Spec) closureOf(nodes []int) []bool {
	in := make([]bool, s.G.N)
	for _, i := range nodes {
		in[i] = true
		for j, r := range s.G.reach(i) {
			if r {
				in[j] = true
			}
		}
	}
	return in
}

// expectDAGFor is expectDAG for an explicit target node set.
func (s Spec) expectDAGFor(nodes []int) (cycle bool, obs *DAGObs) {
	in := s.closureOf(nodes)
	for i, x := range in {
		if x && s.G.onCycle(i) {
			return true, nil
		}
	}
	obs = &DAGObs{}
	for i, x := range in {
		if !x {
			continue
		}
		obs.Nodes = append(obs.Nodes, s.modID(i))
		for _, j := range s.G.outs(i) {
			obs.Edges = append(obs.Edges, [2]string{s.modID(i), s.modID(j)})
		}
	}
	sort.Strings(obs.Nodes)
	sortEdges(obs.Edges)
	return false, obs
}

// expectRemoteDeps: the remote dependencies reported for the local modules `roots` are exactly the
// provider-only modules reachable from one of them through imports (through local and remote modules alike;
// a module present locally is never one of them, whether or not a commit of its name is pinned), each at its
// effective commit, flagged direct iff one of the roots imports it itself. A root on a cycle is an error.
func (s Spec) expectRemoteDeps(roots []int) (cycle bool, deps []RemoteDepObs) {
	reached := make([]bool, s.G.N)
	direct := make([]bool, s.G.N)
	for _, l := range roots {
		if s.G.onCycle(l) {
			return true, nil
		}
		for j, r := range s.G.reach(l) {
			if r {
				reached[j] = true
			}
		}
		for _, j := range s.G.outs(l) {
			direct[j] = true
		}
	}
	deps = []RemoteDepObs{}
	for i, k := range s.Kinds {
		if k == KRemote && reached[i] {
			deps = append(deps, RemoteDepObs{ID: s.modID(i), Direct: direct[i], Commit: s.commitOf(i)})
		}
	}
	sort.Slice(deps, func(a, b int) bool { return deps[a].ID < deps[b].ID })
	return false, deps
}

// pushRoots are the local modules whose content `buf push` uploads for the given target nodes: the local
// targets and every local module they reach (also through a remote module).
func (s Spec) pushRoots(targets []int) (cycle bool, roots []int) {
	var localTargets []int
	for _, i := range targets {
		if s.Kinds[i].local() {
			localTargets = append(localTargets, i)
		}
	}
	in := s.closureOf(localTargets)
	for i, x := range in {
		if x && s.G.onCycle(i) {
			cycle = true
		}
		if x && s.Kinds[i].local() {
			roots = append(roots, i)
		}
	}
	return cycle, roots
}

func remoteDepsSignature(got, want []RemoteDepObs) string {
	if len(got) < len(want) {
		return "dep-missing"
	}
	if len(got) > len(want) {
		for _, d := range got {
			if d.Local {
				return "local-module-reported"
			}
		}
		return "dep-extra"
	}
	for i := range got {
		if got[i].ID != want[i].ID {
			return "wrong-set"
		}
	}
	for i := range got {
		if got[i].Local {
			return "local-module-reported"
		}
		if got[i].Commit != want[i].Commit {
			if got[i].Commit == "" {
				return "pinned-commit-lost"
			}
			return "wrong-commit"
		}
	}
	for i := range got {
		if got[i].Direct != want[i].Direct {
			if got[i].Direct {
				return "transitive-flagged-direct"
			}
			return "direct-flagged-transitive"
		}
	}
	return "other"
}

// checkReports judges the dependency reports of a module set (family R). prefix is "" for the set of the
// opened workspace and "retarget/" for a re-targeted one; ws is nil for a re-targeted set.
func (ck *checker) checkReports(prefix string, b *Built, t Target, s Spec, ms bufmodule.ModuleSet, ws bufworkspace.Workspace, targets []int, hist [][]int) {
	hasRemote := false
	for i, k := range s.Kinds {
		if k == KRemote && s.present(i) {
			hasRemote = true
		}
	}
	// --- RemoteDepsForModuleSet: the roots are all local modules of the set
	cyc, want := s.expectRemoteDeps(s.locals())
	got, err := observeRemoteDeps(ms)
	switch {
	case cyc:
		ck.c.remoteDepsCycle.Add(1)
		if err == nil {
			ck.violate(prefix+"remotedeps/local-module-on-cycle/no-error", "RemoteDepsForModuleSet returned a report although a local module is on an import cycle", b, t, Case{Observed: got, Retargets: hist})
		} else if cls := errClass(err); cls != "cycle" {
			ck.violate(prefix+"remotedeps/local-module-on-cycle/wrong-error/"+cls, "RemoteDepsForModuleSet: "+err.Error(), b, t, Case{Error: err.Error(), Retargets: hist})
		}
	case err != nil:
		ck.violate(prefix+"remotedeps/error/"+errClass(err), "RemoteDepsForModuleSet failed on a workspace without ambiguity: "+err.Error(), b, t, Case{Error: err.Error(), Expected: want, Retargets: hist})
	default:
		ck.c.remoteDepsExact.Add(1)
		if hasRemote {
			ck.c.remoteDepsNonEmpty.Add(1)
		}
		if s.remoteReachesShadowed() {
			ck.c.remoteReachesShadowed.Add(1)
		}
		if !reflect.DeepEqual(got, want) {
			ck.violate(prefix+"remotedeps/"+remoteDepsSignature(got, want), "the remote dependencies reported for the workspace differ from the provider-only modules its local modules reach (at their pinned commits, direct = imported by a local module)", b, t, Case{Observed: got, Expected: want, Retargets: hist})
		}
	}
	// --- the unused-dependency report of the workspace: every configured dep is reached or is a local module
	if ws != nil {
		mal, err := bufworkspace.MalformedDepsForWorkspace(ws)
		switch {
		case cyc:
			if err == nil {
				ck.violate(prefix+"unuseddeps/local-module-on-cycle/no-error", "MalformedDepsForWorkspace returned a report although a local module is on an import cycle", b, t, Case{Retargets: hist})
			}
		case err != nil:
			ck.violate(prefix+"unuseddeps/error/"+errClass(err), "MalformedDepsForWorkspace failed on a workspace without ambiguity: "+err.Error(), b, t, Case{Error: err.Error(), Retargets: hist})
		default:
			ck.c.unusedDeps.Add(1)
			if len(mal) > 0 {
				var names []string
				for _, m := range mal {
					names = append(names, m.ModuleRef().FullName().String())
				}
				ck.violate(prefix+"unuseddeps/used-dep-reported-unused", "a configured dependency that a local module reaches through imports (or that is a local module) is reported as unused", b, t, Case{Observed: names, Retargets: hist})
			}
		}
	}
	// --- push: the targeted local modules plus their transitive local deps, and their remote deps
	if targets == nil {
		return // which modules are targets is not determined (shared directory, file or --path target)
	}
	pcyc, roots := s.pushRoots(targets)
	if pcyc && ck.cycleErrorBroken.Load() {
		return // the walk relies on the cycle error to terminate
	}
	gotIDs, gotPush, err := observePushDeps(ms)
	switch {
	case pcyc:
		if err == nil {
			ck.violate(prefix+"pushdeps/cycle-in-closure/no-error", "the push module list was computed although a module on a cycle is in the closure of the targets", b, t, Case{Observed: gotIDs, Retargets: hist})
		} else if cls := errClass(err); cls != "cycle" {
			ck.violate(prefix+"pushdeps/cycle-in-closure/wrong-error/"+cls, "push module list: "+err.Error(), b, t, Case{Error: err.Error(), Retargets: hist})
		}
	case err != nil:
		ck.violate(prefix+"pushdeps/error/"+errClass(err), "the push module list / its remote deps failed on an acyclic closure: "+err.Error(), b, t, Case{Error: err.Error(), Retargets: hist})
	default:
		ck.c.pushDeps.Add(1)
		wantIDs := make([]string, 0, len(roots))
		for _, i := range roots {
			wantIDs = append(wantIDs, s.modID(i))
		}
		sort.Strings(wantIDs)
		_, wantPush := s.expectRemoteDeps(roots)
		if !reflect.DeepEqual(append([]string{}, gotIDs...), wantIDs) {
			ck.violate(prefix+"pushdeps/wrong-local-modules", "the modules to push differ from the local targets plus the local modules they reach", b, t, Case{Observed: gotIDs, Expected: wantIDs, Retargets: hist})
		} else if !reflect.DeepEqual(gotPush, wantPush) {
			ck.violate(prefix+"pushdeps/"+remoteDepsSignature(gotPush, wantPush), "the remote deps of the modules to push differ from the provider-only modules they reach", b, t, Case{Observed: gotPush, Expected: wantPush, Retargets: hist})
		}
	}
}

// remoteReachesShadowed: a provider-only module that is part of the workspace imports a module that is
// present locally and also pinned (the local one shadows the commit the remote module was built against).
func (s Spec) remoteReachesShadowed() bool {
	for i, k := range s.Kinds {
		if k != KRemote || !s.present(i) {
			continue
		}
		for j, r := range s.G.reach(i) {
			if r && s.Kinds[j] == KBoth {
				return true
			}
		}
	}
	return false
}

// checkLookups: the module set can be asked for a module by the commit id buf.lock pins and by name; a pinned
// module must be found under its effective commit and yield a module key with that commit; the pinned commit of
// a module that is present locally is not part of the set (the local module took its place).
func (ck *checker) checkLookups(prefix string, b *Built, t Target, s Spec, ms bufmodule.ModuleSet, hist [][]int) {
	for i, k := range s.Kinds {
		if !s.present(i) {
			continue
		}
		id := s.modID(i)
		if k != KLocal {
			fn, err := bufparse.ParseFullName(modName(i))
			if err != nil {
				continue
			}
			if m := ms.GetModuleForFullName(fn); m == nil || m.OpaqueID() != id {
				ck.violate(prefix+"moduleset/lookup/by-name/not-found", "GetModuleForFullName does not find a named module of the set", b, t, Case{Module: id, Retargets: hist})
			}
		}
		switch k {
		case KRemote:
			ck.c.lookups.Add(1)
			var want uuid.UUID
			if i == s.TwoCommit {
				want = commitIDAge(i, s.newestPinnedAge())
			} else {
				want = commitID(i, false)
			}
			m := ms.GetModuleForCommitID(want)
			if m == nil || m.OpaqueID() != id {
				ck.violate(prefix+"moduleset/lookup/by-commit/pinned-module-not-found", "GetModuleForCommitID does not find the module pinned at that commit", b, t, Case{Module: id, Expected: uuidutil.ToDashless(want), Retargets: hist})
			}
			if mm := ms.GetModuleForOpaqueID(id); mm != nil {
				key, err := bufmodule.ModuleToModuleKey(mm, bufmodule.DigestTypeB5)
				if err != nil {
					ck.violate(prefix+"moduleset/module-key/error", "a pinned module of the set cannot be turned into a module key (needed to write buf.lock, to report the pins): "+err.Error(), b, t, Case{Module: id, Error: err.Error(), Retargets: hist})
				} else if key.CommitID() != want {
					ck.violate(prefix+"moduleset/module-key/wrong-commit", "the module key of a pinned module names another commit than the pinned one", b, t, Case{Module: id, Observed: uuidutil.ToDashless(key.CommitID()), Expected: uuidutil.ToDashless(want), Retargets: hist})
				}
			}
		case KBoth:
			if len(s.pinners(i)) == 0 {
				continue
			}
			if m := ms.GetModuleForCommitID(commitID(i, false)); m != nil {
				ck.violate(prefix+"moduleset/lookup/by-commit/shadowed-commit-found", "the pinned commit of a module that is present locally is part of the module set", b, t, Case{Module: id, Observed: m.OpaqueID(), Retargets: hist})
			}
		}
	}
}

// ---------------------------------------------------------------------------------------------
// family T: re-targeting histories

// subsetsOf returns the non-empty subsets of nodes (in a fixed order: by size, then lexicographically).
func subsetsOf(nodes []int) [][]int {
	var out [][]int
	n := len(nodes)
	for size := 1; size <= n; size++ {
		for mask := 1; mask < 1<<n; mask++ {
			var sub []int
			for k := 0; k < n; k++ {
				if mask&(1<<k) != 0 {
					sub = append(sub, nodes[k])
				}
			}
			if len(sub) == size {
				out = append(out, sub)
			}
		}
	}
	return out
}

func (s Spec) presentNodes() []int {
	var out []int
	for i := range s.Kinds {
		if s.present(i) {
			out = append(out, i)
		}
	}
	return out
}

func (s Spec) idsOf(nodes []int) []string {
	out := make([]string, len(nodes))
	for k, i := range nodes {
		out[k] = s.modID(i)
	}
	return out
}

// retargetPlans are the re-targeting histories run for one opened workspace: sequences of target node sets.
//
//	workspace target: every non-empty subset of the modules of the set (provider-only modules included) when it
//	  has <= 3 modules, else every single module and all local modules; plus the two-step histories (first set,
//	  second set): quick the ordered pairs of different single modules, thorough every pair of subsets (sets of
//	  <= 3 modules only).
//	module-directory target: quick the target module itself (what bufctl does), thorough every subset (<= 3 modules).
//	proto-file / --path / sub-directory targets: the one history the CLI itself produces: the target module alone
//	  (its path restriction stays; the reference is the one of the original target); quick without the
//	  sub-directory target (same mechanism as --path).
//	four or more graph nodes (thorough n = 4, family M): the workspace target only, single modules and all locals.
func (ck *checker) retargetPlans(s Spec, t Target) [][][]int {
	nodes := s.presentNodes()
	quick := ck.r.Quick()
	var plans [][][]int
	single := func(sets [][]int) {
		for _, a := range sets {
			plans = append(plans, [][]int{a})
		}
	}
	var singles [][]int
	for _, i := range nodes {
		singles = append(singles, []int{i})
	}
	if s.G.N >= 4 {
		if t.Kind == "all" {
			single(singles)
			if len(s.locals()) > 1 {
				single([][]int{s.locals()})
			}
		}
		return plans
	}
	switch t.Kind {
	case "all":
		subsets := subsetsOf(nodes)
		single(subsets)
		if quick {
			for _, a := range singles {
				for _, c := range singles {
					if a[0] != c[0] {
						plans = append(plans, [][]int{a, c})
					}
				}
			}
		} else {
			for _, a := range subsets {
				for _, c := range subsets {
					plans = append(plans, [][]int{a, c})
				}
			}
		}
	case "dir":
		if quick {
			single([][]int{{t.Node}})
		} else {
			single(subsetsOf(nodes))
		}
	case "pathdir":
		if quick {
			break
		}
		fallthrough
	default:
		if !s.shared() {
			single([][]int{{t.Node}})
		}
	}
	return plans
}

// checkRetarget runs the re-targeting histories on the module set of an opened workspace (family T).
func (ck *checker) checkRetarget(ctx context.Context, b *Built, t Target, s Spec, ws bufworkspace.Workspace, withImage bool) {
	before := observeModules(ws)
	pathRestricted := t.Kind == "file" || t.Kind == "path" || t.Kind == "pathdir"
	for _, plan := range ck.retargetPlans(s, t) {
		var ms bufmodule.ModuleSet = ws
		ok := true
		for _, set := range plan {
			for _, id := range s.idsOf(set) {
				if id == "" {
					ok = false // an unnamed module of a shared directory could not be identified (already reported)
				}
			}
		}
		if !ok {
			continue
		}
		ck.r.Eval(1)
		if hasEdge(s.G) {
			ck.r.Distinct(s.key() + "/" + t.String() + "/retarget:" + planString(plan))
		}
		for step, set := range plan {
			next, err := ms.WithTargetOpaqueIDs(s.idsOf(set)...)
			if err != nil {
				ck.violate("retarget/error/"+errClass(err), fmt.Sprintf("WithTargetOpaqueIDs failed at step %d: %s", step+1, err.Error()), b, t, Case{Error: err.Error(), Retargets: plan})
				ok = false
				break
			}
			ms = next
		}
		if !ok {
			continue
		}
		ck.c.retargets.Add(1)
		if len(plan) > 1 {
			ck.c.retargetChains.Add(1)
		}
		final := plan[len(plan)-1]
		// target files: all files of the targeted modules, unless the workspace was opened with a path
		// restriction (then the only history is the target module itself, and its restriction stays)
		var targetFiles []string
		judgeFiles := true
		if pathRestricted {
			targetFiles = s.targetFiles(t)
		} else {
			for _, i := range final {
				if s.Kinds[i] == KRemote && s.TwoCommit >= 0 {
					judgeFiles = false // which marker files the chosen commit holds is not modelled for a target
				}
				targetFiles = append(targetFiles, aPath(i), bPath(i))
				if i == s.WKTProv {
					targetFiles = append(targetFiles, wktProvPath)
				}
			}
		}
		// images: single-step histories onto one module, where the case has an image at all: n <= 2 every target,
		// thorough also n = 3 for the workspace target
		img := withImage && len(plan) == 1 && len(final) == 1 && (s.G.N <= 2 || (!ck.r.Quick() && s.G.N == 3 && t.Kind == "all"))
		ck.checkModuleSetView(ctx, b, t, s, ms, final, targetFiles, judgeFiles, img, plan)
	}
	if after := observeModules(ws); !reflect.DeepEqual(before, after) {
		ck.violate("retarget/original-set-changed", "re-targeting changed the module set it was derived from", b, t, Case{Observed: after, Expected: before})
	}
}

// checkModuleSetView evaluates every oracle of the check on a re-targeted module set: the reference is the
// one of the workspace with `targets` as the target modules.
func (ck *checker) checkModuleSetView(ctx context.Context, b *Built, t Target, s Spec, ms bufmodule.ModuleSet, targets []int, targetFiles []string, judgeFiles, withImage bool, hist [][]int) {
	const prefix = "retarget/"
	// --- module set
	gotMods, wantMods := observeModules(ms), s.expectModulesFor(targets)
	if !reflect.DeepEqual(gotMods, wantMods) {
		sig := moduleSetSignature(s, gotMods, wantMods)
		if sig == "moduleset/other" || sig == "moduleset/wrong-target-flag" {
			for i := range wantMods {
				if i < len(gotMods) && gotMods[i].ID == wantMods[i].ID && wantMods[i].Commit != "" && gotMods[i].Commit == "" {
					sig = "moduleset/pinned-commit-lost"
				}
			}
		}
		ck.violate(prefix+sig, "the re-targeted module set differs from the reference (same modules, same commits, the new targets)", b, t, Case{Observed: gotMods, Expected: wantMods, Retargets: hist})
	}
	ck.checkLookups(prefix, b, t, s, ms, hist)
	// --- ModuleDeps of every module: independent of the targets
	for i := range s.Kinds {
		if !s.present(i) {
			continue
		}
		m := ms.GetModuleForOpaqueID(s.modID(i))
		if m == nil {
			continue
		}
		got, err := observeDeps(m)
		onCycle, want := s.expectDeps(i)
		switch {
		case onCycle:
			if err == nil {
				ck.cycleErrorBroken.Store(true)
				ck.violate(prefix+"deps/module-on-cycle/no-error", "ModuleDeps of a module on an import cycle returned deps instead of an error", b, t, Case{Module: s.modID(i), Observed: got, Retargets: hist})
			} else if cls := errClass(err); cls != "cycle" {
				ck.violate(prefix+"deps/module-on-cycle/wrong-error/"+cls, "ModuleDeps: "+err.Error(), b, t, Case{Module: s.modID(i), Error: err.Error(), Retargets: hist})
			}
		case err != nil:
			ck.violate(prefix+"deps/module-not-on-cycle/error/"+errClass(err), "ModuleDeps failed for a module that is on no cycle: "+err.Error(), b, t, Case{Module: s.modID(i), Error: err.Error(), Expected: want, Retargets: hist})
		case !reflect.DeepEqual(got, want):
			ck.violate(prefix+depsSignature(got, want), "ModuleDeps on the re-targeted set differs from reachable-minus-self / first-hop", b, t, Case{Module: s.modID(i), Observed: got, Expected: want, Retargets: hist})
		}
	}
	// --- ModuleSetToDAG from the new targets
	dagCycle, wantDAG := s.expectDAGFor(targets)
	if !(dagCycle && ck.cycleErrorBroken.Load()) {
		gotDAG, err := observeDAG(ms)
		switch {
		case dagCycle:
			if err == nil {
				ck.violate(prefix+"dag/cycle-in-closure/no-error", "ModuleSetToDAG succeeded although a module on a cycle is in the closure of the new targets", b, t, Case{Observed: gotDAG, Retargets: hist})
			} else if cls := errClass(err); cls != "cycle" {
				ck.violate(prefix+"dag/cycle-in-closure/wrong-error/"+cls, "ModuleSetToDAG: "+err.Error(), b, t, Case{Error: err.Error(), Retargets: hist})
			}
		case err != nil:
			ck.violate(prefix+"dag/acyclic-closure/error/"+errClass(err), "ModuleSetToDAG failed: "+err.Error(), b, t, Case{Error: err.Error(), Expected: wantDAG, Retargets: hist})
		case !reflect.DeepEqual(gotDAG.Nodes, wantDAG.Nodes):
			ck.violate(prefix+"dag/wrong-nodes", "ModuleSetToDAG node set differs from the new targets plus reachable", b, t, Case{Observed: gotDAG, Expected: wantDAG, Retargets: hist})
		case !reflect.DeepEqual(gotDAG.Edges, wantDAG.Edges):
			ck.violate(prefix+"dag/wrong-edges", "ModuleSetToDAG edge set differs from the import edges", b, t, Case{Observed: gotDAG, Expected: wantDAG, Retargets: hist})
		}
	}
	// --- dependency reports
	ck.checkReports(prefix, b, t, s, ms, nil, targets, hist)
	// --- ls-files and image
	if !judgeFiles {
		return
	}
	var wantImg []ImgFile
	for _, f := range refImage(s.G, s.WKTProv, targetFiles) {
		x := ImgFile{Path: f.Path, IsImport: f.IsImport}
		if i := s.ownerOf(f.Path); i >= 0 {
			x.Module, x.Commit = s.nameOf(i), s.commitOf(i)
		}
		wantImg = append(wantImg, x)
	}
	wantLs := make([]RefFile, len(wantImg))
	for i, f := range wantImg {
		wantLs[i] = RefFile{Path: f.Path, IsImport: f.IsImport}
	}
	gotLs, err := observeLsFiles(ctx, ms)
	if err != nil {
		ck.violate(prefix+"lsfiles/error/"+errClass(err), "ls-files computation failed on the re-targeted set: "+err.Error(), b, t, Case{Error: err.Error(), Retargets: hist})
	} else {
		ck.c.retargetLs.Add(1)
		if !reflect.DeepEqual(gotLs, wantLs) {
			ck.violate(prefix+fileListSignature("lsfiles", refPaths(gotLs), refPaths(wantLs)), "ls-files on the re-targeted set differs from the files of the new targets plus their import closure", b, t, Case{Observed: gotLs, Expected: wantLs, Retargets: hist})
		}
	}
	if !withImage {
		return
	}
	gotImg, err := observeImage(ctx, ms)
	if err != nil {
		ck.violate(prefix+"image/error/"+errClass(err), "building the image of the re-targeted set failed: "+err.Error(), b, t, Case{Error: err.Error(), Retargets: hist})
		return
	}
	ck.c.retargetImages.Add(1)
	for _, f := range wantImg {
		if f.IsImport && f.Commit != "" {
			ck.c.retargetImagePinnedImports.Add(1)
		}
	}
	if !reflect.DeepEqual(gotImg, wantImg) {
		sig := fileListSignature("image", imgPaths(gotImg), imgPaths(wantImg))
		if sig == "image/import-flags-differ" || sig == "image/same-files" {
			flagsEqual := true
			for i := range gotImg {
				if gotImg[i].IsImport != wantImg[i].IsImport {
					flagsEqual = false
				}
			}
			if flagsEqual {
				sig = "image/module-attribution-differs"
			} else {
				sig = "image/import-flags-differ"
			}
		}
		ck.violate(prefix+sig, "the image built from the re-targeted set differs from the files of the new targets + import closure, each attributed to its module and pinned commit", b, t, Case{Observed: gotImg, Expected: wantImg, Retargets: hist})
	}
}

func planString(plan [][]int) string {
	parts := make([]string, len(plan))
	for i, p := range plan {
		parts[i] = strings.Trim(strings.ReplaceAll(fmt.Sprint(p), " ", ","), "[]")
	}
	return strings.Join(parts, ">")
}
