package c10

import (
	"bytes"
	"context"
	"fmt"
	"sort"
	"strings"
	"time"

	"github.com/bufbuild/buf/private/bufpkg/bufconfig"
	"github.com/bufbuild/buf/private/bufpkg/bufmodule"
	"github.com/bufbuild/buf/private/bufpkg/bufmodule/bufmoduletesting"
	"github.com/bufbuild/buf/private/bufpkg/bufparse"
	"github.com/bufbuild/buf/private/pkg/dag"
	"github.com/bufbuild/bufverif/internal/bufx"
	"github.com/google/uuid"
)

// Spec is one workspace of the enumerated space (without the target choice).
type Spec struct {
	G     Graph  `json:"-"`
	Graph string `json:"graph"`
	Kinds []Kind `json:"kinds"`
	V2    bool   `json:"v2"`
	// TwoCommit is a KRemote node served at two commits (different create times), pinned at one of them
	// by the first local module whose buf.lock pins it and at the other one by the other pinning modules
	// (v1 only, needs two pinning modules); -1 = none.
	TwoCommit int `json:"two_commit"`
	// TCOrder 0: the first pinning module pins the old commit; 1: the first pinning module pins the new one.
	TCOrder int `json:"tc_order"`
	// DupFrom/DupInto: module DupInto additionally contains a copy of p<DupFrom>/a.proto; -1 = none.
	DupFrom int `json:"dup_from"`
	DupInto int `json:"dup_into"`
	// DupWKT (with DupFrom == WKTProv): the duplicated file is the well-known-type path module DupFrom provides,
	// so the ambiguous path is a google/protobuf/ path.
	DupWKT bool `json:"dup_wkt,omitempty"`
	// MissingIn: b.proto of this module additionally imports a path nobody provides; -1 = none.
	MissingIn int `json:"missing_in"`
	// Layout of the local modules:
	//   ""      one directory m<i> per module
	//   "incl"  (v2) all modules share the directory proto and select their files with includes: [proto/p<i>]
	//   "excl"  (v2) all modules share the directory proto and drop the other modules' files with excludes
	//   "roots" (v1) v1beta1 modules with two roots: m<i>/ra holds a.proto, m<i>/rb holds b.proto
	// and, with an excluded directory in every local module (Excluded says what it holds; fourth round):
	//   "x1"     v1 modules, build.excludes
	//   "x2"     v2 modules (path m<i>), excludes
	//   "xb"     v1beta1 modules with the default root ".", build.excludes
	//   "xb1"    v1beta1 modules with the single root src, build.excludes below it
	//   "xroots" v1beta1 modules with the two roots ra and rb (as "roots"), build.excludes below each of them
	Layout string `json:"layout,omitempty"`
	// Excluded (x-layouts only): what the excluded directory of every local module i holds. The reference does not
	// know these files at all: an excluded file is not a file of the module, so it must leave no trace.
	//   "importer" p<i>/a/d.proto imports a.proto of every other module of the workspace (would add dependencies / cycles)
	//   "missing"  p<i>/x/z/e.proto imports a path nobody provides (would be a missing import)
	//   "vendored" p<j>/a.proto, a copy of the file of the next module j (would be a path in two modules)
	//   "all"      the three directories together
	Excluded string `json:"excluded,omitempty"`
	// Alone (n = 1, v1 config family): the module stands alone, there is no buf.work.yaml.
	Alone bool `json:"alone,omitempty"`
	// Ages (v1 only, with TwoCommit >= 0): the k-th local module whose buf.lock pins node TwoCommit pins the
	// commit of age Ages[k] (0 = the newest commit, a >= 1 = older and older commits with other content), so
	// three pinning modules give three commits of one name. Empty = the two-commit variant described by TCOrder.
	Ages []int `json:"ages,omitempty"`
	// MapSeed >= 0: the case runs under this start seed for Go map iteration (runtime overlay, build tag
	// mapseed), so that every visiting order of the commit map of a name is enumerated; -1 = not controlled.
	MapSeed int `json:"map_seed"`
	// WKTProv: this node itself provides the well-known-type path wktProvPath and the import edges into it
	// are realised by imports of that path alone; -1 = none.
	WKTProv int `json:"wkt_prov"`
	// Fault: the registry content of one provider-served module cannot be obtained; nil = none.
	Fault *Fault `json:"fault,omitempty"`

	// ids are the observed OpaqueIDs of the unnamed local modules in the shared-directory layouts,
	// where a module is identified by its content (see resolveIDs).
	ids map[int]string
}

func (s Spec) shared() bool { return s.Layout == "incl" || s.Layout == "excl" }

// place is the workspace path of file protoPath of local module i.
func (s Spec) place(i int, protoPath string) string {
	switch s.Layout {
	case "incl", "excl":
		return "proto/" + protoPath
	case "roots", "xroots":
		if strings.HasSuffix(protoPath, "/a.proto") {
			return modDir(i) + "/ra/" + protoPath
		}
		return modDir(i) + "/rb/" + protoPath
	case "xb1":
		return modDir(i) + "/src/" + protoPath
	}
	return modDir(i) + "/" + protoPath
}

// twoRoots: the a.proto and the b.proto of a module lie in different roots.
func (s Spec) twoRoots() bool { return s.Layout == "roots" || s.Layout == "xroots" }

// xLayout: every local module has an excluded directory.
func (s Spec) xLayout() bool {
	switch s.Layout {
	case "x1", "x2", "xb", "xb1", "xroots":
		return true
	}
	return false
}

// v1beta1: the local modules have v1beta1 buf.yaml files.
func (s Spec) v1beta1() bool {
	switch s.Layout {
	case "roots", "xb", "xb1", "xroots":
		return true
	}
	return false
}

// nonDotRoot: the proto files of the local modules lie below a root other than the module directory.
func (s Spec) nonDotRoot() bool {
	return s.Layout == "roots" || s.Layout == "xb1" || s.Layout == "xroots"
}

// vendoredOf is the module whose a.proto the excluded directory of module i holds a copy of (Excluded ==
// "vendored"): the next node after i (cyclically) that is part of the workspace; -1 when there is none.
func (s Spec) vendoredOf(i int) int {
	for d := 1; d < s.G.N; d++ {
		if j := (i + d) % s.G.N; s.present(j) {
			return j
		}
	}
	return -1
}

// xDir is one excluded directory of a local module: the directory (a proto path, i.e. relative to the root that
// holds it), the files in it (proto path -> content) and whether it lies in the root of a.proto (else of b.proto).
type xDir struct {
	dir   string
	files map[string]string
	inA   bool
}

// excludedOf describes the excluded directories of local module i.
//
//	importer  p<i>/a/d.proto (the directory name is a string prefix of the module's own p<i>/a.proto, which is NOT
//	          excluded) imports a.proto of every other module of the workspace
//	missing   p<i>/x/z/e.proto (two levels below the excluded directory p<i>/x) imports a path nobody provides
//	vendored  p<j>/a.proto, a copy of the file of the next module j of the workspace
//	all       the three directories together (three entries in the excludes list)
func (s Spec) excludedOf(i int) []xDir {
	var out []xDir
	if s.Excluded == "importer" || s.Excluded == "all" {
		var d strings.Builder
		fmt.Fprintf(&d, "syntax = \"proto3\";\npackage p%d.a;\n", i)
		var fields []string
		for j := 0; j < s.G.N; j++ {
			if j != i && s.present(j) {
				fmt.Fprintf(&d, "import \"%s\";\n", aPath(j))
				fields = append(fields, fmt.Sprintf(".p%d.A%d f%d = %d;", j, j, j, j+1))
			}
		}
		fmt.Fprintf(&d, "message D%d { %s }\n", i, strings.Join(fields, " "))
		dir := fmt.Sprintf("p%d/a", i)
		out = append(out, xDir{dir: dir, files: map[string]string{dir + "/d.proto": d.String()}})
	}
	if s.Excluded == "missing" || s.Excluded == "all" {
		dir := fmt.Sprintf("p%d/x", i)
		e := fmt.Sprintf("syntax = \"proto3\";\npackage p%d.x.z;\nimport \"%s\";\nmessage E%d {}\n", i, missingPath, i)
		out = append(out, xDir{dir: dir, files: map[string]string{dir + "/z/e.proto": e}})
	}
	if s.Excluded == "vendored" || s.Excluded == "all" {
		if j := s.vendoredOf(i); j >= 0 {
			out = append(out, xDir{dir: fmt.Sprintf("p%d", j), files: map[string]string{aPath(j): moduleFiles(j, nil, "", nil, -1)[aPath(j)]}, inA: true})
		}
	}
	return out
}

// excludeEntry is the entry of the excludes list of module i for its excluded directory, in the form the
// config version wants it: relative to the buf.yaml (v1, v1beta1: below the root) or to the workspace (v2).
func (s Spec) excludeEntry(i int, x xDir) string {
	// a file of the directory, placed; the entry is its directory
	probe := x.dir + "/b.proto" // lies in the root that holds b.proto
	if x.inA {
		probe = x.dir + "/a.proto" // lies in the root that holds a.proto
	}
	p := s.place(i, probe)
	p = p[:strings.LastIndex(p, "/")]
	if s.V2 {
		return p
	}
	return strings.TrimPrefix(p, modDir(i)+"/")
}

const missingPath = "nowhere/x.proto"

func newSpec(g Graph, kinds []Kind, v2 bool) Spec {
	return Spec{G: g, Graph: g.String(), Kinds: append([]Kind(nil), kinds...), V2: v2, TwoCommit: -1, DupFrom: -1, DupInto: -1, MissingIn: -1, MapSeed: -1, WKTProv: -1}
}

// Fault is an injected failure of the registry side: Node is the provider-served module that is hit.
//
//	data    ModuleDataProvider.GetModuleDatasForModuleKeys fails (download failure)
//	tamper  the served content does not match the pinned digest (verification failure)
//	bucket  the module data is served but its bucket cannot be opened
//	stat    every Stat of the module's bucket fails
//	read    every Get of the module's bucket fails
//	walk    every Walk of the module's bucket fails
//	commit  CommitProvider.GetCommitsForModuleKeys fails (needed to order several pinned commits of a name)
type Fault struct {
	Node int    `json:"node"`
	Op   string `json:"op"`
}

func (s Spec) key() string {
	ks := make([]string, len(s.Kinds))
	for i, k := range s.Kinds {
		ks[i] = k.String()[:1]
	}
	v := "v1"
	if s.V2 {
		v = "v2"
	}
	if s.Layout != "" {
		v += "-" + s.Layout
	}
	if s.Excluded != "" {
		v += "-" + s.Excluded
	}
	if s.Alone {
		v += "-alone"
	}
	k := fmt.Sprintf("%s/%s/%s/tc%d.%d/dup%d.%d/miss%d", s.Graph, strings.Join(ks, ""), v, s.TwoCommit, s.TCOrder, s.DupFrom, s.DupInto, s.MissingIn)
	if len(s.Ages) > 0 {
		k += fmt.Sprintf("/ages%v", s.Ages)
	}
	if s.MapSeed >= 0 {
		k += fmt.Sprintf("/seed%d", s.MapSeed)
	}
	if s.WKTProv >= 0 {
		k += fmt.Sprintf("/wkt%d", s.WKTProv)
	}
	if s.DupWKT {
		k += "/dupwkt"
	}
	if s.Fault != nil {
		k += fmt.Sprintf("/fault%d.%s", s.Fault.Node, s.Fault.Op)
	}
	return k
}

// ages is the age pinned by each pinner of the multi-commit node, in pinner order.
func (s Spec) ages() []int {
	if s.TwoCommit < 0 {
		return nil
	}
	if len(s.Ages) > 0 {
		return s.Ages
	}
	// two-commit variant: the first pinner pins the old (TCOrder 0) or the new (1) commit, the others the other one
	out := make([]int, len(s.pinners(s.TwoCommit)))
	for k := range out {
		if (k == 0) == (s.TCOrder == 0) {
			out[k] = 1
		}
	}
	return out
}

// newestPinnedAge is the age of the newest commit any buf.lock pins for the multi-commit node.
func (s Spec) newestPinnedAge() int {
	best := -1
	for _, a := range s.ages() {
		if best < 0 || a < best {
			best = a
		}
	}
	return max(best, 0)
}

// distinctAges is the number of distinct commits of the multi-commit node that are pinned.
func (s Spec) distinctAges() int {
	seen := map[int]bool{}
	for _, a := range s.ages() {
		seen[a] = true
	}
	return len(seen)
}

// dupPath is the path module DupInto holds a copy of.
func (s Spec) dupPath() string {
	if s.DupWKT {
		return wktProvPath
	}
	return aPath(s.DupFrom)
}

func (s Spec) dupContent() string {
	if s.DupWKT {
		return wktProvContent
	}
	return moduleFiles(s.DupFrom, nil, "", nil, -1)[aPath(s.DupFrom)]
}

// plant describes the planted ambiguity: the modules one of whose own files imports the ambiguous path, a
// file whose presence in an image means the path is needed, the error class and the signature label.
type plantInfo struct {
	importers  []int
	neededFile string
	class      string
	label      string
}

func (s Spec) plant() (plantInfo, bool) {
	switch {
	case s.DupWKT:
		var imps []int
		for j := 0; j < s.G.N; j++ {
			if j != s.WKTProv && s.G.Adj[j][s.WKTProv] {
				imps = append(imps, j)
			}
		}
		return plantInfo{imps, wktProvPath, "duplicate", "dup"}, true
	case s.DupFrom >= 0:
		return plantInfo{[]int{s.DupFrom}, aPath(s.DupFrom), "duplicate", "dup"}, true
	case s.MissingIn >= 0:
		return plantInfo{[]int{s.MissingIn}, bPath(s.MissingIn), "import-not-exist", "missing"}, true
	}
	return plantInfo{}, false
}

// affected: module i is, or reaches, a module that imports the ambiguous path.
func (p plantInfo) affected(g Graph, i int) bool {
	r := g.reach(i)
	for _, j := range p.importers {
		if i == j || r[j] {
			return true
		}
	}
	return false
}

// inClosure: a module that imports the ambiguous path is in the closure (targets plus reachable).
func (p plantInfo) inClosure(in []bool) bool {
	for _, j := range p.importers {
		if in[j] {
			return true
		}
	}
	return false
}

// modID is the expected OpaqueID of node i: the name when it has one, else the bucket ID (= module dir).
func (s Spec) modID(i int) string {
	if s.Kinds[i] == KLocal {
		if s.shared() {
			return s.ids[i] // "" when not resolved
		}
		return modDir(i)
	}
	return modName(i)
}

func (s Spec) locals() []int {
	var l []int
	for i, k := range s.Kinds {
		if k.local() {
			l = append(l, i)
		}
	}
	return l
}

func (s Spec) remotes() []int { // nodes with a commit in the provider
	var l []int
	for i, k := range s.Kinds {
		if k == KRemote || k == KBoth {
			l = append(l, i)
		}
	}
	return l
}

// pins are the registry commits the buf.lock of local module l pins: as `buf dep update` would write it,
// every provider-served module (kind remote or both) that l reaches, l itself excluded.
func (s Spec) pins(l int) []int {
	var out []int
	r := s.G.reach(l)
	for _, i := range s.remotes() {
		if i != l && r[i] {
			out = append(out, i)
		}
	}
	return out
}

// pinners are the local modules whose buf.lock pins node i.
func (s Spec) pinners(i int) []int {
	var out []int
	for _, l := range s.locals() {
		for _, p := range s.pins(l) {
			if p == i {
				out = append(out, l)
			}
		}
	}
	return out
}

// present reports whether node i is part of the workspace at all: local modules always, a
// provider-only module when some buf.lock pins it.
func (s Spec) present(i int) bool {
	return s.Kinds[i].local() || len(s.pinners(i)) > 0
}

// valid reports whether the spec can exist: at least one local module; a provider-only module
// imports only modules the provider has (the registry holds self-contained, acyclic commits).
func (s Spec) valid() (bool, string) {
	if len(s.locals()) == 0 {
		return false, "no-local-module"
	}
	for i, k := range s.Kinds {
		if k != KRemote {
			continue
		}
		for _, j := range s.G.outs(i) {
			if s.Kinds[j] == KLocal || s.Kinds[j] == KNamed {
				return false, "remote-imports-local-only"
			}
		}
	}
	if s.TwoCommit >= 0 && (s.Kinds[s.TwoCommit] != KRemote || s.V2 || len(s.pinners(s.TwoCommit)) < 2) {
		return false, "two-commits-need-two-v1-locks"
	}
	if len(s.Ages) > 0 && (s.TwoCommit < 0 || len(s.Ages) != len(s.pinners(s.TwoCommit))) {
		return false, "ages-need-one-entry-per-pinning-lock"
	}
	for _, a := range s.Ages {
		if a < 0 || a > 6 {
			return false, "age-out-of-range"
		}
	}
	if s.WKTProv >= 0 && (s.WKTProv >= s.G.N || s.Layout != "" || !s.present(s.WKTProv)) {
		return false, "wkt-provider-not-in-workspace"
	}
	if s.xLayout() != (s.Excluded != "") {
		return false, "an-excluded-directory-needs-an-x-layout-and-its-content"
	}
	switch s.Excluded {
	case "", "importer", "missing":
	case "vendored", "all":
		if s.G.N < 2 {
			return false, "a-vendored-copy-needs-a-second-module"
		}
	default:
		return false, "unknown-content-of-the-excluded-directory"
	}
	if s.Alone && (s.G.N != 1 || s.V2 || s.shared()) {
		return false, "a-module-without-workspace-file-stands-alone"
	}
	if s.DupWKT && (s.DupFrom < 0 || s.DupFrom != s.WKTProv || s.DupInto < 0) {
		return false, "wkt-duplicate-needs-the-wkt-provider-as-source"
	}
	if s.Fault != nil && (s.Fault.Node < 0 || s.Fault.Node >= s.G.N || (s.Kinds[s.Fault.Node] != KRemote && s.Kinds[s.Fault.Node] != KBoth)) {
		return false, "fault-needs-a-provider-served-module"
	}
	if s.DupInto >= 0 && !s.present(s.DupInto) {
		return false, "duplicate-holder-not-in-workspace"
	}
	// provider graph: KRemote nodes with their edges, KBoth commits are sinks; must be acyclic.
	sub := Graph{N: s.G.N, Adj: make([][]bool, s.G.N)}
	for i := range sub.Adj {
		sub.Adj[i] = make([]bool, s.G.N)
		for j := range sub.Adj[i] {
			sub.Adj[i][j] = s.G.Adj[i][j] && s.Kinds[i] == KRemote && s.Kinds[j] == KRemote
		}
	}
	for i := 0; i < s.G.N; i++ {
		if sub.onCycle(i) {
			return false, "cycle-among-registry-commits"
		}
	}
	return true, ""
}

func commitID(i int, old bool) uuid.UUID {
	if old {
		return commitIDAge(i, 1)
	}
	return commitIDAge(i, 0)
}

// commitIDAge is the id of the commit of node i of the given age (0 = newest).
func commitIDAge(i int, age int) uuid.UUID {
	x := 0x10 + i
	if age > 0 {
		x = 0x80 + 0x10*(age-1) + i
	}
	return uuid.MustParse(fmt.Sprintf("0c10c10c-0000-4000-8000-0000000000%02x", x))
}

func ageMarker(age int) string {
	if age == 1 {
		return "old_marker"
	}
	return fmt.Sprintf("old%d_marker", age)
}

var baseTime = time.Unix(1700000000, 0)

// Built is a spec turned into buckets and providers.
type Built struct {
	Spec      Spec
	Files     map[string]string // the workspace directory content
	Providers bufx.Providers
}

func toBytes(m map[string]string) map[string][]byte {
	out := make(map[string][]byte, len(m))
	for k, v := range m {
		out[k] = []byte(v)
	}
	return out
}

// build creates the providers and the workspace files.
func build(ctx context.Context, s Spec) (*Built, error) {
	g := s.G
	// --- registry content
	var mainDatas []bufmoduletesting.ModuleData
	for _, i := range s.remotes() {
		var files map[string]string
		if s.Kinds[i] == KRemote {
			files = moduleFiles(i, g.outs(i), "", nil, s.WKTProv)
			if s.DupInto == i {
				files[s.dupPath()] = s.dupContent()
			}
		} else {
			// the registry commit of a module that is also present locally: no out-edges, a marker file
			files = moduleFiles(i, nil, "remote_marker", nil, -1)
		}
		mainDatas = append(mainDatas, bufmoduletesting.ModuleData{
			Name:       modName(i),
			CommitID:   commitID(i, false),
			CreateTime: baseTime.Add(time.Duration(i) * time.Minute),
			PathToData: toBytes(files),
		})
	}
	mp := &multiProvider{byCommit: map[uuid.UUID]bufmoduletesting.OmniProvider{}}
	var mainOmni bufmoduletesting.OmniProvider
	oldOmni := map[int]bufmoduletesting.OmniProvider{} // by age
	if len(mainDatas) > 0 {
		var err error
		mainOmni, err = bufmoduletesting.NewOmniProvider(mainDatas...)
		if err != nil {
			return nil, fmt.Errorf("main provider: %w", err)
		}
		for _, d := range mainDatas {
			mp.byCommit[d.CommitID] = mainOmni
		}
	}
	if s.TwoCommit >= 0 {
		i := s.TwoCommit
		for _, age := range s.ages() {
			if age == 0 || oldOmni[age] != nil {
				continue
			}
			o, err := bufmoduletesting.NewOmniProvider(bufmoduletesting.ModuleData{
				Name:       modName(i),
				CommitID:   commitIDAge(i, age),
				CreateTime: baseTime.Add(-time.Duration(age) * time.Hour),
				PathToData: toBytes(moduleFiles(i, nil, ageMarker(age), nil, -1)),
			})
			if err != nil {
				return nil, fmt.Errorf("old provider: %w", err)
			}
			oldOmni[age] = o
			mp.byCommit[commitIDAge(i, age)] = o
		}
	}
	keyFor := func(omni bufmoduletesting.OmniProvider, i int, dt bufmodule.DigestType) (bufmodule.ModuleKey, error) {
		fn, err := bufparse.ParseFullName(modName(i))
		if err != nil {
			return nil, err
		}
		m := omni.GetModuleForFullName(fn)
		if m == nil {
			return nil, fmt.Errorf("provider has no %s", modName(i))
		}
		k, err := bufmodule.ModuleToModuleKey(m, dt)
		if err != nil {
			return nil, err
		}
		if _, err := k.Digest(); err != nil { // force now
			return nil, err
		}
		return k, nil
	}
	lockText := func(version bufconfig.FileVersion, dt bufmodule.DigestType, nodes []int, pinAge int) (string, error) {
		var keys []bufmodule.ModuleKey
		for _, i := range nodes {
			omni := mainOmni
			if pinAge > 0 && i == s.TwoCommit {
				omni = oldOmni[pinAge]
			}
			k, err := keyFor(omni, i, dt)
			if err != nil {
				return "", err
			}
			keys = append(keys, k)
		}
		if len(keys) == 0 {
			return "", nil
		}
		lf, err := bufconfig.NewBufLockFile(version, keys, nil)
		if err != nil {
			return "", err
		}
		var buf bytes.Buffer
		if err := bufconfig.WriteBufLockFile(&buf, lf); err != nil {
			return "", err
		}
		return buf.String(), nil
	}
	depsYAML := func(indent string, nodes []int) string {
		var b strings.Builder
		first := true
		for _, i := range nodes {
			if first {
				b.WriteString(indent + "deps:\n")
				first = false
			}
			fmt.Fprintf(&b, "%s  - %s\n", indent, modName(i))
		}
		return b.String()
	}
	// --- workspace files
	files := map[string]string{}
	locals := s.locals()
	for _, i := range locals {
		var extra []string
		if s.MissingIn == i {
			extra = []string{missingPath}
		}
		for p, c := range moduleFiles(i, g.outs(i), "", extra, s.WKTProv) {
			files[s.place(i, p)] = c
		}
		if s.DupInto == i {
			files[s.place(i, s.dupPath())] = s.dupContent()
		}
		for _, x := range s.excludedOf(i) {
			for p, c := range x.files {
				files[s.place(i, p)] = c
			}
		}
	}
	if (s.shared() && !s.V2) || (s.v1beta1() && (s.V2 || len(s.remotes()) > 0)) || ((s.shared() || s.Layout == "roots" || s.xLayout()) && (s.DupFrom >= 0)) ||
		(s.Layout == "x1" && s.V2) || (s.Layout == "x2" && !s.V2) {
		return nil, fmt.Errorf("layout %q is not defined for this spec", s.Layout)
	}
	if s.V2 {
		var y strings.Builder
		y.WriteString("version: v2\nmodules:\n")
		for _, i := range locals {
			switch s.Layout {
			case "incl":
				fmt.Fprintf(&y, "  - path: proto\n    includes:\n      - proto/p%d\n", i)
			case "excl":
				y.WriteString("  - path: proto\n")
				first := true
				for _, j := range locals {
					if j != i {
						if first {
							y.WriteString("    excludes:\n")
							first = false
						}
						fmt.Fprintf(&y, "      - proto/p%d\n", j)
					}
				}
			default:
				fmt.Fprintf(&y, "  - path: %s\n", modDir(i))
				for k, x := range s.excludedOf(i) {
					if k == 0 {
						y.WriteString("    excludes:\n")
					}
					fmt.Fprintf(&y, "      - %s\n", s.excludeEntry(i, x))
				}
			}
			if s.Kinds[i] != KLocal {
				fmt.Fprintf(&y, "    name: %s\n", modName(i))
			}
		}
		// the one buf.lock of a v2 workspace pins what any of its modules reaches
		var union []int
		for _, i := range s.remotes() {
			if len(s.pinners(i)) > 0 {
				union = append(union, i)
			}
		}
		// a v2 buf.yaml does not list workspace modules as deps
		first := true
		for _, i := range union {
			if s.Kinds[i] == KBoth {
				continue
			}
			if first {
				y.WriteString("deps:\n")
				first = false
			}
			fmt.Fprintf(&y, "  - %s\n", modName(i))
		}
		files["buf.yaml"] = y.String()
		lt, err := lockText(bufconfig.FileVersionV2, bufmodule.DigestTypeB5, union, 0)
		if err != nil {
			return nil, fmt.Errorf("v2 lock: %w", err)
		}
		if lt != "" {
			files["buf.lock"] = lt
		}
	} else {
		var w strings.Builder
		w.WriteString("version: v1\ndirectories:\n")
		for _, i := range locals {
			fmt.Fprintf(&w, "  - %s\n", modDir(i))
		}
		if !s.Alone {
			files["buf.work.yaml"] = w.String()
		}
		for _, i := range locals {
			var y strings.Builder
			if s.v1beta1() {
				y.WriteString("version: v1beta1\n")
			} else {
				y.WriteString("version: v1\n")
			}
			if s.Kinds[i] != KLocal {
				fmt.Fprintf(&y, "name: %s\n", modName(i))
			}
			xdirs := s.excludedOf(i)
			if s.nonDotRoot() || len(xdirs) > 0 {
				y.WriteString("build:\n")
			}
			if s.twoRoots() {
				y.WriteString("  roots:\n    - ra\n    - rb\n")
			} else if s.Layout == "xb1" {
				y.WriteString("  roots:\n    - src\n")
			}
			for k, x := range xdirs {
				if k == 0 {
					y.WriteString("  excludes:\n")
				}
				fmt.Fprintf(&y, "    - %s\n", s.excludeEntry(i, x))
			}
			y.WriteString(depsYAML("", s.pins(i)))
			files[modDir(i)+"/buf.yaml"] = y.String()
			pinAge := 0
			if s.TwoCommit >= 0 {
				// which commit of the multi-commit node this module's buf.lock pins
				ages := s.ages()
				for k, l := range s.pinners(s.TwoCommit) {
					if l == i {
						pinAge = ages[k]
					}
				}
			}
			lt, err := lockText(bufconfig.FileVersionV1, bufmodule.DigestTypeB4, s.pins(i), pinAge)
			if err != nil {
				return nil, fmt.Errorf("v1 lock: %w", err)
			}
			if lt != "" {
				files[modDir(i)+"/buf.lock"] = lt
			}
		}
	}
	providers := bufx.Providers{Graph: mp, ModuleData: mp, Commit: mp}
	if s.Fault != nil {
		fp := &faultProvider{multiProvider: mp, name: modName(s.Fault.Node), op: s.Fault.Op}
		providers = bufx.Providers{Graph: mp, ModuleData: fp, Commit: fp}
	}
	return &Built{Spec: s, Files: files, Providers: providers}, nil
}

// multiProvider routes every key to the OmniProvider that holds its commit, so that one module name
// can be served at two commits (a single OmniProvider is a ModuleSet and holds one module per name).
type multiProvider struct {
	byCommit map[uuid.UUID]bufmoduletesting.OmniProvider
}

func (p *multiProvider) pick(id uuid.UUID, what string) (bufmoduletesting.OmniProvider, error) {
	o, ok := p.byCommit[id]
	if !ok {
		return nil, fmt.Errorf("c10 provider: unknown commit %s (%s)", id, what)
	}
	return o, nil
}

func (p *multiProvider) GetModuleDatasForModuleKeys(ctx context.Context, keys []bufmodule.ModuleKey) ([]bufmodule.ModuleData, error) {
	out := make([]bufmodule.ModuleData, 0, len(keys))
	for _, k := range keys {
		o, err := p.pick(k.CommitID(), k.String())
		if err != nil {
			return nil, err
		}
		ds, err := o.GetModuleDatasForModuleKeys(ctx, []bufmodule.ModuleKey{k})
		if err != nil {
			return nil, err
		}
		out = append(out, ds...)
	}
	return out, nil
}

func (p *multiProvider) GetCommitsForModuleKeys(ctx context.Context, keys []bufmodule.ModuleKey) ([]bufmodule.Commit, error) {
	out := make([]bufmodule.Commit, 0, len(keys))
	for _, k := range keys {
		o, err := p.pick(k.CommitID(), k.String())
		if err != nil {
			return nil, err
		}
		cs, err := o.GetCommitsForModuleKeys(ctx, []bufmodule.ModuleKey{k})
		if err != nil {
			return nil, err
		}
		out = append(out, cs...)
	}
	return out, nil
}

func (p *multiProvider) GetCommitsForCommitKeys(ctx context.Context, keys []bufmodule.CommitKey) ([]bufmodule.Commit, error) {
	out := make([]bufmodule.Commit, 0, len(keys))
	for _, k := range keys {
		o, err := p.pick(k.CommitID(), k.String())
		if err != nil {
			return nil, err
		}
		cs, err := o.GetCommitsForCommitKeys(ctx, []bufmodule.CommitKey{k})
		if err != nil {
			return nil, err
		}
		out = append(out, cs...)
	}
	return out, nil
}

func (p *multiProvider) GetGraphForModuleKeys(ctx context.Context, keys []bufmodule.ModuleKey) (*dag.Graph[bufmodule.RegistryCommitID, bufmodule.ModuleKey], error) {
	// not used by GetWorkspaceForBucket
	return nil, fmt.Errorf("c10 provider: GetGraphForModuleKeys is not expected to be called")
}

func sortedStrings(in []string) []string {
	out := append([]string(nil), in...)
	sort.Strings(out)
	return out
}
