package c10

import (
	"context"
	"fmt"
	"strings"

	"github.com/bufbuild/bufverif/internal/enum"
)

// family B/C: ambiguity plants over all digraphs.
//
//	duplicate: module `into` additionally contains a copy of p<from>/a.proto (every ordered pair)
//	missing:   b.proto of module `in` additionally imports a path nobody provides (every node)
//
// Demands (only where the ambiguous path is actually needed, so nothing is demanded that the
// property does not state): ModuleDeps(M) must fail when M is or reaches the module whose file
// imports the ambiguous path; ModuleSetToDAG must fail when such a module is in the closure of the
// targets; the image build and the ls-files computation must fail when the image needs the path.
// The error must be the specific one (DuplicateProtoPathError / ImportNotExistError), or the cycle
// error when the module asked is itself on a cycle.
func (ck *checker) familyPlants(maxN int) {
	r := ck.r
	type plantItem struct {
		s Spec
	}
	var items []plantItem
	for n := 1; n <= maxN; n++ {
		for _, eg := range enum.Digraphs(n, false) {
			g := fromEnum(eg)
			uniform := func(k Kind) []Kind {
				ks := make([]Kind, n)
				for i := range ks {
					ks[i] = k
				}
				return ks
			}
			with := func(k Kind, at int, other Kind) []Kind {
				ks := uniform(other)
				ks[at] = k
				return ks
			}
			for _, v2 := range []bool{false, true} {
				// duplicate path
				for from := 0; from < n; from++ {
					for into := 0; into < n; into++ {
						if from == into {
							continue
						}
						vectors := [][]Kind{uniform(KLocal), uniform(KNamed), with(KRemote, into, KNamed), with(KBoth, from, KNamed)}
						if n == 4 {
							vectors = vectors[1:2]
						} else if n == 3 && r.Quick() {
							// quick: the unnamed and the local+pinned variants stay at n <= 2
							vectors = vectors[1:3]
						}
						for _, ks := range vectors {
							s := newSpec(g, ks, v2)
							s.DupFrom, s.DupInto = from, into
							if ok, _ := s.valid(); !ok {
								ck.c.filtered.Add(1)
								continue
							}
							items = append(items, plantItem{s})
						}
					}
				}
				// duplicate well-known-type path: module w provides wktProvPath and is imported through it alone
				// (family W), module `into` holds a copy of that file
				for w := 0; w < n && n <= 3; w++ {
					if inDegree(g, w) == 0 {
						continue
					}
					for into := 0; into < n; into++ {
						if into == w {
							continue
						}
						vectors := [][]Kind{uniform(KNamed), with(KRemote, into, KNamed), with(KRemote, w, KNamed), uniform(KLocal)}
						if n == 3 && r.Quick() {
							vectors = vectors[:1]
						}
						for _, ks := range vectors {
							s := newSpec(g, ks, v2)
							s.WKTProv, s.DupFrom, s.DupInto, s.DupWKT = w, w, into, true
							if ok, _ := s.valid(); !ok {
								ck.c.filtered.Add(1)
								continue
							}
							items = append(items, plantItem{s})
						}
					}
				}
				// missing import
				for in := 0; in < n; in++ {
					vectors := [][]Kind{uniform(KLocal), uniform(KNamed), with(KBoth, in, KNamed)}
					if n == 4 {
						vectors = vectors[1:2]
					} else if n == 3 && r.Quick() {
						vectors = vectors[1:3]
					}
					for _, ks := range vectors {
						s := newSpec(g, ks, v2)
						s.MissingIn = in
						if ok, _ := s.valid(); !ok {
							ck.c.filtered.Add(1)
							continue
						}
						items = append(items, plantItem{s})
					}
				}
			}
		}
	}
	r.Set("plant_specs", len(items))
	ctx := context.Background()
	r.ParallelFor(len(items), 0, func(idx int) {
		if ck.done() {
			return
		}
		s := items[idx].s
		b, err := build(ctx, s)
		if err != nil {
			r.Incomplete(fmt.Sprintf("harness: cannot build plant spec %s: %v", s.key(), err))
			return
		}
		ts := []Target{{Kind: "all"}}
		for _, i := range s.locals() {
			ts = append(ts, Target{"dir", i})
			if s.G.N <= 3 && !r.Quick() {
				ts = append(ts, Target{"file", i})
			}
		}
		for ti, t := range ts {
			r.Eval(1)
			r.Distinct(s.key() + "/" + t.String())
			r.SampleEvery(idx*8+ti, 10007, func() any { return Case{Spec: s, Target: t} })
			ck.checkPlant(ctx, b, t)
		}
	})
}

func (ck *checker) checkPlant(ctx context.Context, b *Built, t Target) {
	s := b.Spec
	dup := s.DupFrom >= 0
	// the modules whose own file imports the ambiguous path, the file that makes an image need it
	pl, _ := s.plant()
	want, label, neededFile := pl.class, pl.label, pl.neededFile
	ws, err := b.workspace(ctx, t)
	if err != nil {
		// reporting the ambiguity already when the workspace is opened is fine too
		if cls := errClass(err); cls != want {
			ck.violate(label+"/workspace/error/"+cls, "opening the workspace failed with an unrelated error: "+err.Error(), b, t, Case{Error: err.Error()})
		}
		return
	}
	ck.c.workspaces.Add(1)
	affected := func(i int) bool { return pl.affected(s.G, i) }
	for i := range s.Kinds {
		if !affected(i) {
			continue
		}
		if s.DupWKT {
			ck.c.dupWKTDemands.Add(1)
		}
		m := ws.GetModuleForOpaqueID(s.modID(i))
		if m == nil {
			ck.violate(label+"/module-missing", "module not in module set", b, t, Case{Module: s.modID(i)})
			continue
		}
		if dup {
			ck.c.dupDepsDemands.Add(1)
		} else {
			ck.c.missDepsDemands.Add(1)
		}
		got, err := observeDeps(m)
		if err == nil {
			ck.violate(label+"/deps/no-error", "ModuleDeps resolved an ambiguous import instead of reporting it", b, t, Case{Module: s.modID(i), Observed: got})
			continue
		}
		cls := errClass(err)
		if cls != want && !(cls == "cycle" && s.G.onCycle(i)) {
			ck.violate(label+"/deps/wrong-error/"+cls, "ModuleDeps reported the ambiguity with the wrong error: "+err.Error(), b, t, Case{Module: s.modID(i), Error: err.Error()})
		}
	}
	// DAG
	in := s.closure(t)
	if pl.inClosure(in) {
		anyCycle := false
		for i, x := range in {
			if x && s.G.onCycle(i) {
				anyCycle = true
			}
		}
		gotDAG, err := observeDAG(ws)
		if err == nil {
			ck.violate(label+"/dag/no-error", "ModuleSetToDAG succeeded although the ambiguous import is in the closure of the targets", b, t, Case{Observed: gotDAG})
		} else if cls := errClass(err); cls != want && !(cls == "cycle" && anyCycle) {
			ck.violate(label+"/dag/wrong-error/"+cls, "ModuleSetToDAG: "+err.Error(), b, t, Case{Error: err.Error()})
		}
	}
	// the remote-dependency report walks the deps of every local module: it must name the ambiguity (or the
	// cycle a local module is on) when a local module is or reaches a module that imports the ambiguous path
	localAffected, localCycle := false, false
	for _, l := range s.locals() {
		localAffected = localAffected || affected(l)
		localCycle = localCycle || s.G.onCycle(l)
	}
	if localAffected {
		ck.c.remoteDepsPlantDemands.Add(1)
		got, err := observeRemoteDeps(ws)
		if err == nil {
			ck.violate(label+"/remotedeps/no-error", "RemoteDepsForModuleSet reported dependencies although an ambiguous import is reached from a local module", b, t, Case{Observed: got})
		} else if cls := errClass(err); cls != want && !(cls == "cycle" && localCycle) {
			ck.violate(label+"/remotedeps/wrong-error/"+cls, "RemoteDepsForModuleSet: "+err.Error(), b, t, Case{Error: err.Error()})
		}
	}
	// image and ls-files (n = 4: only for the workspace target, to bound the number of compilations)
	if s.G.N >= 4 && t.Kind != "all" {
		return
	}
	if !s.needsFile(t, neededFile) {
		ck.c.dupNoDemand.Add(1)
		return
	}
	if dup {
		ck.c.dupImageDemands.Add(1)
	} else {
		ck.c.missImageDemands.Add(1)
	}
	gotLs, err := observeLsFiles(ctx, ws)
	if err == nil {
		ck.violate(label+"/lsfiles/no-error", "ls-files listed files although a needed path is ambiguous", b, t, Case{Observed: gotLs})
	} else if cls := errClass(err); dup && cls != want {
		ck.violate(label+"/lsfiles/wrong-error/"+cls, "ls-files: "+err.Error(), b, t, Case{Error: err.Error()})
	}
	gotImg, err := observeImage(ctx, ws)
	if err == nil {
		ck.violate(label+"/image/no-error", "the image was built although a needed path is ambiguous", b, t, Case{Observed: gotImg})
	} else {
		cls := errClass(err)
		// when the path is only needed as an import of a compiled file, the compiler reports the
		// resolver's error as a file annotation: still an error naming the ambiguity
		ok := cls == want || (!dup && cls == "annotations") ||
			(dup && cls == "annotations" && strings.Contains(err.Error(), "is contained in multiple modules"))
		if !ok {
			ck.violate(label+"/image/wrong-error/"+cls, "image build: "+err.Error(), b, t, Case{Error: err.Error()})
		}
	}
}
