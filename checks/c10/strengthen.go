package c10

import (
	"context"
	"fmt"
	"reflect"
	"strings"
	"sync"

	"github.com/bufbuild/bufverif/internal/enum"
)

// Families added when the check was strengthened (see NOTES.md, "Strengthening"):
//
//	W  a module of the workspace itself provides a well-known-type path and is imported through it alone
//	M  three or more commits of one remote name pinned by the buf.lock files of a v1 workspace, every
//	   assignment of commits to locks x every start seed of Go map iteration
//	F  registry faults: the content of one provider-served module cannot be obtained while the imports of
//	   the other modules are resolved (faulty module x fault point), on plain graphs and on the plants

func uniformKinds(n int, k Kind) []Kind {
	ks := make([]Kind, n)
	for i := range ks {
		ks[i] = k
	}
	return ks
}

func withKind(n int, k Kind, at int, other Kind) []Kind {
	ks := uniformKinds(n, other)
	ks[at] = k
	return ks
}

func inDegree(g Graph, w int) int {
	d := 0
	for i := 0; i < g.N; i++ {
		if i != w && g.Adj[i][w] {
			d++
		}
	}
	return d
}

// ---------------------------------------------------------------------------------------------
// family W: a module provides a well-known type

// wktSpecs: every digraph x every node w with an in-edge x kind vectors x {v1,v2}; module w provides
// wktProvPath and every edge into w is an import of that path alone.
func wktSpecs(maxN int, quick bool) []Spec {
	var specs []Spec
	for n := 2; n <= maxN; n++ {
		for _, eg := range enum.Digraphs(n, false) {
			g := fromEnum(eg)
			for w := 0; w < n; w++ {
				if inDegree(g, w) == 0 {
					continue
				}
				var vectors [][]Kind
				switch {
				case n == 4:
					vectors = [][]Kind{uniformKinds(n, KNamed), withKind(n, KRemote, w, KNamed)}
				case n == 3 && quick:
					vectors = [][]Kind{uniformKinds(n, KLocal), uniformKinds(n, KNamed), withKind(n, KRemote, w, KNamed), withKind(n, KBoth, w, KNamed)}
				default:
					vectors = allKinds(n, []Kind{KLocal, KNamed, KRemote, KBoth})
				}
				for _, ks := range vectors {
					for _, v2 := range []bool{false, true} {
						s := newSpec(g, ks, v2)
						s.WKTProv = w
						if ok, _ := s.valid(); ok {
							specs = append(specs, s)
						}
					}
				}
			}
		}
	}
	return specs
}

func (ck *checker) familyWKT(maxN int) {
	r := ck.r
	specs := wktSpecs(maxN, r.Quick())
	r.Set("wkt_provider_specs", len(specs))
	ctx := context.Background()
	r.ParallelFor(len(specs), 0, func(idx int) {
		if ck.done() {
			return
		}
		s := specs[idx]
		ts := s.targets()
		if (s.G.N >= 3 && r.Quick()) || s.G.N >= 4 {
			// quick (and n = 4): the workspace, every module directory, the proto-file reference of every local module
			ts = ts[:0:0]
			for _, t := range s.targets() {
				if t.Kind == "all" || t.Kind == "dir" || t.Kind == "file" {
					ts = append(ts, t)
				}
			}
		}
		ck.runSpecTargets(ctx, idx, s, ts)
	})
}

// ---------------------------------------------------------------------------------------------
// family M: three commits of one name

type multiItem struct {
	g     Graph
	kinds []Kind
	node  int
	ages  []int
}

// multiCommitItems: n = 4, one provider-only node r that all three local modules pin (v1: one buf.lock per
// module directory), every digraph among the local modules, every assignment of commit ages to the three
// locks. Quick: r is node 0 or 3, every local module imports r directly, local modules named, the ages are
// the permutations of (0,1,2). Thorough: every position of r, every in-edge set with which all three reach
// r, named and unnamed local modules, every age vector over {0,1,2} (duplicates and a missing newest commit
// included).
func multiCommitItems(quick bool) []multiItem {
	var items []multiItem
	var ageVectors [][]int
	if quick {
		for _, p := range enum.Permutations(3) {
			ageVectors = append(ageVectors, append([]int(nil), p...))
		}
	} else {
		enum.Product([]int{3, 3, 3}, func(idx []int) bool {
			ageVectors = append(ageVectors, append([]int(nil), idx...))
			return true
		})
	}
	for _, eg := range enum.Digraphs(4, false) {
		g := fromEnum(eg)
		for r := 0; r < 4; r++ {
			if quick && r != 0 && r != 3 {
				continue
			}
			if len(g.outs(r)) > 0 {
				continue // a provider-only module does not import local modules
			}
			kindSets := [][]Kind{withKind(4, KRemote, r, KNamed)}
			if !quick {
				kindSets = append(kindSets, withKind(4, KRemote, r, KLocal))
			}
			for _, ks := range kindSets {
				base := newSpec(g, ks, false)
				if ok, _ := base.valid(); !ok || len(base.pinners(r)) != 3 {
					continue
				}
				if quick && inDegree(g, r) != 3 {
					continue
				}
				for _, av := range ageVectors {
					items = append(items, multiItem{g, ks, r, av})
				}
			}
		}
	}
	return items
}

func (ck *checker) familyMultiCommit() {
	r := ck.r
	if !mapSeedAvailable() {
		r.Incomplete("the driver was built without the mapseed tag/overlay: map iteration order is not controlled, the visiting orders of the commit map are not enumerated")
	}
	items := multiCommitItems(r.Quick())
	r.Set("multi_commit_items", len(items))
	r.Set("multi_commit_map_seeds", 8)
	ctx := context.Background()
	// the start seed of map iteration is process-wide: one parallel sweep per seed
	for seed := 0; seed < 8; seed++ {
		setMapSeed(uint64(seed), true)
		r.ParallelFor(len(items), 0, func(idx int) {
			if ck.done() {
				return
			}
			it := items[idx]
			s := newSpec(it.g, it.kinds, false)
			s.TwoCommit, s.Ages, s.MapSeed = it.node, it.ages, seed
			ts := []Target{{Kind: "all"}}
			if !r.Quick() && seed == 0 {
				ts = append(ts, Target{"dir", s.locals()[0]}) // commit selection does not depend on the target: one seed
			}
			b, err := build(ctx, s)
			if err != nil {
				r.Incomplete(fmt.Sprintf("harness: cannot build spec %s: %v", s.key(), err))
				return
			}
			for ti, t := range ts {
				r.Eval(1)
				r.Distinct(s.key() + "/" + t.String())
				r.SampleEvery((seed*len(items)+idx)*2+ti, 7919, func() any { return Case{Spec: s, Target: t, Expected: s.expectModules(t)} })
				ck.checkCase(ctx, b, t, false)
			}
		})
	}
	setMapSeed(0, true)
}

// ---------------------------------------------------------------------------------------------
// family F: registry faults

// faultBaseSpecs are the fault-free specs the faults are applied to: every (digraph, kind vector) of family A
// on n <= 3 nodes with a provider-served module that is part of the workspace, both config versions, the
// two-commit variants; the duplicate-path plants whose duplicate involves a provider-only module (either
// side); a provider-only module that provides a well-known type; the missing-import plants next to a
// provider-only module.
func faultBaseSpecs(maxN int, quick bool) []Spec {
	var specs []Spec
	add := func(s Spec) {
		if ok, _ := s.valid(); !ok {
			return
		}
		for i, k := range s.Kinds {
			if k == KRemote && s.present(i) {
				specs = append(specs, s)
				return
			}
		}
	}
	for n := 2; n <= maxN; n++ {
		for _, eg := range enum.Digraphs(n, false) {
			g := fromEnum(eg)
			for _, v2 := range []bool{false, true} {
				for _, ks := range allKinds(n, []Kind{KLocal, KNamed, KRemote, KBoth}) {
					add(newSpec(g, ks, v2))
					if !v2 {
						base := newSpec(g, ks, false)
						for i, k := range ks {
							if k == KRemote && len(base.pinners(i)) >= 2 {
								s := newSpec(g, ks, false)
								s.TwoCommit, s.TCOrder = i, 0
								add(s)
							}
						}
					}
				}
				for from := 0; from < n; from++ {
					for into := 0; into < n; into++ {
						if from == into {
							continue
						}
						for _, ks := range [][]Kind{withKind(n, KRemote, into, KNamed), withKind(n, KRemote, from, KNamed)} {
							s := newSpec(g, ks, v2)
							s.DupFrom, s.DupInto = from, into
							add(s)
						}
					}
				}
				// the unreadable module is the one that provides a well-known type (family W): a lookup that drops
				// it finds "no module", which is silently fine for a well-known-type path
				for w := 0; w < n; w++ {
					if inDegree(g, w) > 0 {
						s := newSpec(g, withKind(n, KRemote, w, KNamed), v2)
						s.WKTProv = w
						add(s)
					}
				}
				if quick && n == 3 {
					continue
				}
				for in := 0; in < n; in++ {
					for at := 0; at < n; at++ {
						if at == in {
							continue
						}
						s := newSpec(g, withKind(n, KRemote, at, KNamed), v2)
						s.MissingIn = in
						add(s)
					}
				}
			}
		}
	}
	return specs
}

type faultStats struct {
	mu      sync.Mutex
	classes map[string]int
}

func (f *faultStats) add(key string) {
	f.mu.Lock()
	if f.classes == nil {
		f.classes = map[string]int{}
	}
	f.classes[key]++
	f.mu.Unlock()
}

func (ck *checker) familyFaults(maxN int) {
	r := ck.r
	base := faultBaseSpecs(maxN, r.Quick())
	ops := faultOpsAll
	if r.Quick() {
		ops = faultOpsQuick
	}
	var specs []Spec
	for _, s := range base {
		for i, k := range s.Kinds {
			if k != KRemote && k != KBoth {
				continue
			}
			if k == KRemote && !s.present(i) {
				continue
			}
			if k == KBoth && (r.Quick() || len(s.pinners(i)) == 0) {
				continue // the pinned commit of a module present locally is never fetched: thorough only
			}
			for _, op := range ops {
				f := s
				f.Fault = &Fault{Node: i, Op: op}
				specs = append(specs, f)
			}
			if i == s.TwoCommit {
				f := s
				f.Fault = &Fault{Node: i, Op: "commit"}
				specs = append(specs, f)
			}
		}
	}
	r.Set("fault_specs", len(specs))
	r.Set("fault_ops", append(append([]string(nil), ops...), "commit"))
	ctx := context.Background()
	r.ParallelFor(len(specs), 0, func(idx int) {
		if ck.done() {
			return
		}
		s := specs[idx]
		b, err := build(ctx, s)
		if err != nil {
			r.Incomplete(fmt.Sprintf("harness: cannot build fault spec %s: %v", s.key(), err))
			return
		}
		ts := []Target{{Kind: "all"}, {"dir", s.locals()[0]}}
		if !r.Quick() {
			ts = ts[:1]
			for _, i := range s.locals() {
				ts = append(ts, Target{"dir", i}, Target{"file", i})
			}
		}
		for ti, t := range ts {
			r.Eval(1)
			r.Distinct(s.key() + "/" + t.String())
			r.SampleEvery(idx*8+ti, 4999, func() any { return Case{Spec: s, Target: t} })
			// images: n <= 2 (thorough: n <= 3), workspace target
			ck.checkFault(ctx, b, t, t.Kind == "all" && (s.G.N <= 2 || !r.Quick()))
		}
	})
	ck.fstats.mu.Lock()
	r.Set("fault_outcomes", ck.fstats.classes)
	ck.fstats.mu.Unlock()
}

// checkFault judges one case whose registry has an injected fault. What the property states stays true
// under a fault: an observation either still yields exactly the reference result (the fault was not in its
// way: lazy loading, a pinned commit that lost against the local module), or it fails. It must not succeed
// with another result (an import resolved by which modules happened to be readable), and it must not claim
// one of the property's three ambiguity errors where the reference has none (an import "no module provides"
// whose provider merely could not be read, a duplicate that is none).
func (ck *checker) checkFault(ctx context.Context, b *Built, t Target, withImage bool) {
	s := b.Spec
	op := s.Fault.Op
	pl, planted := s.plant()
	plantClass, plantLabel, neededFile := pl.class, "", pl.neededFile
	switch plantClass {
	case "duplicate":
		plantLabel = "duplicate-path"
	case "import-not-exist":
		plantLabel = "missing-import"
	}
	affected := func(i int) bool { return planted && pl.affected(s.G, i) }
	// judgeErr: an error under a fault is fine unless it is an ambiguity error the reference does not have here
	judgeErr := func(where string, err error, c Case, allowed ...string) {
		cls := errClass(err)
		surfaced := faultSurfaced(err)
		if surfaced {
			ck.c.faultSurfaced.Add(1)
		}
		ck.fstats.add(fmt.Sprintf("%s/%s/error-%s/fault-in-chain=%v", where, op, cls, surfaced))
		if cls == "other" || cls == "annotations" {
			return
		}
		for _, a := range allowed {
			if a == cls {
				return
			}
		}
		if planted && cls == plantClass {
			// the planted ambiguity is a real one of this workspace; naming it is not a misreport even where
			// the reference does not demand it (e.g. ls-files walks the files of every module)
			return
		}
		c.Error = err.Error()
		ck.violate("fault/"+where+"/misreported-as/"+cls, "with the content of one pinned module unavailable, "+where+" reported an ambiguity the workspace does not have instead of the failure: "+err.Error(), b, t, c)
	}
	okExact := func(where string) {
		ck.c.faultExact.Add(1)
		ck.fstats.add(fmt.Sprintf("%s/%s/exact-result", where, op))
	}

	ws, err := b.workspace(ctx, t)
	if err != nil {
		judgeErr("workspace", err, Case{}, plantClass)
		return
	}
	ck.c.workspaces.Add(1)
	if op == "commit" {
		// the create times could not be obtained: any module set that comes back must still be the reference one
		if got, want := observeModules(ws), s.expectModules(t); !reflect.DeepEqual(got, want) {
			ck.violate("fault/moduleset/commit-order-unknown/"+strings.TrimPrefix(moduleSetSignature(s, got, want), "moduleset/"), "the commits of one name could not be ordered, and a module set other than the reference one was returned", b, t, Case{Observed: got, Expected: want})
		}
	}

	// --- ModuleDeps of every module
	for i := range s.Kinds {
		if !s.present(i) {
			continue
		}
		m := ws.GetModuleForOpaqueID(s.modID(i))
		if m == nil {
			continue
		}
		got, err := observeDeps(m)
		onCycle, want := s.expectDeps(i)
		if err != nil {
			var allowed []string
			if onCycle {
				allowed = append(allowed, "cycle")
			}
			if affected(i) {
				allowed = append(allowed, plantClass)
				ck.c.faultPlantDemands.Add(1)
			}
			judgeErr("deps", err, Case{Module: s.modID(i), Expected: want}, allowed...)
			continue
		}
		switch {
		case affected(i):
			ck.violate("fault/deps/"+plantLabel+"/no-error", "with the content of one pinned module unavailable, ModuleDeps resolved an ambiguous import instead of failing", b, t, Case{Module: s.modID(i), Observed: got})
		case onCycle:
			ck.cycleErrorBroken.Store(true)
			ck.violate("fault/deps/module-on-cycle/no-error", "ModuleDeps of a module on an import cycle returned deps instead of an error", b, t, Case{Module: s.modID(i), Observed: got})
		case !reflect.DeepEqual(got, want):
			ck.violate("fault/deps/"+strings.TrimPrefix(depsSignature(got, want), "deps/"), "with the content of one pinned module unavailable, ModuleDeps returned dependencies that differ from reachable-minus-self / first-hop instead of failing", b, t, Case{Module: s.modID(i), Observed: got, Expected: want})
		default:
			okExact("deps")
		}
	}

	// --- the remote-dependency report (walks the deps of every local module)
	{
		localAffected := false
		for _, l := range s.locals() {
			localAffected = localAffected || affected(l)
		}
		cyc, want := s.expectRemoteDeps(s.locals())
		got, err := observeRemoteDeps(ws)
		switch {
		case err != nil:
			var allowed []string
			if cyc {
				allowed = append(allowed, "cycle")
			}
			if localAffected {
				allowed = append(allowed, plantClass)
			}
			judgeErr("remotedeps", err, Case{Expected: want}, allowed...)
		case localAffected:
			ck.violate("fault/remotedeps/"+plantLabel+"/no-error", "with the content of one pinned module unavailable, RemoteDepsForModuleSet reported dependencies although an ambiguous import is reached from a local module", b, t, Case{Observed: got})
		case cyc:
			ck.violate("fault/remotedeps/local-module-on-cycle/no-error", "RemoteDepsForModuleSet returned a report although a local module is on an import cycle", b, t, Case{Observed: got})
		case !reflect.DeepEqual(got, want):
			ck.violate("fault/remotedeps/"+remoteDepsSignature(got, want), "with the content of one pinned module unavailable, the reported remote dependencies differ from the provider-only modules the local modules reach instead of failing", b, t, Case{Observed: got, Expected: want})
		default:
			okExact("remotedeps")
		}
	}

	// --- ModuleSetToDAG
	in := s.closure(t)
	anyCycle := false
	for i, x := range in {
		if x && s.G.onCycle(i) {
			anyCycle = true
		}
	}
	culpritIn := planted && pl.inClosure(in)
	if !(anyCycle && ck.cycleErrorBroken.Load()) {
		gotDAG, err := observeDAG(ws)
		_, wantDAG := s.expectDAG(t)
		switch {
		case err != nil:
			var allowed []string
			if anyCycle {
				allowed = append(allowed, "cycle")
			}
			if culpritIn {
				allowed = append(allowed, plantClass)
			}
			judgeErr("dag", err, Case{Expected: wantDAG}, allowed...)
		case culpritIn:
			ck.violate("fault/dag/"+plantLabel+"/no-error", "with the content of one pinned module unavailable, ModuleSetToDAG succeeded although an ambiguous import is in the closure of the targets", b, t, Case{Observed: gotDAG})
		case anyCycle:
			ck.violate("fault/dag/cycle-in-closure/no-error", "ModuleSetToDAG succeeded although a module on a cycle is in the closure of the targets", b, t, Case{Observed: gotDAG})
		case !reflect.DeepEqual(gotDAG.Nodes, wantDAG.Nodes):
			ck.violate("fault/dag/wrong-nodes", "with the content of one pinned module unavailable, ModuleSetToDAG returned a node set that differs from targets plus reachable instead of failing", b, t, Case{Observed: gotDAG, Expected: wantDAG})
		case !reflect.DeepEqual(gotDAG.Edges, wantDAG.Edges):
			ck.violate("fault/dag/wrong-edges", "with the content of one pinned module unavailable, ModuleSetToDAG returned an edge set that differs from the import edges instead of failing", b, t, Case{Observed: gotDAG, Expected: wantDAG})
		default:
			okExact("dag")
		}
	}

	// --- ls-files and image
	needs := planted && s.needsFile(t, neededFile)
	wantImg := s.expectImage(t)
	wantLs := make([]RefFile, len(wantImg))
	for i, f := range wantImg {
		wantLs[i] = RefFile{Path: f.Path, IsImport: f.IsImport}
	}
	gotLs, err := observeLsFiles(ctx, ws)
	switch {
	case err != nil:
		judgeErr("lsfiles", err, Case{Expected: wantLs}, plantClassIf(needs, plantClass))
	case needs:
		ck.violate("fault/lsfiles/"+plantLabel+"/no-error", "with the content of one pinned module unavailable, ls-files listed files although a needed path is ambiguous", b, t, Case{Observed: gotLs})
	case !reflect.DeepEqual(gotLs, wantLs):
		ck.violate("fault/"+fileListSignature("lsfiles", refPaths(gotLs), refPaths(wantLs)), "with the content of one pinned module unavailable, ls-files listed other files than the image must contain instead of failing", b, t, Case{Observed: gotLs, Expected: wantLs})
	default:
		okExact("lsfiles")
	}
	if !withImage {
		return
	}
	gotImg, err := observeImage(ctx, ws)
	switch {
	case err != nil:
		judgeErr("image", err, Case{Expected: wantImg}, plantClassIf(needs, plantClass))
	case needs:
		ck.violate("fault/image/"+plantLabel+"/no-error", "with the content of one pinned module unavailable, the image was built although a needed path is ambiguous", b, t, Case{Observed: gotImg})
	case !reflect.DeepEqual(gotImg, wantImg):
		sig := fileListSignature("image", imgPaths(gotImg), imgPaths(wantImg))
		if sig == "image/same-files" {
			sig = "image/module-attribution-differs"
		}
		ck.violate("fault/"+sig, "with the content of one pinned module unavailable, an image other than target files + import closure was built instead of failing", b, t, Case{Observed: gotImg, Expected: wantImg})
	default:
		okExact("image")
	}
}

func plantClassIf(cond bool, cls string) string {
	if cond {
		return cls
	}
	return ""
}
