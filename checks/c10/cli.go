package c10

func (ck *checker) familyCLI() {}
