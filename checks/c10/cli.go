package c10

import (
	"context"
	"encoding/json"
	"fmt"
	"os"
	"path/filepath"
	"reflect"
	"sort"
	"strings"
	"sync/atomic"

	imagev1 "github.com/bufbuild/buf/private/gen/proto/go/buf/alpha/image/v1"
	"github.com/bufbuild/bufverif/internal/bufx"
	"github.com/bufbuild/bufverif/internal/enum"
	"google.golang.org/protobuf/proto"
)

// family D: the same reference model against the real CLI (`buf dep graph`, `buf ls-files
// --include-imports --format import`, `buf build -o -`) run in-process on scratch directories.
// Only kinds that exist without a registry (local unnamed, local named, local + pinned in buf.lock;
// the pinned commit is never fetched because the local module wins) can be used offline.

type cliCounters struct {
	commands, depGraphExact, depGraphCycle, lsCompared, buildCompared, lsVsBuild, dupDemands, missDemands, exit100 atomic.Int64
	depGraphJSON, depGraphJSONSeenThenMore                                                                         atomic.Int64
}

func writeTree(dir string, files map[string]string) error {
	for p, c := range files {
		full := filepath.Join(dir, filepath.FromSlash(p))
		if err := os.MkdirAll(filepath.Dir(full), 0o755); err != nil {
			return err
		}
		if err := os.WriteFile(full, []byte(c), 0o644); err != nil {
			return err
		}
	}
	return nil
}

func (ck *checker) familyCLI(maxN int) {
	r := ck.r
	scratch, err := os.MkdirTemp("", "verif-c10-")
	if err != nil {
		r.Incomplete("harness: cannot create scratch dir: " + err.Error())
		return
	}
	defer os.RemoveAll(scratch)
	var cc cliCounters
	var specs []Spec
	cliKinds := []Kind{KLocal, KNamed, KBoth}
	for n := 1; n <= maxN; n++ {
		for _, eg := range enum.Digraphs(n, false) {
			g := fromEnum(eg)
			vectors := allKinds(n, cliKinds)
			if n == 3 && r.Quick() {
				vectors = [][]Kind{{KNamed, KNamed, KNamed}, {KLocal, KNamed, KBoth}}
			}
			for _, ks := range vectors {
				for _, v2 := range []bool{false, true} {
					specs = append(specs, newSpec(g, ks, v2))
				}
			}
			// a module that provides a well-known type and is imported through it alone (family W through the
			// CLI): n <= 2 in the quick tier, n <= 3 in the thorough tier
			if !(n == 3 && r.Quick()) {
				wktVectors := vectors
				if n == 3 {
					wktVectors = [][]Kind{{KLocal, KLocal, KLocal}, {KNamed, KNamed, KNamed}, {KLocal, KNamed, KBoth}}
				}
				for w := 0; w < n; w++ {
					if inDegree(g, w) == 0 {
						continue
					}
					for _, ks := range wktVectors {
						for _, v2 := range []bool{false, true} {
							s := newSpec(g, ks, v2)
							s.WKTProv = w
							specs = append(specs, s)
						}
					}
				}
			}
			// an excluded directory in every local module (fourth round): every configuration form x content,
			// unnamed and named modules; n <= 2 in the quick tier, n <= 3 in the thorough tier
			if !(n == 3 && r.Quick()) {
				for _, layout := range xLayouts {
					for _, content := range xContents {
						for _, k := range []Kind{KLocal, KNamed} {
							if n == 3 && (content != "all" || k != KNamed) {
								continue // n = 3 (thorough): named modules with all three excluded directories
							}
							for _, alone := range []bool{false, true} {
								s := newSpec(g, uniformKinds(n, k), layout == "x2")
								s.Layout, s.Excluded, s.Alone = layout, content, alone
								if alone && k == KLocal {
									// the CLI names an unnamed module by its path relative to the input, which is "."
									// for a module that stands alone; the reference ids are relative to the workspace
									continue
								}
								if ok, _ := s.valid(); ok {
									specs = append(specs, s)
								}
							}
						}
					}
				}
			}
			// plants: n <= 2 in the quick tier, n <= 3 in the thorough tier
			if n == 3 && r.Quick() {
				continue
			}
			for _, v2 := range []bool{false, true} {
				for _, k := range []Kind{KLocal, KNamed} {
					if n == 3 && k == KLocal {
						continue
					}
					ks := make([]Kind, n)
					for i := range ks {
						ks[i] = k
					}
					for from := 0; from < n; from++ {
						for into := 0; into < n; into++ {
							if from != into {
								s := newSpec(g, ks, v2)
								s.DupFrom, s.DupInto = from, into
								specs = append(specs, s)
							}
						}
						s := newSpec(g, ks, v2)
						s.MissingIn = from
						specs = append(specs, s)
					}
				}
			}
		}
	}
	r.Set("cli_specs", len(specs))
	ctx := context.Background()
	r.ParallelFor(len(specs), 0, func(idx int) {
		if ck.done() {
			return
		}
		s := specs[idx]
		b, err := build(ctx, s)
		if err != nil {
			r.Incomplete(fmt.Sprintf("harness: cannot build cli spec %s: %v", s.key(), err))
			return
		}
		dir := filepath.Join(scratch, fmt.Sprintf("w%d", idx))
		if err := writeTree(dir, b.Files); err != nil {
			r.Incomplete("harness: cannot write scratch tree: " + err.Error())
			return
		}
		defer os.RemoveAll(dir)
		for ti, t := range s.targets() {
			if r.Quick() && s.G.N >= 3 && (t.Kind == "file" || t.Kind == "path" || t.Kind == "pathdir") && t.Node != s.locals()[0] {
				// quick, n = 3: the workspace and every module directory, the proto-file / --path targets of the
				// lowest-numbered local module only (all of them at n <= 2 and in the thorough tier)
				continue
			}
			r.Eval(1)
			if hasEdge(s.G) || s.DupFrom >= 0 || s.MissingIn >= 0 {
				r.Distinct("cli/" + s.key() + "/" + t.String())
			}
			r.SampleEvery(idx*16+ti, 4999, func() any { return Case{Spec: s, Target: t, Module: "cli"} })
			ck.checkCLI(ctx, &cc, b, dir, t)
		}
	})
	r.Set("cli_commands", cc.commands.Load())
	r.Set("cli_dep_graph_exact", cc.depGraphExact.Load())
	r.Set("cli_dep_graph_cycle_errors_demanded", cc.depGraphCycle.Load())
	r.Set("cli_dep_graph_json_compared", cc.depGraphJSON.Load())
	r.Set("cli_dep_graph_json_module_with_an_earlier_listed_dep_followed_by_another", cc.depGraphJSONSeenThenMore.Load())
	r.Set("cli_lsfiles_compared", cc.lsCompared.Load())
	r.Set("cli_build_compared", cc.buildCompared.Load())
	r.Set("cli_lsfiles_vs_build_compared", cc.lsVsBuild.Load())
	r.Set("cli_duplicate_demands", cc.dupDemands.Load())
	r.Set("cli_missing_import_demands", cc.missDemands.Load())
	r.Set("cli_exit_100_observed", cc.exit100.Load())
	neverExercised(r, map[string]int64{"cli dep graph": cc.depGraphExact.Load(), "cli dep graph cycle": cc.depGraphCycle.Load(),
		"cli ls-files vs build": cc.lsVsBuild.Load(), "cli dep graph json": cc.depGraphJSON.Load(),
		"cli dep graph json: a module whose first dep is listed earlier and that has a further dep": cc.depGraphJSONSeenThenMore.Load(), "cli duplicate": cc.dupDemands.Load(), "cli missing import exit 100": cc.exit100.Load()})
}

// cliArgs maps a target to the CLI input and flags.
func cliArgs(s Spec, dir string, t Target) (input string, flags []string) {
	switch t.Kind {
	case "dir":
		return filepath.Join(dir, t.dirPath(s)), nil
	case "file":
		return filepath.Join(dir, filepath.FromSlash(t.filePath(s))), nil
	case "path":
		return dir, []string{"--path", filepath.Join(dir, filepath.FromSlash(t.filePath(s)))}
	case "pathdir":
		return dir, []string{"--path", filepath.Join(dir, filepath.FromSlash(t.subDirPath(s)))}
	}
	return dir, nil
}

// parseDOT extracts node and edge sets from `buf dep graph` output.
func parseDOT(out string) (*DAGObs, error) {
	obs := &DAGObs{}
	nodes := map[string]bool{}
	for _, line := range strings.Split(out, "\n") {
		line = strings.TrimSpace(line)
		if line == "" || line == "digraph {" || line == "}" || line == "digraph {}" {
			continue
		}
		parts := strings.Split(line, " -> ")
		unq := make([]string, len(parts))
		for i, p := range parts {
			if len(p) < 2 || p[0] != '"' || p[len(p)-1] != '"' {
				return nil, fmt.Errorf("cannot parse dot line %q", line)
			}
			unq[i] = p[1 : len(p)-1]
			nodes[unq[i]] = true
		}
		switch len(unq) {
		case 1:
		case 2:
			obs.Edges = append(obs.Edges, [2]string{unq[0], unq[1]})
		default:
			return nil, fmt.Errorf("cannot parse dot line %q", line)
		}
	}
	for n := range nodes {
		obs.Nodes = append(obs.Nodes, n)
	}
	sort.Strings(obs.Nodes)
	sortEdges(obs.Edges)
	return obs, nil
}

func (ck *checker) cliViolate(sig, what string, b *Built, t Target, res bufx.CLIResult, c Case) {
	c.Error = fmt.Sprintf("exit=%d stderr=%s", res.ExitCode, res.Stderr)
	if len(c.Error) > 800 {
		c.Error = c.Error[:800]
	}
	ck.violate(sig, what, b, t, c)
}

func (ck *checker) checkCLI(ctx context.Context, cc *cliCounters, b *Built, dir string, t Target) {
	s := b.Spec
	input, flags := cliArgs(s, dir, t)
	runCLI := func(args ...string) bufx.CLIResult {
		cc.commands.Add(1)
		res := bufx.RunCLI(ctx, nil, "", args...)
		res.Stderr = strings.ReplaceAll(res.Stderr, dir, "<ws>")
		return res
	}
	plant := s.DupFrom >= 0 || s.MissingIn >= 0
	in := s.closure(t)
	anyCycle := false
	for i, x := range in {
		if x && s.G.onCycle(i) {
			anyCycle = true
		}
	}

	// ---- dep graph (no --path flag on this command)
	if anyCycle && ck.cycleErrorBroken.Load() {
		ck.r.Incomplete("`buf dep graph` not run on cyclic closures after ModuleDeps missed a cycle (it would not terminate)")
	} else if t.Kind != "path" && t.Kind != "pathdir" {
		res := runCLI("dep", "graph", input)
		switch {
		case plant:
			pl, _ := s.plant()
			if pl.inClosure(in) {
				if res.ExitCode == 0 {
					ck.cliViolate("cli/dep-graph/ambiguity/no-error", "`buf dep graph` succeeded although an ambiguous import is in the closure of the targets", b, t, res, Case{Observed: res.Stdout})
				} else if s.MissingIn >= 0 && !anyCycle {
					cc.missDemands.Add(1)
					if res.ExitCode != 100 {
						ck.cliViolate("cli/dep-graph/missing-import/exit-not-100", "`buf dep graph` did not exit 100 for an import nobody provides", b, t, res, Case{})
					} else {
						cc.exit100.Add(1)
					}
				} else if s.DupFrom >= 0 && !anyCycle {
					cc.dupDemands.Add(1)
					if !strings.Contains(res.Stderr, "is contained in multiple modules") {
						ck.cliViolate("cli/dep-graph/duplicate/wrong-error", "`buf dep graph` failed without naming the duplicate path", b, t, res, Case{})
					}
				}
			}
		case anyCycle:
			cc.depGraphCycle.Add(1)
			if res.ExitCode == 0 {
				ck.cliViolate("cli/dep-graph/cycle-in-closure/no-error", "`buf dep graph` succeeded although a module on a cycle is in the closure of the targets", b, t, res, Case{Observed: res.Stdout})
			} else if !strings.Contains(res.Stderr, "cycle detected in module dependencies") {
				ck.cliViolate("cli/dep-graph/cycle-in-closure/wrong-error", "`buf dep graph` failed with something else than the cycle error", b, t, res, Case{})
			}
		default:
			_, want := s.expectDAG(t)
			if res.ExitCode != 0 {
				ck.cliViolate("cli/dep-graph/acyclic-closure/error", "`buf dep graph` failed on an acyclic closure", b, t, res, Case{Expected: want})
				break
			}
			got, err := parseDOT(res.Stdout)
			if err != nil {
				ck.r.Incomplete("harness: " + err.Error())
				break
			}
			cc.depGraphExact.Add(1)
			// a node without edges is printed alone; nodes with edges appear in edges
			if !reflect.DeepEqual(got.Nodes, want.Nodes) {
				ck.cliViolate("cli/dep-graph/wrong-nodes", "`buf dep graph` node set differs from targets plus reachable", b, t, res, Case{Observed: got, Expected: want})
			} else if !reflect.DeepEqual(got.Edges, want.Edges) {
				ck.cliViolate("cli/dep-graph/wrong-edges", "`buf dep graph` edge set differs from the import edges", b, t, res, Case{Observed: got, Expected: want})
			}
			ck.checkDepGraphJSON(cc, b, t, want, runCLI("dep", "graph", input, "--format", "json"))
		}
	}

	// ---- ls-files --include-imports and build
	lsArgs := append([]string{"ls-files", "--include-imports", "--format", "import", input}, flags...)
	buildArgs := append([]string{"build", input, "-o", "-#format=binpb"}, flags...)
	if plant {
		pl, _ := s.plant()
		if !s.needsFile(t, pl.neededFile) {
			return
		}
		ls, bd := runCLI(lsArgs...), runCLI(buildArgs...)
		if ls.ExitCode == 0 {
			ck.cliViolate("cli/ls-files/ambiguity/no-error", "`buf ls-files --include-imports` succeeded although a needed path is ambiguous", b, t, ls, Case{Observed: ls.Stdout})
		}
		if bd.ExitCode == 0 {
			ck.cliViolate("cli/build/ambiguity/no-error", "`buf build` succeeded although a needed path is ambiguous", b, t, bd, Case{})
		} else if s.MissingIn >= 0 {
			cc.missDemands.Add(1)
			if bd.ExitCode != 100 {
				ck.cliViolate("cli/build/missing-import/exit-not-100", "`buf build` did not exit 100 for an import nobody provides", b, t, bd, Case{})
			} else {
				cc.exit100.Add(1)
			}
		} else {
			cc.dupDemands.Add(1)
			if !strings.Contains(bd.Stderr, "is contained in multiple modules") {
				ck.cliViolate("cli/build/duplicate/wrong-error", "`buf build` failed without naming the duplicate path", b, t, bd, Case{})
			}
		}
		return
	}
	wantImg := s.expectImage(t)
	var wantPaths []string
	for _, f := range wantImg {
		wantPaths = append(wantPaths, f.Path)
	}
	ls := runCLI(lsArgs...)
	var lsPaths []string
	if ls.ExitCode != 0 {
		ck.cliViolate("cli/ls-files/error", "`buf ls-files --include-imports` failed on a well-formed workspace", b, t, ls, Case{})
	} else {
		lsPaths = strings.Split(strings.TrimSuffix(ls.Stdout, "\n"), "\n")
		sort.Strings(lsPaths)
		cc.lsCompared.Add(1)
		if !reflect.DeepEqual(lsPaths, wantPaths) {
			ck.cliViolate("cli/ls-files/files-differ", "`buf ls-files --include-imports` differs from the files the image must contain", b, t, ls, Case{Observed: lsPaths, Expected: wantPaths})
		}
	}
	bd := runCLI(buildArgs...)
	if bd.ExitCode != 0 {
		ck.cliViolate("cli/build/error", "`buf build` failed on a well-formed workspace", b, t, bd, Case{})
		return
	}
	img := &imagev1.Image{}
	if err := proto.Unmarshal([]byte(bd.Stdout), img); err != nil {
		ck.r.Incomplete("harness: cannot parse image from `buf build -o -`: " + err.Error())
		return
	}
	var got []ImgFile
	for _, f := range img.GetFile() {
		x := ImgFile{Path: f.GetName(), IsImport: f.GetBufExtension().GetIsImport()}
		if mi := f.GetBufExtension().GetModuleInfo(); mi != nil && mi.GetName() != nil {
			n := mi.GetName()
			x.Module = n.GetRemote() + "/" + n.GetOwner() + "/" + n.GetRepository()
			x.Commit = mi.GetCommit()
		}
		got = append(got, x)
	}
	sort.Slice(got, func(i, j int) bool { return got[i].Path < got[j].Path })
	cc.buildCompared.Add(1)
	if !reflect.DeepEqual(got, wantImg) {
		sig := fileListSignature("cli/build", imgPaths(got), imgPaths(wantImg))
		if sig == "cli/build/same-files" {
			sig = "cli/build/module-attribution-differs"
		}
		ck.cliViolate(sig, "`buf build` image differs from target files + import closure", b, t, bd, Case{Observed: got, Expected: wantImg})
	}
	if lsPaths != nil {
		var gotPaths []string
		for _, f := range got {
			gotPaths = append(gotPaths, f.Path)
		}
		cc.lsVsBuild.Add(1)
		if !reflect.DeepEqual(lsPaths, gotPaths) {
			ck.cliViolate("cli/ls-files-vs-build/differ", "`buf ls-files --include-imports` and `buf build` disagree on the file list", b, t, ls, Case{Observed: lsPaths, Expected: gotPaths})
		}
	}
}

// jsonModule is one entry of `buf dep graph --format json`.
type jsonModule struct {
	Name   string       `json:"name"`
	Commit string       `json:"commit"`
	Digest string       `json:"digest"`
	Deps   []jsonModule `json:"deps"`
	Local  bool         `json:"local"`
}

// checkDepGraphJSON: `buf dep graph --format json` prints an array of the modules of the graph; the names in the
// `deps` of every entry, at every nesting depth, must be exactly the DIRECT dependencies of that module in the
// reference graph (= the DOT edges out of it). All modules of the CLI family are present locally, so every entry
// is local and has no commit (a module present locally beats the pinned commit of its name).
func (ck *checker) checkDepGraphJSON(cc *cliCounters, b *Built, t Target, want *DAGObs, res bufx.CLIResult) {
	if res.ExitCode != 0 {
		ck.cliViolate("cli/dep-graph-json/error", "`buf dep graph --format json` failed on an acyclic closure", b, t, res, Case{Expected: want})
		return
	}
	var mods []jsonModule
	if err := json.Unmarshal([]byte(res.Stdout), &mods); err != nil {
		ck.cliViolate("cli/dep-graph-json/not-json", "`buf dep graph --format json` did not print a JSON array of modules: "+err.Error(), b, t, res, Case{Observed: res.Stdout})
		return
	}
	cc.depGraphJSON.Add(1)
	direct := map[string][]string{}
	for _, n := range want.Nodes {
		direct[n] = []string{}
	}
	for _, e := range want.Edges {
		direct[e[0]] = append(direct[e[0]], e[1])
	}
	// non-vacuity of the shape "a dep that was listed earlier, followed by a further dep": some module has two
	// or more direct deps and the first of them (by name) sorts before the module itself, so that it was
	// emitted as a top-level module of its own before
	for n, ds := range direct {
		if len(ds) >= 2 && sortedStrings(ds)[0] < n {
			cc.depGraphJSONSeenThenMore.Add(1)
			break
		}
	}
	var names []string
	for _, m := range mods {
		names = append(names, m.Name)
	}
	sort.Strings(names)
	if !reflect.DeepEqual(names, want.Nodes) {
		ck.cliViolate("cli/dep-graph-json/wrong-nodes", "`buf dep graph --format json` module list differs from targets plus reachable", b, t, res, Case{Observed: names, Expected: want.Nodes})
		return
	}
	reported := map[string]bool{}
	var walk func(m jsonModule, depth int)
	walk = func(m jsonModule, depth int) {
		if depth > 8 {
			return
		}
		if (!m.Local || m.Commit != "") && !reported["local"] {
			reported["local"] = true
			ck.cliViolate("cli/dep-graph-json/wrong-local-or-commit", "`buf dep graph --format json` shows a module that is present locally as remote / at a commit", b, t, res, Case{Module: m.Name, Observed: res.Stdout})
		}
		wantDeps, known := direct[m.Name]
		if !known {
			if !reported["unknown"] {
				reported["unknown"] = true
				ck.cliViolate("cli/dep-graph-json/deps-extra", "`buf dep graph --format json` lists a module that is not in the closure of the targets", b, t, res, Case{Module: m.Name, Observed: res.Stdout})
			}
			return
		}
		got := map[string]bool{}
		for _, d := range m.Deps {
			got[d.Name] = true
		}
		missing, extra := false, len(got) > len(wantDeps)
		for _, d := range wantDeps {
			if !got[d] {
				missing = true
			}
		}
		if len(got) == len(wantDeps) && missing {
			extra = true
		}
		gotNames := make([]string, 0, len(got))
		for d := range got {
			gotNames = append(gotNames, d)
		}
		sort.Strings(gotNames)
		switch {
		case missing && !reported["missing"]:
			reported["missing"] = true
			ck.cliViolate("cli/dep-graph-json/deps-missing", "`buf dep graph --format json`: the deps of a module lack one of its direct dependencies (the dot output has the edge)", b, t, res, Case{Module: m.Name, Observed: gotNames, Expected: sortedStrings(wantDeps)})
		case extra && !missing && !reported["extra"]:
			reported["extra"] = true
			ck.cliViolate("cli/dep-graph-json/deps-extra", "`buf dep graph --format json`: the deps of a module hold a module it does not import directly", b, t, res, Case{Module: m.Name, Observed: gotNames, Expected: sortedStrings(wantDeps)})
		}
		for _, d := range m.Deps {
			walk(d, depth+1)
		}
	}
	for _, m := range mods {
		walk(m, 0)
	}
}
