package c10

import (
	"context"
	"errors"
	"fmt"
	"sort"
	"strings"

	"github.com/bufbuild/buf/private/buf/bufworkspace"
	"github.com/bufbuild/buf/private/bufpkg/bufimage"
	"github.com/bufbuild/buf/private/bufpkg/bufmodule"
	"github.com/bufbuild/buf/private/gen/data/datawkt"
	"github.com/bufbuild/buf/private/pkg/uuidutil"
	"github.com/bufbuild/bufverif/internal/bufx"
	"github.com/google/uuid"
)

// Target is a target choice.
type Target struct {
	// Kind: "all" (the workspace directory), "dir" (module directory m<Node>),
	// "file" (proto-file reference m<Node>/p<Node>/b.proto), "path" (workspace + --path m<Node>/p<Node>/b.proto),
	// "pathdir" (workspace + --path m<Node>/p<Node>, a sub-directory of the module).
	Kind string `json:"kind"`
	Node int    `json:"node"`
}

func (t Target) String() string {
	if t.Kind == "all" {
		return "all"
	}
	return fmt.Sprintf("%s%d", t.Kind, t.Node)
}

// filePath is the workspace path of the target file for the "file" and "path" targets.
func (t Target) filePath(s Spec) string { return s.place(t.Node, bPath(t.Node)) }

// subDirPath is the --path value of the "pathdir" target: the package directory inside the module.
func (t Target) subDirPath(s Spec) string {
	p := s.place(t.Node, bPath(t.Node))
	return p[:strings.LastIndex(p, "/")]
}

// dirPath is the input directory of the "dir" target.
func (t Target) dirPath(s Spec) string {
	if s.shared() {
		return "proto"
	}
	return modDir(t.Node)
}

// workspace opens the workspace of b for target t through the same entry point the CLI uses.
func (b *Built) workspace(ctx context.Context, t Target) (bufworkspace.Workspace, error) {
	bucket := bufx.MemBucket(b.Files)
	switch t.Kind {
	case "all":
		return bufx.Workspace(ctx, bucket, ".", nil, nil, b.Providers)
	case "dir":
		return bufx.Workspace(ctx, bucket, t.dirPath(b.Spec), nil, nil, b.Providers)
	case "file":
		// as buffetch does for a ProtoFileRef: input dir = dir of the file, the file is the one target path
		p := t.filePath(b.Spec)
		return bufx.Workspace(ctx, bucket, p[:strings.LastIndex(p, "/")], []string{p}, nil, b.Providers,
			bufworkspace.WithProtoFileTargetPath(p, false))
	case "path":
		return bufx.Workspace(ctx, bucket, ".", []string{t.filePath(b.Spec)}, nil, b.Providers)
	case "pathdir":
		return bufx.Workspace(ctx, bucket, ".", []string{t.subDirPath(b.Spec)}, nil, b.Providers)
	}
	return nil, fmt.Errorf("unknown target kind %q", t.Kind)
}

// ModObs is what is observed of one module of the module set.
type ModObs struct {
	ID     string `json:"id"`
	Local  bool   `json:"local"`
	Target bool   `json:"target"`
	Commit string `json:"commit,omitempty"`
}

func commitString(id uuid.UUID) string {
	if id == uuid.Nil {
		return ""
	}
	return uuidutil.ToDashless(id)
}

func observeModules(ws bufmodule.ModuleSet) []ModObs {
	var out []ModObs
	for _, m := range ws.Modules() {
		out = append(out, ModObs{ID: m.OpaqueID(), Local: m.IsLocal(), Target: m.IsTarget(), Commit: commitString(m.CommitID())})
	}
	sort.Slice(out, func(i, j int) bool { return out[i].ID < out[j].ID })
	return out
}

// errClass classifies an error by the property's three ambiguity errors.
func errClass(err error) string {
	if err == nil {
		return "ok"
	}
	var cyc *bufmodule.ModuleCycleError
	if errors.As(err, &cyc) {
		return "cycle"
	}
	var dup *bufmodule.DuplicateProtoPathError
	if errors.As(err, &dup) {
		return "duplicate"
	}
	var imp *bufmodule.ImportNotExistError
	if errors.As(err, &imp) {
		return "import-not-exist"
	}
	if _, ok := bufx.Annotations(err); ok {
		return "annotations"
	}
	return "other"
}

func observeDeps(m bufmodule.Module) ([]RefDep, error) {
	deps, err := m.ModuleDeps()
	if err != nil {
		return nil, err
	}
	out := make([]RefDep, 0, len(deps))
	for _, d := range deps {
		out = append(out, RefDep{ID: d.OpaqueID(), Direct: d.IsDirect()})
	}
	sort.Slice(out, func(i, j int) bool { return out[i].ID < out[j].ID })
	return out, nil
}

// DAGObs is the node and edge set of ModuleSetToDAG.
type DAGObs struct {
	Nodes []string    `json:"nodes"`
	Edges [][2]string `json:"edges"`
}

func observeDAG(ws bufmodule.ModuleSet) (*DAGObs, error) {
	graph, err := bufmodule.ModuleSetToDAG(ws)
	if err != nil {
		return nil, err
	}
	obs := &DAGObs{}
	if err := graph.WalkNodes(func(m bufmodule.Module, _ []bufmodule.Module, outs []bufmodule.Module) error {
		obs.Nodes = append(obs.Nodes, m.OpaqueID())
		for _, o := range outs {
			obs.Edges = append(obs.Edges, [2]string{m.OpaqueID(), o.OpaqueID()})
		}
		return nil
	}); err != nil {
		return nil, err
	}
	sort.Strings(obs.Nodes)
	sortEdges(obs.Edges)
	return obs, nil
}

func sortEdges(e [][2]string) {
	sort.Slice(e, func(i, j int) bool {
		if e[i][0] != e[j][0] {
			return e[i][0] < e[j][0]
		}
		return e[i][1] < e[j][1]
	})
}

// ImgFile is an observed image file.
type ImgFile struct {
	Path     string `json:"path"`
	IsImport bool   `json:"is_import"`
	Module   string `json:"module,omitempty"`
	Commit   string `json:"commit,omitempty"`
}

func observeImage(ctx context.Context, ws bufmodule.ModuleSet) ([]ImgFile, error) {
	img, err := bufimage.BuildImage(ctx, bufx.Logger, bufmodule.ModuleSetToModuleReadBucketWithOnlyProtoFiles(ws))
	if err != nil {
		return nil, err
	}
	var out []ImgFile
	for _, f := range img.Files() {
		x := ImgFile{Path: f.Path(), IsImport: f.IsImport(), Commit: commitString(f.CommitID())}
		if fn := f.FullName(); fn != nil {
			x.Module = fn.String()
		}
		out = append(out, x)
	}
	sort.Slice(out, func(i, j int) bool { return out[i].Path < out[j].Path })
	return out, nil
}

// observeLsFiles reproduces what `buf ls-files --include-imports` computes from a workspace
// (controller.GetImportableImageFileInfos + ImageFileInfosWithOnlyTargetsAndTargetImports), without an image build.
func observeLsFiles(ctx context.Context, ws bufmodule.ModuleSet) ([]RefFile, error) {
	fileInfos, err := bufmodule.GetFileInfos(ctx, bufmodule.ModuleSetToModuleReadBucketWithOnlyProtoFiles(ws))
	if err != nil {
		return nil, err
	}
	infos := make([]bufimage.ImageFileInfo, 0, len(fileInfos))
	for _, fi := range fileInfos {
		infos = append(infos, bufimage.ImageFileInfoForModuleFileInfo(fi))
	}
	infos, err = bufimage.AppendWellKnownTypeImageFileInfos(ctx, datawkt.ReadBucket, infos)
	if err != nil {
		return nil, err
	}
	infos, err = bufimage.ImageFileInfosWithOnlyTargetsAndTargetImports(ctx, datawkt.ReadBucket, infos)
	if err != nil {
		return nil, err
	}
	var out []RefFile
	for _, i := range infos {
		out = append(out, RefFile{Path: i.Path(), IsImport: i.IsImport()})
	}
	sort.Slice(out, func(i, j int) bool { return out[i].Path < out[j].Path })
	return out, nil
}

// resolveIDs identifies the unnamed local modules of a shared-directory layout by their content
// (the module that has p<i>/b.proto is node i) and returns the spec with their OpaqueIDs filled in.
func resolveIDs(ctx context.Context, s Spec, ws bufmodule.ModuleSet) Spec {
	if !s.shared() {
		return s
	}
	s.ids = map[int]string{}
	for _, m := range ws.Modules() {
		if m.FullName() != nil {
			continue
		}
		for i, k := range s.Kinds {
			if k != KLocal {
				continue
			}
			if _, err := m.StatFileInfo(ctx, bPath(i)); err == nil {
				if _, dup := s.ids[i]; !dup {
					s.ids[i] = m.OpaqueID()
				}
			}
		}
	}
	return s
}
