package c03

import "strings"

// ---------------------------------------------------------------------------------------------
// Base schemas. Each base has the same "standard body" at the four structural positions
// (top level of the first file, nested once, nested twice, top level of a second file of the same
// package), plus unreferenced spare messages / enums / services at every position (deletable),
// referenced payload types, services, and (proto2 / editions) extension ranges and extensions.
// A third file in a package of its own carries the file/package operators.
// ---------------------------------------------------------------------------------------------

// Base is a named base schema.
type Base struct {
	Name   string // proto2, proto3, editions
	Schema *Schema
}

// WithImports returns a copy of the schema whose second file imports two well-known types (used by
// the cosmetic import-order variants of C04).
func WithImports(s *Schema) *Schema {
	n := s.Clone()
	b := n.File("b.proto")
	sg := singular(b.Syntax)
	b.Imports = []string{"google/protobuf/duration.proto", "google/protobuf/timestamp.proto"}
	m := b.Msg("Second")
	m.Fields = append(m.Fields,
		&Field{Name: "ts", Num: 30, Label: sg, Type: "google.protobuf.Timestamp", Kind: "message"},
		&Field{Name: "dur", Num: 31, Label: sg, Type: "google.protobuf.Duration", Kind: "message"})
	return n
}

// Bases returns the three bases.
func Bases() []Base {
	return []Base{
		{"proto3", buildBase("proto3")},
		{"proto2", buildBase("proto2")},
		{"editions", buildBase("editions")},
	}
}

// singular is the label of a plain singular field in the syntax.
func singular(syntax string) string {
	if syntax == "proto2" {
		return "optional"
	}
	return ""
}

func stdEnum(name string) *Enum {
	p := strings.ToUpper(name)
	return &Enum{
		Name: name,
		Values: []*EnumValue{
			{p + "_UNSPECIFIED", 0}, {p + "_ONE", 1}, {p + "_TWO", 2}, {p + "_THREE", 3},
		},
		Reserved:      []Range{{50, 60}, {70, 70}},
		ReservedNames: []string{p + "_OLD_A", p + "_OLD_B"},
	}
}

func spareMsg(name, syntax string) *Message {
	return &Message{
		Name:   name,
		Fields: []*Field{{Name: "id", Num: 1, Label: singular(syntax), Type: "int32", Kind: "int32"}},
		Nested: []*Message{{Name: "Child", Fields: []*Field{{Name: "id", Num: 1, Label: singular(syntax), Type: "int32", Kind: "int32"}}}},
	}
}

// stdBody fills the standard fields into m. enumT / msgT are the enum and message types the
// typed fields refer to (top-level types of the same file).
func stdBody(m *Message, syntax, enumT, msgT string) {
	sg := singular(syntax)
	ev := strings.ToUpper(enumT)
	add := func(f *Field) { m.Fields = append(m.Fields, f) }
	add(&Field{Name: "f_int32", Num: 1, Label: sg, Type: "int32", Kind: "int32"})
	add(&Field{Name: "f_str", Num: 2, Label: sg, Type: "string", Kind: "string"})
	add(&Field{Name: "f_bytes", Num: 3, Label: sg, Type: "bytes", Kind: "bytes"})
	add(&Field{Name: "f_enum", Num: 4, Label: sg, Type: enumT, Kind: "enum"})
	add(&Field{Name: "f_msg", Num: 5, Label: sg, Type: msgT, Kind: "message"})
	add(&Field{Name: "f_rep", Num: 6, Label: "repeated", Type: "int64", Kind: "int64"})
	add(&Field{Name: "f_map", Num: 7, Type: "map<string, int32>", Kind: "map"})
	switch syntax {
	case "proto3":
		add(&Field{Name: "f_opt", Num: 8, Label: "optional", Type: "int32", Kind: "int32"})
	case "proto2":
		add(&Field{Name: "f_opt", Num: 8, Label: "optional", Type: "int32", Kind: "int32"})
	case "editions":
		add(&Field{Name: "f_opt", Num: 8, Type: "int32", Kind: "int32", Opts: []Opt{{"features.field_presence", "IMPLICIT"}}})
	}
	add(&Field{Name: "f_i64", Num: 9, Label: sg, Type: "int64", Kind: "int64"})
	add(&Field{Name: "o_str", Num: 10, Type: "string", Kind: "string", Oneof: "choice"})
	add(&Field{Name: "o_int", Num: 11, Type: "int32", Kind: "int32", Oneof: "choice"})
	add(&Field{Name: "p_bool", Num: 12, Type: "bool", Kind: "bool", Oneof: "other"})
	m.Oneofs = []string{"choice", "other"}
	if syntax == "proto2" {
		add(&Field{Name: "f_req", Num: 13, Label: "required", Type: "int32", Kind: "int32"})
		add(&Field{Name: "grp", Num: 17, Label: "optional", Type: "Grp", Kind: "group",
			Group: &Message{Name: "Grp", Fields: []*Field{{Name: "g", Num: 1, Label: "optional", Type: "int32", Kind: "int32"}}}})
	}
	if syntax == "editions" {
		add(&Field{Name: "f_req", Num: 13, Type: "int32", Kind: "int32", Opts: []Opt{{"features.field_presence", "LEGACY_REQUIRED"}}})
		add(&Field{Name: "f_delim", Num: 17, Type: msgT, Kind: "group", Opts: []Opt{{"features.message_encoding", "DELIMITED"}}})
	}
	if syntax != "proto3" {
		add(&Field{Name: "f_def", Num: 14, Label: sg, Type: "int32", Kind: "int32", Opts: []Opt{{"default", "7"}}})
		add(&Field{Name: "f_defs", Num: 15, Label: sg, Type: "string", Kind: "string", Opts: []Opt{{"default", `"dflt"`}}})
		add(&Field{Name: "f_defe", Num: 16, Label: sg, Type: enumT, Kind: "enum", Opts: []Opt{{"default", ev + "_ONE"}}})
		m.ExtRanges = []Range{{1000, 1999}, {3000, 3000}}
	}
	add(&Field{Name: "slot", Num: 20, Label: sg, Type: "int32", Kind: "int32"})
	m.Reserved = []Range{{100, 110}, {120, 120}}
	m.ReservedNames = []string{"old_a", "old_b"}
}

func extField(name string, num int, syntax, typ string) *Field {
	f := &Field{Name: name, Num: num, Type: typ, Kind: typ}
	if syntax == "proto2" {
		f.Label = "optional"
	}
	return f
}

func buildBase(syntax string) *Schema {
	sg := singular(syntax)
	idField := func() *Field { return &Field{Name: "id", Num: 1, Label: sg, Type: "int32", Kind: "int32"} }
	hasExt := syntax != "proto3"

	// ---- a.proto
	a := &File{Path: "a.proto", Syntax: syntax, Package: "acme.v1"}
	a.Opts = []Opt{{"go_package", `"example.com/acme/v1;acmev1"`}, {"java_package", `"com.acme.v1"`}}
	a.Enums = []*Enum{stdEnum("Color"), stdEnum("SpareEnumTop")}
	payload := &Message{Name: "Payload", Fields: []*Field{idField()}}
	payloadAlt := &Message{Name: "PayloadAlt", Fields: []*Field{idField()}}
	top := &Message{Name: "Top"}
	stdBody(top, syntax, "Color", "Payload")
	deep := &Message{Name: "Deep"}
	stdBody(deep, syntax, "Color", "Payload")
	mid := &Message{Name: "Mid"}
	stdBody(mid, syntax, "Color", "Payload")
	mid.Nested = []*Message{deep, spareMsg("Spare2", syntax)}
	mid.Enums = []*Enum{stdEnum("Color2"), stdEnum("SpareEnum2")}
	outer := &Message{Name: "Outer", Fields: []*Field{idField()}}
	outer.Nested = []*Message{mid, spareMsg("Spare1", syntax)}
	outer.Enums = []*Enum{stdEnum("Color1"), stdEnum("SpareEnum1")}
	a.Messages = []*Message{payload, payloadAlt, top, outer, spareMsg("SpareTop", syntax)}
	if hasExt {
		a.Messages = append(a.Messages, &Message{Name: "Extendable", Fields: []*Field{idField()}, ExtRanges: []Range{{100, 199}}})
		a.Extends = []*Extend{{Extendee: "Extendable", Fields: []*Field{extField("x_top", 100, syntax, "int32"), extField("x_top_str", 101, syntax, "string")}}}
		outer.Extends = []*Extend{{Extendee: "Extendable", Fields: []*Field{extField("x_n1", 110, syntax, "int32"), extField("x_n1_str", 111, syntax, "string")}}}
		mid.Extends = []*Extend{{Extendee: "Extendable", Fields: []*Field{extField("x_n2", 120, syntax, "int32"), extField("x_n2_str", 121, syntax, "string")}}}
	}
	a.Services = []*Service{
		{Name: "Api", Methods: []*Method{
			{Name: "Get", In: "Payload", Out: "Payload"},
			{Name: "Watch", In: "Payload", Out: "Payload", SStream: true},
			{Name: "Push", In: "Payload", Out: "Payload", CStream: true},
			{Name: "Idem", In: "Payload", Out: "Payload", Opts: []Opt{{"idempotency_level", "IDEMPOTENT"}}},
		}},
		{Name: "SpareSvc", Methods: []*Method{{Name: "Ping", In: "Payload", Out: "Payload"}}},
	}

	// ---- b.proto (same package)
	b := &File{Path: "b.proto", Syntax: syntax, Package: "acme.v1"}
	b.Opts = []Opt{{"go_package", `"example.com/acme/v1;acmev1"`}, {"java_package", `"com.acme.v1"`}}
	b.Enums = []*Enum{stdEnum("Shade"), stdEnum("SpareEnumB")}
	second := &Message{Name: "Second"}
	stdBody(second, syntax, "Shade", "Payload2")
	b.Messages = []*Message{
		{Name: "Payload2", Fields: []*Field{idField()}},
		{Name: "Payload2Alt", Fields: []*Field{idField()}},
		second, spareMsg("SpareB", syntax),
	}
	if hasExt {
		b.Messages = append(b.Messages, &Message{Name: "ExtendableB", Fields: []*Field{idField()}, ExtRanges: []Range{{100, 199}}})
		b.Extends = []*Extend{{Extendee: "ExtendableB", Fields: []*Field{extField("x_b", 130, syntax, "int32"), extField("x_b_str", 131, syntax, "string")}}}
	}
	b.Services = []*Service{
		{Name: "ApiB", Methods: []*Method{
			{Name: "Get", In: "Payload2", Out: "Payload2"},
			{Name: "Watch", In: "Payload2", Out: "Payload2", SStream: true},
			{Name: "Push", In: "Payload2", Out: "Payload2", CStream: true},
			{Name: "Idem", In: "Payload2", Out: "Payload2", Opts: []Opt{{"idempotency_level", "NO_SIDE_EFFECTS"}}},
		}},
		{Name: "SpareSvcB", Methods: []*Method{{Name: "Ping", In: "Payload2", Out: "Payload2"}}},
	}

	// ---- c.proto (package of its own)
	c := &File{Path: "sub/c.proto", Syntax: syntax, Package: "solo.v1"}
	c.Messages = []*Message{{Name: "Lone", Fields: []*Field{idField()}}}
	c.Enums = []*Enum{stdEnum("LoneEnum")}
	c.Services = []*Service{{Name: "LoneSvc", Methods: []*Method{{Name: "Ping", In: "Lone", Out: "Lone"}}}}

	if hasExt {
		c.Messages = append(c.Messages, &Message{Name: "LoneExtendable", Fields: []*Field{idField()}, ExtRanges: []Range{{100, 199}}})
		c.Extends = []*Extend{{Extendee: "LoneExtendable", Fields: []*Field{extField("x_lone", 100, syntax, "int32")}}}
	}

	// ---- d.proto: a package with exactly one message and one enum (deleting either leaves the package alive)
	d := &File{Path: "sub/d.proto", Syntax: syntax, Package: "tiny.v1"}
	d.Messages = []*Message{{Name: "Only", Fields: []*Field{idField()}}}
	d.Enums = []*Enum{stdEnum("OnlyEnum")}

	return &Schema{Files: []*File{a, b, c, d}}
}

// SyntaxNeutralBase is a one-file schema that compiles unchanged under proto2, proto3 and
// edition 2023 (explicit labels only where all three allow them), used by the syntax-change operator.
func SyntaxNeutralBase(syntax string) *Schema {
	f := &File{Path: "a.proto", Syntax: syntax, Package: "acme.v1"}
	f.Enums = []*Enum{{Name: "Kind", Values: []*EnumValue{{"KIND_UNSPECIFIED", 0}, {"KIND_ONE", 1}}}}
	f.Messages = []*Message{{Name: "Doc", Fields: []*Field{
		{Name: "tags", Num: 1, Label: "repeated", Type: "string", Kind: "string"},
		{Name: "kinds", Num: 2, Label: "repeated", Type: "Kind", Kind: "enum"},
		{Name: "child", Num: 3, Label: "repeated", Type: "Doc", Kind: "message"},
		{Name: "attrs", Num: 4, Type: "map<string, string>", Kind: "map"},
	}}}
	g := &File{Path: "b.proto", Syntax: syntax, Package: "acme.v1"}
	g.Messages = []*Message{{Name: "Other", Fields: []*Field{{Name: "names", Num: 1, Label: "repeated", Type: "string", Kind: "string"}}}}
	return &Schema{Files: []*File{f, g}}
}
