//go:build !mapseed

package c03

func setMapSeed(seed uint64, on bool) {}

func mapSeedAvailable() bool { return false }
