package c03

import (
	"fmt"
	"strings"
)

// ---------------------------------------------------------------------------------------------
// Edit-operator catalogue. Every operator maps a base schema to one Instance per applicable
// position, together with the annotations the rule documentation says must appear.
// Expectations are deliberately narrow: only what a rule's Purpose text / docs state.
// ---------------------------------------------------------------------------------------------

// Expect is one annotation that must be reported whenever Rule is active in the configuration.
type Expect struct {
	Rule   string   `json:"rule"`
	Names  []string `json:"names"`          // each must occur, double-quoted, in the annotation message
	File   string   `json:"file"`           // expected annotation path
	NoPath bool     `json:"no_path"`        // the element's file no longer exists: the path is not checked
	LocKey string   `json:"loc_key"`        // element of the NEW schema on whose line the annotation must start ("" = unchecked)
	Role   string   `json:"role,omitempty"` // structural role of the edited element, part of the violation signature when set
}

// Instance is one (old, new) pair produced by an operator at one position.
type Instance struct {
	Base    string
	Op      string
	Variant string
	Site    string // file:element
	Pos     string // top | nested1 | nested2 | second | ... | file
	Old     *Schema
	New     *Schema
	Expects []Expect
}

// ID is a stable identifier of the instance.
func (in *Instance) ID() string {
	return in.Base + "/" + in.Op + "/" + in.Variant + "@" + in.Site
}

type gen struct {
	base   Base
	syntax string
	out    []Instance
	full   bool // thorough: larger tables
}

func short(nested string) string {
	if i := strings.LastIndex(nested, "."); i >= 0 {
		return nested[i+1:]
	}
	return nested
}

func parent(nested string) string {
	if i := strings.LastIndex(nested, "."); i >= 0 {
		return nested[:i]
	}
	return ""
}

func itoa(n int) string { return fmt.Sprint(n) }

func (g *gen) emitPair(op, variant, file, elem string, depth int, old, nw *Schema, ex ...Expect) {
	pos := "file"
	if depth >= 0 {
		pos = g.base.Schema.PosClass(file, depth)
	}
	g.out = append(g.out, Instance{
		Base: g.base.Name, Op: op, Variant: variant, Site: file + ":" + elem, Pos: pos,
		Old: old, New: nw, Expects: ex,
	})
}

func (g *gen) emit(op, variant, file, elem string, depth int, nw *Schema, ex ...Expect) {
	g.emitPair(op, variant, file, elem, depth, g.base.Schema, nw, ex...)
}

// fieldNames are the names a field-level annotation must mention.
func fieldNames(mr MsgRef, f *Field) []string {
	return []string{itoa(f.Num), f.Name, short(mr.Nested)}
}

func hasStdBody(m *Message) bool { return m.Field(20) != nil && m.Field(20).Name == "slot" }

// altTypes: per file, the (message, alternative message, enum, unrelated enum) used by type edits.
type fileTypes struct{ msg, altMsg, enum, otherEnum string }

var typesOf = map[string]fileTypes{
	"a.proto": {"Payload", "PayloadAlt", "Color", "SpareEnumTop"},
	"b.proto": {"Payload2", "Payload2Alt", "Shade", "SpareEnumB"},
}

// Instances generates the whole catalogue for a base.
func Instances(base Base, full bool) []Instance {
	g := &gen{base: base, syntax: base.Name, full: full}
	g.opFieldDelete()
	g.opFieldDeleteAdjacentRange()
	g.opEnumValue()
	g.opEnumAlias()
	g.opEnumDelete()
	g.opMessageDelete()
	g.opServiceAndRPC()
	g.opOneof()
	g.opFieldRename()
	g.opFieldJSONName()
	g.opFieldType()
	g.opFieldTypeName()
	g.opMapTypes()
	g.opCardinality()
	g.opDefault()
	g.opDefaultValues()
	g.opCType()
	g.opJSType()
	g.opJavaUTF8()
	g.opUTF8Validation()
	g.opFileOptions()
	g.opFilePackage()
	g.opFileDelete()
	g.opMessageOptions()
	g.opEnumFeatures()
	g.opReserved()
	g.opExtensionRanges()
	g.opExtensions()
	g.opRequiredAdd()
	return g.out
}

// CompoundInstances generates the compound-edit operator (two documented edits on one field) for a base. It is
// kept out of Instances: checks/c04 consumes that catalogue for its own oracles.
func CompoundInstances(base Base, full bool) []Instance {
	g := &gen{base: base, syntax: base.Name, full: full}
	g.opFieldCompound()
	return g.out
}

// SyntaxInstances generates the syntax-change operator (its own tiny base: the change must compile
// under both syntaxes). "unspecified" is a proto2 file without any syntax declaration (legal; buf tracks
// it as "syntax unspecified" and documents it as proto2): every ordered pair of the four spellings.
func SyntaxInstances() []Instance {
	var out []Instance
	syntaxes := []string{"proto2", "proto3", "editions", "unspecified"}
	// effective syntax of a spelling
	eff := func(s string) string {
		if s == "unspecified" {
			return "proto2"
		}
		return s
	}
	set := func(f *File, s string) {
		f.Syntax, f.NoSyntaxDecl = eff(s), s == "unspecified"
	}
	for _, from := range syntaxes {
		for _, to := range syntaxes {
			if from == to {
				continue
			}
			for _, file := range []string{"a.proto", "b.proto"} {
				old := SyntaxNeutralBase(eff(from))
				if from == "unspecified" {
					// the whole old schema is written without syntax declarations
					for _, f := range old.Files {
						set(f, from)
					}
				}
				nw := old.Clone()
				set(nw.File(file), to)
				var ex []Expect
				if eff(from) != eff(to) {
					// the annotation must name the declared syntaxes; how an undeclared one is spelled is left open
					var names []string
					for _, s := range []string{from, to} {
						if s != "unspecified" {
							names = append(names, s)
						}
					}
					ex = []Expect{{Rule: "FILE_SAME_SYNTAX", Names: names, File: file, LocKey: KeySyntax}}
				}
				// else: proto2 <-> no declaration is the same syntax: no claim (kept for C04)
				// proto2 differs from proto3 / edition 2023 defaults in: UTF8 validation of strings
				// (NONE vs VERIFY), enum type (closed vs open), JSON format (best effort vs allow).
				p2from, p2to := eff(from) == "proto2", eff(to) == "proto2"
				if p2from != p2to {
					if file == "a.proto" {
						ex = append(ex,
							Expect{Rule: "FIELD_SAME_UTF8_VALIDATION", Names: []string{"1", "tags", "Doc"}, File: file},
							Expect{Rule: "ENUM_SAME_TYPE", Names: []string{"Kind"}, File: file})
						if p2to {
							ex = append(ex,
								Expect{Rule: "ENUM_SAME_JSON_FORMAT", Names: []string{"Kind"}, File: file},
								Expect{Rule: "MESSAGE_SAME_JSON_FORMAT", Names: []string{"Doc"}, File: file})
						}
					} else {
						ex = append(ex, Expect{Rule: "FIELD_SAME_UTF8_VALIDATION", Names: []string{"1", "names", "Other"}, File: file})
						if p2to {
							ex = append(ex, Expect{Rule: "MESSAGE_SAME_JSON_FORMAT", Names: []string{"Other"}, File: file})
						}
					}
				}
				pos := "top"
				if file == "b.proto" {
					pos = "second"
				}
				op := "file-syntax"
				if len(ex) == 0 {
					op = "file-syntax-neutral"
				}
				out = append(out, Instance{Base: "syntax-neutral", Op: op, Variant: from + "->" + to,
					Site: file + ":syntax", Pos: pos, Old: old, New: nw, Expects: ex})
			}
		}
	}
	return out
}

// ---------------------------------------------------------------------------------------------

func (g *gen) opFieldDelete() {
	for _, mr := range g.base.Schema.Messages() {
		for _, f := range mr.Msg.Fields {
			for _, v := range []struct {
				name            string
				numRes, nameRes bool
			}{{"plain", false, false}, {"number-reserved", true, false}, {"name-reserved", false, true}, {"both-reserved", true, true}} {
				n := g.base.Schema.Clone()
				m := n.File(mr.File).Msg(mr.Nested)
				lastOfOneof := f.Oneof != ""
				for _, o := range mr.Msg.Fields {
					if o != f && o.Oneof == f.Oneof {
						lastOfOneof = false
					}
				}
				m.DeleteField(f.Num)
				if v.numRes {
					m.Reserved = append(m.Reserved, Range{f.Num, f.Num})
				}
				if v.nameRes {
					m.ReservedNames = append(m.ReservedNames, f.Name)
				}
				names := fieldNames(mr, f)
				ex := []Expect{{Rule: "FIELD_NO_DELETE", Names: names, File: mr.File, LocKey: KeyMsg(mr.Nested)}}
				if !v.numRes {
					ex = append(ex, Expect{Rule: "FIELD_NO_DELETE_UNLESS_NUMBER_RESERVED", Names: names, File: mr.File, LocKey: KeyMsg(mr.Nested)})
				}
				if !v.nameRes {
					ex = append(ex, Expect{Rule: "FIELD_NO_DELETE_UNLESS_NAME_RESERVED", Names: names, File: mr.File, LocKey: KeyMsg(mr.Nested)})
				}
				if Cardinality(g.syntax, f) == "required" {
					ex = append(ex, Expect{Rule: "MESSAGE_SAME_REQUIRED_FIELDS", Names: []string{short(mr.Nested), itoa(f.Num)}, File: mr.File, LocKey: KeyMsg(mr.Nested), Role: g.requiredRole()})
				}
				if lastOfOneof {
					ex = append(ex, Expect{Rule: "ONEOF_NO_DELETE", Names: []string{f.Oneof, short(mr.Nested)}, File: mr.File, LocKey: KeyMsg(mr.Nested)})
				}
				g.emit("field-delete", v.name, mr.File, fmt.Sprintf("%s#%d", mr.Nested, f.Num), mr.Depth, n, ex...)
			}
		}
	}
}

// two adjacent fields deleted, one reserved range covering both numbers
func (g *gen) opFieldDeleteAdjacentRange() {
	for _, mr := range g.base.Schema.Messages() {
		if !hasStdBody(mr.Msg) {
			continue
		}
		n := g.base.Schema.Clone()
		m := n.File(mr.File).Msg(mr.Nested)
		f1, f2 := mr.Msg.Field(1), mr.Msg.Field(2)
		m.DeleteField(1)
		m.DeleteField(2)
		m.Reserved = append([]Range{{1, 2}}, m.Reserved...)
		var ex []Expect
		for _, f := range []*Field{f1, f2} {
			ex = append(ex,
				Expect{Rule: "FIELD_NO_DELETE", Names: fieldNames(mr, f), File: mr.File, LocKey: KeyMsg(mr.Nested)},
				Expect{Rule: "FIELD_NO_DELETE_UNLESS_NAME_RESERVED", Names: fieldNames(mr, f), File: mr.File, LocKey: KeyMsg(mr.Nested)})
		}
		g.emit("field-delete-two", "range-reserved", mr.File, mr.Nested+"#1,2", mr.Depth, n, ex...)
	}
}

func (g *gen) opEnumValue() {
	for _, er := range g.base.Schema.AllEnums() {
		if len(er.Enum.Values) != 4 {
			continue // the alias enums have their own operator
		}
		encl := KeyEnum(er.Nested)
		for _, idx := range []int{3, 2} {
			val := er.Enum.Values[idx]
			for _, v := range []struct {
				name            string
				numRes, nameRes bool
			}{{"plain", false, false}, {"number-reserved", true, false}, {"name-reserved", false, true}, {"both-reserved", true, true}} {
				if idx == 2 && (v.numRes != v.nameRes) {
					continue // the middle value only in the plain and fully reserved variants
				}
				if idx == 2 && val.Name == strings.ToUpper(short(er.Nested))+"_ONE" {
					continue
				}
				n := g.base.Schema.Clone()
				e := n.File(er.File).Enum(er.Nested)
				e.DeleteValue(val.Name)
				if v.numRes {
					e.Reserved = append(e.Reserved, Range{val.Num, val.Num})
				}
				if v.nameRes {
					e.ReservedNames = append(e.ReservedNames, val.Name)
				}
				names := []string{itoa(val.Num), short(er.Nested)}
				ex := []Expect{{Rule: "ENUM_VALUE_NO_DELETE", Names: names, File: er.File, LocKey: encl}}
				if !v.numRes {
					ex = append(ex, Expect{Rule: "ENUM_VALUE_NO_DELETE_UNLESS_NUMBER_RESERVED", Names: names, File: er.File, LocKey: encl})
				}
				if !v.nameRes {
					ex = append(ex, Expect{Rule: "ENUM_VALUE_NO_DELETE_UNLESS_NAME_RESERVED", Names: append([]string{val.Name}, names...), File: er.File, LocKey: encl})
				}
				g.emit("enum-value-delete", fmt.Sprintf("%s-idx%d", v.name, idx), er.File, er.Nested+"."+val.Name, er.Depth, n, ex...)
			}
		}
		// rename (same number)
		val := er.Enum.Values[2]
		n := g.base.Schema.Clone()
		e := n.File(er.File).Enum(er.Nested)
		e.Value(val.Name).Name = val.Name + "_RENAMED"
		g.emit("enum-value-rename", "same-number", er.File, er.Nested+"."+val.Name, er.Depth, n,
			Expect{Rule: "ENUM_VALUE_SAME_NAME", Names: []string{itoa(val.Num), short(er.Nested), val.Name, val.Name + "_RENAMED"}, File: er.File, LocKey: KeyEnumValue(er.Nested, val.Name+"_RENAMED")})
	}
}

// aliasEnum is added to the old schema at a position by the alias operator: number 1 carries two names,
// number 2 two, number 3 three.
func aliasEnum(name string) *Enum {
	p := strings.ToUpper(name)
	return &Enum{Name: name, Opts: []Opt{{"allow_alias", "true"}}, Values: []*EnumValue{
		{p + "_UNSPECIFIED", 0}, {p + "_LOW", 1}, {p + "_MIN", 1}, {p + "_HIGH", 2}, {p + "_MAX", 2},
		{p + "_TRI_A", 3}, {p + "_TRI_B", 3}, {p + "_TRI_C", 3},
	}}
}

func (g *gen) opEnumAlias() {
	type site struct{ file, msg string }
	for _, st := range []site{{"a.proto", ""}, {"a.proto", "Outer"}, {"a.proto", "Outer.Mid"}, {"b.proto", ""}} {
		name := "Level" + strings.ReplaceAll(st.msg, ".", "")
		if st.file == "b.proto" {
			name = "LevelB"
		}
		p := strings.ToUpper(name)
		nested := name
		depth := 0
		if st.msg != "" {
			nested = st.msg + "." + name
			depth = strings.Count(st.msg, ".") + 1
		}
		mk := func() (*Schema, *Enum) {
			s := g.base.Schema.Clone()
			e := aliasEnum(name)
			if st.msg == "" {
				s.File(st.file).Enums = append(s.File(st.file).Enums, e)
			} else {
				m := s.File(st.file).Msg(st.msg)
				m.Enums = append(m.Enums, e)
			}
			return s, e
		}
		old, _ := mk()
		// delete every name of an aliased number (1: two names, 3: three names); the new version reserves
		// every subset of the deleted names (none, some, all) x the number reserved or not. A deleted value
		// whose name is not reserved is "deleted without reserving the name", whatever its aliases got.
		for _, grp := range []struct {
			label string
			num   int
			names []string
		}{{"pair", 1, []string{p + "_LOW", p + "_MIN"}}, {"triple", 3, []string{p + "_TRI_A", p + "_TRI_B", p + "_TRI_C"}}} {
			for mask := 0; mask < 1<<len(grp.names); mask++ {
				for _, numRes := range []bool{false, true} {
					n, e := mk()
					var reserved, unreserved []string
					for i, vn := range grp.names {
						e.DeleteValue(vn)
						if mask&(1<<i) != 0 {
							reserved = append(reserved, vn)
						} else {
							unreserved = append(unreserved, vn)
						}
					}
					if numRes {
						e.Reserved = append(e.Reserved, Range{grp.num, grp.num})
					}
					// reserved names are written in reverse order of declaration
					for i := len(reserved) - 1; i >= 0; i-- {
						e.ReservedNames = append(e.ReservedNames, reserved[i])
					}
					names := []string{itoa(grp.num), name}
					ex := []Expect{{Rule: "ENUM_VALUE_NO_DELETE", Names: names, File: st.file, LocKey: KeyEnum(nested)}}
					if !numRes {
						ex = append(ex, Expect{Rule: "ENUM_VALUE_NO_DELETE_UNLESS_NUMBER_RESERVED", Names: names, File: st.file, LocKey: KeyEnum(nested)})
					}
					if len(unreserved) > 0 {
						ex = append(ex, Expect{Rule: "ENUM_VALUE_NO_DELETE_UNLESS_NAME_RESERVED", Names: append(append([]string(nil), names...), unreserved...), File: st.file, LocKey: KeyEnum(nested)})
					}
					// variant names of the pre-existing cases are kept
					variant := ""
					switch {
					case len(reserved) == 0 && !numRes:
						variant = "plain"
					case len(reserved) == 0:
						variant = "number-reserved"
					case len(unreserved) == 0 && !numRes:
						variant = "all-names-reserved"
					case len(unreserved) == 0:
						variant = "all-names-and-number-reserved"
					default:
						sh := make([]string, len(reserved))
						for i, r := range reserved {
							sh[i] = strings.TrimPrefix(r, p+"_")
						}
						variant = "only-" + strings.Join(sh, "+") + "-reserved"
						if numRes {
							variant += "-and-number"
						}
					}
					if grp.label != "pair" {
						variant = grp.label + "-" + variant
					}
					g.emitPair("enum-alias-delete-number", variant, st.file, fmt.Sprintf("%s#%d", nested, grp.num), depth, old, n, ex...)
				}
			}
		}
		// one of two aliases removed (the number survives): every previous name of a number must remain
		n0, e0 := mk()
		e0.DeleteValue(p + "_MIN")
		g.emitPair("enum-alias-delete-one-name", "number-survives", st.file, nested+"."+p+"_MIN", depth, old, n0,
			Expect{Rule: "ENUM_VALUE_SAME_NAME", Names: []string{"1", name, p + "_MIN"}, File: st.file, LocKey: KeyEnumValue(nested, p+"_LOW")})
		// two of three aliases removed (the number survives)
		n3, e3 := mk()
		e3.DeleteValue(p + "_TRI_B")
		e3.DeleteValue(p + "_TRI_C")
		g.emitPair("enum-alias-delete-one-name", "two-of-three-number-survives", st.file, nested+"."+p+"_TRI_B", depth, old, n3,
			Expect{Rule: "ENUM_VALUE_SAME_NAME", Names: []string{"3", name}, File: st.file, LocKey: KeyEnumValue(nested, p+"_TRI_A")})
		// rename one of the two aliases: the new name set is not contained in the old one
		n, e := mk()
		e.Value(p + "_MIN").Name = p + "_LEAST"
		g.emitPair("enum-alias-rename", "one-of-two", st.file, nested+"."+p+"_MIN", depth, old, n,
			Expect{Rule: "ENUM_VALUE_SAME_NAME", Names: []string{"1", name}, File: st.file})
	}
}

func enumReferenced(name string) bool { return name == "Color" || name == "Shade" }

func (g *gen) opEnumDelete() {
	for _, er := range g.base.Schema.AllEnums() {
		if enumReferenced(er.Nested) {
			continue
		}
		pkg := g.base.Schema.File(er.File).Package
		n := g.base.Schema.Clone()
		f := n.File(er.File)
		loc := ""
		if p := parent(er.Nested); p != "" {
			f.Msg(p).DeleteEnum(short(er.Nested))
			loc = KeyMsg(p)
		} else {
			f.DeleteEnum(er.Nested)
		}
		role := ""
		if ne, _, _, _ := g.base.Schema.CountInPackage(pkg); ne == 1 {
			role = roleLast
		}
		g.emit("enum-delete", "plain", er.File, er.Nested, er.Depth, n,
			Expect{Rule: "ENUM_NO_DELETE", Names: []string{er.Nested}, File: er.File, LocKey: loc},
			Expect{Rule: "PACKAGE_ENUM_NO_DELETE", Names: []string{er.Nested, pkg}, File: er.File, LocKey: loc, Role: role})
		// move a top-level enum to the other file of the same package: gone from the file, not from the package
		if er.Depth == 0 && pkg == "acme.v1" {
			other := "b.proto"
			if er.File == "b.proto" {
				other = "a.proto"
			}
			n := g.base.Schema.Clone()
			n.File(er.File).DeleteEnum(er.Nested)
			n.File(other).Enums = append(n.File(other).Enums, er.Enum)
			g.emit("enum-delete", "moved-to-other-file", er.File, er.Nested, er.Depth, n,
				Expect{Rule: "ENUM_NO_DELETE", Names: []string{er.Nested}, File: er.File})
		}
	}
}

func isSpare(name string) bool { return strings.HasPrefix(short(name), "Spare") }

// roleLast marks the deletion of the last enum / message / service / extension of a package that
// itself survives (other kinds of elements remain in it).
const roleLast = "last-of-kind-in-surviving-package"

// roleLegacyRequired marks required fields declared the editions way (features.field_presence = LEGACY_REQUIRED).
const roleLegacyRequired = "editions-legacy-required"

func (g *gen) requiredRole() string {
	if g.syntax == "editions" {
		return roleLegacyRequired
	}
	return ""
}

func (g *gen) opMessageDelete() {
	for _, mr := range g.base.Schema.Messages() {
		pkg := g.base.Schema.File(mr.File).Package
		switch {
		case mr.Nested == "Only":
			n := g.base.Schema.Clone()
			n.File(mr.File).DeleteMessage(mr.Nested)
			g.emit("message-delete", "only-message-of-package", mr.File, mr.Nested, mr.Depth, n,
				Expect{Rule: "MESSAGE_NO_DELETE", Names: []string{mr.Nested}, File: mr.File},
				Expect{Rule: "PACKAGE_MESSAGE_NO_DELETE", Names: []string{mr.Nested, pkg}, File: mr.File, Role: roleLast})
		case isSpare(mr.Nested):
			n := g.base.Schema.Clone()
			f := n.File(mr.File)
			loc := ""
			if p := parent(mr.Nested); p != "" {
				f.Msg(p).DeleteNested(short(mr.Nested))
				loc = KeyMsg(p)
			} else {
				f.DeleteMessage(mr.Nested)
			}
			child := mr.Nested + ".Child"
			g.emit("message-delete", "with-child", mr.File, mr.Nested, mr.Depth, n,
				Expect{Rule: "MESSAGE_NO_DELETE", Names: []string{mr.Nested}, File: mr.File, LocKey: loc},
				Expect{Rule: "MESSAGE_NO_DELETE", Names: []string{child}, File: mr.File, LocKey: loc},
				Expect{Rule: "PACKAGE_MESSAGE_NO_DELETE", Names: []string{mr.Nested, pkg}, File: mr.File, LocKey: loc},
				Expect{Rule: "PACKAGE_MESSAGE_NO_DELETE", Names: []string{child, pkg}, File: mr.File, LocKey: loc})
			if mr.Depth == 0 {
				other := "b.proto"
				if mr.File == "b.proto" {
					other = "a.proto"
				}
				n := g.base.Schema.Clone()
				n.File(mr.File).DeleteMessage(mr.Nested)
				n.File(other).Messages = append([]*Message{mr.Msg}, n.File(other).Messages...)
				g.emit("message-delete", "moved-to-other-file", mr.File, mr.Nested, mr.Depth, n,
					Expect{Rule: "MESSAGE_NO_DELETE", Names: []string{mr.Nested}, File: mr.File},
					Expect{Rule: "MESSAGE_NO_DELETE", Names: []string{child}, File: mr.File})
			}
		case short(mr.Nested) == "Child" && isSpare(parent(mr.Nested)):
			n := g.base.Schema.Clone()
			n.File(mr.File).Msg(parent(mr.Nested)).DeleteNested("Child")
			loc := KeyMsg(parent(mr.Nested))
			g.emit("message-delete", "nested-leaf", mr.File, mr.Nested, mr.Depth, n,
				Expect{Rule: "MESSAGE_NO_DELETE", Names: []string{mr.Nested}, File: mr.File, LocKey: loc},
				Expect{Rule: "PACKAGE_MESSAGE_NO_DELETE", Names: []string{mr.Nested, pkg}, File: mr.File, LocKey: loc})
		}
	}
}

func (g *gen) opServiceAndRPC() {
	for fi, f := range g.base.Schema.Files {
		depth := 0
		for _, svc := range f.Services {
			if isSpare(svc.Name) || svc.Name == "LoneSvc" {
				n := g.base.Schema.Clone()
				n.File(f.Path).DeleteService(svc.Name)
				role := ""
				if _, _, ns, _ := g.base.Schema.CountInPackage(f.Package); ns == 1 {
					role = roleLast
				}
				g.emit("service-delete", "plain", f.Path, svc.Name, depth, n,
					Expect{Rule: "SERVICE_NO_DELETE", Names: []string{svc.Name}, File: f.Path},
					Expect{Rule: "PACKAGE_SERVICE_NO_DELETE", Names: []string{svc.Name, f.Package}, File: f.Path, Role: role})
				if fi < 2 {
					other := g.base.Schema.Files[1-fi].Path
					n := g.base.Schema.Clone()
					n.File(f.Path).DeleteService(svc.Name)
					moved := *svc
					// the moved service needs types visible in the other file: use that file's payload
					tt := typesOf[other]
					moved.Methods = []*Method{{Name: "Ping", In: tt.msg, Out: tt.msg}}
					n.File(other).Services = append(n.File(other).Services, &moved)
					g.emit("service-delete", "moved-to-other-file", f.Path, svc.Name, depth, n,
						Expect{Rule: "SERVICE_NO_DELETE", Names: []string{svc.Name}, File: f.Path})
				}
			}
			for _, m := range svc.Methods {
				names := []string{m.Name, svc.Name}
				key := KeyMethod(svc.Name, m.Name)
				elem := svc.Name + "." + m.Name
				if len(svc.Methods) > 1 {
					n := g.base.Schema.Clone()
					s := n.File(f.Path).Service(svc.Name)
					var keep []*Method
					for _, x := range s.Methods {
						if x.Name != m.Name {
							keep = append(keep, x)
						}
					}
					s.Methods = keep
					g.emit("rpc-delete", "plain", f.Path, elem, depth, n,
						Expect{Rule: "RPC_NO_DELETE", Names: names, File: f.Path, LocKey: KeyService(svc.Name)})
				}
				edit := func(variant, rule string, mut func(x *Method)) {
					n := g.base.Schema.Clone()
					mut(n.File(f.Path).Service(svc.Name).Method(m.Name))
					g.emit("rpc-change", variant, f.Path, elem, depth, n, Expect{Rule: rule, Names: names, File: f.Path, LocKey: key})
				}
				if tt, ok := typesOf[f.Path]; ok {
					edit("request-type", "RPC_SAME_REQUEST_TYPE", func(x *Method) { x.In = tt.altMsg })
					edit("response-type", "RPC_SAME_RESPONSE_TYPE", func(x *Method) { x.Out = tt.altMsg })
				}
				edit("client-streaming", "RPC_SAME_CLIENT_STREAMING", func(x *Method) { x.CStream = !x.CStream })
				edit("server-streaming", "RPC_SAME_SERVER_STREAMING", func(x *Method) { x.SStream = !x.SStream })
				cur, set := getOpt(m.Opts, "idempotency_level")
				if !set {
					edit("idempotency-unset-to-idempotent", "RPC_SAME_IDEMPOTENCY_LEVEL", func(x *Method) { x.Opts = setOpt(x.Opts, "idempotency_level", "IDEMPOTENT") })
					edit("idempotency-unset-to-no-side-effects", "RPC_SAME_IDEMPOTENCY_LEVEL", func(x *Method) { x.Opts = setOpt(x.Opts, "idempotency_level", "NO_SIDE_EFFECTS") })
				} else {
					to := "NO_SIDE_EFFECTS"
					if cur == to {
						to = "IDEMPOTENT"
					}
					edit("idempotency-changed", "RPC_SAME_IDEMPOTENCY_LEVEL", func(x *Method) { x.Opts = setOpt(x.Opts, "idempotency_level", to) })
					// removing the option: the annotation has no option location left in the new file
					n := g.base.Schema.Clone()
					x := n.File(f.Path).Service(svc.Name).Method(m.Name)
					x.Opts = delOpt(x.Opts, "idempotency_level")
					g.emit("rpc-change", "idempotency-removed", f.Path, elem, depth, n, Expect{Rule: "RPC_SAME_IDEMPOTENCY_LEVEL", Names: names, File: f.Path})
				}
			}
		}
	}
}

func (g *gen) plainLabel() string {
	if g.syntax == "proto2" {
		return "optional"
	}
	if g.syntax == "proto3" {
		return "optional" // keeps explicit presence, like a oneof member
	}
	return ""
}

func (g *gen) opOneof() {
	for _, mr := range g.base.Schema.Messages() {
		if !hasStdBody(mr.Msg) {
			continue
		}
		msgKey := KeyMsg(mr.Nested)
		for _, oo := range mr.Msg.Oneofs {
			var members []*Field
			for _, f := range mr.Msg.Fields {
				if f.Oneof == oo {
					members = append(members, f)
				}
			}
			// delete the oneof with its members
			n := g.base.Schema.Clone()
			m := n.File(mr.File).Msg(mr.Nested)
			ex := []Expect{{Rule: "ONEOF_NO_DELETE", Names: []string{oo, short(mr.Nested)}, File: mr.File, LocKey: msgKey}}
			for _, f := range members {
				m.DeleteField(f.Num)
				ex = append(ex, Expect{Rule: "FIELD_NO_DELETE", Names: fieldNames(mr, f), File: mr.File, LocKey: msgKey})
			}
			g.emit("oneof-delete", "with-members", mr.File, mr.Nested+"."+oo, mr.Depth, n, ex...)
			// dissolve: members become plain fields
			n = g.base.Schema.Clone()
			m = n.File(mr.File).Msg(mr.Nested)
			ex = []Expect{{Rule: "ONEOF_NO_DELETE", Names: []string{oo, short(mr.Nested)}, File: mr.File, LocKey: msgKey}}
			for _, f := range members {
				nf := m.Field(f.Num)
				nf.Oneof = ""
				nf.Label = g.plainLabel()
				ex = append(ex, Expect{Rule: "FIELD_SAME_ONEOF", Names: fieldNames(mr, f), File: mr.File, LocKey: KeyField(mr.Nested, f.Num)})
			}
			m.DeleteOneofName(oo)
			g.emit("oneof-dissolve", "members-kept", mr.File, mr.Nested+"."+oo, mr.Depth, n, ex...)
			// rename
			n = g.base.Schema.Clone()
			m = n.File(mr.File).Msg(mr.Nested)
			ex = []Expect{{Rule: "ONEOF_NO_DELETE", Names: []string{oo, short(mr.Nested)}, File: mr.File, LocKey: msgKey}}
			for _, f := range members {
				m.Field(f.Num).Oneof = oo + "_renamed"
				ex = append(ex, Expect{Rule: "FIELD_SAME_ONEOF", Names: append(fieldNames(mr, f), oo, oo+"_renamed"), File: mr.File, LocKey: KeyField(mr.Nested, f.Num)})
			}
			for i := range m.Oneofs {
				if m.Oneofs[i] == oo {
					m.Oneofs[i] = oo + "_renamed"
				}
			}
			g.emit("oneof-rename", "plain", mr.File, mr.Nested+"."+oo, mr.Depth, n, ex...)
		}
		// a member leaves its oneof (the oneof survives)
		f := mr.Msg.Field(11)
		n := g.base.Schema.Clone()
		nf := n.File(mr.File).Msg(mr.Nested).Field(11)
		nf.Oneof, nf.Label = "", g.plainLabel()
		g.emit("field-oneof", "member-leaves", mr.File, mr.Nested+"#11", mr.Depth, n,
			Expect{Rule: "FIELD_SAME_ONEOF", Names: fieldNames(mr, f), File: mr.File, LocKey: KeyField(mr.Nested, 11)})
		// a member moves to the other oneof
		n = g.base.Schema.Clone()
		n.File(mr.File).Msg(mr.Nested).Field(11).Oneof = "other"
		g.emit("field-oneof", "member-moves", mr.File, mr.Nested+"#11", mr.Depth, n,
			Expect{Rule: "FIELD_SAME_ONEOF", Names: append(fieldNames(mr, f), "choice", "other"), File: mr.File, LocKey: KeyField(mr.Nested, 11)})
		// plain fields join a oneof: explicit-presence f_i64 (proto2/editions), f_str
		for _, num := range []int{2, 9} {
			f := mr.Msg.Field(num)
			n = g.base.Schema.Clone()
			nf = n.File(mr.File).Msg(mr.Nested).Field(num)
			nf.Oneof, nf.Label = "choice", ""
			ex := []Expect{{Rule: "FIELD_SAME_ONEOF", Names: fieldNames(mr, f), File: mr.File, LocKey: KeyField(mr.Nested, num)}}
			if Cardinality(g.syntax, f) == "implicit" {
				ex = append(ex, Expect{Rule: "FIELD_SAME_CARDINALITY", Names: fieldNames(mr, f), File: mr.File, LocKey: KeyField(mr.Nested, num)})
			}
			g.emit("field-oneof", "field-joins", mr.File, fmt.Sprintf("%s#%d", mr.Nested, num), mr.Depth, n, ex...)
		}
	}
}

func (g *gen) opFieldRename() {
	for _, mr := range g.base.Schema.Messages() {
		for _, f := range mr.Msg.Fields {
			if f.Group != nil {
				continue // a group's field name is derived from its type name
			}
			n := g.base.Schema.Clone()
			n.File(mr.File).Msg(mr.Nested).Field(f.Num).Name = f.Name + "_renamed"
			g.emit("field-rename", "plain", mr.File, fmt.Sprintf("%s#%d", mr.Nested, f.Num), mr.Depth, n,
				Expect{Rule: "FIELD_SAME_NAME", Names: []string{itoa(f.Num), f.Name, f.Name + "_renamed", short(mr.Nested)}, File: mr.File, LocKey: KeyField(mr.Nested, f.Num)})
		}
	}
}

func (g *gen) opFieldJSONName() {
	for _, mr := range g.base.Schema.Messages() {
		if !hasStdBody(mr.Msg) {
			continue
		}
		for _, num := range []int{1, 5, 6, 7, 10} {
			f := mr.Msg.Field(num)
			elem := fmt.Sprintf("%s#%d", mr.Nested, num)
			ex := Expect{Rule: "FIELD_SAME_JSON_NAME", Names: fieldNames(mr, f), File: mr.File, LocKey: KeyField(mr.Nested, num)}
			with := func(val string) *Schema {
				s := g.base.Schema.Clone()
				x := s.File(mr.File).Msg(mr.Nested).Field(num)
				if val != "" {
					x.Opts = setOpt(x.Opts, "json_name", `"`+val+`"`)
				}
				return s
			}
			g.emit("field-json-name", "unset-to-custom", mr.File, elem, mr.Depth, with("customName"), ex)
			g.emitPair("field-json-name", "custom-to-other", mr.File, elem, mr.Depth, with("customName"), with("otherName"), ex)
			g.emitPair("field-json-name", "custom-to-unset", mr.File, elem, mr.Depth, with("customName"), with(""), ex)
		}
	}
}

// kindsOf lists the field kinds available in a syntax.
func kindsOf(syntax string) []string {
	k := append([]string(nil), ScalarKinds...)
	k = append(k, "enum", "message")
	if syntax != "proto3" {
		k = append(k, "group")
	}
	return k
}

// setKind rewrites field f (number 20 "slot" or a oneof member) to the kind.
func (g *gen) setKind(f *Field, kind string, tt fileTypes) {
	f.Kind = kind
	f.Group = nil
	f.Opts = delOpt(f.Opts, "features.message_encoding")
	switch kind {
	case "enum":
		f.Type = tt.enum
	case "message":
		f.Type = tt.msg
	case "group":
		if g.syntax == "proto2" {
			// field name is the lower-cased group name
			f.Type = strings.ToUpper(f.Name[:1]) + f.Name[1:]
			f.Group = &Message{Name: f.Type, Fields: []*Field{{Name: "g", Num: 1, Label: "optional", Type: "int32", Kind: "int32"}}}
		} else {
			f.Type = tt.msg
			f.Opts = setOpt(f.Opts, "features.message_encoding", "DELIMITED")
		}
	default:
		f.Type = kind
	}
}

func (g *gen) typeExpects(mr MsgRef, f *Field, from, to string) []Expect {
	names := fieldNames(mr, f)
	key := KeyField(mr.Nested, f.Num)
	ex := []Expect{{Rule: "FIELD_SAME_TYPE", Names: names, File: mr.File, LocKey: key}}
	if WireBreaking(from, to) {
		ex = append(ex, Expect{Rule: "FIELD_WIRE_COMPATIBLE_TYPE", Names: names, File: mr.File, LocKey: key})
	}
	if WireJSONBreaking(from, to) {
		ex = append(ex, Expect{Rule: "FIELD_WIRE_JSON_COMPATIBLE_TYPE", Names: names, File: mr.File, LocKey: key})
	}
	return ex
}

// opFieldType: the full ordered-pair table of field kinds on the slot field of every standard message.
func (g *gen) opFieldType() {
	kinds := kindsOf(g.syntax)
	for _, mr := range g.base.Schema.Messages() {
		if !hasStdBody(mr.Msg) {
			continue
		}
		tt := typesOf[mr.File]
		type slotT struct {
			num      int
			repeated bool
		}
		slots := []slotT{{20, false}}
		if g.full {
			slots = append(slots, slotT{20, true}, slotT{11, false})
		}
		for _, sl := range slots {
			// one schema per kind, shared by all pairs (instances never mutate their schemas)
			byKind := map[string]*Schema{}
			for _, kind := range kinds {
				s := g.base.Schema.Clone()
				f := s.File(mr.File).Msg(mr.Nested).Field(sl.num)
				g.setKind(f, kind, tt)
				if sl.repeated {
					f.Label = "repeated"
				}
				byKind[kind] = s
			}
			for _, from := range kinds {
				for _, to := range kinds {
					if from == to {
						continue
					}
					if sl.num == 11 && (from == "group" || to == "group") && g.syntax == "proto2" {
						continue // keep the oneof member simple: a proto2 group renames the field
					}
					f := mr.Msg.Field(sl.num)
					variant := from + "->" + to
					if sl.repeated {
						variant += "/repeated"
					}
					g.emitPair("field-type", variant, mr.File, fmt.Sprintf("%s#%d", mr.Nested, sl.num), mr.Depth, byKind[from], byKind[to], g.typeExpects(mr, f, from, to)...)
				}
			}
		}
	}
}

// opFieldTypeName: same kind, different message / enum type.
func (g *gen) opFieldTypeName() {
	for _, mr := range g.base.Schema.Messages() {
		if !hasStdBody(mr.Msg) {
			continue
		}
		tt := typesOf[mr.File]
		all := func(f *Field) []Expect {
			names := fieldNames(mr, f)
			key := KeyField(mr.Nested, f.Num)
			return []Expect{
				{Rule: "FIELD_SAME_TYPE", Names: names, File: mr.File, LocKey: key},
				{Rule: "FIELD_WIRE_COMPATIBLE_TYPE", Names: names, File: mr.File, LocKey: key},
				{Rule: "FIELD_WIRE_JSON_COMPATIBLE_TYPE", Names: names, File: mr.File, LocKey: key},
			}
		}
		// message -> other message
		f := mr.Msg.Field(5)
		n := g.base.Schema.Clone()
		n.File(mr.File).Msg(mr.Nested).Field(5).Type = tt.altMsg
		g.emit("field-type-name", "message-to-other-message", mr.File, mr.Nested+"#5", mr.Depth, n, all(f)...)
		// enum -> enum with another short name
		f = mr.Msg.Field(4)
		n = g.base.Schema.Clone()
		n.File(mr.File).Msg(mr.Nested).Field(4).Type = tt.otherEnum
		g.emit("field-type-name", "enum-to-other-enum", mr.File, mr.Nested+"#4", mr.Depth, n, all(f)...)
		// enum -> enum of the same short name elsewhere that lacks a value: "previous is not a subset"
		n = g.base.Schema.Clone()
		p := strings.ToUpper(tt.enum)
		n.File(mr.File).Messages = append(n.File(mr.File).Messages, &Message{Name: "Narrow", Enums: []*Enum{{Name: tt.enum, Values: []*EnumValue{
			{p + "_UNSPECIFIED", 0}, {p + "_ONE", 1}, {p + "_TWO", 2}}}}})
		n.File(mr.File).Msg(mr.Nested).Field(4).Type = "Narrow." + tt.enum
		g.emit("field-type-name", "enum-to-narrower-same-name", mr.File, mr.Nested+"#4", mr.Depth, n, all(f)...)
		// enum -> superset enum of the same short name: only FIELD_SAME_TYPE is documented to fire
		n = g.base.Schema.Clone()
		n.File(mr.File).Messages = append(n.File(mr.File).Messages, &Message{Name: "Palette", Enums: []*Enum{{Name: tt.enum, Values: []*EnumValue{
			{p + "_UNSPECIFIED", 0}, {p + "_ONE", 1}, {p + "_TWO", 2}, {p + "_THREE", 3}, {p + "_FOUR", 4}}}}})
		n.File(mr.File).Msg(mr.Nested).Field(4).Type = "Palette." + tt.enum
		g.emit("field-type-name", "enum-to-superset-same-name", mr.File, mr.Nested+"#4", mr.Depth, n, all(f)[:1]...)

		// the same type-name changes on the other shapes a message- / enum-typed field can have: repeated,
		// oneof member, delimited encoding (editions: on the field and as file default), map value
		pairOn := func(variant string, num int, shape func(s *Schema, f *Field), toType string, ex []Expect) {
			old, nw := g.base.Schema.Clone(), g.base.Schema.Clone()
			for _, sc := range []*Schema{old, nw} {
				shape(sc, sc.File(mr.File).Msg(mr.Nested).Field(num))
			}
			nw.File(mr.File).Msg(mr.Nested).Field(num).Type = toType
			g.emitPair("field-type-name", variant, mr.File, fmt.Sprintf("%s#%d", mr.Nested, num), mr.Depth, old, nw, ex...)
		}
		repeated := func(_ *Schema, f *Field) { f.Label = "repeated" }
		f5, f4, f11 := mr.Msg.Field(5), mr.Msg.Field(4), mr.Msg.Field(11)
		pairOn("repeated-message-to-other-message", 5, repeated, tt.altMsg, all(f5))
		pairOn("repeated-enum-to-other-enum", 4, repeated, tt.otherEnum, all(f4))
		pairOn("oneof-member-message-to-other-message", 11, func(_ *Schema, f *Field) { f.Type, f.Kind = tt.msg, "message" }, tt.altMsg, all(f11))
		pairOn("oneof-member-enum-to-other-enum", 11, func(_ *Schema, f *Field) { f.Type, f.Kind = tt.enum, "enum" }, tt.otherEnum, all(f11))
		mapEx := func() []Expect {
			names := []string{"2", "value", "FMapEntry"}
			return []Expect{{Rule: "FIELD_SAME_TYPE", Names: names, File: mr.File},
				{Rule: "FIELD_WIRE_COMPATIBLE_TYPE", Names: names, File: mr.File},
				{Rule: "FIELD_WIRE_JSON_COMPATIBLE_TYPE", Names: names, File: mr.File}}
		}
		pairOn("map-value-message-to-other-message", 7, func(_ *Schema, f *Field) { f.Type = "map<string, " + tt.msg + ">" }, "map<string, "+tt.altMsg+">", mapEx())
		pairOn("map-value-enum-to-other-enum", 7, func(_ *Schema, f *Field) { f.Type = "map<string, " + tt.enum + ">" }, "map<string, "+tt.otherEnum+">", mapEx())
		if g.syntax == "editions" {
			delimited := func(_ *Schema, f *Field) { f.Opts = setOpt(f.Opts, "features.message_encoding", "DELIMITED") }
			f17 := mr.Msg.Field(17)
			pairOn("delimited-to-other-message", 17, func(*Schema, *Field) {}, tt.altMsg, all(f17))
			pairOn("repeated-delimited-to-other-message", 17, repeated, tt.altMsg, all(f17))
			pairOn("oneof-member-delimited-to-other-message", 11, func(s *Schema, f *Field) { f.Type, f.Kind = tt.msg, "group"; delimited(s, f) }, tt.altMsg, all(f11))
			// DELIMITED as the file's default message encoding: every message field of the file is delimited
			pairOn("file-default-delimited-to-other-message", 5, func(s *Schema, _ *Field) {
				fl := s.File(mr.File)
				fl.Opts = append([]Opt{{"features.message_encoding", "DELIMITED"}}, fl.Opts...)
			}, tt.altMsg, all(f5))
		}
	}
	// message- / enum-typed extensions
	if g.syntax != "proto3" {
		for _, st := range []struct {
			msg   string
			depth int
		}{{"", 0}, {"Outer.Mid", 2}} {
			for _, v := range []struct {
				variant, from, to string
				delimited         bool
			}{
				{"extension-message-to-other-message", "Payload", "PayloadAlt", false},
				{"extension-enum-to-other-enum", "Color", "SpareEnumTop", false},
				{"extension-delimited-to-other-message", "Payload", "PayloadAlt", true},
			} {
				if v.delimited && g.syntax != "editions" {
					continue
				}
				old, nw := g.base.Schema.Clone(), g.base.Schema.Clone()
				xname := "x_typed"
				for _, sc := range []struct {
					s   *Schema
					typ string
				}{{old, v.from}, {nw, v.to}} {
					xf := extField(xname, 170, g.syntax, sc.typ)
					xf.Kind = "message"
					if v.delimited {
						xf.Opts = []Opt{{"features.message_encoding", "DELIMITED"}}
					}
					x := &Extend{Extendee: "Extendable", Fields: []*Field{xf}}
					if st.msg == "" {
						sc.s.File("a.proto").Extends = append(sc.s.File("a.proto").Extends, x)
					} else {
						m := sc.s.File("a.proto").Msg(st.msg)
						m.Extends = append(m.Extends, x)
					}
				}
				full := "acme.v1." + xname
				nestedName := xname
				if st.msg != "" {
					full = "acme.v1." + st.msg + "." + xname
					nestedName = st.msg + "." + xname
				}
				names := []string{"170", full}
				key := KeyExt(st.msg, "Extendable", 170)
				g.emitPair("field-type-name", v.variant, "a.proto", nestedName, st.depth, old, nw,
					Expect{Rule: "FIELD_SAME_TYPE", Names: names, File: "a.proto", LocKey: key},
					Expect{Rule: "FIELD_WIRE_COMPATIBLE_TYPE", Names: names, File: "a.proto", LocKey: key},
					Expect{Rule: "FIELD_WIRE_JSON_COMPATIBLE_TYPE", Names: names, File: "a.proto", LocKey: key})
			}
		}
	}
}

func (g *gen) opMapTypes() {
	for _, mr := range g.base.Schema.Messages() {
		if !hasStdBody(mr.Msg) {
			continue
		}
		for _, v := range []struct {
			variant, typ, fnum, fname, from, to string
		}{
			{"value-int32-to-int64", "map<string, int64>", "2", "value", "int32", "int64"},
			{"value-int32-to-string", "map<string, string>", "2", "value", "int32", "string"},
			{"value-int32-to-sint32", "map<string, sint32>", "2", "value", "int32", "sint32"},
			{"key-string-to-int32", "map<int32, int32>", "1", "key", "string", "int32"},
		} {
			n := g.base.Schema.Clone()
			n.File(mr.File).Msg(mr.Nested).Field(7).Type = v.typ
			names := []string{v.fnum, v.fname, "FMapEntry"}
			ex := []Expect{{Rule: "FIELD_SAME_TYPE", Names: names, File: mr.File}}
			if WireBreaking(v.from, v.to) {
				ex = append(ex, Expect{Rule: "FIELD_WIRE_COMPATIBLE_TYPE", Names: names, File: mr.File})
			}
			if WireJSONBreaking(v.from, v.to) {
				ex = append(ex, Expect{Rule: "FIELD_WIRE_JSON_COMPATIBLE_TYPE", Names: names, File: mr.File})
			}
			g.emit("map-type", v.variant, mr.File, mr.Nested+"#7", mr.Depth, n, ex...)
		}
	}
}

// opFieldCompound: two documented edits on the SAME field in one change (third strengthening round). Every other
// operator edits one property of an element; here a field keeps its number and is renamed while its type
// (scalar kind, message / enum type name, map key / value type) or its cardinality changes too, or its type and
// cardinality change together. Each of the rules documented for either edit must still report the field: a
// handler that treats the one edit as the explanation of a difference (e.g. "the entry type of a renamed map
// field has another name anyway") must not lose the other. Expectations name the field by number and message
// (which of the two field names a message quotes is left open, except for FIELD_SAME_NAME).
func (g *gen) opFieldCompound() {
	for _, mr := range g.base.Schema.Messages() {
		if !hasStdBody(mr.Msg) {
			continue
		}
		tt := typesOf[mr.File]
		type editT struct {
			variant  string
			num      int
			prep     func(f *Field) // shapes the field on both sides (nil: as in the base)
			edit     func(f *Field) // the second edit, on the new side
			from, to string         // kinds for the compatibility groups ("" = same kind, other type name: all three rules)
			card     bool           // the edit (also) changes singular -> repeated
			noType   bool           // the edit changes the cardinality only
		}
		setType := func(typ string) func(f *Field) { return func(f *Field) { f.Type = typ } }
		kind := func(k string) func(f *Field) { return func(f *Field) { g.setKind(f, k, tt) } }
		edits := []editT{
			// map key / value types (the synthetic entry message is named after the field: a rename renames it too)
			{variant: "map-value-int32-to-string", num: 7, edit: setType("map<string, string>"), from: "int32", to: "string"},
			{variant: "map-value-int32-to-sint32", num: 7, edit: setType("map<string, sint32>"), from: "int32", to: "sint32"},
			{variant: "map-value-int32-to-int64", num: 7, edit: setType("map<string, int64>"), from: "int32", to: "int64"},
			{variant: "map-value-int32-to-message", num: 7, edit: setType("map<string, " + tt.msg + ">"), from: "int32", to: "message"},
			{variant: "map-key-string-to-int32", num: 7, edit: setType("map<int32, int32>"), from: "string", to: "int32"},
			{variant: "map-key-string-to-sint64", num: 7, edit: setType("map<sint64, int32>"), from: "string", to: "sint64"},
			{variant: "map-value-message-to-other-message", num: 7, prep: setType("map<string, " + tt.msg + ">"), edit: setType("map<string, " + tt.altMsg + ">")},
			{variant: "map-value-enum-to-other-enum", num: 7, prep: setType("map<string, " + tt.enum + ">"), edit: setType("map<string, " + tt.otherEnum + ">")},
			// scalar kinds across / inside the compatibility groups
			{variant: "int32-to-string", num: 20, edit: kind("string"), from: "int32", to: "string"},
			{variant: "int32-to-sint32", num: 20, edit: kind("sint32"), from: "int32", to: "sint32"},
			{variant: "int32-to-int64", num: 20, edit: kind("int64"), from: "int32", to: "int64"},
			{variant: "int32-to-message", num: 20, edit: kind("message"), from: "int32", to: "message"},
			{variant: "string-to-bytes", num: 2, edit: kind("bytes"), from: "string", to: "bytes"},
			{variant: "enum-to-int32", num: 4, edit: kind("int32"), from: "enum", to: "int32"},
			// same kind, other type
			{variant: "message-to-other-message", num: 5, edit: setType(tt.altMsg)},
			{variant: "enum-to-other-enum", num: 4, edit: setType(tt.otherEnum)},
			{variant: "repeated-message-to-other-message", num: 5, prep: func(f *Field) { f.Label = "repeated" }, edit: setType(tt.altMsg)},
			{variant: "oneof-member-int32-to-string", num: 11, edit: kind("string"), from: "int32", to: "string"},
			// cardinality
			{variant: "singular-to-repeated", num: 1, edit: func(f *Field) { f.Label = "repeated" }, card: true, noType: true},
			{variant: "int32-to-repeated-string", num: 20, edit: func(f *Field) { g.setKind(f, "string", tt); f.Label = "repeated" }, from: "int32", to: "string", card: true},
		}
		for _, e := range edits {
			for _, rename := range []bool{true, false} {
				if !rename && !(e.card && !e.noType) {
					continue // without the rename only the type + cardinality pair is a compound edit
				}
				bf := mr.Msg.Field(e.num)
				old, nw := g.base.Schema.Clone(), g.base.Schema.Clone()
				for _, sc := range []*Schema{old, nw} {
					if e.prep != nil {
						e.prep(sc.File(mr.File).Msg(mr.Nested).Field(e.num))
					}
				}
				nf := nw.File(mr.File).Msg(mr.Nested).Field(e.num)
				e.edit(nf)
				names := []string{itoa(e.num), short(mr.Nested)}
				key := KeyField(mr.Nested, e.num)
				var ex []Expect
				variant := e.variant
				if rename {
					nf.Name = bf.Name + "_renamed"
					variant = "rename+" + e.variant
					ex = append(ex, Expect{Rule: "FIELD_SAME_NAME", Names: []string{itoa(e.num), bf.Name, nf.Name, short(mr.Nested)}, File: mr.File, LocKey: key})
				}
				if !e.noType {
					ex = append(ex, Expect{Rule: "FIELD_SAME_TYPE", Names: names, File: mr.File, LocKey: key})
					if e.from == "" || WireBreaking(e.from, e.to) {
						ex = append(ex, Expect{Rule: "FIELD_WIRE_COMPATIBLE_TYPE", Names: names, File: mr.File, LocKey: key})
					}
					if e.from == "" || WireJSONBreaking(e.from, e.to) {
						ex = append(ex, Expect{Rule: "FIELD_WIRE_JSON_COMPATIBLE_TYPE", Names: names, File: mr.File, LocKey: key})
					}
				}
				if e.card {
					ex = append(ex,
						Expect{Rule: "FIELD_SAME_CARDINALITY", Names: names, File: mr.File, LocKey: key},
						Expect{Rule: "FIELD_WIRE_COMPATIBLE_CARDINALITY", Names: names, File: mr.File, LocKey: key},
						Expect{Rule: "FIELD_WIRE_JSON_COMPATIBLE_CARDINALITY", Names: names, File: mr.File, LocKey: key})
				}
				g.emitPair("field-compound", variant, mr.File, fmt.Sprintf("%s#%d", mr.Nested, e.num), mr.Depth, old, nw, ex...)
			}
		}
	}
}

// card variants per syntax: name -> mutation of a field
type cardVariant struct {
	name string
	set  func(f *Field)
}

func (g *gen) cardVariants(kind string) []cardVariant {
	clear := func(f *Field) {
		f.Label = ""
		f.Opts = delOpt(f.Opts, "features.field_presence")
	}
	switch g.syntax {
	case "proto3":
		vs := []cardVariant{
			{"plain", func(f *Field) { clear(f) }},
			{"repeated", func(f *Field) { clear(f); f.Label = "repeated" }},
		}
		if kind != "message" {
			vs = append(vs, cardVariant{"optional", func(f *Field) { clear(f); f.Label = "optional" }})
		}
		return vs
	case "proto2":
		return []cardVariant{
			{"optional", func(f *Field) { clear(f); f.Label = "optional" }},
			{"required", func(f *Field) { clear(f); f.Label = "required" }},
			{"repeated", func(f *Field) { clear(f); f.Label = "repeated" }},
		}
	default:
		vs := []cardVariant{
			{"explicit", func(f *Field) { clear(f) }},
			{"legacy-required", func(f *Field) { clear(f); f.Opts = setOpt(f.Opts, "features.field_presence", "LEGACY_REQUIRED") }},
			{"repeated", func(f *Field) { clear(f); f.Label = "repeated" }},
		}
		if kind != "message" {
			vs = append(vs, cardVariant{"implicit", func(f *Field) { clear(f); f.Opts = setOpt(f.Opts, "features.field_presence", "IMPLICIT") }})
		}
		return vs
	}
}

func (g *gen) opCardinality() {
	for _, mr := range g.base.Schema.Messages() {
		if !hasStdBody(mr.Msg) {
			continue
		}
		for _, num := range []int{1, 2, 5} {
			bf := mr.Msg.Field(num)
			vs := g.cardVariants(bf.Kind)
			for _, from := range vs {
				for _, to := range vs {
					if from.name == to.name {
						continue
					}
					mk := func(v cardVariant) (*Schema, *Field) {
						s := g.base.Schema.Clone()
						f := s.File(mr.File).Msg(mr.Nested).Field(num)
						v.set(f)
						return s, f
					}
					old, of := mk(from)
					nw, nf := mk(to)
					a, b := Cardinality(g.syntax, of), Cardinality(g.syntax, nf)
					if a == b {
						continue
					}
					names := fieldNames(mr, bf)
					key := KeyField(mr.Nested, num)
					ex := []Expect{{Rule: "FIELD_SAME_CARDINALITY", Names: names, File: mr.File, LocKey: key}}
					if br, claimed := CardinalityWireBreaking(a, b); br && claimed {
						ex = append(ex,
							Expect{Rule: "FIELD_WIRE_COMPATIBLE_CARDINALITY", Names: names, File: mr.File, LocKey: key},
							Expect{Rule: "FIELD_WIRE_JSON_COMPATIBLE_CARDINALITY", Names: names, File: mr.File, LocKey: key})
					}
					switch {
					case b == "required":
						ex = append(ex, Expect{Rule: "MESSAGE_SAME_REQUIRED_FIELDS", Names: []string{short(mr.Nested), itoa(num)}, File: mr.File, LocKey: key, Role: g.requiredRole()})
					case a == "required":
						ex = append(ex, Expect{Rule: "MESSAGE_SAME_REQUIRED_FIELDS", Names: []string{short(mr.Nested), itoa(num)}, File: mr.File, LocKey: KeyMsg(mr.Nested), Role: g.requiredRole()})
					}
					g.emitPair("field-cardinality", from.name+"->"+to.name, mr.File, fmt.Sprintf("%s#%d", mr.Nested, num), mr.Depth, old, nw, ex...)
				}
			}
		}
		// repeated message field <-> map (same number): cardinality changes, JSON shape changes
		n := g.base.Schema.Clone()
		f := n.File(mr.File).Msg(mr.Nested).Field(7)
		f.Type, f.Kind, f.Label = typesOf[mr.File].msg, "message", "repeated"
		bf := mr.Msg.Field(7)
		g.emit("field-cardinality", "map->repeated-message", mr.File, mr.Nested+"#7", mr.Depth, n,
			Expect{Rule: "FIELD_SAME_CARDINALITY", Names: fieldNames(mr, bf), File: mr.File, LocKey: KeyField(mr.Nested, 7)})
	}
}

func (g *gen) opDefault() {
	if g.syntax == "proto3" {
		return
	}
	for _, mr := range g.base.Schema.Messages() {
		if !hasStdBody(mr.Msg) {
			continue
		}
		ev := strings.ToUpper(typesOf[mr.File].enum)
		for _, v := range []struct {
			variant string
			num     int
			val     string // "" = remove
		}{
			{"int-changed", 14, "8"}, {"int-removed", 14, ""}, {"int-added", 1, "5"},
			{"string-changed", 15, `"other"`}, {"string-removed", 15, ""}, {"string-added", 2, `"fresh"`},
			{"enum-changed", 16, ev + "_TWO"}, {"enum-removed", 16, ""}, {"enum-added", 4, ev + "_TWO"},
		} {
			n := g.base.Schema.Clone()
			f := n.File(mr.File).Msg(mr.Nested).Field(v.num)
			if v.val == "" {
				f.Opts = delOpt(f.Opts, "default")
			} else {
				f.Opts = setOpt(f.Opts, "default", v.val)
			}
			g.emit("field-default", v.variant, mr.File, fmt.Sprintf("%s#%d", mr.Nested, v.num), mr.Depth, n,
				Expect{Rule: "FIELD_SAME_DEFAULT", Names: fieldNames(mr, mr.Msg.Field(v.num)), File: mr.File, LocKey: KeyField(mr.Nested, v.num)})
		}
	}
}

// defaultValues lists, per field kind, distinct default values in ascending order (numbers) including the
// boundary values of the kind and, for the 64-bit kinds and double, neighbours beyond 2^53 / for float beyond
// 2^24 that a lossy intermediate representation would merge. Every two entries of a list are different
// values of the kind (no 0 / -0, no two spellings of one number; nan once).
func defaultValues(kind, enumPrefix string) []string {
	switch kind {
	case "int32", "sint32", "sfixed32":
		return []string{"-2147483648", "-2147483647", "-1", "0", "1", "2147483646", "2147483647"}
	case "uint32", "fixed32":
		return []string{"0", "1", "2147483647", "2147483648", "4294967294", "4294967295"}
	case "int64", "sint64", "sfixed64":
		return []string{"-9223372036854775808", "-9223372036854775807", "-9007199254740993", "-9007199254740992", "-1", "0", "1",
			"9007199254740992", "9007199254740993", "9223372036854775806", "9223372036854775807"}
	case "uint64", "fixed64":
		return []string{"0", "1", "9007199254740992", "9007199254740993", "9223372036854775807", "9223372036854775808",
			"18446744073709551614", "18446744073709551615"}
	case "float":
		return []string{"-inf", "-1.5", "0.5", "1.5", "16777216", "16777218", "inf", "nan"}
	case "double":
		return []string{"-inf", "-1.5", "0.5", "1.5", "9007199254740992", "9007199254740994", "1e308", "inf", "nan"}
	case "bool":
		return []string{"false", "true"}
	case "string":
		return []string{`"A"`, `"a"`, `"a "`, `"ab"`, `"b"`}
	case "bytes":
		return []string{`"\000"`, `"a"`, `"a\000"`, `"ab"`, `"\377"`}
	case "enum":
		return []string{enumPrefix + "_UNSPECIFIED", enumPrefix + "_ONE", enumPrefix + "_TWO", enumPrefix + "_THREE"}
	}
	return nil
}

// opDefaultValues: per kind a row of fields d_<kind>_<i> whose defaults step through defaultValues(kind): in the
// "up" instance field i changes from value i to value i+1 (the last one wraps to the first), in "down" the
// other way round. On every standard message (fields 40+) and as extensions (top level and nested twice).
func (g *gen) opDefaultValues() {
	if g.syntax == "proto3" {
		return
	}
	sg := singular(g.syntax)
	kinds := append(append([]string(nil), ScalarKinds...), "enum")
	type rowT struct {
		fields  []*Field // with the old default
		newDefs []string
		variant string
		oldDefs []string
	}
	rows := func(prefix string, firstNum int, enumT string) []rowT {
		var out []rowT
		for _, kind := range kinds {
			vals := defaultValues(kind, strings.ToUpper(short(enumT)))
			for _, dir := range []string{"up", "down"} {
				if dir == "down" && len(vals) == 2 {
					continue // two values: "up" already has both directions
				}
				row := rowT{variant: kind + "-" + dir}
				for i := range vals {
					from, to := vals[i], vals[(i+1)%len(vals)]
					if dir == "down" {
						from, to = to, from
					}
					f := &Field{Name: fmt.Sprintf("%s%s_%d", prefix, kind, i), Num: firstNum + i, Label: sg, Type: kind, Kind: kind, Opts: []Opt{{"default", from}}}
					if kind == "enum" {
						f.Type = enumT
					}
					row.fields = append(row.fields, f)
					row.oldDefs = append(row.oldDefs, from)
					row.newDefs = append(row.newDefs, to)
				}
				out = append(out, row)
			}
		}
		return out
	}
	cloneFields := func(fs []*Field, defs []string) []*Field {
		out := make([]*Field, len(fs))
		for i, f := range fs {
			c := *f
			c.Opts = []Opt{{"default", defs[i]}}
			out[i] = &c
		}
		return out
	}
	for _, mr := range g.base.Schema.Messages() {
		if !hasStdBody(mr.Msg) {
			continue
		}
		for _, row := range rows("d_", 40, typesOf[mr.File].enum) {
			old, nw := g.base.Schema.Clone(), g.base.Schema.Clone()
			om, nm := old.File(mr.File).Msg(mr.Nested), nw.File(mr.File).Msg(mr.Nested)
			om.Fields = append(om.Fields, cloneFields(row.fields, row.oldDefs)...)
			nm.Fields = append(nm.Fields, cloneFields(row.fields, row.newDefs)...)
			var ex []Expect
			for _, f := range row.fields {
				ex = append(ex, Expect{Rule: "FIELD_SAME_DEFAULT", Names: fieldNames(mr, f), File: mr.File, LocKey: KeyField(mr.Nested, f.Num)})
			}
			g.emitPair("field-default-values", row.variant, mr.File, mr.Nested+"#40..", mr.Depth, old, nw, ex...)
		}
	}
	// the same rows as extensions of Extendable: at the top level of a.proto and inside Outer.Mid
	for _, st := range []struct {
		msg   string
		depth int
	}{{"", 0}, {"Outer.Mid", 2}} {
		for _, row := range rows("x_d_", 150, "Color") {
			old, nw := g.base.Schema.Clone(), g.base.Schema.Clone()
			for _, sd := range []struct {
				s    *Schema
				defs []string
			}{{old, row.oldDefs}, {nw, row.newDefs}} {
				x := &Extend{Extendee: "Extendable", Fields: cloneFields(row.fields, sd.defs)}
				if st.msg == "" {
					sd.s.File("a.proto").Extends = append(sd.s.File("a.proto").Extends, x)
				} else {
					m := sd.s.File("a.proto").Msg(st.msg)
					m.Extends = append(m.Extends, x)
				}
			}
			var ex []Expect
			for _, f := range row.fields {
				full := "acme.v1." + f.Name
				if st.msg != "" {
					full = "acme.v1." + st.msg + "." + f.Name
				}
				ex = append(ex, Expect{Rule: "FIELD_SAME_DEFAULT", Names: []string{itoa(f.Num), full}, File: "a.proto", LocKey: KeyExt(st.msg, "Extendable", f.Num)})
			}
			elem := "extend Extendable#150.."
			if st.msg != "" {
				elem = st.msg + ".extend Extendable#150.."
			}
			g.emitPair("field-default-values", "extension-"+row.variant, "a.proto", elem, st.depth, old, nw, ex...)
		}
	}
}

func (g *gen) opCType() {
	for _, mr := range g.base.Schema.Messages() {
		if !hasStdBody(mr.Msg) {
			continue
		}
		for _, num := range []int{2, 3} {
			bf := mr.Msg.Field(num)
			with := func(val string) *Schema {
				s := g.base.Schema.Clone()
				f := s.File(mr.File).Msg(mr.Nested).Field(num)
				if val != "" {
					f.Opts = setOpt(f.Opts, "ctype", val)
				}
				return s
			}
			ex := Expect{Rule: "FIELD_SAME_CPP_STRING_TYPE", Names: fieldNames(mr, bf), File: mr.File, LocKey: KeyField(mr.Nested, num)}
			elem := fmt.Sprintf("%s#%d", mr.Nested, num)
			// documented exception: STRING_PIECE -> STRING is allowed; unset == STRING
			// no claim (documented exception), kept for C04's hierarchy check
			g.emitPair("field-ctype-neutral", "STRING_PIECE->STRING", mr.File, elem, mr.Depth, with("STRING_PIECE"), with("STRING"))
			for _, p := range [][2]string{{"", "CORD"}, {"", "STRING_PIECE"}, {"STRING", "CORD"}, {"CORD", "STRING_PIECE"}, {"CORD", "STRING"}, {"CORD", ""}, {"STRING_PIECE", "CORD"}} {
				from, to := p[0], p[1]
				name := func(s string) string {
					if s == "" {
						return "unset"
					}
					return s
				}
				g.emitPair("field-ctype", name(from)+"->"+name(to), mr.File, elem, mr.Depth, with(from), with(to), ex)
			}
			if g.syntax == "editions" {
				withFeature := func(val string) *Schema {
					s := g.base.Schema.Clone()
					fl := s.File(mr.File)
					fl.Imports = append(fl.Imports, "google/protobuf/cpp_features.proto")
					f := fl.Msg(mr.Nested).Field(num)
					if val != "" {
						f.Opts = setOpt(f.Opts, "features.(pb.cpp).string_type", val)
					}
					return s
				}
				g.emitPair("field-ctype", "feature-unset->CORD", mr.File, elem, mr.Depth, withFeature(""), withFeature("CORD"), ex)
				g.emitPair("field-ctype", "feature-CORD->VIEW", mr.File, elem, mr.Depth, withFeature("CORD"), withFeature("VIEW"), ex)
				g.emitPair("field-ctype", "feature-VIEW->unset", mr.File, elem, mr.Depth, withFeature("VIEW"), withFeature(""), ex)
			}
		}
	}
}

func (g *gen) opJSType() {
	for _, mr := range g.base.Schema.Messages() {
		if !hasStdBody(mr.Msg) {
			continue
		}
		for _, num := range []int{9, 6} {
			bf := mr.Msg.Field(num)
			with := func(val string) *Schema {
				s := g.base.Schema.Clone()
				f := s.File(mr.File).Msg(mr.Nested).Field(num)
				if val != "" {
					f.Opts = setOpt(f.Opts, "jstype", val)
				}
				return s
			}
			ex := Expect{Rule: "FIELD_SAME_JSTYPE", Names: fieldNames(mr, bf), File: mr.File, LocKey: KeyField(mr.Nested, num)}
			elem := fmt.Sprintf("%s#%d", mr.Nested, num)
			for _, p := range [][2]string{{"", "JS_STRING"}, {"", "JS_NUMBER"}, {"JS_STRING", "JS_NUMBER"}, {"JS_STRING", ""}, {"JS_NUMBER", "JS_NORMAL"}} {
				name := func(s string) string {
					if s == "" {
						return "unset"
					}
					return s
				}
				g.emitPair("field-jstype", name(p[0])+"->"+name(p[1]), mr.File, elem, mr.Depth, with(p[0]), with(p[1]), ex)
			}
		}
	}
}

// java_string_check_utf8 only changes anything where the language-neutral default is NONE (proto2).
func (g *gen) opJavaUTF8() {
	if g.syntax != "proto2" {
		return
	}
	for _, file := range []string{"a.proto", "b.proto"} {
		with := func(val string) *Schema {
			s := g.base.Schema.Clone()
			if val != "" {
				s.File(file).Opts = setOpt(s.File(file).Opts, "java_string_check_utf8", val)
			}
			return s
		}
		expects := func(optInNew bool) []Expect {
			var ex []Expect
			for _, mr := range g.base.Schema.Messages() {
				if mr.File != file || !hasStdBody(mr.Msg) {
					continue
				}
				for _, num := range []int{2, 10, 15} {
					e := Expect{Rule: "FIELD_SAME_JAVA_UTF8_VALIDATION", Names: fieldNames(mr, mr.Msg.Field(num)), File: file}
					if optInNew {
						e.LocKey = KeyFileOpt("java_string_check_utf8")
					}
					ex = append(ex, e)
				}
			}
			return ex
		}
		g.emitPair("file-java-utf8", "unset->true", file, "java_string_check_utf8", -1, with(""), with("true"), expects(true)...)
		g.emitPair("file-java-utf8", "false->true", file, "java_string_check_utf8", -1, with("false"), with("true"), expects(true)...)
		g.emitPair("file-java-utf8", "true->false", file, "java_string_check_utf8", -1, with("true"), with("false"), expects(true)...)
		g.emitPair("file-java-utf8", "true->unset", file, "java_string_check_utf8", -1, with("true"), with(""), expects(false)...)
	}
}

func (g *gen) opUTF8Validation() {
	if g.syntax != "editions" {
		return
	}
	for _, mr := range g.base.Schema.Messages() {
		if !hasStdBody(mr.Msg) {
			continue
		}
		for _, num := range []int{2, 10} {
			with := func(val string) *Schema {
				s := g.base.Schema.Clone()
				f := s.File(mr.File).Msg(mr.Nested).Field(num)
				if val != "" {
					f.Opts = setOpt(f.Opts, "features.utf8_validation", val)
				}
				return s
			}
			ex := Expect{Rule: "FIELD_SAME_UTF8_VALIDATION", Names: fieldNames(mr, mr.Msg.Field(num)), File: mr.File, LocKey: KeyField(mr.Nested, num)}
			elem := fmt.Sprintf("%s#%d", mr.Nested, num)
			g.emitPair("field-utf8", "unset->NONE", mr.File, elem, mr.Depth, with(""), with("NONE"), ex)
			g.emitPair("field-utf8", "NONE->VERIFY", mr.File, elem, mr.Depth, with("NONE"), with("VERIFY"), ex)
			g.emitPair("field-utf8", "NONE->unset", mr.File, elem, mr.Depth, with("NONE"), with(""), ex)
		}
	}
	// file-level default
	for _, file := range []string{"a.proto", "b.proto"} {
		n := g.base.Schema.Clone()
		n.File(file).Opts = append([]Opt{{"features.utf8_validation", "NONE"}}, n.File(file).Opts...)
		var ex []Expect
		for _, mr := range g.base.Schema.Messages() {
			if mr.File == file && hasStdBody(mr.Msg) {
				for _, num := range []int{2, 10, 15} {
					ex = append(ex, Expect{Rule: "FIELD_SAME_UTF8_VALIDATION", Names: fieldNames(mr, mr.Msg.Field(num)), File: file})
				}
			}
		}
		g.emit("file-utf8", "unset->NONE", file, "features.utf8_validation", -1, n, ex...)
	}
}

type fileOptSpec struct {
	rule, name string
	a, b       string // two values different from each other and from the default
	boolDef    string // for bools: the default value ("" for non-bools)
}

var fileOptSpecs = []fileOptSpec{
	{"FILE_SAME_CC_ENABLE_ARENAS", "cc_enable_arenas", "false", "", "true"},
	{"FILE_SAME_CC_GENERIC_SERVICES", "cc_generic_services", "true", "", "false"},
	{"FILE_SAME_JAVA_GENERIC_SERVICES", "java_generic_services", "true", "", "false"},
	{"FILE_SAME_PY_GENERIC_SERVICES", "py_generic_services", "true", "", "false"},
	{"FILE_SAME_JAVA_MULTIPLE_FILES", "java_multiple_files", "true", "", "false"},
	{"FILE_SAME_CSHARP_NAMESPACE", "csharp_namespace", `"Acme.One"`, `"Acme.Two"`, ""},
	{"FILE_SAME_GO_PACKAGE", "go_package", `"example.com/one"`, `"example.com/two"`, ""},
	{"FILE_SAME_JAVA_OUTER_CLASSNAME", "java_outer_classname", `"OneProto"`, `"TwoProto"`, ""},
	{"FILE_SAME_JAVA_PACKAGE", "java_package", `"com.one"`, `"com.two"`, ""},
	{"FILE_SAME_OBJC_CLASS_PREFIX", "objc_class_prefix", `"ONE"`, `"TWO"`, ""},
	{"FILE_SAME_OPTIMIZE_FOR", "optimize_for", "CODE_SIZE", "LITE_RUNTIME", ""},
	{"FILE_SAME_PHP_CLASS_PREFIX", "php_class_prefix", `"One"`, `"Two"`, ""},
	{"FILE_SAME_PHP_METADATA_NAMESPACE", "php_metadata_namespace", `"One\\Meta"`, `"Two\\Meta"`, ""},
	{"FILE_SAME_PHP_NAMESPACE", "php_namespace", `"One"`, `"Two"`, ""},
	{"FILE_SAME_RUBY_PACKAGE", "ruby_package", `"One"`, `"Two"`, ""},
	{"FILE_SAME_SWIFT_PREFIX", "swift_prefix", `"One"`, `"Two"`, ""},
}

func (g *gen) opFileOptions() {
	for _, f := range g.base.Schema.Files {
		for _, sp := range fileOptSpecs {
			with := func(val string) *Schema {
				s := g.base.Schema.Clone()
				fl := s.File(f.Path)
				fl.Opts = delOpt(fl.Opts, sp.name)
				if val != "" {
					// new options go first so that the index of every other option shifts
					fl.Opts = append([]Opt{{sp.name, val}}, fl.Opts...)
				}
				return s
			}
			ex := func(inNew bool) Expect {
				e := Expect{Rule: sp.rule, Names: []string{sp.name}, File: f.Path}
				if inNew {
					e.LocKey = KeyFileOpt(sp.name)
				}
				return e
			}
			g.emitPair("file-option", sp.name+":unset->set", f.Path, sp.name, -1, with(""), with(sp.a), ex(true))
			g.emitPair("file-option", sp.name+":set->unset", f.Path, sp.name, -1, with(sp.a), with(""), ex(false))
			if sp.boolDef != "" {
				g.emitPair("file-option", sp.name+":set->default", f.Path, sp.name, -1, with(sp.a), with(sp.boolDef), ex(true))
				g.emitPair("file-option", sp.name+":default->set", f.Path, sp.name, -1, with(sp.boolDef), with(sp.a), ex(true))
			} else {
				g.emitPair("file-option", sp.name+":changed", f.Path, sp.name, -1, with(sp.a), with(sp.b), ex(true))
			}
		}
	}
}

func (g *gen) opFilePackage() {
	// the only file of its package changes package: the package disappears
	n := g.base.Schema.Clone()
	n.File("sub/c.proto").Package = "solo.v2"
	g.emit("file-package", "only-file-of-package", "sub/c.proto", "package", -1, n,
		Expect{Rule: "FILE_SAME_PACKAGE", Names: []string{"solo.v1", "solo.v2"}, File: "sub/c.proto", LocKey: KeyPackage},
		Expect{Rule: "PACKAGE_NO_DELETE", Names: []string{"solo.v1"}, NoPath: true})
	// one of two files of a package changes package: its types leave the package
	n = g.base.Schema.Clone()
	n.File("b.proto").Package = "acme.v2"
	ex := []Expect{{Rule: "FILE_SAME_PACKAGE", Names: []string{"acme.v1", "acme.v2"}, File: "b.proto", LocKey: KeyPackage}}
	for _, m := range g.base.Schema.File("b.proto").Messages {
		ex = append(ex, Expect{Rule: "PACKAGE_MESSAGE_NO_DELETE", Names: []string{m.Name, "acme.v1"}, File: "b.proto"})
	}
	for _, e := range g.base.Schema.File("b.proto").Enums {
		ex = append(ex, Expect{Rule: "PACKAGE_ENUM_NO_DELETE", Names: []string{e.Name, "acme.v1"}, File: "b.proto"})
	}
	for _, s := range g.base.Schema.File("b.proto").Services {
		ex = append(ex, Expect{Rule: "PACKAGE_SERVICE_NO_DELETE", Names: []string{s.Name, "acme.v1"}, File: "b.proto"})
	}
	for _, x := range g.base.Schema.File("b.proto").Extends {
		for _, f := range x.Fields {
			ex = append(ex, Expect{Rule: "PACKAGE_EXTENSION_NO_DELETE", Names: []string{f.Name, "acme.v1"}, File: "b.proto"})
		}
	}
	g.emit("file-package", "one-of-two-files", "b.proto", "package", -1, n, ex...)
}

func (g *gen) opFileDelete() {
	n := g.base.Schema.Clone()
	n.RemoveFile("sub/c.proto")
	g.emit("file-delete", "only-file-of-package", "sub/c.proto", "file", -1, n,
		Expect{Rule: "FILE_NO_DELETE", Names: []string{"sub/c.proto"}, NoPath: true},
		Expect{Rule: "PACKAGE_NO_DELETE", Names: []string{"solo.v1"}, NoPath: true})
	n = g.base.Schema.Clone()
	n.RemoveFile("b.proto")
	ex := []Expect{{Rule: "FILE_NO_DELETE", Names: []string{"b.proto"}, NoPath: true}}
	for _, m := range g.base.Schema.File("b.proto").Messages {
		ex = append(ex, Expect{Rule: "PACKAGE_MESSAGE_NO_DELETE", Names: []string{m.Name, "acme.v1"}, NoPath: true})
	}
	for _, e := range g.base.Schema.File("b.proto").Enums {
		ex = append(ex, Expect{Rule: "PACKAGE_ENUM_NO_DELETE", Names: []string{e.Name, "acme.v1"}, NoPath: true})
	}
	for _, s := range g.base.Schema.File("b.proto").Services {
		ex = append(ex, Expect{Rule: "PACKAGE_SERVICE_NO_DELETE", Names: []string{s.Name, "acme.v1"}, NoPath: true})
	}
	g.emit("file-delete", "one-of-two-files", "b.proto", "file", -1, n, ex...)
	// rename = delete + add with identical content
	n = g.base.Schema.Clone()
	n.File("b.proto").Path = "b_renamed.proto"
	g.emit("file-delete", "renamed", "b.proto", "file", -1, n, Expect{Rule: "FILE_NO_DELETE", Names: []string{"b.proto"}, NoPath: true})
	n = g.base.Schema.Clone()
	n.File("sub/c.proto").Path = "c.proto"
	g.emit("file-delete", "moved-out-of-directory", "sub/c.proto", "file", -1, n, Expect{Rule: "FILE_NO_DELETE", Names: []string{"sub/c.proto"}, NoPath: true})
}

func (g *gen) opMessageOptions() {
	for _, mr := range g.base.Schema.Messages() {
		if !hasStdBody(mr.Msg) && !isSpare(mr.Nested) {
			continue
		}
		with := func(name, val string) *Schema {
			s := g.base.Schema.Clone()
			m := s.File(mr.File).Msg(mr.Nested)
			if val != "" {
				m.Opts = setOpt(m.Opts, name, val)
			}
			return s
		}
		const nsda = "no_standard_descriptor_accessor"
		ex := Expect{Rule: "MESSAGE_NO_REMOVE_STANDARD_DESCRIPTOR_ACCESSOR", Names: []string{nsda}, File: mr.File, LocKey: KeyMsgOpt(mr.Nested, nsda)}
		g.emitPair("message-option", nsda+":unset->true", mr.File, mr.Nested, mr.Depth, with(nsda, ""), with(nsda, "true"), ex)
		g.emitPair("message-option", nsda+":false->true", mr.File, mr.Nested, mr.Depth, with(nsda, "false"), with(nsda, "true"), ex)
		if g.syntax == "editions" {
			const jf = "features.json_format"
			ex := Expect{Rule: "MESSAGE_SAME_JSON_FORMAT", Names: []string{short(mr.Nested)}, File: mr.File, LocKey: KeyMsgOpt(mr.Nested, jf)}
			g.emitPair("message-option", jf+":unset->LEGACY_BEST_EFFORT", mr.File, mr.Nested, mr.Depth, with(jf, ""), with(jf, "LEGACY_BEST_EFFORT"), ex)
			g.emitPair("message-option", jf+":ALLOW->LEGACY_BEST_EFFORT", mr.File, mr.Nested, mr.Depth, with(jf, "ALLOW"), with(jf, "LEGACY_BEST_EFFORT"), ex)
		}
	}
}

func (g *gen) opEnumFeatures() {
	if g.syntax != "editions" {
		return
	}
	for _, er := range g.base.Schema.AllEnums() {
		with := func(name, val string) *Schema {
			s := g.base.Schema.Clone()
			e := s.File(er.File).Enum(er.Nested)
			if val != "" {
				e.Opts = setOpt(e.Opts, name, val)
			}
			return s
		}
		const et, jf = "features.enum_type", "features.json_format"
		exT := func(inNew bool) Expect {
			e := Expect{Rule: "ENUM_SAME_TYPE", Names: []string{short(er.Nested)}, File: er.File, LocKey: KeyEnum(er.Nested)}
			if inNew {
				e.LocKey = KeyEnumOpt(er.Nested, et)
			}
			return e
		}
		g.emitPair("enum-feature", et+":unset->CLOSED", er.File, er.Nested, er.Depth, with(et, ""), with(et, "CLOSED"), exT(true))
		g.emitPair("enum-feature", et+":CLOSED->unset", er.File, er.Nested, er.Depth, with(et, "CLOSED"), with(et, ""), exT(false))
		g.emitPair("enum-feature", et+":CLOSED->OPEN", er.File, er.Nested, er.Depth, with(et, "CLOSED"), with(et, "OPEN"), exT(true))
		exJ := Expect{Rule: "ENUM_SAME_JSON_FORMAT", Names: []string{short(er.Nested)}, File: er.File, LocKey: KeyEnumOpt(er.Nested, jf)}
		g.emitPair("enum-feature", jf+":unset->LEGACY_BEST_EFFORT", er.File, er.Nested, er.Depth, with(jf, ""), with(jf, "LEGACY_BEST_EFFORT"), exJ)
		g.emitPair("enum-feature", jf+":ALLOW->LEGACY_BEST_EFFORT", er.File, er.Nested, er.Depth, with(jf, "ALLOW"), with(jf, "LEGACY_BEST_EFFORT"), exJ)
	}
	// file-level default: every enum of the file becomes closed
	for _, file := range []string{"a.proto", "b.proto"} {
		n := g.base.Schema.Clone()
		n.File(file).Opts = append([]Opt{{"features.enum_type", "CLOSED"}}, n.File(file).Opts...)
		var ex []Expect
		for _, er := range g.base.Schema.AllEnums() {
			if er.File == file {
				ex = append(ex, Expect{Rule: "ENUM_SAME_TYPE", Names: []string{short(er.Nested)}, File: file})
			}
		}
		g.emit("file-enum-type", "unset->CLOSED", file, "features.enum_type", -1, n, ex...)
	}
}

func dropRange(rs []Range, r Range) []Range {
	var out []Range
	for _, x := range rs {
		if x != r {
			out = append(out, x)
		}
	}
	return out
}

func replaceRange(rs []Range, r Range, with ...Range) []Range {
	var out []Range
	for _, x := range rs {
		if x == r {
			out = append(out, with...)
		} else {
			out = append(out, x)
		}
	}
	return out
}

func dropName(ns []string, n string) []string {
	var out []string
	for _, x := range ns {
		if x != n {
			out = append(out, x)
		}
	}
	return out
}

func (g *gen) opReserved() {
	for _, mr := range g.base.Schema.Messages() {
		if !hasStdBody(mr.Msg) {
			continue
		}
		ex := Expect{Rule: "RESERVED_MESSAGE_NO_DELETE", Names: []string{short(mr.Nested)}, File: mr.File, LocKey: KeyMsg(mr.Nested)}
		edit := func(variant string, mut func(m *Message), extraNames ...string) {
			n := g.base.Schema.Clone()
			mut(n.File(mr.File).Msg(mr.Nested))
			e := ex
			e.Names = append(append([]string(nil), ex.Names...), extraNames...)
			g.emit("message-reserved", variant, mr.File, mr.Nested, mr.Depth, n, e)
		}
		edit("range-deleted", func(m *Message) { m.Reserved = dropRange(m.Reserved, Range{100, 110}) })
		edit("single-deleted", func(m *Message) { m.Reserved = dropRange(m.Reserved, Range{120, 120}) })
		edit("range-shrunk-at-end", func(m *Message) { m.Reserved = replaceRange(m.Reserved, Range{100, 110}, Range{100, 105}) })
		edit("range-shrunk-at-start", func(m *Message) { m.Reserved = replaceRange(m.Reserved, Range{100, 110}, Range{101, 110}) })
		edit("range-hole", func(m *Message) {
			m.Reserved = replaceRange(m.Reserved, Range{100, 110}, Range{100, 104}, Range{106, 110})
		})
		edit("all-ranges-deleted", func(m *Message) { m.Reserved = nil })
		edit("name-deleted", func(m *Message) { m.ReservedNames = dropName(m.ReservedNames, "old_a") }, "old_a")
		edit("second-name-deleted", func(m *Message) { m.ReservedNames = dropName(m.ReservedNames, "old_b") }, "old_b")
	}
	for _, er := range g.base.Schema.AllEnums() {
		if len(er.Enum.Reserved) == 0 {
			continue
		}
		p := strings.ToUpper(short(er.Nested))
		ex := Expect{Rule: "RESERVED_ENUM_NO_DELETE", Names: []string{short(er.Nested)}, File: er.File, LocKey: KeyEnum(er.Nested)}
		edit := func(variant string, mut func(e *Enum), extraNames ...string) {
			n := g.base.Schema.Clone()
			mut(n.File(er.File).Enum(er.Nested))
			e := ex
			e.Names = append(append([]string(nil), ex.Names...), extraNames...)
			g.emit("enum-reserved", variant, er.File, er.Nested, er.Depth, n, e)
		}
		edit("range-deleted", func(e *Enum) { e.Reserved = dropRange(e.Reserved, Range{50, 60}) })
		edit("single-deleted", func(e *Enum) { e.Reserved = dropRange(e.Reserved, Range{70, 70}) })
		edit("range-shrunk-at-end", func(e *Enum) { e.Reserved = replaceRange(e.Reserved, Range{50, 60}, Range{50, 59}) })
		edit("range-hole", func(e *Enum) { e.Reserved = replaceRange(e.Reserved, Range{50, 60}, Range{50, 54}, Range{56, 60}) })
		edit("name-deleted", func(e *Enum) { e.ReservedNames = dropName(e.ReservedNames, p+"_OLD_A") }, p+"_OLD_A")
	}
}

func (g *gen) opExtensionRanges() {
	if g.syntax == "proto3" {
		return
	}
	for _, mr := range g.base.Schema.Messages() {
		if !hasStdBody(mr.Msg) {
			continue
		}
		ex := Expect{Rule: "EXTENSION_MESSAGE_NO_DELETE", Names: []string{short(mr.Nested)}, File: mr.File, LocKey: KeyMsg(mr.Nested)}
		edit := func(variant string, mut func(m *Message)) {
			n := g.base.Schema.Clone()
			mut(n.File(mr.File).Msg(mr.Nested))
			g.emit("extension-range", variant, mr.File, mr.Nested, mr.Depth, n, ex)
		}
		edit("range-deleted", func(m *Message) { m.ExtRanges = dropRange(m.ExtRanges, Range{1000, 1999}) })
		edit("single-deleted", func(m *Message) { m.ExtRanges = dropRange(m.ExtRanges, Range{3000, 3000}) })
		edit("range-shrunk", func(m *Message) { m.ExtRanges = replaceRange(m.ExtRanges, Range{1000, 1999}, Range{1000, 1500}) })
		edit("range-hole", func(m *Message) {
			m.ExtRanges = replaceRange(m.ExtRanges, Range{1000, 1999}, Range{1000, 1499}, Range{1501, 1999})
		})
		edit("all-deleted", func(m *Message) { m.ExtRanges = nil })
	}
}

func (g *gen) opExtensions() {
	if g.syntax == "proto3" {
		return
	}
	type site struct {
		file, msg string
		depth     int
	}
	for _, st := range []site{{"a.proto", "", 0}, {"a.proto", "Outer", 1}, {"a.proto", "Outer.Mid", 2}, {"b.proto", "", 0}, {"sub/c.proto", "", 0}} {
		f := g.base.Schema.File(st.file)
		exts := f.Extends
		if st.msg != "" {
			exts = f.Msg(st.msg).Extends
		}
		for xi, x := range exts {
			for _, xf := range x.Fields {
				nestedName := xf.Name
				loc := ""
				if st.msg != "" {
					nestedName = st.msg + "." + xf.Name
					loc = KeyMsg(st.msg)
				}
				fullName := f.Package + "." + nestedName
				get := func(s *Schema) *Extend {
					if st.msg == "" {
						return s.File(st.file).Extends[xi]
					}
					return s.File(st.file).Msg(st.msg).Extends[xi]
				}
				// delete the extension
				n := g.base.Schema.Clone()
				nx := get(n)
				var keep []*Field
				for _, k := range nx.Fields {
					if k.Num != xf.Num {
						keep = append(keep, k)
					}
				}
				nx.Fields = keep
				role := ""
				if _, _, _, nx := g.base.Schema.CountInPackage(f.Package); nx == 1 {
					role = roleLast
				}
				g.emit("extension-delete", "plain", st.file, nestedName, st.depth, n,
					Expect{Rule: "EXTENSION_NO_DELETE", Names: []string{nestedName}, File: st.file, LocKey: loc},
					Expect{Rule: "PACKAGE_EXTENSION_NO_DELETE", Names: []string{nestedName, f.Package}, File: st.file, LocKey: loc, Role: role})
				// change the extension's type
				if xf.Kind == "int32" {
					n = g.base.Schema.Clone()
					for _, k := range get(n).Fields {
						if k.Num == xf.Num {
							k.Type, k.Kind = "string", "string"
						}
					}
					names := []string{itoa(xf.Num), fullName}
					key := KeyExt(st.msg, x.Extendee, xf.Num)
					g.emit("extension-type", "int32->string", st.file, nestedName, st.depth, n,
						Expect{Rule: "FIELD_SAME_TYPE", Names: names, File: st.file, LocKey: key},
						Expect{Rule: "FIELD_WIRE_COMPATIBLE_TYPE", Names: names, File: st.file, LocKey: key},
						Expect{Rule: "FIELD_WIRE_JSON_COMPATIBLE_TYPE", Names: names, File: st.file, LocKey: key})
					// singular -> repeated
					n = g.base.Schema.Clone()
					for _, k := range get(n).Fields {
						if k.Num == xf.Num {
							k.Label = "repeated"
						}
					}
					g.emit("extension-cardinality", "singular->repeated", st.file, nestedName, st.depth, n,
						Expect{Rule: "FIELD_SAME_CARDINALITY", Names: names, File: st.file, LocKey: key},
						Expect{Rule: "FIELD_WIRE_COMPATIBLE_CARDINALITY", Names: names, File: st.file, LocKey: key},
						Expect{Rule: "FIELD_WIRE_JSON_COMPATIBLE_CARDINALITY", Names: names, File: st.file, LocKey: key})
				}
			}
		}
	}
}

func (g *gen) opRequiredAdd() {
	if g.syntax == "proto3" {
		return
	}
	for _, mr := range g.base.Schema.Messages() {
		if !hasStdBody(mr.Msg) {
			continue
		}
		for _, atStart := range []bool{false, true} {
			n := g.base.Schema.Clone()
			m := n.File(mr.File).Msg(mr.Nested)
			f := &Field{Name: "f_new_req", Num: 21, Type: "int32", Kind: "int32"}
			if g.syntax == "proto2" {
				f.Label = "required"
			} else {
				f.Opts = []Opt{{"features.field_presence", "LEGACY_REQUIRED"}}
			}
			variant := "appended"
			if atStart {
				m.Fields = append([]*Field{f}, m.Fields...)
				variant = "prepended"
			} else {
				m.Fields = append(m.Fields, f)
			}
			g.emit("required-add", variant, mr.File, mr.Nested+"#21", mr.Depth, n,
				Expect{Rule: "MESSAGE_SAME_REQUIRED_FIELDS", Names: []string{short(mr.Nested), "21"}, File: mr.File, LocKey: KeyField(mr.Nested, 21), Role: g.requiredRole()})
		}
	}
}
