package c03

import (
	"fmt"
	"strings"
)

// ---------------------------------------------------------------------------------------------
// Operator field-enum-retarget (fourth strengthening round).
//
// An enum-typed field keeps its number, name and kind, but its type name now points at ANOTHER enum.
// The documentation of FIELD_WIRE_COMPATIBLE_TYPE / FIELD_WIRE_JSON_COMPATIBLE_TYPE allows exactly one such
// move: "the short name of the enum is the same and the previous enum is a subset of the new one; a subset
// is defined as having a subset of the name/number enum values" (so that an enum can move and grow in one
// change). The condition is a conjunction of three things - same short name, every previous NAME still
// there, under the same NUMBER - and until this round the catalogue only ever falsified the second one
// (a target enum lacking a value name, or an enum with other value names altogether).
//
// Enumerated here: the RELATION of the target enum to the previous one, as a function of the previous
// enum's values. Every non-zero previous value is in one of four states {kept, renumbered (name kept, fresh
// number), renamed (number kept, fresh name), dropped}; plus the relations no per-value state expresses:
// numbers exchanged between two / rotated among three values (name set AND number set unchanged), a
// renumbered value whose old number is taken over by a new name, a value moved onto the number of another
// one (allow_alias), the zero value renamed / (proto2) renumbered, another short name with identical values;
// and the compatible controls: identical copy, reordered superset, aliases added.
// Crossed with where the target enum lives (new holder message in the field's file, nested into an existing
// message, nested into a message of the other file of the package, top level of another package - the last
// two through a new import) and the shape of the field (singular, repeated, oneof member, map value), at
// the four standard positions of the three bases.
//
// Kept out of Instances (checks/c04 consumes that catalogue for its own oracles), like CompoundInstances.
// ---------------------------------------------------------------------------------------------

// EnumSubset is the documented subset relation ("a subset of the name/number enum values"): every value of
// prev exists in cur under the same name with the same number. Written from the rule documentation, not
// from bufprotosource.EnumIsSubset.
func EnumSubset(prev, cur []*EnumValue) bool {
	for _, pv := range prev {
		found := false
		for _, cv := range cur {
			if cv.Name == pv.Name && cv.Num == pv.Num {
				found = true
				break
			}
		}
		if !found {
			return false
		}
	}
	return true
}

// EnumRetargetWireBreaking: is moving an enum field from the enum (prevShort, prev) to the different enum
// (curShort, cur) documented as a failure of the two *_COMPATIBLE_TYPE rules?
func EnumRetargetWireBreaking(prevShort, curShort string, prev, cur []*EnumValue) bool {
	return prevShort != curShort || !EnumSubset(prev, cur)
}

// enumRelation builds the target enum from the previous one.
type enumRelation struct {
	name     string
	alias    bool // the target enum needs allow_alias
	otherNm  bool // the target enum has another short name
	proto2   bool // only legal for closed proto2 enums (first value not zero)
	thorough bool // thorough tier only
	values   func(p string) []*EnumValue
}

// enumRelations lists the relations. The previous enum is stdEnum: P_UNSPECIFIED 0, P_ONE 1, P_TWO 2, P_THREE 3.
func enumRelations() []enumRelation {
	names := []string{"ONE", "TWO", "THREE"}
	lower := []string{"one", "two", "three"}
	std := func(p string) []*EnumValue {
		return []*EnumValue{{p + "_UNSPECIFIED", 0}, {p + "_ONE", 1}, {p + "_TWO", 2}, {p + "_THREE", 3}}
	}
	var out []enumRelation
	add := func(r enumRelation) { out = append(out, r) }

	// compatible controls
	add(enumRelation{name: "identical", values: std})
	add(enumRelation{name: "superset-reordered", values: func(p string) []*EnumValue {
		return []*EnumValue{{p + "_UNSPECIFIED", 0}, {p + "_FOUR", 4}, {p + "_THREE", 3}, {p + "_TWO", 2}, {p + "_ONE", 1}, {p + "_FIVE", 5}}
	}})
	add(enumRelation{name: "aliases-added", alias: true, values: func(p string) []*EnumValue {
		return []*EnumValue{{p + "_UNSPECIFIED", 0}, {p + "_UNO", 1}, {p + "_ONE", 1}, {p + "_TWO", 2}, {p + "_DUE", 2}, {p + "_THREE", 3}, {p + "_TRE", 3}}
	}})

	// per-value state vectors over {K keep, N renumber, R rename, D drop}
	states := []byte{'K', 'N', 'R', 'D'}
	stateName := map[byte]string{'N': "renumbered", 'R': "renamed", 'D': "dropped"}
	for a := 0; a < 4; a++ {
		for b := 0; b < 4; b++ {
			for c := 0; c < 4; c++ {
				vec := []byte{states[a], states[b], states[c]}
				changed := 0
				var parts []string
				for i, s := range vec {
					if s != 'K' {
						changed++
						parts = append(parts, lower[i]+"-"+stateName[s])
					}
				}
				if changed == 0 {
					continue // identical
				}
				vec2 := append([]byte(nil), vec...)
				add(enumRelation{
					name: strings.Join(parts, "+"),
					// quick: exactly one value changed, and all three renumbered
					thorough: !(changed == 1 || string(vec) == "NNN"),
					values: func(p string) []*EnumValue {
						vals := []*EnumValue{{p + "_UNSPECIFIED", 0}}
						for i, s := range vec2 {
							switch s {
							case 'K':
								vals = append(vals, &EnumValue{p + "_" + names[i], i + 1})
							case 'N':
								vals = append(vals, &EnumValue{p + "_" + names[i], 11 + i})
							case 'R':
								vals = append(vals, &EnumValue{p + "_" + names[i] + "_V2", i + 1})
							}
						}
						return vals
					},
				})
			}
		}
	}
	// numbers exchanged: the set of names and the set of numbers are both unchanged
	for _, sw := range [][2]int{{0, 1}, {1, 2}, {0, 2}} {
		sw := sw
		add(enumRelation{name: "numbers-swapped-" + lower[sw[0]] + "-" + lower[sw[1]], values: func(p string) []*EnumValue {
			vals := std(p)
			vals[1+sw[0]].Num, vals[1+sw[1]].Num = vals[1+sw[1]].Num, vals[1+sw[0]].Num
			return vals
		}})
	}
	add(enumRelation{name: "numbers-rotated", values: func(p string) []*EnumValue {
		return []*EnumValue{{p + "_UNSPECIFIED", 0}, {p + "_ONE", 2}, {p + "_TWO", 3}, {p + "_THREE", 1}}
	}})
	// a renumbered value whose old number is taken over by a new name (names and numbers both supersets)
	for i := range names {
		i := i
		add(enumRelation{name: lower[i] + "-renumbered-number-reused", values: func(p string) []*EnumValue {
			vals := std(p)
			vals[1+i].Num = 11 + i
			return append(vals, &EnumValue{p + "_NEW", i + 1})
		}})
	}
	// a value moved onto the number of another one
	add(enumRelation{name: "one-moved-onto-two", alias: true, values: func(p string) []*EnumValue {
		return []*EnumValue{{p + "_UNSPECIFIED", 0}, {p + "_TWO", 2}, {p + "_ONE", 2}, {p + "_THREE", 3}}
	}})
	// the zero value
	add(enumRelation{name: "zero-renamed", values: func(p string) []*EnumValue {
		vals := std(p)
		vals[0].Name = p + "_UNKNOWN"
		return vals
	}})
	add(enumRelation{name: "zero-renumbered", proto2: true, values: func(p string) []*EnumValue {
		vals := std(p)
		vals[0].Num = 9
		return vals
	}})
	// another short name, identical values: the short-name conjunct on its own
	add(enumRelation{name: "other-short-name-same-values", otherNm: true, values: std})
	return out
}

// enumRetargetConfigRelation: relations that also run under the category / single-rule / older-version configs in
// the quick tier (one per family: control, renumbered, renamed, dropped, swapped, number reused, other short name).
func enumRetargetConfigRelation(variant string) bool {
	switch strings.SplitN(variant, "/", 2)[0] {
	case "identical", "two-renumbered", "one-renamed", "three-dropped", "numbers-swapped-one-two",
		"one-renumbered-number-reused", "other-short-name-same-values":
		return true
	}
	return false
}

var enumRetargetShapes = []string{"singular", "repeated", "oneof-member", "map-value"}
var enumRetargetLocations = []string{"new-holder-message", "existing-message", "other-file-of-package", "other-package"}

// EnumRetargetInstances generates the operator for a base.
//
// quick: every relation of the quick list at every standard position; shape and location rotate with
// (relation, position, base) so that every relation meets every shape and every location on each base;
// thorough: all relations (the 63 state vectors included), two rotations.
func EnumRetargetInstances(base Base, full bool) []Instance {
	g := &gen{base: base, syntax: base.Name, full: full}
	bi := 0
	for i, b := range []string{"proto3", "proto2", "editions"} {
		if b == base.Name {
			bi = i
		}
	}
	var rels []enumRelation
	for _, rel := range enumRelations() {
		if rel.thorough && !full {
			continue
		}
		if rel.proto2 && base.Name != "proto2" {
			continue
		}
		rels = append(rels, rel)
	}
	rots := 1
	if full {
		rots = 2
	}
	pi := -1
	for _, mr := range base.Schema.Messages() {
		if !hasStdBody(mr.Msg) {
			continue
		}
		pi++
		tt := typesOf[mr.File]
		prev := base.Schema.File(mr.File).Enum(tt.enum)
		p := strings.ToUpper(tt.enum)
		// grouped by shape: the instances of one shape share their old schema (image cache)
		for si, shape := range enumRetargetShapes {
			num := 4
			switch shape {
			case "oneof-member":
				num = 11
			case "map-value":
				num = 7
			}
			prep := func(s *Schema) {
				f := s.File(mr.File).Msg(mr.Nested).Field(num)
				switch shape {
				case "repeated":
					f.Label = "repeated"
				case "oneof-member":
					f.Type, f.Kind = tt.enum, "enum"
				case "map-value":
					f.Type = "map<string, " + tt.enum + ">"
				}
			}
			old := base.Schema
			if shape != "singular" {
				old = base.Schema.Clone()
				prep(old)
			}
			for ri, rel := range rels {
				for rot := 0; rot < rots; rot++ {
					want := (ri + pi + bi + 2*rot) % 4
					if rel.proto2 && enumRetargetShapes[want] == "map-value" {
						// an enum whose first value is not zero is no legal map value type (protoc: "Enum value in map
						// must define 0 as the first value"; buf's compiler lets it through and buf breaking then fails
						// with a system error from protodesc - invalid input, not a C03 matter)
						want = 0
					}
					if want != si {
						continue
					}
					loc := enumRetargetLocations[(3*pi+ri/4+ri+2*bi+rot)%4]
					nw := old.Clone()
					short := tt.enum
					if rel.otherNm {
						short = tt.enum + "V2"
					}
					target := &Enum{Name: short, Values: rel.values(p)}
					if rel.alias {
						target.Opts = []Opt{{"allow_alias", "true"}}
					}
					var ref string
					fl := nw.File(mr.File)
					otherFile := "b.proto"
					if mr.File == "b.proto" {
						otherFile = "a.proto"
					}
					switch loc {
					case "new-holder-message":
						fl.Messages = append(fl.Messages, &Message{Name: "Holder", Enums: []*Enum{target}})
						ref = "Holder." + short
					case "existing-message":
						m := fl.Msg(tt.msg)
						m.Enums = append(m.Enums, target)
						ref = tt.msg + "." + short
					case "other-file-of-package":
						om := typesOf[otherFile].msg
						m := nw.File(otherFile).Msg(om)
						m.Enums = append(m.Enums, target)
						fl.Imports = append(fl.Imports, otherFile)
						ref = om + "." + short
					case "other-package":
						c := nw.File("sub/c.proto")
						c.Enums = append(c.Enums, target)
						fl.Imports = append(fl.Imports, "sub/c.proto")
						ref = c.Package + "." + short
					}
					f := nw.File(mr.File).Msg(mr.Nested).Field(num)
					if shape == "map-value" {
						f.Type = "map<string, " + ref + ">"
					} else {
						f.Type = ref
					}
					names := fieldNames(mr, mr.Msg.Field(num))
					key := KeyField(mr.Nested, num)
					if shape == "map-value" {
						names, key = []string{"2", "value", "FMapEntry"}, ""
					}
					ex := []Expect{{Rule: "FIELD_SAME_TYPE", Names: names, File: mr.File, LocKey: key}}
					if EnumRetargetWireBreaking(prev.Name, target.Name, prev.Values, target.Values) {
						ex = append(ex,
							Expect{Rule: "FIELD_WIRE_COMPATIBLE_TYPE", Names: names, File: mr.File, LocKey: key},
							Expect{Rule: "FIELD_WIRE_JSON_COMPATIBLE_TYPE", Names: names, File: mr.File, LocKey: key})
					}
					g.emitPair("field-enum-retarget", rel.name+"/"+shape+"/"+loc, mr.File, fmt.Sprintf("%s#%d", mr.Nested, num), mr.Depth, old, nw, ex...)
				}
			}
		}
	}
	return g.out
}

// EnumRetargetStats counts, for the evidence, how many instances expect the wire rules (the relation breaks the
// subset condition) and how many are compatible controls.
func EnumRetargetStats(ins []Instance) (breaking, compatible int, relations map[string]int) {
	relations = map[string]int{}
	for _, in := range ins {
		if in.Op != "field-enum-retarget" {
			continue
		}
		relations[strings.SplitN(in.Variant, "/", 2)[0]]++
		if len(in.Expects) > 1 {
			breaking++
		} else {
			compatible++
		}
	}
	return
}
