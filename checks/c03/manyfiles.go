package c03

import (
	"fmt"
	"strings"
	"sync"

	"github.com/bufbuild/buf/private/pkg/thread"
	"github.com/bufbuild/bufverif/internal/bufx"
	"github.com/bufbuild/bufverif/internal/evid"
)

// ---------------------------------------------------------------------------------------------
// Schema-size dimension: modules of many files.
//
// "for all generated schemas S ... however the edit is surrounded by unrelated compatible changes":
// buf converts the files of both images with bufprotosource.NewFiles, which switches to parallel
// chunks once there are at least 8 files per unit of thread.Parallelism(). The cases below are
// modules of n small files - every file carries one documented breaking edit (six kinds, cycling) and
// unrelated additions - for every n around the switch-over and for every remainder n mod parallelism,
// under several values of the (process-global) parallelism. Every file's edit must be reported.
// ---------------------------------------------------------------------------------------------

// ManyFilesLayouts: "own" = every file is a package of its own; "shared" = packages of three files.
var ManyFilesLayouts = []string{"own", "shared"}

const manyFilesEditKinds = 6

// ManyFilesPair builds the old and the new schema of n files and the expected annotations.
func ManyFilesPair(n int, layout string) (old, nw *Schema, expects []Expect) {
	old, nw = &Schema{}, &Schema{}
	for i := 0; i < n; i++ {
		tag := fmt.Sprintf("%03d", i)
		grp := "p" + tag
		if layout == "shared" {
			grp = fmt.Sprintf("g%03d", i/3)
		}
		of, nf, ex := SmallFilePair(i, fmt.Sprintf("big/%s/f%s.proto", grp, tag), "big."+grp+".v1", grp)
		old.Files = append(old.Files, of)
		nw.Files = append(nw.Files, nf)
		expects = append(expects, ex...)
	}
	return old, nw, expects
}

// SmallFilePair builds the old and the new version of one small proto3 file (one enum, two messages, one
// service; all type names carry the index) with edit kind i mod 6 plus unrelated additions, and the expected
// annotations. grp only feeds the go_package option.
func SmallFilePair(i int, path, pkg, grp string) (of, nf *File, expects []Expect) {
	tag := fmt.Sprintf("%03d", i)
	mk := func() *File {
		e := "E" + tag
		up := strings.ToUpper(e)
		m := "M" + tag
		return &File{
			Path: path, Syntax: "proto3", Package: pkg,
			Opts: []Opt{{"go_package", `"example.com/big/` + grp + `;` + grp + `"`}},
			Enums: []*Enum{{Name: e, Values: []*EnumValue{
				{up + "_UNSPECIFIED", 0}, {up + "_ONE", 1}, {up + "_TWO", 2}}}},
			Messages: []*Message{
				{Name: m, Fields: []*Field{
					{Name: "a", Num: 1, Type: "int32", Kind: "int32"},
					{Name: "b", Num: 2, Type: "string", Kind: "string"},
					{Name: "e", Num: 3, Type: e, Kind: "enum"},
				}},
				{Name: "Spare" + tag, Fields: []*Field{{Name: "id", Num: 1, Type: "int32", Kind: "int32"}}},
			},
			Services: []*Service{{Name: "S" + tag, Methods: []*Method{
				{Name: "Get", In: m, Out: m}, {Name: "Put", In: m, Out: m}}}},
		}
	}
	of, nf = mk(), mk()
	m := nf.Messages[0]
	names := func(f *Field) []string { return []string{itoa(f.Num), f.Name, m.Name} }
	switch i % manyFilesEditKinds {
	case 0: // field type across every compatibility group
		f := m.Field(1)
		f.Type, f.Kind = "string", "string"
		for _, rule := range []string{"FIELD_SAME_TYPE", "FIELD_WIRE_COMPATIBLE_TYPE", "FIELD_WIRE_JSON_COMPATIBLE_TYPE"} {
			expects = append(expects, Expect{Rule: rule, Names: names(f), File: path, LocKey: KeyField(m.Name, 1)})
		}
	case 1: // field deleted, nothing reserved
		f := m.Field(2)
		nm := names(f)
		m.DeleteField(2)
		for _, rule := range []string{"FIELD_NO_DELETE", "FIELD_NO_DELETE_UNLESS_NUMBER_RESERVED", "FIELD_NO_DELETE_UNLESS_NAME_RESERVED"} {
			expects = append(expects, Expect{Rule: rule, Names: nm, File: path, LocKey: KeyMsg(m.Name)})
		}
	case 2: // enum value deleted, nothing reserved
		e := nf.Enums[0]
		v := e.Values[2]
		e.DeleteValue(v.Name)
		nm := []string{itoa(v.Num), e.Name}
		expects = append(expects,
			Expect{Rule: "ENUM_VALUE_NO_DELETE", Names: nm, File: path, LocKey: KeyEnum(e.Name)},
			Expect{Rule: "ENUM_VALUE_NO_DELETE_UNLESS_NUMBER_RESERVED", Names: nm, File: path, LocKey: KeyEnum(e.Name)},
			Expect{Rule: "ENUM_VALUE_NO_DELETE_UNLESS_NAME_RESERVED", Names: append([]string{v.Name}, nm...), File: path, LocKey: KeyEnum(e.Name)})
	case 3: // message deleted (the package keeps its other messages)
		nf.DeleteMessage("Spare" + tag)
		expects = append(expects,
			Expect{Rule: "MESSAGE_NO_DELETE", Names: []string{"Spare" + tag}, File: path},
			Expect{Rule: "PACKAGE_MESSAGE_NO_DELETE", Names: []string{"Spare" + tag, pkg}, File: path})
	case 4: // RPC deleted
		s := nf.Services[0]
		s.Methods = s.Methods[:1]
		expects = append(expects, Expect{Rule: "RPC_NO_DELETE", Names: []string{"Put", s.Name}, File: path, LocKey: KeyService(s.Name)})
	case 5: // tracked file option changed
		nf.Opts = setOpt(nf.Opts, "go_package", `"example.com/elsewhere/`+grp+`;`+grp+`"`)
		expects = append(expects, Expect{Rule: "FILE_SAME_GO_PACKAGE", Names: []string{"go_package"}, File: path, LocKey: KeyFileOpt("go_package")})
	}
	// unrelated compatible changes in every file: a new message first, a new field last
	nf.Messages = append([]*Message{{Name: "Added" + tag, Fields: []*Field{{Name: "id", Num: 1, Type: "int32", Kind: "int32"}}}}, nf.Messages...)
	m.Fields = append(m.Fields, &Field{Name: "added", Num: 9, Type: "string", Kind: "string"})
	return of, nf, expects
}

type manyFilesCase struct {
	Parallelism int    `json:"parallelism"`
	Files       int    `json:"files"`
	Layout      string `json:"layout"`
}

func (c manyFilesCase) String() string {
	return fmt.Sprintf("many-files/parallelism%d/files%d/%s", c.Parallelism, c.Files, c.Layout)
}

type manyFilesCaseT struct {
	Case        manyFilesCase     `json:"case"`
	Config      string            `json:"config"`
	Expect      *Expect           `json:"expect,omitempty"`
	ExpectLine  int               `json:"expect_line,omitempty"`
	FileIndex   int               `json:"file_index"`
	Reported    map[string]int    `json:"annotations_per_rule"`
	Annotations []bufx.Annotation `json:"annotations_of_the_file"`
	OldText     string            `json:"old_text_of_the_file"`
	NewText     string            `json:"new_text_of_the_file"`
}

// manyFilesCounts lists the file counts run under a parallelism: one below the switch-over to parallel
// chunks (8 files per unit), every count from there to one past the next multiple (every remainder,
// two exact multiples), and two counts with two and three full rounds of chunks plus a remainder.
func manyFilesCounts(par int, full bool) []int {
	var out []int
	for n := 8*par - 1; n <= 9*par+1; n++ {
		out = append(out, n)
	}
	out = append(out, 16*par+1)
	if full {
		out = append(out, 17*par-1, 24*par+par/2+1)
	}
	return out
}

// RunManyFiles runs the many-files cases. thread.SetParallelism is process-global: it is only changed here,
// between parallel sections, and restored before returning.
func RunManyFiles(r *evid.Run, eng *Engine, full bool) {
	def := thread.Parallelism()
	defer thread.SetParallelism(def)
	pars := []int{2, 3, 4}
	if full {
		pars = append(pars, 5, 8)
	}
	type job struct {
		c manyFilesCase
	}
	var mu sync.Mutex
	cases, chunked, remainder, checks, calls := 0, 0, 0, 0, 0
	perPar := map[string]int{}
	unions := UnionConfigs()
	runAll := func(par int, counts []int, layouts []string) {
		var jobs []job
		for _, n := range counts {
			for _, l := range layouts {
				jobs = append(jobs, job{manyFilesCase{par, n, l}})
			}
		}
		thread.SetParallelism(par)
		r.ParallelFor(len(jobs), 0, func(i int) {
			c := jobs[i].c
			old, nw, expects := ManyFilesPair(c.Files, c.Layout)
			oldR, newR := old.Render(Style{}), nw.Render(Style{})
			oldImg, err := eng.Image(oldR)
			if err != nil {
				r.Incomplete("harness: " + c.String() + " old schema does not build: " + err.Error())
				return
			}
			newImg, err := eng.Image(newR)
			if err != nil {
				r.Incomplete("harness: " + c.String() + " new schema does not build: " + err.Error())
				return
			}
			fileIndex := map[string]int{}
			for fi, f := range nw.Files {
				fileIndex[f.Path] = fi
			}
			lc := 0
			for _, cfg := range unions {
				anns, err := eng.Breaking(cfg, newImg, oldImg)
				r.Eval(1)
				mu.Lock()
				calls++
				mu.Unlock()
				if err != nil {
					if strings.HasPrefix(err.Error(), "config ") {
						r.Incomplete("harness: " + err.Error())
						continue
					}
					r.Violate("breaking-error/many-files/"+normSig(err.Error()), fmt.Sprintf("Breaking returned a non-annotation error for a valid schema pair (%s, %s): %v", c, cfg, err),
						manyFilesCaseT{Case: c, Config: cfg.String()})
					continue
				}
				byFile := map[string][]bufx.Annotation{}
				perRule := map[string]int{}
				for _, a := range anns {
					byFile[a.Path] = append(byFile[a.Path], a)
					perRule[a.Type]++
				}
				// a file none of whose edits is reported and that has no annotation at all was not looked at
				// as a whole: one signature for that, whatever the rules
				failed := map[string]int{}
				total := map[string]int{}
				for ei := range expects {
					ex := expects[ei]
					if !cfg.Active(ex.Rule) {
						continue
					}
					total[ex.File]++
					line := 0
					if ex.LocKey != "" {
						line = newR.Line(ex.File, ex.LocKey)
					}
					if Match(ex, line, byFile[ex.File]) == "absent" {
						failed[ex.File]++
					}
				}
				wholeReported := map[string]bool{}
				for ei := range expects {
					ex := expects[ei]
					if !cfg.Active(ex.Rule) {
						continue
					}
					lc++
					line := 0
					if ex.LocKey != "" {
						line = newR.Line(ex.File, ex.LocKey)
					}
					kind := Match(ex, line, byFile[ex.File])
					if kind == "" {
						continue
					}
					sig := "unreported/" + ex.Rule + "/many-files/" + kind
					if len(byFile[ex.File]) == 0 && failed[ex.File] == total[ex.File] {
						if wholeReported[ex.File] {
							continue
						}
						wholeReported[ex.File] = true
						sig = "unreported/many-files/whole-file/absent"
					}
					r.Violate(sig,
						fmt.Sprintf("%s under %s: file %d of %d (%q, %d annotation(s) in that file, %d of its %d expected annotations missing): expected a %s annotation naming %v (line %d), failure: %s; the run reported %d annotation(s) of that rule over all files",
							c, cfg, fileIndex[ex.File], c.Files, ex.File, len(byFile[ex.File]), failed[ex.File], total[ex.File], ex.Rule, ex.Names, line, kind, perRule[ex.Rule]),
						manyFilesCaseT{Case: c, Config: cfg.String(), Expect: &ex, ExpectLine: line, FileIndex: fileIndex[ex.File], Reported: perRule,
							Annotations: byFile[ex.File], OldText: oldR.Files[ex.File], NewText: newR.Files[ex.File]})
				}
			}
			r.Distinct(c.String())
			r.SampleEvery(i, 7, func() any { return manyFilesCaseT{Case: c, Config: "v2/ALL", Expect: &expects[0]} })
			mu.Lock()
			cases++
			checks += lc
			perPar[fmt.Sprint(par)]++
			if c.Files/par >= 8 {
				chunked++
				if c.Files%par != 0 {
					remainder++
				}
			}
			mu.Unlock()
		})
	}
	for _, par := range pars {
		if r.Expired() {
			break
		}
		runAll(par, manyFilesCounts(par, full), ManyFilesLayouts)
	}
	// the parallelism of the machine itself (the value buf runs with), when that stays affordable
	if def >= 1 && def <= 32 && !contains3(pars, def) && !r.Expired() {
		counts := []int{8*def + 1, 9*def - 1}
		if full {
			counts = append(counts, 8*def-1, 8*def, 9*def, 16*def+def/2+1)
		}
		runAll(def, counts, ManyFilesLayouts[:1])
	}
	thread.SetParallelism(def)
	r.Set("many_files_cases", cases)
	r.Set("many_files_cases_per_parallelism", perPar)
	r.Set("many_files_cases_in_parallel_chunks", chunked)
	r.Set("many_files_cases_in_parallel_chunks_with_remainder", remainder)
	r.Set("many_files_breaking_calls", calls)
	r.Set("many_files_expectation_checks", checks)
	r.Set("many_files_default_parallelism", def)
	if !r.Expired() && (chunked == 0 || remainder == 0 || chunked == cases) {
		r.Incomplete(fmt.Sprintf("many-files: clause not exercised (cases %d, in parallel chunks %d, with remainder %d)", cases, chunked, remainder))
	}
}

func contains3(xs []int, x int) bool {
	for _, y := range xs {
		if y == x {
			return true
		}
	}
	return false
}
