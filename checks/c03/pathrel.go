package c03

import (
	"fmt"
	"sort"
	"strings"
	"sync"

	"github.com/bufbuild/bufverif/internal/bufx"
	"github.com/bufbuild/bufverif/internal/evid"
)

// ---------------------------------------------------------------------------------------------
// Configuration dimension "how an ignore path relates to the path of the edited file" (third round).
//
// The ignore-config phase only knows two path values: a path containing the edited file and the path of
// another file. An `ignore` / `ignore_only` path silences a rule for the files it IS or CONTAINS as a
// directory - containment by path components. Every other relation between the two strings must leave the
// rule active: a path that is merely a string prefix of the file path (sibling directories acme/v1 and
// acme/v1beta1 or acme/v10, foo/bar and foo/bar_baz.proto), a longer path, an unrooted suffix, a base name.
//
// One module of twelve small files whose paths are string-related to each other in all these ways; every file
// carries one documented breaking edit (SmallFilePair, six kinds x 2) and unrelated additions. The path
// alphabet: every file path, every directory of the module, and names that exist only as string prefixes /
// extensions of real ones. Every configuration names ONE path; the reference model (IgnoreConfig.Active,
// containment by components) says which files that silences, every expected annotation of every other file
// must be there.
// ---------------------------------------------------------------------------------------------

// pathRelFiles are the file paths of the module, index = edit kind mod 6.
var pathRelFiles = []string{
	"acme/v1/api.proto",      // 0 field type
	"acme/v1beta1/api.proto", // 1 field deleted       (directory name extends v1)
	"acme/v10/api.proto",     // 2 enum value deleted  (directory name extends v1)
	"acme/v1/api_ext.proto",  // 3 message deleted     (file name extends api)
	"acme/v1/sub/api.proto",  // 4 RPC deleted         (really below acme/v1)
	"acme/v1.proto",          // 5 file option         (file named like the directory)
	"acme/v/api.proto",       // 6 field type          (directory name is a prefix of v1)
	"acmev1/api.proto",       // 7 field deleted       (acme/v1 without the separator)
	"acme/v1/ap.proto",       // 8 enum value deleted  (file name is a prefix of api)
	"ac/api.proto",           // 9 message deleted     (root directory name is a prefix of acme)
	"api.proto",              // 10 RPC deleted        (base name of other files, at the root)
	"v1/api.proto",           // 11 file option        (unrooted tail of acme/v1/api.proto)
}

// pathRelExtraPaths are ignore paths that name nothing in the module: strict string prefixes of real names
// (not at a component boundary), names longer than real ones, a path below a file.
var pathRelExtraPaths = []string{
	"a", "acm", "acme/v1b", "acme/v1beta", "acme/v1/a", "acme/v1/api", "acme/v1/api.prot", "acme/v1/api_ext",
	"acme/v1beta12", "acme/v1/api.protox", "acme/v1/api.proto/x", "acme/v1/s", "v", "api",
}

// PathRelPair builds the module.
func PathRelPair() (old, nw *Schema, expects []Expect) {
	old, nw = &Schema{}, &Schema{}
	for i, path := range pathRelFiles {
		grp := fmt.Sprintf("q%03d", i)
		of, nf, ex := SmallFilePair(i, path, "rel."+grp+".v1", grp)
		old.Files = append(old.Files, of)
		nw.Files = append(nw.Files, nf)
		expects = append(expects, ex...)
	}
	return old, nw, expects
}

// pathRelAlphabet: every file, every directory, the extra names; sorted, distinct.
func pathRelAlphabet() []string {
	set := map[string]bool{}
	for _, f := range pathRelFiles {
		set[f] = true
		for i := 0; i < len(f); i++ {
			if f[i] == '/' {
				set[f[:i]] = true
			}
		}
	}
	for _, p := range pathRelExtraPaths {
		set[p] = true
	}
	out := make([]string, 0, len(set))
	for p := range set {
		out = append(out, p)
	}
	sort.Strings(out)
	return out
}

// PathRelation names how an ignore path that does NOT contain the file relates to the file's path:
//
//	dir-name-prefix   the path is a string prefix of the file path ending inside a directory name
//	file-name-prefix  ... ending inside the file name
//	longer-name       the file path, or one of its directories, is a string prefix of the ignore path
//	unrooted-tail     the path is a tail of the file path at a component boundary (base name, trailing directories)
//	elsewhere         none of these
func PathRelation(file, path string) string {
	switch {
	case strings.HasPrefix(file, path):
		if strings.Contains(file[len(path):], "/") {
			return "dir-name-prefix"
		}
		return "file-name-prefix"
	case strings.HasSuffix(file, "/"+path) || strings.Contains(file, "/"+path+"/"):
		return "unrooted-tail"
	}
	if strings.HasPrefix(path, file) {
		return "longer-name"
	}
	for i := 0; i < len(file); i++ {
		if file[i] == '/' && strings.HasPrefix(path, file[:i]) && !strings.HasPrefix(path, file[:i]+"/") {
			return "longer-name"
		}
	}
	return "elsewhere"
}

// worstRelation: the most specific relation of any of the paths to the file (for signatures).
func worstRelation(file string, paths []string) string {
	rank := map[string]int{"elsewhere": 0, "unrooted-tail": 1, "longer-name": 2, "file-name-prefix": 3, "dir-name-prefix": 4}
	best := "elsewhere"
	for _, p := range paths {
		if rel := PathRelation(file, p); rank[rel] > rank[best] {
			best = rel
		}
	}
	return best
}

type pathRelJob struct {
	cfg  IgnoreConfig
	role string // ignore | ignore-only-rules | ignore-only-category
	path string
}

type pathRelCaseT struct {
	Config      IgnoreConfig      `json:"config"`
	BufYAML     string            `json:"buf_yaml"`
	IgnorePath  string            `json:"ignore_path"`
	Relation    string            `json:"relation_of_the_ignore_path_to_the_file"`
	Expect      *Expect           `json:"expect,omitempty"`
	ExpectLine  int               `json:"expect_line,omitempty"`
	Annotations []bufx.Annotation `json:"annotations_of_the_file"`
	Files       []string          `json:"module_files"`
	OldText     string            `json:"old_text_of_the_file,omitempty"`
	NewText     string            `json:"new_text_of_the_file,omitempty"`
}

// RunPathRelations runs the path-relation configurations.
//
//	entry:   ignore: [P] | ignore_only: {every expected rule of the version: [P]} | ignore_only: {FILE: [P], WIRE_JSON: [P], ...}
//	use:     all four categories | the list of the expected rule IDs (single-rule style)
//	version: v1beta1, v1, v2
//	P:       every path of pathRelAlphabet (quick: `use` = rule list only for the ignore entry)
func RunPathRelations(r *evid.Run, eng *Engine, full bool) {
	old, nw, expects := PathRelPair()
	oldR, newR := old.Render(Style{}), nw.Render(Style{})
	oldImg, err := eng.Image(oldR)
	if err != nil {
		r.Incomplete("harness: path-relations old schema does not build: " + err.Error())
		return
	}
	newImg, err := eng.Image(newR)
	if err != nil {
		r.Incomplete("harness: path-relations new schema does not build: " + err.Error())
		return
	}
	var rules []string
	for _, ex := range expects {
		if !contains(rules, ex.Rule) {
			rules = append(rules, ex.Rule)
		}
	}
	sort.Strings(rules)
	alphabet := pathRelAlphabet()
	var jobs []pathRelJob
	for _, v := range Versions {
		var vrules []string
		for _, id := range rules {
			if _, ok := DocCategories(v, id); ok {
				vrules = append(vrules, id)
			}
		}
		uses := [][]string{append([]string(nil), Categories...), vrules}
		for ui, use := range uses {
			for _, p := range alphabet {
				jobs = append(jobs, pathRelJob{IgnoreConfig{Version: v, Use: use, Ignore: []string{p}}, "ignore", p})
				if ui == 1 && !full {
					continue
				}
				var byRule, byCat []IgnoreEntry
				for _, id := range vrules {
					byRule = append(byRule, IgnoreEntry{id, []string{p}})
				}
				for _, c := range Categories {
					byCat = append(byCat, IgnoreEntry{c, []string{p}})
				}
				jobs = append(jobs, pathRelJob{IgnoreConfig{Version: v, Use: use, IgnoreOnly: byRule}, "ignore-only-rules", p})
				jobs = append(jobs, pathRelJob{IgnoreConfig{Version: v, Use: use, IgnoreOnly: byCat}, "ignore-only-categories", p})
			}
		}
	}
	var mu sync.Mutex
	relChecks := map[string]int{}
	claimed, suppressed, calls := 0, 0, 0
	r.ParallelFor(len(jobs), 0, func(i int) {
		j := jobs[i]
		yaml := j.cfg.YAML()
		anns, err := eng.BreakingYAML(j.cfg.String(), yaml, newImg, oldImg)
		r.Eval(1)
		if err != nil {
			if strings.HasPrefix(err.Error(), "config ") {
				r.Incomplete("harness: " + err.Error())
				return
			}
			r.Violate("breaking-error/path-relations/"+normSig(err.Error()), fmt.Sprintf("Breaking returned a non-annotation error for a valid schema pair under %s: %v", j.cfg, err),
				pathRelCaseT{Config: j.cfg, BufYAML: yaml, IgnorePath: j.path, Files: pathRelFiles})
			return
		}
		byFile := map[string][]bufx.Annotation{}
		for _, a := range anns {
			byFile[a.Path] = append(byFile[a.Path], a)
		}
		lc, ls := 0, 0
		local := map[string]int{}
		for ei := range expects {
			ex := expects[ei]
			if !j.cfg.Used(ex.Rule) {
				continue
			}
			if !j.cfg.Active(ex.Rule, ex.File) {
				ls++
				continue
			}
			lc++
			rel := PathRelation(ex.File, j.path)
			local[j.role+"@"+rel]++
			line := 0
			if ex.LocKey != "" {
				line = newR.Line(ex.File, ex.LocKey)
			}
			kind := Match(ex, line, byFile[ex.File])
			if kind == "" {
				continue
			}
			r.Violate("unreported-under-ignore-config/"+j.role+"@"+rel+"/"+kind,
				fmt.Sprintf("path-relations under %s: the path %q does not contain %q (relation: %s), rule %s is active for the file, expected an annotation naming %v (line %d), failure: %s; the file got %d annotation(s)",
					j.cfg, j.path, ex.File, rel, ex.Rule, ex.Names, line, kind, len(byFile[ex.File])),
				pathRelCaseT{Config: j.cfg, BufYAML: yaml, IgnorePath: j.path, Relation: rel, Expect: &ex, ExpectLine: line, Annotations: byFile[ex.File],
					Files: pathRelFiles, OldText: oldR.Files[ex.File], NewText: newR.Files[ex.File]})
		}
		if lc > 0 {
			r.Distinct("path-relations/" + j.cfg.String())
		}
		r.SampleEvery(i, 499, func() any {
			return pathRelCaseT{Config: j.cfg, BufYAML: yaml, IgnorePath: j.path, Files: pathRelFiles, Expect: &expects[0]}
		})
		mu.Lock()
		calls++
		claimed += lc
		suppressed += ls
		for k, v := range local {
			relChecks[k] += v
		}
		mu.Unlock()
	})
	r.Set("path_relations_files", pathRelFiles)
	r.Set("path_relations_ignore_paths", alphabet)
	r.Set("path_relations_configurations", len(jobs))
	r.Set("path_relations_breaking_calls", calls)
	r.Set("path_relations_expectation_checks", claimed)
	r.Set("path_relations_expectations_legitimately_ignored", suppressed)
	r.Set("path_relations_expectation_checks_per_entry_and_relation", relChecks)
	if r.Expired() {
		return
	}
	for _, role := range []string{"ignore", "ignore-only-rules", "ignore-only-categories"} {
		for _, rel := range []string{"dir-name-prefix", "file-name-prefix", "longer-name", "unrooted-tail", "elsewhere"} {
			if relChecks[role+"@"+rel] == 0 {
				r.Incomplete("path-relations: never exercised: " + role + "@" + rel)
			}
		}
	}
	if suppressed == 0 {
		r.Incomplete("path-relations: no expectation was ever legitimately ignored (model never discriminates)")
	}
}
