// Package c03 is the check for property C03 (see DESIGN.md section 3).
package c03
