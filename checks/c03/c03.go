// Package c03: no documented breaking change goes unreported.
//
// Bounded-exhaustive exploration: a catalogue of edit operators (one or more per breaking rule) is
// applied at every applicable position (top level, nested once, nested twice, second file) of three
// base schemas (proto2, proto3, edition 2023), each in three surroundings (alone, with unrelated
// additive edits textually before, after); every resulting (old, new) pair is run through the real
// bufcheck.Client.Breaking under FILE / PACKAGE / WIRE_JSON / WIRE and every single-rule config of
// buf.yaml v1beta1 / v1 / v2. Oracle (reference model written from the rule documentation, ref.go):
// rule active in the config and the operator's documented expectation applies => an annotation with
// that rule ID exists whose message names the edited element, whose file is the element's file and
// whose line is the element's line in the new version.
//
// The schema DSL, the operator catalogue and the engine are exported: checks/c04 reuses them.
package c03

import (
	"fmt"
	"os"
	"sort"
	"strings"
	"sync"
	"time"

	"github.com/bufbuild/bufverif/internal/bufx"
	"github.com/bufbuild/bufverif/internal/evid"
)

func init() {
	evid.Register(&evid.Check{ID: "C03", Level: "exploration", Run: run, QuickBudget: 480 * time.Second, ThoroughBudget: 30 * time.Minute})
}

type caseT struct {
	Instance    string               `json:"instance"`
	Surrounding string               `json:"surrounding"`
	Config      string               `json:"config"`
	Expect      *Expect              `json:"expect,omitempty"`
	ExpectLine  int                  `json:"expect_line,omitempty"`
	Annotations []bufx.Annotation    `json:"annotations"`
	Changed     map[string][2]string `json:"changed_files_old_new,omitempty"`
}

type workItem struct {
	in   *Instance
	mode int
}

// AllInstances returns the whole catalogue (three bases + the syntax operator).
func AllInstances(full bool) []Instance {
	var out []Instance
	for _, b := range Bases() {
		out = append(out, Instances(b, full)...)
	}
	out = append(out, SyntaxInstances()...)
	return out
}

func normSig(s string) string {
	s = strings.Map(func(r rune) rune {
		switch {
		case r >= 'a' && r <= 'z', r >= 'A' && r <= 'Z', r >= '0' && r <= '9', r == '_', r == '-', r == '>', r == '.':
			return r
		}
		return '_'
	}, s)
	if len(s) > 80 {
		s = s[:80]
	}
	return s
}

// CheckRuleTable compares buf's own rule/category tables (Client.AllRules) with the documented matrix.
func CheckRuleTable(r *evid.Run, eng *Engine) {
	for _, v := range Versions {
		rules, err := eng.AllRules(v)
		if err != nil {
			r.Incomplete("AllRules " + v + ": " + err.Error())
			return
		}
		seen := map[string]bool{}
		for _, ri := range rules {
			r.Eval(1)
			seen[ri.ID] = true
			doc, ok := DocCategories(v, ri.ID)
			if ri.Deprecated {
				isNoop := false
				for _, d := range DeprecatedNoop {
					if d == ri.ID {
						isNoop = true
					}
				}
				if !isNoop || len(ri.Categories) != 0 {
					r.Violate("rule-table/"+v+"/"+ri.ID+"/deprecated", fmt.Sprintf("%s: rule %s is deprecated=%v with categories %v; documented categories %v", v, ri.ID, ri.Deprecated, ri.Categories, doc), ri)
				}
				wantRepl, _ := DocReplacements(v, ri.ID)
				wantRepl = append([]string(nil), wantRepl...)
				sort.Strings(wantRepl)
				if strings.Join(wantRepl, ",") != strings.Join(ri.Replacements, ",") {
					r.Violate("rule-table/"+v+"/"+ri.ID+"/replacements", fmt.Sprintf("%s: deprecated rule %s is replaced by %v, documented: %v", v, ri.ID, ri.Replacements, wantRepl), ri)
				}
				continue
			}
			want := append([]string(nil), doc...)
			sort.Strings(want)
			if !ok || strings.Join(want, ",") != strings.Join(ri.Categories, ",") {
				r.Violate("rule-table/"+v+"/"+ri.ID, fmt.Sprintf("%s: rule %s is in categories %v, documented: %v (exists=%v)", v, ri.ID, ri.Categories, want, ok), ri)
			}
		}
		for _, id := range DocRules(v) {
			if !seen[id] {
				r.Violate("rule-table/"+v+"/"+id+"/missing", fmt.Sprintf("%s: documented rule %s does not exist", v, id), id)
			}
		}
	}
}

// configsFor selects the configurations one work item is run under.
//
// Every rule handler runs independently of which other rules are selected, so the union config
// (use: FILE+PACKAGE+WIRE_JSON+WIRE = every documented rule active) checks all expectations of a case in
// one call; the category and single-rule configs add the category -> rule expansion of each version.
//
//	quick:    union v2 for every item; union v1beta1+v1, the 12 category configs and the single-rule
//	          configs of the expected rules for items without surrounding at the positions top / file
//	          (field-type table: v2 categories only, no single-rule configs)
//	thorough: the three union configs for every item; category configs for every item and single-rule
//	          configs without surrounding, except the field-type table, which gets the category
//	          configs without surrounding on the singular slot
func configsFor(in *Instance, mode int, full bool) []Config {
	table := in.Op == "field-type"
	unions := UnionConfigs()
	cats, singles := false, false
	if full {
		if table {
			cats = mode == SurroundNone && !strings.Contains(in.Variant, "/") && strings.HasSuffix(in.Site, "#20")
		} else {
			cats, singles = true, mode == SurroundNone
		}
		if in.Op == "field-enum-retarget" {
			cats = mode == SurroundNone
		}
	} else {
		shallow := in.Pos == "top" || in.Pos == "file"
		if in.Op == "file-option" && !strings.HasPrefix(in.Site, "a.proto:") {
			// quick (third round, pays for the new dimensions): the category / single-rule / older-version configs of
			// a tracked file option run on the first file only (16 options x every transition); the same edits
			// in the three other files run under the v2 union. Which file the option sits in and which categories
			// its rule belongs to are independent; the thorough tier keeps the full product.
			shallow = false
		}
		if in.Op == "field-enum-retarget" && !enumRetargetConfigRelation(in.Variant) {
			// quick (fourth round): which categories / single rules / versions a rule is active in is independent of the
			// relation between the two enums - the 21 extra configs run on one relation per family (7 of 24)
			shallow = false
		}
		if mode == SurroundNone && shallow {
			cats, singles = true, !table
			if table && in.Base != "proto3" {
				// quick (fourth round, pays for the enum-retarget operator): the handlers are the same in every version,
				// so the v1beta1 / v1 unions run over the whole table of the proto3 base only; the proto2 / editions
				// tables run under the v2 union and the v2 categories. The thorough tier keeps the full product.
				unions = unions[2:]
			}
		} else {
			unions = unions[2:] // v2 only
		}
	}
	cfgs := unions
	if cats {
		cc := CategoryConfigs()
		if !full && table {
			cc = cc[8:] // quick: the table runs the v2 categories only (the other versions through their unions)
		}
		cfgs = append(cfgs, cc...)
	}
	if singles {
		seen := map[string]bool{}
		for _, ex := range in.Expects {
			if seen[ex.Rule] {
				continue
			}
			seen[ex.Rule] = true
			for _, v := range Versions {
				if _, ok := DocCategories(v, ex.Rule); ok {
					cfgs = append(cfgs, Config{Version: v, Use: ex.Rule, IsRule: true})
				}
			}
		}
	}
	return cfgs
}

func run(r *evid.Run) {
	full := !r.Quick()
	r.Rule("case = (base schema in {proto2, proto3, edition 2023} or the syntax-neutral base, edit operator + variant, position = every element the operator applies to (top / nested1 / nested2 / second file / file level), surrounding in {none, unrelated additive edits before, after}, config); " +
		"configs: use:[FILE,PACKAGE,WIRE_JSON,WIRE] (all rules active) x {v1beta1,v1,v2} for every case, plus each of FILE / PACKAGE / WIRE_JSON / WIRE and each expected single rule x 3 versions for every case without surrounding (thorough: in all surroundings); " +
		"field-type table = every ordered pair of the 15 scalar kinds + enum + message + group on the slot field of the message at each of the 4 positions (quick: singular field, no surroundings, category configs at the top position; thorough: also repeated field and oneof member, all surroundings); " +
		"default-value table = per scalar kind + enum a row of fields whose defaults step through the kind's boundary values (32/64-bit min/max and their neighbours, neighbours beyond 2^53 / 2^24, inf, nan) upwards and downwards, on every standard message and as extensions; " +
		"aliased enum numbers (2 and 3 names) deleted with every subset of the names reserved x number reserved or not; type-name changes on singular / repeated / oneof-member / map-value / extension / delimited (field and file default) message and enum fields; " +
		"file syntax over {proto2, proto3, edition 2023, no declaration}; " +
		"ignore configurations = per operator of a fixed list and edited file one case x 3 versions x use in {all four categories, the narrowest ID list incl. deprecated IDs} x ignore_only maps of 1 or 2 entries over the key alphabet {expected rules, their categories, the deprecated IDs they replace, one unrelated rule} and the path alphabet {here, elsewhere} (+ ignore: [elsewhere]; + except: [key] under the union), both textual orders, x every rotation of buf's ID maps (map seeds); " +
		"many-files modules = n small files each with one of six documented edits plus unrelated additions, n from one below the switch to parallel chunks (8 files per unit of parallelism) through every remainder to one past the next multiple and 16p+1, parallelism p in {2,3,4} (thorough: 5, 8) and the machine's own, two package layouts; " +
		"enum retargets = an enum field moves to ANOTHER enum whose relation to the previous one is enumerated: every previous non-zero value kept / renumbered (name kept) / renamed (number kept) / dropped (quick: one value changed, or all renumbered; thorough: all 63 vectors), numbers swapped between two or rotated among three values, a renumbered value whose number a new name takes over, a value moved onto another's number (allow_alias), zero value renamed / renumbered, another short name with identical values, and compatible controls (identical, reordered superset, aliases added) x target location {new holder message, existing message, other file of the package, other package} x field shape {singular, repeated, oneof member, map value} at the 4 positions; " +
		"compound edits = a field keeps its number and is renamed while its scalar kind / message or enum type / map key or value type / cardinality changes too (20 combinations incl. 8 on map fields, plus type + cardinality together) at the 4 positions; " +
		"ignore-path relations = one module of 12 files whose paths are string prefixes / extensions / tails of each other, one ignore path per configuration out of every file, every directory and 14 names that only exist as string prefixes or extensions (35 paths), as ignore / ignore_only by rule / ignore_only by category x 3 versions x use in {categories, rule list}; " +
		"v2 workspaces = 2 and 3 modules of six edited files each, every assignment of a section alphabet {none, use WIRE, use FILE, except, ignore, ignore_only, ignore_unstable_packages} to the modules x a top-level alphabet {none, FILE, all, WIRE_JSON, except, unstable, ignore paths in the first / last module, whole module directories, ignore_only}, module directories unrelated or one a string prefix of the other in both list orders; every module checked with the config buf derives for it, a covering subset also on disk through `buf breaking --against`; " +
		"a case is distinct and non-trivial when the reference model expects at least one annotation for it (key = instance id / surrounding)")
	r.Assume("expectations claim only what a rule's Purpose text and the rule documentation state; edits whose status the docs leave open (repeated<->map for the wire cardinality rules, STRING_PIECE->STRING, json_name side effect of a rename, proto2 <-> no syntax declaration, explicit zero default <-> no default) carry no expectation")
	r.Assume("an enum value is 'deleted without reserving the name' when its own name is not reserved in the new enum, also when an alias of the same number did get reserved")
	r.Assume("a rule is active for a file unless the file is under an `ignore` path or under an `ignore_only` path of an entry standing for the rule: the rule ID itself, a category containing it, or a deprecated ID the rule replaces (a deprecated ID written in use / ignore_only stands for its documented replacements); entries for other IDs or other paths do not affect it")
	r.Assume("ignore configurations are only applied to edits inside one file that exists in both versions (buf also matches ignore paths against the previous file of a moved / deleted element)")
	r.Assume("an ignore / ignore_only path silences exactly the file it names or the files below the directory it names (containment by path components, relative to the module, in a v2 workspace relative to the workspace); any other string relation between the path and a file's path leaves the rules active for the file")
	r.Assume("in a buf.yaml v2 a module is governed by its own breaking section when it has one, otherwise by the top-level breaking section, otherwise by the default `use: FILE` - independently of the sections of the other modules; ignore_unstable_packages does not concern packages with a stable version suffix (v1)")
	r.Assume("an enum field may move to another enum without a FIELD_WIRE_COMPATIBLE_TYPE / FIELD_WIRE_JSON_COMPATIBLE_TYPE failure only if the short name is the same and every previous value exists in the new enum under the same name with the same number (documented subset of name/number values); every other relation is claimed, FIELD_SAME_TYPE is claimed for every change of the type name")
	r.Assume("a compound edit on one field is reported by every rule documented for either edit; which of the two field names a message quotes is left open (the number and the message are required)")
	r.Assume("category membership is the documented rule matrix transcribed in ref.go (docMembershipV2 + per-version deltas); buf's own tables are compared against it (oracle rule-table)")
	r.Assume("positions are checked by line (the renderer puts every element on its own line); columns are not checked")
	r.Assume("annotation 'names the element' = message contains the element's number and/or name and its parent's short name, double-quoted, as listed per operator")

	// the real code allocates heavily per call; a laxer GC target halves the CPU cost of a run
	defer TuneGC()()
	eng := NewEngine()
	CheckRuleTable(r, eng)

	var mu sync.Mutex
	ruleExpected := map[string]int{}  // rule -> active expectation checks
	ruleSatisfied := map[string]int{} // rule -> satisfied
	opCount := map[string]int{}
	posCount := map[string]int{}
	modeCount := map[string]int{}
	cfgCount := map[string]int{}
	baseCount := map[string]int{}
	lineChecked := 0
	buildErrs := 0
	totalInstances, totalItems := 0, 0

	onlyOps := map[string]bool{}
	if v := os.Getenv("VERIF_C03_ONLY_OPS"); v != "" {
		// debugging / mutant triage aid: restrict the catalogue to some operators (run is then marked incomplete)
		for _, o := range strings.Split(v, ",") {
			onlyOps[o] = true
		}
		r.Incomplete("filtered run: VERIF_C03_ONLY_OPS=" + v)
	}
	process := func(instances []Instance) {
		if len(onlyOps) > 0 {
			var keep []Instance
			for _, in := range instances {
				if onlyOps[in.Op] {
					keep = append(keep, in)
				}
			}
			instances = keep
		}
		var items []workItem
		for i := range instances {
			in := &instances[i]
			modes := []int{SurroundNone, SurroundBefore, SurroundAfter}
			if !full {
				// quick: the index-shifting surrounding only, and none for the field-type table
				modes = []int{SurroundNone, SurroundBefore}
				if in.Op == "field-type" {
					modes = []int{SurroundNone}
				}
				if in.Op == "field-enum-retarget" && in.Pos != "top" {
					// the category / single-rule configs run at the top position without surrounding; the other
					// positions run once, in the index-shifting surrounding
					modes = []int{SurroundBefore}
				}
			}
			for _, m := range modes {
				items = append(items, workItem{in, m})
			}
		}
		totalInstances += len(instances)
		totalItems += len(items)
		r.ParallelFor(len(items), 0, func(i int) {
			it := items[i]
			in := it.in
			p, err := eng.Prepare(in, it.mode)
			if err != nil {
				mu.Lock()
				buildErrs++
				mu.Unlock()
				r.Incomplete("harness: " + err.Error())
				return
			}
			cfgs := configsFor(in, it.mode, full)
			results := map[string][]bufx.Annotation{}
			for _, c := range cfgs {
				anns, err := eng.Breaking(c, p.NewImg, p.OldImg)
				r.Eval(1)
				if err != nil {
					if strings.HasPrefix(err.Error(), "config ") {
						r.Incomplete("harness: " + err.Error())
						continue
					}
					r.Violate("breaking-error/"+in.Op+"/"+normSig(err.Error()), fmt.Sprintf("Breaking returned a non-annotation error for a valid schema pair: %v", err),
						caseT{Instance: in.ID(), Surrounding: SurroundNames[it.mode], Config: c.String(), Changed: p.ChangedFiles()})
					continue
				}
				results[c.String()] = anns
				for _, a := range anns {
					if strings.Contains(a.Message, "%!") {
						r.Violate("malformed-message/"+a.Type, fmt.Sprintf("annotation message contains a fmt error marker: %q", a.Message),
							caseT{Instance: in.ID(), Surrounding: SurroundNames[it.mode], Config: c.String(), Annotations: []bufx.Annotation{a}, Changed: p.ChangedFiles()})
					}
				}
			}
			localExp := map[string]int{}
			localSat := map[string]int{}
			localCfg := map[string]int{}
			lines := 0
			for _, c := range cfgs {
				anns, ok := results[c.String()]
				if !ok {
					continue
				}
				for ei := range in.Expects {
					ex := in.Expects[ei]
					if !c.Active(ex.Rule) {
						continue
					}
					line := p.Line(ex)
					if line > 0 {
						lines++
					}
					localExp[ex.Rule]++
					localCfg[c.Kind()]++
					kind := Match(ex, line, anns)
					if kind == "" {
						localSat[ex.Rule]++
						continue
					}
					sig := "unreported/" + ex.Rule + "/" + in.Op + "/" + kind
					if ex.Role != "" {
						// a role names the structural reason independently of the operator that produced the case
						sig = "unreported/" + ex.Rule + "/" + ex.Role + "/" + kind
					}
					if !c.IsRule && !c.Union && kind == "absent" {
						// reported when all rules are active? then the category table is at fault
						if u, ok := results[Config{Version: c.Version, Use: "ALL", Union: true}.String()]; ok && Match(ex, line, u) == "" {
							sig = "category-membership/" + c.Version + "/" + c.Use + "/" + ex.Rule
						}
					}
					r.Violate(sig, fmt.Sprintf("%s [%s] under %s: expected a %s annotation naming %v in file %q (line %d), failure: %s; got %d annotation(s) of that rule",
						in.ID(), SurroundNames[it.mode], c, ex.Rule, ex.Names, ex.File, line, kind, countType(anns, ex.Rule)),
						caseT{Instance: in.ID(), Surrounding: SurroundNames[it.mode], Config: c.String(), Expect: &ex, ExpectLine: line, Annotations: anns, Changed: p.ChangedFiles()})
				}
			}
			if len(in.Expects) > 0 {
				r.Distinct(in.ID() + "/" + SurroundNames[it.mode])
			}
			r.SampleEvery(i, 1499, func() any {
				return caseT{Instance: in.ID(), Surrounding: SurroundNames[it.mode], Config: "v2/ALL", Expect: firstExpect(in), Annotations: results["v2/ALL"]}
			})
			mu.Lock()
			for k, v := range localExp {
				ruleExpected[k] += v
			}
			for k, v := range localSat {
				ruleSatisfied[k] += v
			}
			for k, v := range localCfg {
				cfgCount[k] += v
			}
			opCount[in.Op]++
			posCount[in.Pos]++
			modeCount[SurroundNames[it.mode]]++
			baseCount[in.Base]++
			lineChecked += lines
			mu.Unlock()
		})
	}
	phase := os.Getenv("VERIF_C03_PHASES") // debugging aid: comma list of main,many-files,ignore-config,path-relations,workspaces
	if phase != "" {
		r.Incomplete("filtered run: VERIF_C03_PHASES=" + phase)
	}
	want := func(p string) bool { return phase == "" || contains(strings.Split(phase, ","), p) }
	t0 := time.Now()
	// schema-size dimension (changes the process-global parallelism of buf: runs on its own)
	if want("many-files") && len(onlyOps) == 0 {
		RunManyFiles(r, eng, full)
	}
	r.Set("phase_seconds_many_files", int(time.Since(t0).Seconds()))
	t0 = time.Now()
	// configuration dimension: ignore / ignore_only / except entries for other paths and other IDs x map iteration
	// orders. Runs before the long main phase (so that a deadline under load cuts the tail of the catalogue, not a
	// whole dimension); its cases are picked from the catalogue, generated here once more per base and dropped again.
	if want("ignore-config") && len(onlyOps) == 0 && !r.Expired() {
		ignoreCandidates := map[string][]Instance{}
		var baseOrder []string
		for _, b := range Bases() { // one base at a time (memory)
			ignoreCandidates[b.Name] = IgnoreCandidates(Instances(b, full))
			baseOrder = append(baseOrder, b.Name)
		}
		RunIgnoreConfigs(r, eng, ignoreCandidates, baseOrder, full)
	}
	r.Set("phase_seconds_ignore_config", int(time.Since(t0).Seconds()))
	t0 = time.Now()
	// configuration dimensions of the third round: how an ignore path relates to the edited file's path, and
	// buf.yaml v2 workspaces (which section governs a module)
	if want("path-relations") && len(onlyOps) == 0 && !r.Expired() {
		RunPathRelations(r, eng, full)
	}
	if want("workspaces") && len(onlyOps) == 0 && !r.Expired() {
		RunWorkspaces(r, eng, full)
	}
	r.Set("phase_seconds_path_relations_and_workspaces", int(time.Since(t0).Seconds()))
	t0 = time.Now()
	// one base at a time (bounds memory: every instance holds its own copy of the new schema)
	retargetBreaking, retargetCompatible := 0, 0
	retargetRelations := map[string]int{}
	if want("main") {
		process(SyntaxInstances())
		for _, b := range Bases() {
			if r.Expired() {
				break
			}
			retarget := EnumRetargetInstances(b, full)
			brk, compat, rels := EnumRetargetStats(retarget)
			retargetBreaking += brk
			retargetCompatible += compat
			for k, v := range rels {
				retargetRelations[k] += v
			}
			process(append(append(Instances(b, full), CompoundInstances(b, full)...), retarget...))
		}
	}
	r.Set("phase_seconds_main", int(time.Since(t0).Seconds()))
	r.Set("instances", totalInstances)
	r.Set("enum_retarget_instances_subset_broken", retargetBreaking)
	r.Set("enum_retarget_instances_compatible_controls", retargetCompatible)
	r.Set("enum_retarget_instances_per_relation", retargetRelations)
	r.Set("work_items", totalItems)

	r.Set("expectation_checks_per_rule", ruleExpected)
	r.Set("expectation_satisfied_per_rule", ruleSatisfied)
	r.Set("work_items_per_operator", opCount)
	r.Set("work_items_per_position", posCount)
	r.Set("work_items_per_surrounding", modeCount)
	r.Set("work_items_per_base", baseCount)
	r.Set("expectation_checks_per_config", cfgCount)
	r.Set("expectation_checks_with_line", lineChecked)
	r.Set("operators", len(opCount))
	r.Set("schema_build_errors", buildErrs)
	r.Set("deprecated_noop_rules_not_exercised", DeprecatedNoop)
	without := []string{}
	for _, v := range Versions {
		for _, id := range DocRules(v) {
			if ruleExpected[id] == 0 && !contains(without, id) {
				without = append(without, id)
			}
		}
	}
	sort.Strings(without)
	r.Set("rules_without_operator", without)
	if len(without) > 0 && !r.Expired() {
		r.Incomplete(fmt.Sprintf("breaking rules never expected by any catalogue case: %v", without))
	}
	if !r.Expired() {
		if len(onlyOps) == 0 {
			for _, op := range []string{"field-default-values", "enum-alias-delete-number", "field-type-name", "file-syntax", "file-syntax-neutral", "field-compound", "field-enum-retarget"} {
				if opCount[op] == 0 {
					r.Incomplete("operator never exercised: " + op)
				}
			}
		}
		for _, pos := range []string{"top", "nested1", "nested2", "second", "file"} {
			if posCount[pos] == 0 {
				r.Incomplete("position never exercised: " + pos)
			}
		}
	}
}

func contains(xs []string, x string) bool {
	for _, y := range xs {
		if y == x {
			return true
		}
	}
	return false
}

func countType(anns []bufx.Annotation, rule string) int {
	n := 0
	for _, a := range anns {
		if a.Type == rule {
			n++
		}
	}
	return n
}

func firstExpect(in *Instance) *Expect {
	if len(in.Expects) == 0 {
		return nil
	}
	return &in.Expects[0]
}
