package c03

import (
	"fmt"
	"sort"
	"strings"
)

// ---------------------------------------------------------------------------------------------
// Reference model, written from buf's rule documentation (docs "Breaking change rules and
// categories" + the rules' Purpose strings), deliberately in a different shape than the tables in
// bufcheckserver.go / breaking_util.go.
// ---------------------------------------------------------------------------------------------

// Versions are the buf.yaml versions.
var Versions = []string{"v1beta1", "v1", "v2"}

// Categories from strictest to laxest.
var Categories = []string{"FILE", "PACKAGE", "WIRE_JSON", "WIRE"}

const (
	cF    = "F"    // FILE only
	cFP   = "FP"   // FILE, PACKAGE
	cFPJ  = "FPJ"  // FILE, PACKAGE, WIRE_JSON
	cFPJW = "FPJW" // all four
	cP    = "P"    // PACKAGE only
	cJ    = "J"    // WIRE_JSON only
	cJW   = "JW"   // WIRE_JSON, WIRE
	cW    = "W"    // WIRE only
	cNone = "-"    // rule does not exist in this version
)

// docMembershipV2 is the documented rule -> categories matrix for buf.yaml v2.
var docMembershipV2 = map[string]string{
	"ENUM_NO_DELETE":      cF,
	"EXTENSION_NO_DELETE": cF,
	"FILE_NO_DELETE":      cF,
	"MESSAGE_NO_DELETE":   cF,
	"SERVICE_NO_DELETE":   cF,

	"ENUM_SAME_TYPE":                                 cFP,
	"ENUM_VALUE_NO_DELETE":                           cFP,
	"EXTENSION_MESSAGE_NO_DELETE":                    cFP,
	"FIELD_NO_DELETE":                                cFP,
	"FIELD_SAME_CARDINALITY":                         cFP,
	"FIELD_SAME_CPP_STRING_TYPE":                     cFP,
	"FIELD_SAME_JAVA_UTF8_VALIDATION":                cFP,
	"FIELD_SAME_JSTYPE":                              cFP,
	"FIELD_SAME_TYPE":                                cFP,
	"FIELD_SAME_UTF8_VALIDATION":                     cFP,
	"FILE_SAME_CC_ENABLE_ARENAS":                     cFP,
	"FILE_SAME_CC_GENERIC_SERVICES":                  cFP,
	"FILE_SAME_CSHARP_NAMESPACE":                     cFP,
	"FILE_SAME_GO_PACKAGE":                           cFP,
	"FILE_SAME_JAVA_GENERIC_SERVICES":                cFP,
	"FILE_SAME_JAVA_MULTIPLE_FILES":                  cFP,
	"FILE_SAME_JAVA_OUTER_CLASSNAME":                 cFP,
	"FILE_SAME_JAVA_PACKAGE":                         cFP,
	"FILE_SAME_OBJC_CLASS_PREFIX":                    cFP,
	"FILE_SAME_OPTIMIZE_FOR":                         cFP,
	"FILE_SAME_PHP_CLASS_PREFIX":                     cFP,
	"FILE_SAME_PHP_METADATA_NAMESPACE":               cFP,
	"FILE_SAME_PHP_NAMESPACE":                        cFP,
	"FILE_SAME_PY_GENERIC_SERVICES":                  cFP,
	"FILE_SAME_RUBY_PACKAGE":                         cFP,
	"FILE_SAME_SWIFT_PREFIX":                         cFP,
	"FILE_SAME_SYNTAX":                               cFP,
	"MESSAGE_NO_REMOVE_STANDARD_DESCRIPTOR_ACCESSOR": cFP,
	"ONEOF_NO_DELETE":                                cFP,
	"RPC_NO_DELETE":                                  cFP,

	"ENUM_SAME_JSON_FORMAT":    cFPJ,
	"ENUM_VALUE_SAME_NAME":     cFPJ,
	"FIELD_SAME_JSON_NAME":     cFPJ,
	"FIELD_SAME_NAME":          cFPJ,
	"MESSAGE_SAME_JSON_FORMAT": cFPJ,

	"FIELD_SAME_DEFAULT":           cFPJW,
	"FIELD_SAME_ONEOF":             cFPJW,
	"FILE_SAME_PACKAGE":            cFPJW,
	"MESSAGE_SAME_REQUIRED_FIELDS": cFPJW,
	"RESERVED_ENUM_NO_DELETE":      cFPJW,
	"RESERVED_MESSAGE_NO_DELETE":   cFPJW,
	"RPC_SAME_CLIENT_STREAMING":    cFPJW,
	"RPC_SAME_IDEMPOTENCY_LEVEL":   cFPJW,
	"RPC_SAME_REQUEST_TYPE":        cFPJW,
	"RPC_SAME_RESPONSE_TYPE":       cFPJW,
	"RPC_SAME_SERVER_STREAMING":    cFPJW,

	"PACKAGE_ENUM_NO_DELETE":      cP,
	"PACKAGE_EXTENSION_NO_DELETE": cP,
	"PACKAGE_MESSAGE_NO_DELETE":   cP,
	"PACKAGE_NO_DELETE":           cP,
	"PACKAGE_SERVICE_NO_DELETE":   cP,

	"ENUM_VALUE_NO_DELETE_UNLESS_NAME_RESERVED": cJ,
	"FIELD_NO_DELETE_UNLESS_NAME_RESERVED":      cJ,
	"FIELD_WIRE_JSON_COMPATIBLE_CARDINALITY":    cJ,
	"FIELD_WIRE_JSON_COMPATIBLE_TYPE":           cJ,

	"ENUM_VALUE_NO_DELETE_UNLESS_NUMBER_RESERVED": cJW,
	"FIELD_NO_DELETE_UNLESS_NUMBER_RESERVED":      cJW,

	"FIELD_WIRE_COMPATIBLE_CARDINALITY": cW,
	"FIELD_WIRE_COMPATIBLE_TYPE":        cW,
}

// Differences of the older versions, as documented: v1 lacks the extension-deletion rules and
// FIELD_SAME_DEFAULT; v1beta1 additionally has no *_COMPATIBLE_TYPE rules (FIELD_SAME_TYPE and
// FIELD_SAME_CARDINALITY are in every category instead) and FILE_SAME_PACKAGE only in FILE.
var docDelta = map[string]map[string]string{
	"v2": {},
	"v1": {
		"EXTENSION_NO_DELETE":         cNone,
		"PACKAGE_EXTENSION_NO_DELETE": cNone,
		"FIELD_SAME_DEFAULT":          cNone,
	},
	"v1beta1": {
		"EXTENSION_NO_DELETE":             cNone,
		"PACKAGE_EXTENSION_NO_DELETE":     cNone,
		"FIELD_SAME_DEFAULT":              cNone,
		"FIELD_WIRE_JSON_COMPATIBLE_TYPE": cNone,
		"FIELD_WIRE_COMPATIBLE_TYPE":      cNone,
		"FIELD_SAME_TYPE":                 cFPJW,
		"FIELD_SAME_CARDINALITY":          cFPJW,
		"FILE_SAME_PACKAGE":               cF,
	},
}

// DeprecatedNoop are rule IDs that still exist (v1beta1, v1; MESSAGE_SAME_MESSAGE_SET_WIRE_FORMAT
// also in v2) but are documented as deprecated, belong to no category and never report.
var DeprecatedNoop = []string{
	"FIELD_SAME_CTYPE", "FIELD_SAME_LABEL", "FILE_SAME_JAVA_STRING_CHECK_UTF8",
	"FILE_SAME_PHP_GENERIC_SERVICES", "MESSAGE_SAME_MESSAGE_SET_WIRE_FORMAT",
}

// docReplacements: the deprecated rule IDs and the rule IDs documented as replacing them ("use the
// replacement IDs instead"; a deprecated ID that is still written in use / except / ignore_only stands for
// its replacements). v1beta1 and v1 know all five IDs, v2 only MESSAGE_SAME_MESSAGE_SET_WIRE_FORMAT.
var docReplacements = map[string][]string{
	"FIELD_SAME_CTYPE":                     {"FIELD_SAME_CPP_STRING_TYPE"},
	"FIELD_SAME_LABEL":                     {"FIELD_SAME_CARDINALITY", "FIELD_WIRE_COMPATIBLE_CARDINALITY", "FIELD_WIRE_JSON_COMPATIBLE_CARDINALITY"},
	"FILE_SAME_JAVA_STRING_CHECK_UTF8":     {"FIELD_SAME_JAVA_UTF8_VALIDATION"},
	"FILE_SAME_PHP_GENERIC_SERVICES":       {},
	"MESSAGE_SAME_MESSAGE_SET_WIRE_FORMAT": {},
}

// DocReplacements returns the documented replacements of a deprecated rule ID in a version
// (nil, false: not a deprecated ID of that version).
func DocReplacements(version, id string) ([]string, bool) {
	rs, ok := docReplacements[id]
	if !ok || (version == "v2" && id != "MESSAGE_SAME_MESSAGE_SET_WIRE_FORMAT") {
		return nil, false
	}
	return rs, true
}

// DocDeprecatedFor lists the deprecated IDs of a version that are replaced by the rule, sorted.
func DocDeprecatedFor(version, rule string) []string {
	var out []string
	for id := range docReplacements {
		if rs, ok := DocReplacements(version, id); ok && contains(rs, rule) {
			out = append(out, id)
		}
	}
	sort.Strings(out)
	return out
}

// DocExpand resolves an ID written in a buf.yaml (use, ignore_only key) to the documented rule IDs it stands
// for in the version: a category -> its rules, a deprecated ID -> its replacements, a rule -> itself.
func DocExpand(version, id string) []string {
	if rs, ok := DocReplacements(version, id); ok {
		return append([]string(nil), rs...)
	}
	if _, ok := catLetter[id]; ok {
		var out []string
		for _, r := range DocRules(version) {
			cats, _ := DocCategories(version, r)
			if contains(cats, id) {
				out = append(out, r)
			}
		}
		return out
	}
	if _, ok := DocCategories(version, id); ok {
		return []string{id}
	}
	return nil
}

var catLetter = map[string]string{"FILE": "F", "PACKAGE": "P", "WIRE_JSON": "J", "WIRE": "W"}

// DocCategories returns the documented categories of a rule in a version (nil, false if the rule
// does not exist there).
func DocCategories(version, rule string) ([]string, bool) {
	code, ok := docMembershipV2[rule]
	if !ok {
		return nil, false
	}
	if d, ok := docDelta[version][rule]; ok {
		code = d
	}
	if code == cNone {
		return nil, false
	}
	var out []string
	for _, c := range Categories {
		if strings.Contains(code, catLetter[c]) {
			out = append(out, c)
		}
	}
	return out, true
}

// DocRules lists the documented (non-deprecated) rule IDs of a version, sorted.
func DocRules(version string) []string {
	var out []string
	for r := range docMembershipV2 {
		if _, ok := DocCategories(version, r); ok {
			out = append(out, r)
		}
	}
	sort.Strings(out)
	return out
}

// Config is one breaking configuration: a buf.yaml version plus its `use:` list: one category, one
// rule ID, or (Union) all four categories at once.
type Config struct {
	Version string
	Use     string // category or rule ID ("ALL" for the union)
	IsRule  bool
	Union   bool
}

func (c Config) String() string { return c.Version + "/" + c.Use }

// Kind is the config class for coverage counters.
func (c Config) Kind() string {
	switch {
	case c.IsRule:
		return c.Version + "/single-rule"
	default:
		return c.Version + "/" + c.Use
	}
}

// YAML renders the buf.yaml text of the configuration.
func (c Config) YAML() string {
	if c.Union {
		return fmt.Sprintf("version: %s\nbreaking:\n  use:\n    - FILE\n    - PACKAGE\n    - WIRE_JSON\n    - WIRE\n", c.Version)
	}
	return fmt.Sprintf("version: %s\nbreaking:\n  use:\n    - %s\n", c.Version, c.Use)
}

// Active reports whether the documentation says the rule is checked under the configuration.
func (c Config) Active(rule string) bool {
	cats, ok := DocCategories(c.Version, rule)
	if !ok {
		return false
	}
	if c.Union {
		return true
	}
	if c.IsRule {
		return c.Use == rule
	}
	for _, x := range cats {
		if x == c.Use {
			return true
		}
	}
	return false
}

// UnionConfigs are `use: [FILE, PACKAGE, WIRE_JSON, WIRE]` for the 3 versions: every documented rule is active.
func UnionConfigs() []Config {
	var out []Config
	for _, v := range Versions {
		out = append(out, Config{Version: v, Use: "ALL", Union: true})
	}
	return out
}

// CategoryConfigs are the 4 categories x 3 versions.
func CategoryConfigs() []Config {
	var out []Config
	for _, v := range Versions {
		for _, c := range Categories {
			out = append(out, Config{Version: v, Use: c})
		}
	}
	return out
}

// ---------------------------------------------------------------------------------------------
// Field type compatibility (docs of FIELD_WIRE_COMPATIBLE_TYPE / FIELD_WIRE_JSON_COMPATIBLE_TYPE)
// ---------------------------------------------------------------------------------------------

// ScalarKinds are the 15 scalar types.
var ScalarKinds = []string{
	"int32", "int64", "uint32", "uint64", "sint32", "sint64", "fixed32", "fixed64", "sfixed32", "sfixed64",
	"bool", "string", "bytes", "float", "double",
}

// "If the type changes between int32, uint32, int64, uint64, and bool, no failure is produced.
//
//	... between sint32 and sint64 ... between fixed32 and sfixed32 ... between fixed64 and sfixed64 ...
//	If the type is changed from string to bytes, no failure is produced."
var wireInterchangeable = [][]string{
	{"int32", "uint32", "int64", "uint64", "bool"},
	{"sint32", "sint64"},
	{"fixed32", "sfixed32"},
	{"fixed64", "sfixed64"},
}

// "If the type changes between int32 and uint32 ... int64 and uint64 ... fixed32 and sfixed32 ...
//
//	fixed64 and sfixed64, no failure is produced."
var wireJSONInterchangeable = [][]string{
	{"int32", "uint32"},
	{"int64", "uint64"},
	{"fixed32", "sfixed32"},
	{"fixed64", "sfixed64"},
}

func together(groups [][]string, a, b string) bool {
	for _, g := range groups {
		ina, inb := false, false
		for _, k := range g {
			if k == a {
				ina = true
			}
			if k == b {
				inb = true
			}
		}
		if ina && inb {
			return true
		}
	}
	return false
}

// WireBreaking: is changing a field's kind from a to b documented as breaking for WIRE?
// Kinds are scalar names, "enum", "message", "group". a != b.
func WireBreaking(a, b string) bool {
	if a == "string" && b == "bytes" {
		return false
	}
	return !together(wireInterchangeable, a, b)
}

// WireJSONBreaking: same for WIRE_JSON.
func WireJSONBreaking(a, b string) bool {
	return !together(wireJSONInterchangeable, a, b)
}

// ---------------------------------------------------------------------------------------------
// Cardinality (docs of FIELD_SAME_CARDINALITY and the two *_COMPATIBLE_CARDINALITY rules)
// ---------------------------------------------------------------------------------------------

// Cardinality of a field as declared: "explicit", "implicit", "required", "repeated", "map".
func Cardinality(syntax string, f *Field) string {
	switch {
	case f.Kind == "map":
		return "map"
	case f.Label == "repeated":
		return "repeated"
	case f.Label == "required":
		return "required"
	}
	if v, ok := getOpt(f.Opts, "features.field_presence"); ok {
		switch v {
		case "LEGACY_REQUIRED":
			return "required"
		case "IMPLICIT":
			return "implicit"
		case "EXPLICIT":
			return "explicit"
		}
	}
	if f.Oneof != "" || f.Kind == "message" || f.Kind == "group" {
		return "explicit"
	}
	switch syntax {
	case "proto3":
		if f.Label == "optional" {
			return "explicit"
		}
		return "implicit"
	default: // proto2, editions default
		return "explicit"
	}
}

func singularCard(c string) bool { return c == "explicit" || c == "implicit" }

// CardinalityWireBreaking reports whether a -> b is documented as breaking for the WIRE and
// WIRE_JSON cardinality rules, and whether that claim is certain (repeated <-> map is left
// unclaimed: the docs treat it differently per category and it cannot happen without a type change).
func CardinalityWireBreaking(a, b string) (breaking, claimed bool) {
	if a == b {
		return false, true
	}
	if singularCard(a) && singularCard(b) {
		return false, true
	}
	if (a == "repeated" && b == "map") || (a == "map" && b == "repeated") {
		return false, false
	}
	return true, true
}
