package c03

import (
	"context"
	"crypto/sha256"
	"fmt"
	"runtime/debug"
	"sort"
	"strings"
	"sync"

	"buf.build/go/bufplugin/check"
	"github.com/bufbuild/buf/private/bufpkg/bufcheck"
	"github.com/bufbuild/buf/private/bufpkg/bufconfig"
	"github.com/bufbuild/buf/private/bufpkg/bufimage"
	"github.com/bufbuild/bufverif/internal/bufx"
)

// Engine drives the real code: image building and bufcheck.Client.Breaking under parsed buf.yaml configs.
type Engine struct {
	ctx  context.Context
	mu   sync.Mutex
	cfgs map[string]bufconfig.BreakingConfig

	imu    sync.Mutex
	images map[[32]byte]*imgEntry // sha256(text) -> entry; bounded LRU (an image retains ~1.5 MB)
	tick   int64
}

type imgEntry struct {
	once sync.Once
	img  bufimage.Image
	err  error
	used int64
}

// imageCacheCap bounds the image cache; work lists are ordered so that items sharing an old schema are adjacent.
const imageCacheCap = 128

// NewEngine creates an engine.
func NewEngine() *Engine {
	return &Engine{ctx: context.Background(), cfgs: map[string]bufconfig.BreakingConfig{}, images: map[[32]byte]*imgEntry{}}
}

// TuneGC sets a laxer GC target (the real code allocates ~7 MB per Breaking call) under a soft
// memory limit, and returns a function restoring the previous settings.
func TuneGC() func() {
	oldPercent := debug.SetGCPercent(300)
	oldLimit := debug.SetMemoryLimit(4 << 30)
	return func() {
		debug.SetGCPercent(oldPercent)
		debug.SetMemoryLimit(oldLimit)
	}
}

// BreakingConfig parses (once) the buf.yaml of a Config with bufconfig.ReadBufYAMLFile.
func (e *Engine) BreakingConfig(c Config) (bufconfig.BreakingConfig, error) {
	key := c.String()
	e.mu.Lock()
	defer e.mu.Unlock()
	if bc, ok := e.cfgs[key]; ok {
		return bc, nil
	}
	f, err := bufx.ReadBufYAML(c.YAML())
	if err != nil {
		return nil, err
	}
	mcs := f.ModuleConfigs()
	if len(mcs) != 1 {
		return nil, fmt.Errorf("expected 1 module config, got %d", len(mcs))
	}
	bc := mcs[0].BreakingConfig()
	e.cfgs[key] = bc
	return bc, nil
}

// BreakingYAML runs buf breaking (new vs old) under a buf.yaml given as text (parsed afresh, not cached),
// imports excluded.
func (e *Engine) BreakingYAML(key, yaml string, newImg, oldImg bufimage.Image) ([]bufx.Annotation, error) {
	f, err := bufx.ReadBufYAML(yaml)
	if err != nil {
		return nil, fmt.Errorf("config %s: %w", key, err)
	}
	mcs := f.ModuleConfigs()
	if len(mcs) != 1 {
		return nil, fmt.Errorf("config %s: expected 1 module config, got %d", key, len(mcs))
	}
	return bufx.Breaking(e.ctx, mcs[0].BreakingConfig(), newImg, oldImg, bufcheck.BreakingWithExcludeImports())
}

// Image builds the image of a rendered schema (not cached).
func (e *Engine) Image(r *Rendered) (bufimage.Image, error) {
	return bufx.BuildImage(e.ctx, r.Files)
}

// CachedImage builds the image once per distinct text (for schemas used as the old side many times).
func (e *Engine) CachedImage(r *Rendered) (bufimage.Image, error) {
	key := sha256.Sum256([]byte(r.Text()))
	e.imu.Lock()
	e.tick++
	ent, ok := e.images[key]
	if !ok {
		if len(e.images) >= imageCacheCap {
			// evict the least recently used quarter
			type ku struct {
				k [32]byte
				u int64
			}
			all := make([]ku, 0, len(e.images))
			for k, v := range e.images {
				all = append(all, ku{k, v.used})
			}
			sort.Slice(all, func(i, j int) bool { return all[i].u < all[j].u })
			for _, x := range all[:len(all)/4] {
				delete(e.images, x.k)
			}
		}
		ent = &imgEntry{}
		e.images[key] = ent
	}
	ent.used = e.tick
	e.imu.Unlock()
	ent.once.Do(func() { ent.img, ent.err = bufx.BuildImage(e.ctx, r.Files) })
	return ent.img, ent.err
}

// Breaking runs buf breaking (new vs old) under the config, imports excluded.
func (e *Engine) Breaking(c Config, newImg, oldImg bufimage.Image) ([]bufx.Annotation, error) {
	bc, err := e.BreakingConfig(c)
	if err != nil {
		return nil, fmt.Errorf("config %s: %w", c, err)
	}
	return bufx.Breaking(e.ctx, bc, newImg, oldImg, bufcheck.BreakingWithExcludeImports())
}

// RuleInfo is what buf itself says about a breaking rule in a version.
type RuleInfo struct {
	ID           string
	Categories   []string
	Deprecated   bool
	Purpose      string
	Replacements []string `json:",omitempty"`
}

// AllRules lists buf's breaking rules of a version (Client.AllRules).
func (e *Engine) AllRules(version string) ([]RuleInfo, error) {
	c, err := bufx.CheckClient()
	if err != nil {
		return nil, err
	}
	var fv bufconfig.FileVersion
	switch version {
	case "v1beta1":
		fv = bufconfig.FileVersionV1Beta1
	case "v1":
		fv = bufconfig.FileVersionV1
	default:
		fv = bufconfig.FileVersionV2
	}
	rules, err := c.AllRules(e.ctx, check.RuleTypeBreaking, fv)
	if err != nil {
		return nil, err
	}
	var out []RuleInfo
	for _, r := range rules {
		ri := RuleInfo{ID: r.ID(), Deprecated: r.Deprecated(), Purpose: r.Purpose()}
		for _, c := range r.Categories() {
			ri.Categories = append(ri.Categories, c.ID())
		}
		sort.Strings(ri.Categories)
		ri.Replacements = append([]string(nil), r.ReplacementIDs()...)
		sort.Strings(ri.Replacements)
		out = append(out, ri)
	}
	return out, nil
}

// Match reports how well the annotations satisfy an expectation:
// "" = satisfied; otherwise the kind of failure (absent | wrong-names | wrong-file | wrong-line).
func Match(ex Expect, line int, anns []bufx.Annotation) string {
	best := "absent"
	rank := map[string]int{"absent": 0, "wrong-names": 1, "wrong-file": 2, "wrong-line": 3}
	for _, a := range anns {
		if a.Type != ex.Rule {
			continue
		}
		kind := ""
		named := true
		for _, n := range ex.Names {
			if !strings.Contains(a.Message, `"`+n+`"`) {
				named = false
			}
		}
		switch {
		case !named:
			kind = "wrong-names"
		case !ex.NoPath && a.Path != ex.File:
			kind = "wrong-file"
		case line > 0 && a.StartLine != line:
			kind = "wrong-line"
		}
		if kind == "" {
			return ""
		}
		if rank[kind] > rank[best] {
			best = kind
		}
	}
	return best
}

// Prepared is an instance rendered and built under one surrounding.
type Prepared struct {
	In       *Instance
	Mode     int
	OldR     *Rendered
	NewR     *Rendered
	OldImg   bufimage.Image
	NewImg   bufimage.Image
	Expected []Expect
}

// Prepare renders and builds both sides of an instance under a surrounding.
func (e *Engine) Prepare(in *Instance, mode int) (*Prepared, error) {
	p := &Prepared{In: in, Mode: mode, Expected: in.Expects}
	p.OldR = in.Old.Render(Style{})
	nw := in.New
	if mode != SurroundNone {
		nw = in.New.Clone()
		Surround(nw, mode)
	}
	p.NewR = nw.Render(Style{})
	var err error
	if p.OldImg, err = e.CachedImage(p.OldR); err != nil {
		return nil, fmt.Errorf("old schema of %s does not build: %w", in.ID(), err)
	}
	if p.NewImg, err = e.Image(p.NewR); err != nil {
		return nil, fmt.Errorf("new schema of %s (%s) does not build: %w", in.ID(), SurroundNames[mode], err)
	}
	return p, nil
}

// Line resolves the expected line of an expectation in the new rendering (0 = unchecked).
func (p *Prepared) Line(ex Expect) int {
	if ex.LocKey == "" || ex.NoPath {
		return 0
	}
	return p.NewR.Line(ex.File, ex.LocKey)
}

// ChangedFiles returns old/new text of the files that differ (for replays).
func (p *Prepared) ChangedFiles() map[string][2]string {
	out := map[string][2]string{}
	for path, t := range p.OldR.Files {
		if p.NewR.Files[path] != t {
			out[path] = [2]string{t, p.NewR.Files[path]}
		}
	}
	for path, t := range p.NewR.Files {
		if _, ok := p.OldR.Files[path]; !ok {
			out[path] = [2]string{"", t}
		}
	}
	return out
}
