package c03

import (
	"context"
	"encoding/json"
	"fmt"
	"os"
	"path/filepath"
	"sort"
	"strings"
	"sync"

	"github.com/bufbuild/buf/private/bufpkg/bufcheck"
	"github.com/bufbuild/buf/private/bufpkg/bufconfig"
	"github.com/bufbuild/buf/private/bufpkg/bufimage"
	"github.com/bufbuild/bufverif/internal/bufx"
	"github.com/bufbuild/bufverif/internal/evid"
)

// ---------------------------------------------------------------------------------------------
// Configuration dimension "buf.yaml v2 workspaces" (third round).
//
// Until now every configuration was a one-module buf.yaml. A v2 buf.yaml lists several modules; each
// module may carry a `breaking` section of its own, the others are governed by the top-level `breaking`
// section, and when there is none by the default (FILE). "Every configuration in which the rule is
// active" therefore has one more coordinate: which section governs the module the edit is in - and that
// is decided per module, whatever the neighbouring modules of the list carry.
//
// Enumerated: workspaces of 2 and 3 modules; every module is six small files with one documented
// breaking edit each (SmallFilePair; 13 rules over all four category profiles); every assignment of a
// section alphabet {none, narrower use, except list, ignore path, ignore_only, ignore_unstable_packages}
// to the modules x a top-level alphabet {none, FILE, all categories, WIRE_JSON, except list, ignore paths
// inside the first / the last module, a whole module directory, ignore_only}; module directory names
// unrelated or one a string prefix of the other (both list orders). Every module of every workspace is
// checked with the BreakingConfig buf derives for it (bufconfig.ReadBufYAMLFile -> ModuleConfigs()[i]);
// a covering subset of the workspaces is also written to disk and run through `buf breaking --against`.
// Reference model: the governing section is the module's own when it has one, else the top-level one, else
// `use: FILE`; ignore paths are relative to the workspace and silence what they contain.
// ---------------------------------------------------------------------------------------------

// wsSection is one `breaking` section (module-level or top-level). Paths are relative to the workspace.
type wsSection struct {
	Label          string        `json:"label"` // none | use | except | ignore | ignore-only | unstable
	Use            []string      `json:"use,omitempty"`
	Except         []string      `json:"except,omitempty"`
	Ignore         []string      `json:"ignore,omitempty"`
	IgnoreOnly     []IgnoreEntry `json:"ignore_only,omitempty"`
	IgnoreUnstable bool          `json:"ignore_unstable_packages,omitempty"`
}

func (s wsSection) present() bool { return s.Label != "none" && s.Label != "" }

func (s wsSection) yaml(sb *strings.Builder, indent string) {
	if !s.present() {
		return
	}
	sb.WriteString(indent + "breaking:\n")
	list := func(key string, xs []string) {
		if len(xs) == 0 {
			return
		}
		sb.WriteString(indent + "  " + key + ":\n")
		for _, x := range xs {
			sb.WriteString(indent + "    - " + x + "\n")
		}
	}
	list("use", s.Use)
	list("except", s.Except)
	list("ignore", s.Ignore)
	if len(s.IgnoreOnly) > 0 {
		sb.WriteString(indent + "  ignore_only:\n")
		for _, e := range s.IgnoreOnly {
			sb.WriteString(indent + "    " + e.Key + ":\n")
			for _, p := range e.Paths {
				sb.WriteString(indent + "      - " + p + "\n")
			}
		}
	}
	if s.IgnoreUnstable {
		sb.WriteString(indent + "  ignore_unstable_packages: true\n")
	}
}

func (s wsSection) key() string {
	c := IgnoreConfig{Use: s.Use, Except: s.Except, Ignore: s.Ignore, IgnoreOnly: s.IgnoreOnly}
	return fmt.Sprintf("%s[%s unstable=%v]", s.Label, c.String(), s.IgnoreUnstable)
}

// wsConfig is a v2 workspace configuration.
type wsConfig struct {
	Naming string      `json:"naming"` // unrelated | prefix-first | prefix-second
	Dirs   []string    `json:"module_dirs"`
	Mods   []wsSection `json:"module_sections"`
	Top    wsSection   `json:"top_level_section"`
}

func (c wsConfig) YAML() string {
	var sb strings.Builder
	sb.WriteString("version: v2\nmodules:\n")
	for i, d := range c.Dirs {
		sb.WriteString("  - path: " + d + "\n")
		c.Mods[i].yaml(&sb, "    ")
	}
	c.Top.yaml(&sb, "")
	return sb.String()
}

func (c wsConfig) String() string {
	parts := make([]string, len(c.Dirs))
	for i := range c.Dirs {
		parts[i] = c.Dirs[i] + "=" + c.Mods[i].key()
	}
	return "workspace/" + strings.Join(parts, "|") + "|top=" + c.Top.key()
}

// governing returns the section the documentation says governs module i, and which one that is.
func (c wsConfig) governing(i int) (IgnoreConfig, string) {
	s, which := c.Mods[i], "own-section"
	if !s.present() {
		s, which = c.Top, "top-level-section"
	}
	if !s.present() {
		return IgnoreConfig{Version: "v2", Use: []string{"FILE"}}, "default"
	}
	use := s.Use
	if len(use) == 0 {
		use = []string{"FILE"}
	}
	return IgnoreConfig{Version: "v2", Use: use, Except: s.Except, Ignore: s.Ignore, IgnoreOnly: s.IgnoreOnly}, which
}

// shape: the structural part of a signature: which section governs the module, whether an earlier / later
// module of the list has a section of its own, and how the ignore paths of the governing section relate to the file.
func (c wsConfig) shape(i int, gov IgnoreConfig, which, wsFile string) string {
	parts := []string{which}
	if which != "own-section" {
		before, after := false, false
		for j := range c.Mods {
			if c.Mods[j].present() {
				if j < i {
					before = true
				}
				if j > i {
					after = true
				}
			}
		}
		switch {
		case before && after:
			parts = append(parts, "sections-before-and-after")
		case before:
			parts = append(parts, "section-before")
		case after:
			parts = append(parts, "section-after")
		}
	}
	var paths []string
	paths = append(paths, gov.Ignore...)
	for _, e := range gov.IgnoreOnly {
		paths = append(paths, e.Paths...)
	}
	if len(paths) > 0 {
		// paths that contain the file belong to entries for other rules (the rule is active): not a path relation
		var outside []string
		for _, p := range paths {
			if !under(wsFile, p) {
				outside = append(outside, p)
			}
		}
		if len(outside) == 0 {
			return strings.Join(append(parts, "ignore-only-other-rule@here"), "+")
		}
		paths = outside
		rel := worstRelation(wsFile, paths)
		if rel == "elsewhere" {
			rel = "same-module"
			for _, p := range paths {
				if !under(p, c.Dirs[i]) {
					rel = "other-module"
				}
			}
		}
		parts = append(parts, "ignore@"+rel)
	}
	return strings.Join(parts, "+")
}

// sigShape collapses a shape for violation signatures (one defect, few signatures): whether other modules
// carry sections (not where in the list), and whether an ignore path of the governing section is a string
// prefix of the file path or just some other path.
func sigShape(shape string) string {
	parts := strings.Split(shape, "+")
	for i, p := range parts {
		switch p {
		case "section-before", "section-after", "sections-before-and-after":
			parts[i] = "other-modules-have-sections"
		case "ignore@dir-name-prefix", "ignore@file-name-prefix":
			parts[i] = "ignore@name-prefix"
		case "ignore@same-module", "ignore@other-module", "ignore@longer-name", "ignore@unrooted-tail":
			parts[i] = "ignore@elsewhere"
		}
	}
	return strings.Join(parts, "+")
}

const wsFilesPerModule = manyFilesEditKinds

// wsModuleFile is the module-relative path of file k of module slot j.
func wsModuleFile(j, k int) string { return fmt.Sprintf("w%d/k%d.proto", j, k) }

// wsModulePair builds the files of module slot j (paths relative to the module).
func wsModulePair(j int) (old, nw *Schema, expects []Expect) {
	old, nw = &Schema{}, &Schema{}
	for k := 0; k < wsFilesPerModule; k++ {
		grp := fmt.Sprintf("w%dk%d", j, k)
		of, nf, ex := SmallFilePair(j*wsFilesPerModule+k, wsModuleFile(j, k), fmt.Sprintf("w%d.k%d.v1", j, k), grp)
		old.Files = append(old.Files, of)
		nw.Files = append(nw.Files, nf)
		expects = append(expects, ex...)
	}
	return old, nw, expects
}

var wsAllCats = []string{"FILE", "PACKAGE", "WIRE_JSON", "WIRE"}

// wsModuleSections: the section alphabet of module slot j living in directory dir.
func wsModuleSections(j int, dir string, small bool) []wsSection {
	out := []wsSection{
		{Label: "none"},
		{Label: "use", Use: []string{"WIRE"}},
		{Label: "except", Use: wsAllCats, Except: []string{"FIELD_SAME_TYPE", "FIELD_NO_DELETE", "ENUM_VALUE_NO_DELETE", "MESSAGE_NO_DELETE", "RPC_NO_DELETE", "FILE_SAME_GO_PACKAGE"}},
		{Label: "ignore", Use: wsAllCats, Ignore: []string{dir + "/" + wsModuleFile(j, 1)}},
	}
	if small {
		return out
	}
	return append(out,
		wsSection{Label: "use", Use: []string{"FILE"}},
		wsSection{Label: "ignore-only", Use: wsAllCats, IgnoreOnly: []IgnoreEntry{{"FIELD_SAME_TYPE", []string{dir + "/" + fmt.Sprintf("w%d", j)}}, {"WIRE_JSON", []string{dir + "/" + wsModuleFile(j, 2)}}}},
		wsSection{Label: "unstable", Use: []string{"FILE"}, IgnoreUnstable: true},
	)
}

// wsTopSections: the top-level alphabet for the module directories.
func wsTopSections(dirs []string, small, ignoresOnly bool) []wsSection {
	last := len(dirs) - 1
	ign := []wsSection{
		{Label: "ignore", Use: wsAllCats, Ignore: []string{dirs[0] + "/" + wsModuleFile(0, 1)}},
		{Label: "ignore", Use: wsAllCats, Ignore: []string{dirs[last] + "/" + wsModuleFile(last, 1)}},
		{Label: "ignore", Use: wsAllCats, Ignore: []string{dirs[0]}},
		{Label: "ignore", Use: wsAllCats, Ignore: []string{dirs[last]}},
		{Label: "ignore-only", Use: wsAllCats, IgnoreOnly: []IgnoreEntry{{"FILE", []string{dirs[0] + "/w0"}}, {"RPC_NO_DELETE", []string{dirs[last] + fmt.Sprintf("/w%d", last)}}}},
	}
	if ignoresOnly {
		return ign
	}
	out := []wsSection{
		{Label: "none"},
		{Label: "use", Use: []string{"FILE"}},
		{Label: "use", Use: wsAllCats},
	}
	if small {
		return append(out, ign[0])
	}
	out = append(out,
		wsSection{Label: "use", Use: []string{"WIRE_JSON"}},
		wsSection{Label: "except", Use: wsAllCats, Except: []string{"FIELD_WIRE_COMPATIBLE_TYPE", "FIELD_NO_DELETE_UNLESS_NAME_RESERVED", "ENUM_VALUE_NO_DELETE_UNLESS_NUMBER_RESERVED", "PACKAGE_MESSAGE_NO_DELETE"}},
		wsSection{Label: "unstable", IgnoreUnstable: true},
	)
	return append(out, ign...)
}

var wsNamings = map[string][]string{
	"unrelated":     {"proto/billing", "proto/orders", "proto/users"},
	"prefix-first":  {"mods/v1", "mods/v1beta"},
	"prefix-second": {"mods/v1beta", "mods/v1"},
}

// wsConfigs enumerates the workspace configurations.
func wsConfigs(full bool) []wsConfig {
	var out []wsConfig
	product := func(naming string, dirs []string, small, topIgnoresOnly bool) {
		k := len(dirs)
		alph := make([][]wsSection, k)
		for j := range dirs {
			alph[j] = wsModuleSections(j, dirs[j], small)
		}
		tops := wsTopSections(dirs, small, topIgnoresOnly)
		idx := make([]int, k)
		for {
			for _, top := range tops {
				c := wsConfig{Naming: naming, Dirs: dirs, Top: top}
				for j := 0; j < k; j++ {
					c.Mods = append(c.Mods, alph[j][idx[j]])
				}
				out = append(out, c)
			}
			j := k - 1
			for ; j >= 0; j-- {
				idx[j]++
				if idx[j] < len(alph[j]) {
					break
				}
				idx[j] = 0
			}
			if j < 0 {
				break
			}
		}
	}
	un := wsNamings["unrelated"]
	product("unrelated", un[:2], false, false)
	product("unrelated", un[:3], !full, false)
	product("prefix-first", wsNamings["prefix-first"], !full, !full)
	product("prefix-second", wsNamings["prefix-second"], !full, !full)
	return out
}

type wsCaseT struct {
	Config      wsConfig          `json:"config"`
	BufYAML     string            `json:"buf_yaml"`
	Seam        string            `json:"seam"` // api | cli
	Module      int               `json:"module_index"`
	ModuleDir   string            `json:"module_dir"`
	Governing   string            `json:"governing_section"`
	Expect      *Expect           `json:"expect,omitempty"`
	ExpectLine  int               `json:"expect_line,omitempty"`
	Annotations []bufx.Annotation `json:"annotations_of_the_file"`
	OldText     string            `json:"old_text_of_the_file,omitempty"`
	NewText     string            `json:"new_text_of_the_file,omitempty"`
	CLI         string            `json:"cli,omitempty"`
}

type wsModule struct {
	old, nw      *Schema
	oldR, newR   *Rendered
	oldImg, nImg bufimage.Image
	expects      []Expect
}

// RunWorkspaces runs the workspace configurations.
func RunWorkspaces(r *evid.Run, eng *Engine, full bool) {
	mods := make([]*wsModule, 3)
	for j := range mods {
		m := &wsModule{}
		m.old, m.nw, m.expects = wsModulePair(j)
		m.oldR, m.newR = m.old.Render(Style{}), m.nw.Render(Style{})
		var err error
		if m.oldImg, err = eng.Image(m.oldR); err == nil {
			m.nImg, err = eng.Image(m.newR)
		}
		if err != nil {
			r.Incomplete(fmt.Sprintf("harness: workspace module %d does not build: %v", j, err))
			return
		}
		mods[j] = m
	}
	cfgs := wsConfigs(full)

	var mu sync.Mutex
	shapeChecks := map[string]int{}
	perNaming := map[string]int{}
	claimed, suppressed, calls, cliRuns, cliChecks := 0, 0, 0, 0, 0
	// the CLI subset: every distinct (governing kind, neighbour pattern) shape at least cliPerShape times
	cliPerShape := 1
	if full {
		cliPerShape = 3
	}
	cliSeen := map[string]int{}
	cliPick := make([]bool, len(cfgs))
	for ci, c := range cfgs {
		pick := false
		for i := range c.Dirs {
			gov, which := c.governing(i)
			sh := c.Naming + "/" + c.shape(i, gov, which, c.Dirs[i]+"/"+wsModuleFile(i, 0))
			if cliSeen[sh] < cliPerShape {
				cliSeen[sh]++
				pick = true
			}
		}
		cliPick[ci] = pick
	}
	tmp, err := os.MkdirTemp("", "verif-c03-")
	if err != nil {
		r.Incomplete("harness: " + err.Error())
		return
	}
	defer os.RemoveAll(tmp)

	// check evaluates the expectations of module i of configuration c against the annotations (paths relative
	// to the module); it returns the expectations that failed (index -> kind)
	check := func(c wsConfig, yaml string, i int, byFile map[string][]bufx.Annotation, seam, cli string, skip map[int]bool) map[int]bool {
		m := mods[i]
		gov, which := c.governing(i)
		failedIdx := map[int]bool{}
		lc, ls := 0, 0
		local := map[string]int{}
		for ei := range m.expects {
			ex := m.expects[ei]
			wsFile := c.Dirs[i] + "/" + ex.File
			if !gov.Used(ex.Rule) {
				continue
			}
			if !gov.Active(ex.Rule, wsFile) {
				ls++
				continue
			}
			lc++
			shape := c.shape(i, gov, which, wsFile)
			local[shape]++
			line := 0
			if ex.LocKey != "" {
				line = m.newR.Line(ex.File, ex.LocKey)
			}
			kind := Match(ex, line, byFile[ex.File])
			if kind == "" {
				continue
			}
			failedIdx[ei] = true
			if skip[ei] {
				continue // already reported at the API seam
			}
			prefix := "unreported-in-workspace/"
			if seam == "cli" {
				prefix = "unreported-in-workspace/cli/"
			}
			r.Violate(prefix+sigShape(shape)+"/"+kind,
				fmt.Sprintf("%s (%s seam): module %d (%s) is governed by the %s; rule %s is active for %q, expected an annotation naming %v (line %d), failure: %s; the file got %d annotation(s)",
					c, seam, i, c.Dirs[i], which, ex.Rule, wsFile, ex.Names, line, kind, len(byFile[ex.File])),
				wsCaseT{Config: c, BufYAML: yaml, Seam: seam, Module: i, ModuleDir: c.Dirs[i], Governing: which, Expect: &ex, ExpectLine: line,
					Annotations: byFile[ex.File], OldText: m.oldR.Files[ex.File], NewText: m.newR.Files[ex.File], CLI: cli})
		}
		mu.Lock()
		if seam == "api" {
			claimed += lc
			suppressed += ls
			for k, v := range local {
				shapeChecks[k] += v
			}
			perNaming[c.Naming] += lc
		} else {
			cliChecks += lc
		}
		mu.Unlock()
		return failedIdx
	}

	r.ParallelFor(len(cfgs), 0, func(ci int) {
		c := cfgs[ci]
		yaml := c.YAML()
		f, err := bufx.ReadBufYAML(yaml)
		if err != nil {
			r.Incomplete("harness: workspace config does not parse: " + err.Error() + "\n" + yaml)
			return
		}
		mcs := f.ModuleConfigs()
		if len(mcs) != len(c.Dirs) {
			r.Incomplete(fmt.Sprintf("harness: workspace config has %d module configs, want %d", len(mcs), len(c.Dirs)))
			return
		}
		apiFailed := make([]map[int]bool, len(c.Dirs))
		anyOK := false
		for i := range c.Dirs {
			// ModuleConfigs() is sorted by directory, not in listing order: pair by directory
			var bc bufconfig.BreakingConfig
			for _, mc := range mcs {
				if mc.DirPath() == c.Dirs[i] {
					bc = mc.BreakingConfig()
				}
			}
			if bc == nil {
				r.Incomplete(fmt.Sprintf("harness: no module config for %q", c.Dirs[i]))
				return
			}
			anns, err := bufx.Breaking(context.Background(), bc, mods[i].nImg, mods[i].oldImg, bufcheck.BreakingWithExcludeImports())
			r.Eval(1)
			mu.Lock()
			calls++
			mu.Unlock()
			if err != nil {
				r.Violate("breaking-error/workspace/"+normSig(err.Error()), fmt.Sprintf("Breaking returned a non-annotation error for module %d of %s: %v", i, c, err),
					wsCaseT{Config: c, BufYAML: yaml, Seam: "api", Module: i, ModuleDir: c.Dirs[i]})
				continue
			}
			byFile := map[string][]bufx.Annotation{}
			for _, a := range anns {
				byFile[a.Path] = append(byFile[a.Path], a)
			}
			apiFailed[i] = check(c, yaml, i, byFile, "api", "", nil)
			anyOK = true
		}
		if anyOK {
			r.Distinct(c.String())
		}
		r.SampleEvery(ci, 211, func() any { return wsCaseT{Config: c, BufYAML: yaml, Seam: "api", Expect: &mods[0].expects[0]} })
		if !cliPick[ci] {
			return
		}
		// the same workspace on disk through `buf breaking <new> --against <old>`
		root := filepath.Join(tmp, fmt.Sprintf("ws%05d", ci))
		write := func(side string) (string, error) {
			dir := filepath.Join(root, side)
			files := map[string]string{"buf.yaml": yaml}
			for i, d := range c.Dirs {
				rd := mods[i].oldR
				if side == "new" {
					rd = mods[i].newR
				}
				for p, t := range rd.Files {
					files[d+"/"+p] = t
				}
			}
			for p, t := range files {
				fp := filepath.Join(dir, filepath.FromSlash(p))
				if err := os.MkdirAll(filepath.Dir(fp), 0o755); err != nil {
					return "", err
				}
				if err := os.WriteFile(fp, []byte(t), 0o644); err != nil {
					return "", err
				}
			}
			return dir, nil
		}
		oldDir, err := write("old")
		var newDir string
		if err == nil {
			newDir, err = write("new")
		}
		if err != nil {
			r.Incomplete("harness: " + err.Error())
			return
		}
		defer os.RemoveAll(root)
		args := []string{"breaking", newDir, "--against", oldDir, "--error-format", "json"}
		res := bufx.RunCLI(context.Background(), nil, "", args...)
		r.Eval(1)
		cli := "buf " + strings.Join([]string{"breaking", "<new>", "--against", "<old>", "--error-format", "json"}, " ")
		if res.ExitCode != 0 && res.ExitCode != 100 {
			r.Violate("breaking-error/workspace/cli", fmt.Sprintf("`%s` on %s exits %d: %s", cli, c, res.ExitCode, firstLine(res.Stderr)),
				wsCaseT{Config: c, BufYAML: yaml, Seam: "cli", CLI: cli})
			return
		}
		perModule := make([]map[string][]bufx.Annotation, len(c.Dirs))
		for i := range perModule {
			perModule[i] = map[string][]bufx.Annotation{}
		}
		for _, ln := range strings.Split(res.Stdout, "\n") {
			if strings.TrimSpace(ln) == "" {
				continue
			}
			var a bufx.Annotation
			if err := json.Unmarshal([]byte(ln), &a); err != nil {
				r.Incomplete("harness: cannot parse CLI annotation " + ln)
				continue
			}
			rel := strings.TrimPrefix(filepath.ToSlash(a.Path), filepath.ToSlash(newDir)+"/")
			// the longest module directory containing the path
			best := -1
			for i, d := range c.Dirs {
				if under(rel, d) && (best < 0 || len(d) > len(c.Dirs[best])) {
					best = i
				}
			}
			if best < 0 {
				continue
			}
			a.Path = strings.TrimPrefix(rel, c.Dirs[best]+"/")
			perModule[best][a.Path] = append(perModule[best][a.Path], a)
		}
		for i := range c.Dirs {
			check(c, yaml, i, perModule[i], "cli", cli, apiFailed[i])
		}
		mu.Lock()
		cliRuns++
		mu.Unlock()
	})
	var shapes []string
	for k := range shapeChecks {
		shapes = append(shapes, k)
	}
	sort.Strings(shapes)
	r.Set("workspace_configurations", len(cfgs))
	r.Set("workspace_breaking_calls", calls)
	r.Set("workspace_cli_runs", cliRuns)
	r.Set("workspace_cli_expectation_checks", cliChecks)
	r.Set("workspace_expectation_checks", claimed)
	r.Set("workspace_expectations_legitimately_inactive_or_ignored", suppressed)
	r.Set("workspace_expectation_checks_per_shape", shapeChecks)
	r.Set("workspace_expectation_checks_per_naming", perNaming)
	if r.Expired() {
		return
	}
	for _, sh := range []string{"own-section", "top-level-section", "top-level-section+section-before", "top-level-section+section-after", "default", "default+section-before",
		"top-level-section+section-before+ignore@other-module", "top-level-section+ignore@dir-name-prefix"} {
		if shapeChecks[sh] == 0 {
			r.Incomplete("workspace shape never exercised: " + sh)
		}
	}
	if cliRuns == 0 || cliChecks == 0 {
		r.Incomplete("workspace: the CLI seam was never exercised")
	}
	if suppressed == 0 {
		r.Incomplete("workspace: no expectation was ever legitimately ignored (model never discriminates)")
	}
}

func firstLine(s string) string {
	s = strings.TrimSpace(s)
	if i := strings.IndexByte(s, '\n'); i >= 0 {
		s = s[:i]
	}
	if len(s) > 300 {
		s = s[:300]
	}
	return s
}
