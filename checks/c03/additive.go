package c03

import (
	"fmt"
	"sort"
	"strings"
)

// ---------------------------------------------------------------------------------------------
// Additive operators (the property's list of compatible changes) and the "surroundings" that C03
// wraps around a breaking edit. Every addition uses names and numbers that do not occur in any base
// (field / enum numbers >= 800, names containing "added").
// ---------------------------------------------------------------------------------------------

// AddOp is an additive operator. Sites lists where it applies (canonical site first); Apply
// performs it at one site. gen (1, 2, 3 ...) makes names and numbers fresh per application.
type AddOp struct {
	Name  string
	Sites func(s *Schema) []string
	Apply func(s *Schema, site string, gen int)
}

func fileOf(site string) (file, rest string) {
	i := strings.Index(site, ":")
	return site[:i], site[i+1:]
}

// prefer moves the sites containing the marker to the front (stable).
func prefer(sites []string, marker string) []string {
	sort.SliceStable(sites, func(i, j int) bool {
		return strings.Contains(sites[i], marker) && !strings.Contains(sites[j], marker)
	})
	return sites
}

func protoFiles(s *Schema) []string {
	var out []string
	for _, f := range s.Files {
		out = append(out, f.Path+":")
	}
	return out
}

func msgSites(s *Schema, stdOnly bool) []string {
	var out []string
	for _, mr := range s.Messages() {
		if stdOnly && !hasStdBody(mr.Msg) {
			continue
		}
		out = append(out, mr.File+":"+mr.Nested)
	}
	return prefer(out, ":Outer.Mid")
}

func enumSites(s *Schema) []string {
	var out []string
	for _, er := range s.AllEnums() {
		out = append(out, er.File+":"+er.Nested)
	}
	return prefer(out, ":Outer.Color1")
}

func svcSites(s *Schema) []string {
	var out []string
	for _, f := range s.Files {
		for _, svc := range f.Services {
			out = append(out, f.Path+":"+svc.Name)
		}
	}
	return out
}

func bothEnds(sites []string) []string {
	// "@start" first: the canonical site is the index-shifting one
	var out []string
	for _, x := range sites {
		out = append(out, x+"@start")
	}
	for _, x := range sites {
		out = append(out, x+"@end")
	}
	return out
}

func splitEnd(site string) (string, bool) {
	if strings.HasSuffix(site, "@start") {
		return strings.TrimSuffix(site, "@start"), true
	}
	return strings.TrimSuffix(site, "@end"), false
}

func addedMsg(name, syntax string) *Message {
	return &Message{Name: name, Fields: []*Field{
		{Name: "added_id", Num: 1, Label: singular(syntax), Type: "int32", Kind: "int32"},
		{Name: "added_tags", Num: 2, Label: "repeated", Type: "string", Kind: "string"},
	}}
}

func addedEnum(name string) *Enum {
	p := strings.ToUpper(name)
	return &Enum{Name: name, Values: []*EnumValue{{p + "_UNSPECIFIED", 0}, {p + "_ONE", 1}}}
}

func addField(m *Message, f *Field, atStart bool) {
	if atStart {
		m.Fields = append([]*Field{f}, m.Fields...)
	} else {
		m.Fields = append(m.Fields, f)
	}
}

func fieldOp(name string, mk func(syntax string, file string, gen int) *Field) AddOp {
	return AddOp{
		Name:  name,
		Sites: func(s *Schema) []string { return bothEnds(msgSites(s, false)) },
		Apply: func(s *Schema, site string, gen int) {
			site, atStart := splitEnd(site)
			file, nested := fileOf(site)
			f := s.File(file)
			addField(f.Msg(nested), mk(f.Syntax, file, gen), atStart)
		},
	}
}

// AdditiveOps is the catalogue of additive operators.
func AdditiveOps() []AddOp {
	return []AddOp{
		{
			Name:  "new-file-same-package",
			Sites: func(s *Schema) []string { return []string{"added:"} },
			Apply: func(s *Schema, site string, gen int) {
				syn := s.Files[0].Syntax
				s.Files = append(s.Files, &File{Path: fmt.Sprintf("added_%d.proto", gen), Syntax: syn, Package: s.Files[0].Package,
					Messages: []*Message{addedMsg(fmt.Sprintf("AddedFileMsg%d", gen), syn)},
					Enums:    []*Enum{addedEnum(fmt.Sprintf("AddedFileEnum%d", gen))},
				})
			},
		},
		{
			Name:  "new-file-new-package",
			Sites: func(s *Schema) []string { return []string{"added:"} },
			Apply: func(s *Schema, site string, gen int) {
				syn := s.Files[0].Syntax
				name := fmt.Sprintf("AddedPkgMsg%d", gen)
				// sorts before every other file: the file index of everything else shifts
				s.Files = append([]*File{{Path: fmt.Sprintf("aa_added_%d.proto", gen), Syntax: syn, Package: fmt.Sprintf("fresh%d.v1", gen),
					Messages: []*Message{addedMsg(name, syn)},
					Services: []*Service{{Name: fmt.Sprintf("AddedPkgSvc%d", gen), Methods: []*Method{{Name: "Do", In: name, Out: name}}}},
				}}, s.Files...)
			},
		},
		{
			Name:  "new-message",
			Sites: func(s *Schema) []string { return bothEnds(protoFiles(s)) },
			Apply: func(s *Schema, site string, gen int) {
				site, atStart := splitEnd(site)
				file, _ := fileOf(site)
				f := s.File(file)
				m := addedMsg(fmt.Sprintf("AddedMsg%d", gen), f.Syntax)
				if atStart {
					f.Messages = append([]*Message{m}, f.Messages...)
				} else {
					f.Messages = append(f.Messages, m)
				}
			},
		},
		{
			Name:  "new-nested-message",
			Sites: func(s *Schema) []string { return bothEnds(msgSites(s, false)) },
			Apply: func(s *Schema, site string, gen int) {
				site, atStart := splitEnd(site)
				file, nested := fileOf(site)
				f := s.File(file)
				m := f.Msg(nested)
				n := addedMsg(fmt.Sprintf("AddedNested%d", gen), f.Syntax)
				if atStart {
					m.Nested = append([]*Message{n}, m.Nested...)
				} else {
					m.Nested = append(m.Nested, n)
				}
			},
		},
		{
			Name:  "new-enum",
			Sites: func(s *Schema) []string { return bothEnds(protoFiles(s)) },
			Apply: func(s *Schema, site string, gen int) {
				site, atStart := splitEnd(site)
				file, _ := fileOf(site)
				f := s.File(file)
				e := addedEnum(fmt.Sprintf("AddedEnum%d", gen))
				if atStart {
					f.Enums = append([]*Enum{e}, f.Enums...)
				} else {
					f.Enums = append(f.Enums, e)
				}
			},
		},
		{
			Name:  "new-nested-enum",
			Sites: func(s *Schema) []string { return bothEnds(msgSites(s, false)) },
			Apply: func(s *Schema, site string, gen int) {
				site, atStart := splitEnd(site)
				file, nested := fileOf(site)
				m := s.File(file).Msg(nested)
				e := addedEnum(fmt.Sprintf("AddedNestedEnum%d", gen))
				if atStart {
					m.Enums = append([]*Enum{e}, m.Enums...)
				} else {
					m.Enums = append(m.Enums, e)
				}
			},
		},
		{
			Name:  "new-service",
			Sites: func(s *Schema) []string { return bothEnds(protoFiles(s)) },
			Apply: func(s *Schema, site string, gen int) {
				site, atStart := splitEnd(site)
				file, _ := fileOf(site)
				f := s.File(file)
				t := f.Messages[0].Name
				svc := &Service{Name: fmt.Sprintf("AddedSvc%d", gen), Methods: []*Method{{Name: "Do", In: t, Out: t}, {Name: "Feed", In: t, Out: t, SStream: true}}}
				if atStart {
					f.Services = append([]*Service{svc}, f.Services...)
				} else {
					f.Services = append(f.Services, svc)
				}
			},
		},
		{
			Name:  "new-rpc",
			Sites: func(s *Schema) []string { return bothEnds(svcSites(s)) },
			Apply: func(s *Schema, site string, gen int) {
				site, atStart := splitEnd(site)
				file, name := fileOf(site)
				svc := s.File(file).Service(name)
				m := &Method{Name: fmt.Sprintf("Added%d", gen), In: svc.Methods[0].In, Out: svc.Methods[0].Out}
				if atStart {
					svc.Methods = append([]*Method{m}, svc.Methods...)
				} else {
					svc.Methods = append(svc.Methods, m)
				}
			},
		},
		{
			Name:  "new-oneof",
			Sites: func(s *Schema) []string { return bothEnds(msgSites(s, false)) },
			Apply: func(s *Schema, site string, gen int) {
				site, atStart := splitEnd(site)
				file, nested := fileOf(site)
				m := s.File(file).Msg(nested)
				oo := fmt.Sprintf("added_oneof_%d", gen)
				addField(m, &Field{Name: fmt.Sprintf("added_oa_%d", gen), Num: 800 + 10*gen, Type: "int32", Kind: "int32", Oneof: oo}, atStart)
				addField(m, &Field{Name: fmt.Sprintf("added_ob_%d", gen), Num: 801 + 10*gen, Type: "string", Kind: "string", Oneof: oo}, atStart)
				if atStart {
					m.Oneofs = append([]string{oo}, m.Oneofs...)
				} else {
					m.Oneofs = append(m.Oneofs, oo)
				}
			},
		},
		{
			Name:  "message-reserved-range",
			Sites: func(s *Schema) []string { return bothEnds(msgSites(s, false)) },
			Apply: func(s *Schema, site string, gen int) {
				site, atStart := splitEnd(site)
				file, nested := fileOf(site)
				m := s.File(file).Msg(nested)
				r := Range{700 + 10*gen, 705 + 10*gen}
				if atStart {
					m.Reserved = append([]Range{r}, m.Reserved...)
				} else {
					m.Reserved = append(m.Reserved, r)
				}
			},
		},
		{
			Name:  "message-reserved-name",
			Sites: func(s *Schema) []string { return bothEnds(msgSites(s, false)) },
			Apply: func(s *Schema, site string, gen int) {
				site, atStart := splitEnd(site)
				file, nested := fileOf(site)
				m := s.File(file).Msg(nested)
				n := fmt.Sprintf("added_reserved_%d", gen)
				if atStart {
					m.ReservedNames = append([]string{n}, m.ReservedNames...)
				} else {
					m.ReservedNames = append(m.ReservedNames, n)
				}
			},
		},
		{
			Name:  "message-reserved-range-widened",
			Sites: func(s *Schema) []string { return msgSites(s, true) },
			Apply: func(s *Schema, site string, gen int) {
				file, nested := fileOf(site)
				m := s.File(file).Msg(nested)
				for i := range m.Reserved {
					if m.Reserved[i].Lo == 100 {
						m.Reserved[i].Hi = 111 + gen
					}
				}
			},
		},
		{
			Name:  "enum-reserved-range",
			Sites: func(s *Schema) []string { return bothEnds(enumSites(s)) },
			Apply: func(s *Schema, site string, gen int) {
				site, atStart := splitEnd(site)
				file, nested := fileOf(site)
				e := s.File(file).Enum(nested)
				r := Range{700 + 10*gen, 705 + 10*gen}
				if atStart {
					e.Reserved = append([]Range{r}, e.Reserved...)
				} else {
					e.Reserved = append(e.Reserved, r)
				}
			},
		},
		{
			Name:  "enum-reserved-name",
			Sites: func(s *Schema) []string { return enumSites(s) },
			Apply: func(s *Schema, site string, gen int) {
				file, nested := fileOf(site)
				e := s.File(file).Enum(nested)
				e.ReservedNames = append(e.ReservedNames, fmt.Sprintf("%s_ADDED_RESERVED_%d", strings.ToUpper(e.Name), gen))
			},
		},
		{
			Name:  "new-enum-value",
			Sites: func(s *Schema) []string { return bothEnds(enumSites(s)) },
			Apply: func(s *Schema, site string, gen int) {
				site, middle := splitEnd(site)
				file, nested := fileOf(site)
				e := s.File(file).Enum(nested)
				v := &EnumValue{Name: fmt.Sprintf("%s_ADDED_%d", strings.ToUpper(e.Name), gen), Num: 800 + gen}
				if middle {
					// right after the zero value: every later value index shifts
					e.Values = append(e.Values[:1:1], append([]*EnumValue{v}, e.Values[1:]...)...)
				} else {
					e.Values = append(e.Values, v)
				}
			},
		},
		fieldOp("new-field-singular", func(syntax, file string, gen int) *Field {
			return &Field{Name: fmt.Sprintf("added_s_%d", gen), Num: 900 + 10*gen, Label: singular(syntax), Type: "int32", Kind: "int32"}
		}),
		fieldOp("new-field-optional-string", func(syntax, file string, gen int) *Field {
			f := &Field{Name: fmt.Sprintf("added_o_%d", gen), Num: 901 + 10*gen, Label: "optional", Type: "string", Kind: "string"}
			if syntax == "editions" {
				f.Label = ""
			}
			return f
		}),
		fieldOp("new-field-repeated", func(syntax, file string, gen int) *Field {
			return &Field{Name: fmt.Sprintf("added_r_%d", gen), Num: 902 + 10*gen, Label: "repeated", Type: "int64", Kind: "int64"}
		}),
		fieldOp("new-field-map", func(syntax, file string, gen int) *Field {
			return &Field{Name: fmt.Sprintf("added_m_%d", gen), Num: 903 + 10*gen, Type: "map<string, int32>", Kind: "map"}
		}),
		fieldOp("new-field-message", func(syntax, file string, gen int) *Field {
			t := payloadOf[file]
			return &Field{Name: fmt.Sprintf("added_msg_%d", gen), Num: 904 + 10*gen, Label: singular(syntax), Type: t, Kind: "message"}
		}),
		{
			Name:  "new-field-in-existing-oneof",
			Sites: func(s *Schema) []string { return bothEnds(msgSites(s, true)) },
			Apply: func(s *Schema, site string, gen int) {
				site, atStart := splitEnd(site)
				file, nested := fileOf(site)
				m := s.File(file).Msg(nested)
				addField(m, &Field{Name: fmt.Sprintf("added_in_oneof_%d", gen), Num: 905 + 10*gen, Type: "int32", Kind: "int32", Oneof: "choice"}, atStart)
			},
		},
		{
			Name:  "new-import",
			Sites: func(s *Schema) []string { return protoFiles(s) },
			Apply: func(s *Schema, site string, gen int) {
				file, _ := fileOf(site)
				f := s.File(file)
				imp := []string{"google/protobuf/empty.proto", "google/protobuf/any.proto", "google/protobuf/wrappers.proto"}[(gen-1)%3]
				typ := []string{"google.protobuf.Empty", "google.protobuf.Any", "google.protobuf.Int32Value"}[(gen-1)%3]
				// first in the import list: the dependency index of every other import shifts
				f.Imports = append([]string{imp}, f.Imports...)
				f.Messages = append(f.Messages, &Message{Name: fmt.Sprintf("AddedUsesImport%d", gen), Fields: []*Field{
					{Name: "added_v", Num: 1, Label: singular(f.Syntax), Type: typ, Kind: "message"}}})
			},
		},
		{
			Name: "new-extension",
			Sites: func(s *Schema) []string {
				var out []string
				for _, f := range s.Files {
					if len(f.Extends) > 0 {
						out = append(out, f.Path+":")
					}
				}
				for _, mr := range s.Messages() {
					if len(mr.Msg.Extends) > 0 {
						out = append(out, mr.File+":"+mr.Nested)
					}
				}
				return bothEnds(prefer(out, ":Outer"))
			},
			Apply: func(s *Schema, site string, gen int) {
				site, atStart := splitEnd(site)
				file, nested := fileOf(site)
				f := s.File(file)
				x := f.Extends
				if nested != "" {
					x = f.Msg(nested).Extends
				}
				depth := 0
				if nested != "" {
					depth = strings.Count(nested, ".") + 1
				}
				nf := extField(fmt.Sprintf("x_added_%d_%s", gen, strings.ToLower(strings.ReplaceAll(nested, ".", "_"))), 150+gen+10*depth, f.Syntax, "int32")
				if file == "b.proto" {
					nf.Name += "b"
				}
				if atStart {
					x[0].Fields = append([]*Field{nf}, x[0].Fields...)
				} else {
					x[0].Fields = append(x[0].Fields, nf)
				}
			},
		},
	}
}

// payloadOf names a message type that is visible in each base file (for new message-typed fields).
var payloadOf = map[string]string{"a.proto": "Payload", "b.proto": "Payload2", "sub/c.proto": "Lone", "sub/d.proto": "Only"}

// Surroundings of a breaking edit.
const (
	SurroundNone = iota
	SurroundBefore
	SurroundAfter
)

// SurroundNames names the surroundings.
var SurroundNames = []string{"none", "additive-before", "additive-after"}

// Surround applies unrelated additive edits to every file / message / enum / service of s, placed
// textually before (SurroundBefore) or after (SurroundAfter) the existing elements, so that the
// index of every pre-existing element in its parent shifts (before) or the parent merely grows (after).
func Surround(s *Schema, mode int) {
	if mode == SurroundNone {
		return
	}
	atStart := mode == SurroundBefore
	tag := "After"
	num := 951
	if atStart {
		tag = "Before"
		num = 950
	}
	var walk func(syntax string, m *Message, depth int)
	walk = func(syntax string, m *Message, depth int) {
		for _, n := range m.Nested {
			walk(syntax, n, depth+1)
		}
		addField(m, &Field{Name: "added_" + strings.ToLower(tag), Num: num, Label: singular(syntax), Type: "int32", Kind: "int32"}, atStart)
		nested := addedMsg("AddedNested"+tag, syntax)
		ne := addedEnum(fmt.Sprintf("AddedNestedEnum%s%d", tag, depth))
		if atStart {
			m.Nested = append([]*Message{nested}, m.Nested...)
			m.Enums = append([]*Enum{ne}, m.Enums...)
			m.Reserved = append([]Range{{960, 962}}, m.Reserved...)
		} else {
			m.Nested = append(m.Nested, nested)
			m.Enums = append(m.Enums, ne)
			m.Reserved = append(m.Reserved, Range{970, 972})
		}
		for _, e := range m.Enums {
			if e != ne {
				surroundEnum(e, atStart, tag)
			}
		}
	}
	for _, f := range s.Files {
		for _, m := range f.Messages {
			walk(f.Syntax, m, 0)
		}
		for _, e := range f.Enums {
			surroundEnum(e, atStart, tag)
		}
		base := strings.NewReplacer("/", "", ".proto", "", "_", "").Replace(f.Path)
		base = strings.ToUpper(base[:1]) + base[1:]
		tm := addedMsg("AddedTop"+tag+base, f.Syntax)
		te := addedEnum("AddedTopEnum" + tag + base)
		for _, svc := range f.Services {
			m := &Method{Name: "Added" + tag, In: svc.Methods[0].In, Out: svc.Methods[0].Out}
			if atStart {
				svc.Methods = append([]*Method{m}, svc.Methods...)
			} else {
				svc.Methods = append(svc.Methods, m)
			}
		}
		ts := &Service{Name: "AddedSvc" + tag + base, Methods: []*Method{{Name: "Do", In: tm.Name, Out: tm.Name}}}
		if atStart {
			f.Messages = append([]*Message{tm}, f.Messages...)
			f.Enums = append([]*Enum{te}, f.Enums...)
			f.Services = append([]*Service{ts}, f.Services...)
		} else {
			f.Messages = append(f.Messages, tm)
			f.Enums = append(f.Enums, te)
			f.Services = append(f.Services, ts)
		}
	}
	syn := s.Files[0].Syntax
	pkg := s.Files[0].Package
	if atStart {
		s.Files = append([]*File{{Path: "aa_added_before.proto", Syntax: syn, Package: pkg, Messages: []*Message{addedMsg("AddedFileBeforeMsg", syn)}}}, s.Files...)
	} else {
		s.Files = append(s.Files, &File{Path: "zz_added_after.proto", Syntax: syn, Package: pkg, Messages: []*Message{addedMsg("AddedFileAfterMsg", syn)}})
	}
}

func surroundEnum(e *Enum, atStart bool, tag string) {
	v := &EnumValue{Name: strings.ToUpper(e.Name) + "_ADDED_" + strings.ToUpper(tag), Num: 950}
	if atStart {
		e.Values = append(e.Values[:1:1], append([]*EnumValue{v}, e.Values[1:]...)...)
		e.Reserved = append([]Range{{960, 962}}, e.Reserved...)
	} else {
		v.Num = 951
		e.Values = append(e.Values, v)
		e.Reserved = append(e.Reserved, Range{970, 972})
	}
}
