package c03

import (
	"fmt"
	"sort"
	"strings"
	"sync"

	"github.com/bufbuild/bufverif/internal/bufx"
	"github.com/bufbuild/bufverif/internal/evid"
)

// ---------------------------------------------------------------------------------------------
// Configuration dimension "ignores that mention other paths / other IDs".
//
// The property holds "for every configuration in which the rule is active". A buf.yaml may carry
// `ignore` and `ignore_only` entries; a rule stays active for a file as long as no entry that stands
// for the rule (the rule ID itself, a category containing it, a deprecated ID replaced by it) names
// a path containing the file. Every other entry - another path, another rule, a sibling replacement
// of the same deprecated ID - must leave the rule's annotations alone. The configurations below are
// enumerated from a key alphabet derived from the expectations of the case and a path alphabet
// {here, elsewhere}; buf resolves them through several Go maps whose iteration order is enumerated
// too (runtime overlay, see mapseed_on.go).
// ---------------------------------------------------------------------------------------------

// IgnoreEntry is one `ignore_only` entry.
type IgnoreEntry struct {
	Key   string   `json:"key"`
	Paths []string `json:"paths"`
}

// IgnoreConfig is a breaking configuration with an explicit use list, `ignore` and `ignore_only`.
type IgnoreConfig struct {
	Version    string        `json:"version"`
	Use        []string      `json:"use"`
	Except     []string      `json:"except,omitempty"`
	Ignore     []string      `json:"ignore,omitempty"`
	IgnoreOnly []IgnoreEntry `json:"ignore_only,omitempty"` // in textual order
}

// YAML renders the buf.yaml text.
func (c IgnoreConfig) YAML() string {
	var sb strings.Builder
	fmt.Fprintf(&sb, "version: %s\nbreaking:\n  use:\n", c.Version)
	for _, u := range c.Use {
		fmt.Fprintf(&sb, "    - %s\n", u)
	}
	if len(c.Except) > 0 {
		sb.WriteString("  except:\n")
		for _, u := range c.Except {
			fmt.Fprintf(&sb, "    - %s\n", u)
		}
	}
	if len(c.Ignore) > 0 {
		sb.WriteString("  ignore:\n")
		for _, p := range c.Ignore {
			fmt.Fprintf(&sb, "    - %s\n", p)
		}
	}
	if len(c.IgnoreOnly) > 0 {
		sb.WriteString("  ignore_only:\n")
		for _, e := range c.IgnoreOnly {
			fmt.Fprintf(&sb, "    %s:\n", e.Key)
			for _, p := range e.Paths {
				fmt.Fprintf(&sb, "      - %s\n", p)
			}
		}
	}
	return sb.String()
}

func (c IgnoreConfig) String() string {
	parts := make([]string, len(c.IgnoreOnly))
	for i, e := range c.IgnoreOnly {
		parts[i] = e.Key + ":" + strings.Join(e.Paths, ",")
	}
	return fmt.Sprintf("%s/use=%s/except=%s/ignore=%s/ignore_only=%s", c.Version, strings.Join(c.Use, ","), strings.Join(c.Except, ","), strings.Join(c.Ignore, ","), strings.Join(parts, ";"))
}

// under reports whether file is the path or lies inside the directory path.
func under(file, path string) bool {
	return file == path || strings.HasPrefix(file, path+"/")
}

func underAny(file string, paths []string) bool {
	for _, p := range paths {
		if under(file, p) {
			return true
		}
	}
	return false
}

// Used reports whether the documentation says the rule is selected by the use list and not removed by
// the except list.
func (c IgnoreConfig) Used(rule string) bool {
	if _, ok := DocCategories(c.Version, rule); !ok {
		return false
	}
	for _, u := range c.Except {
		if contains(DocExpand(c.Version, u), rule) {
			return false
		}
	}
	for _, u := range c.Use {
		if contains(DocExpand(c.Version, u), rule) {
			return true
		}
	}
	return false
}

// Active reports whether the documentation says the rule is checked for the file under the configuration.
func (c IgnoreConfig) Active(rule, file string) bool {
	if !c.Used(rule) || underAny(file, c.Ignore) {
		return false
	}
	for _, e := range c.IgnoreOnly {
		if contains(DocExpand(c.Version, e.Key), rule) && underAny(file, e.Paths) {
			return false
		}
	}
	return true
}

// Shape is the structural role of every ignore entry relative to a rule and a file: the part of a
// violation signature that names the reason independently of the concrete IDs and paths.
func (c IgnoreConfig) Shape(rule, file string) string {
	var parts []string
	if len(c.Ignore) > 0 {
		if underAny(file, c.Ignore) {
			parts = append(parts, "ignore@here")
		} else {
			parts = append(parts, "ignore@elsewhere")
		}
	}
	for _, k := range c.Except {
		parts = append(parts, "except-"+keyRole(c.Version, k, rule))
	}
	for _, e := range c.IgnoreOnly {
		role := keyRole(c.Version, e.Key, rule)
		here, there := false, false
		for _, p := range e.Paths {
			if under(file, p) {
				here = true
			} else {
				there = true
			}
		}
		where := "elsewhere"
		switch {
		case here && there:
			where = "both"
		case here:
			where = "here"
		}
		parts = append(parts, role+"@"+where)
	}
	sort.Strings(parts)
	return strings.Join(parts, "+")
}

// keyRole is the structural role of an ID written in a configuration relative to a rule.
func keyRole(version, key, rule string) string {
	_, isDep := DocReplacements(version, key)
	_, isCat := catLetter[key]
	covers := contains(DocExpand(version, key), rule)
	switch {
	case key == rule:
		return "self"
	case isDep && covers:
		return "deprecated-parent"
	case isDep:
		return "other-deprecated"
	case isCat && covers:
		return "own-category"
	case isCat:
		return "other-category"
	}
	for _, d := range DocDeprecatedFor(version, rule) {
		if contains(DocExpand(version, d), key) {
			return "sibling-replacement"
		}
	}
	return "other-rule"
}

// ignoreOps are the operators whose cases are run under the ignore configurations (one case per
// operator and edited file; quick: the bases rotate over the operators). The first three are the
// operators whose rules replace a deprecated ID; the others have expected rules with different category
// profiles (field-type: FILE+PACKAGE / WIRE_JSON / WIRE; field-delete: FILE+PACKAGE / WIRE_JSON+WIRE /
// WIRE_JSON; rpc-change: all four; file-option: FILE+PACKAGE; field-rename: all but WIRE).
var ignoreOps = []string{
	"field-cardinality", "field-ctype", "file-java-utf8", "field-type", "field-delete",
	"rpc-change", "file-option", "field-rename", "enum-value-delete", "field-json-name",
}

// quick tier: the first ignoreOpsQuick operators, edited file a.proto / b.proto; the file in a directory
// (sub/c.proto, ignore path written as the directory) for the operators of ignoreDirOpsQuick only.
const ignoreOpsQuick = 8

var ignoreDirOpsQuick = []string{"field-delete", "file-option"}

// ignoreCase is one catalogue case with the path alphabet of its ignore configurations.
type ignoreCase struct {
	in        *Instance
	file      string // the edited file (every expectation of the case is in it)
	here      string // a path containing the edited file (the file, or its directory)
	elsewhere string // a path of the module not containing it
}

func distinctRules(in *Instance) []string {
	var out []string
	for _, ex := range in.Expects {
		if !contains(out, ex.Rule) {
			out = append(out, ex.Rule)
		}
	}
	sort.Strings(out)
	return out
}

// IgnoreCandidates returns copies of the eligible cases of one base: per operator of ignoreOps and edited
// file the case with the most distinct expected rules (first one on ties). Cases whose expectations span
// several files or have no path (deleted / moved files) are not eligible: buf also matches ignore paths
// against the previous file.
func IgnoreCandidates(instances []Instance) []Instance {
	var out []Instance
	for _, op := range ignoreOps {
		best := map[string]*Instance{}
		var files []string
		for i := range instances {
			in := &instances[i]
			if in.Op != op || len(in.Expects) == 0 {
				continue
			}
			file, ok := in.Expects[0].File, true
			for _, ex := range in.Expects {
				if ex.NoPath || ex.File != file {
					ok = false
				}
			}
			if !ok || in.Old.File(file) == nil || in.New.File(file) == nil {
				continue
			}
			cur, seen := best[file]
			if !seen {
				files = append(files, file)
			}
			if !seen || len(distinctRules(in)) > len(distinctRules(cur)) {
				best[file] = in
			}
		}
		sort.Strings(files)
		for _, file := range files {
			out = append(out, *best[file])
		}
	}
	return out
}

// selectIgnoreCases picks the cases out of the candidates of every base (quick: one base per operator,
// rotating over the bases; thorough: every base).
func selectIgnoreCases(perBase map[string][]Instance, baseOrder []string, full bool) []ignoreCase {
	var out []ignoreCase
	for oi, op := range ignoreOps {
		if !full && oi >= ignoreOpsQuick {
			break
		}
		var bases []string
		if full {
			bases = baseOrder
		} else {
			// quick: one base per operator, rotating; fall back to the next base that has the operator
			for k := 0; k < len(baseOrder); k++ {
				b := baseOrder[(oi+k)%len(baseOrder)]
				has := false
				for i := range perBase[b] {
					if perBase[b][i].Op == op && len(perBase[b][i].Expects) > 0 {
						has = true
						break
					}
				}
				if has {
					bases = []string{b}
					break
				}
			}
		}
		for _, b := range bases {
			for i := range perBase[b] {
				in := &perBase[b][i]
				if in.Op != op {
					continue
				}
				file := in.Expects[0].File
				if !full && file != "a.proto" && file != "b.proto" && !(file == "sub/c.proto" && contains(ignoreDirOpsQuick, op)) {
					continue
				}
				c := ignoreCase{in: in, file: file, here: file, elsewhere: "a.proto"}
				if i := strings.LastIndex(file, "/"); i >= 0 {
					c.here = file[:i] // the directory form of an ignore path
				}
				if file == "a.proto" {
					c.elsewhere = "b.proto"
				}
				out = append(out, c)
			}
		}
	}
	return out
}

// ignoreKeys is the key alphabet of a case in a version: its expected rules, their categories, the
// deprecated IDs they replace, and one rule the case does not expect.
func ignoreKeys(version string, rules []string) (plain, cats []string) {
	for _, r := range rules {
		plain = append(plain, r)
	}
	for _, r := range rules {
		for _, d := range DocDeprecatedFor(version, r) {
			if !contains(plain, d) {
				plain = append(plain, d)
			}
		}
	}
	for _, u := range []string{"ENUM_NO_DELETE", "SERVICE_NO_DELETE"} {
		if !contains(rules, u) {
			plain = append(plain, u)
			break
		}
	}
	for _, c := range Categories {
		for _, r := range rules {
			if cs, _ := DocCategories(version, r); contains(cs, c) {
				cats = append(cats, c)
				break
			}
		}
	}
	return plain, cats
}

// ignoreJob is one (case, configuration) to run under each of its map seeds.
type ignoreJob struct {
	c     *ignoreCase
	cfg   IgnoreConfig
	seeds int // run under map seeds 0 .. seeds-1
}

// ignoreConfigsFor enumerates the configurations of one case in one version.
//
//	use:         all four categories | the narrowest list standing for the expected rules (deprecated
//	             parent where one exists, else the rule ID)
//	except:      (use = all four categories) every key of the alphabet alone; every rule / deprecated ID with an
//	             ignore_only entry of every other rule / deprecated ID for the other path
//	ignore_only: every single entry key x {here, elsewhere, elsewhere+here}; every pair of distinct keys
//	             with different paths (here / elsewhere both ways), pairs of rule / deprecated IDs in
//	             both textual orders (pairs with a category key under the narrow use list only);
//	             single entries also with `ignore: [elsewhere]`
//	map seeds:   configurations without category keys keep every buf-internal ID map within one
//	             bucket, so seeds 0..n-1 (n = number of rule IDs the keys stand for) give each of its
//	             rotations; category keys expand to maps whose order the seed does not control: seed 0
func ignoreConfigsFor(c *ignoreCase, version string) []ignoreJob {
	var rules []string
	for _, r := range distinctRules(c.in) {
		if _, ok := DocCategories(version, r); ok {
			rules = append(rules, r)
		}
	}
	if len(rules) == 0 {
		return nil
	}
	plain, cats := ignoreKeys(version, rules)
	var narrow []string
	for _, r := range rules {
		id := r
		if ds := DocDeprecatedFor(version, r); len(ds) > 0 {
			id = ds[0]
		}
		if !contains(narrow, id) {
			narrow = append(narrow, id)
		}
	}
	uses := [][]string{append([]string(nil), Categories...), narrow}
	isCat := func(k string) bool { _, ok := catLetter[k]; return ok }
	seedsOf := func(keys ...string) int {
		ids := map[string]bool{}
		for _, k := range keys {
			if isCat(k) {
				return 1
			}
			ids[k] = true
			for _, r := range DocExpand(version, k) {
				ids[r] = true
			}
		}
		n := len(ids)
		if n > 8 {
			n = 8
		}
		return n
	}
	var out []ignoreJob
	add := func(use []string, ignore []string, seeds int, entries ...IgnoreEntry) {
		out = append(out, ignoreJob{c: c, seeds: seeds, cfg: IgnoreConfig{Version: version, Use: use, Ignore: ignore, IgnoreOnly: entries}})
	}
	keys := append(append([]string(nil), plain...), cats...)
	// except lists: every key removed from the union (the rules it does not stand for stay active), alone and -
	// rule / deprecated IDs - together with an ignore_only entry of every other such key for the other path
	for _, k := range keys {
		out = append(out, ignoreJob{c: c, seeds: 1, cfg: IgnoreConfig{Version: version, Use: uses[0], Except: []string{k}}})
	}
	for _, k1 := range plain {
		for _, k2 := range plain {
			if k1 != k2 {
				out = append(out, ignoreJob{c: c, seeds: 1, cfg: IgnoreConfig{Version: version, Use: uses[0], Except: []string{k1}, IgnoreOnly: []IgnoreEntry{{k2, []string{c.elsewhere}}}}})
			}
		}
	}
	for ui, use := range uses {
		for _, k := range keys {
			add(use, nil, seedsOf(k), IgnoreEntry{k, []string{c.here}})
			add(use, nil, seedsOf(k), IgnoreEntry{k, []string{c.elsewhere}})
			add(use, nil, seedsOf(k), IgnoreEntry{k, []string{c.elsewhere, c.here}})
			add(use, []string{c.elsewhere}, 1, IgnoreEntry{k, []string{c.here}})
		}
		for i, k1 := range keys {
			for _, k2 := range keys[i+1:] {
				if ui == 0 && (isCat(k1) || isCat(k2)) {
					continue // pairs with a category key: under the narrow use list only
				}
				for _, flip := range []bool{false, true} {
					p1, p2 := c.here, c.elsewhere
					if flip {
						p1, p2 = p2, p1
					}
					e1, e2 := IgnoreEntry{k1, []string{p1}}, IgnoreEntry{k2, []string{p2}}
					add(use, nil, seedsOf(k1, k2), e1, e2)
					if !isCat(k1) && !isCat(k2) {
						add(use, nil, seedsOf(k1, k2), e2, e1)
					}
				}
			}
		}
	}
	return out
}

type ignoreCaseT struct {
	Instance    string               `json:"instance"`
	Config      IgnoreConfig         `json:"config"`
	BufYAML     string               `json:"buf_yaml"`
	MapSeed     int                  `json:"map_seed"`
	Expect      *Expect              `json:"expect,omitempty"`
	ExpectLine  int                  `json:"expect_line,omitempty"`
	Annotations []bufx.Annotation    `json:"annotations"`
	Changed     map[string][2]string `json:"changed_files_old_new,omitempty"`
}

// RunIgnoreConfigs runs the selected cases under their ignore configurations and map seeds.
func RunIgnoreConfigs(r *evid.Run, eng *Engine, perBase map[string][]Instance, baseOrder []string, full bool) {
	cases := selectIgnoreCases(perBase, baseOrder, full)
	type prepared struct {
		p   *Prepared
		err error
	}
	preps := make([]prepared, len(cases))
	r.ParallelFor(len(cases), 0, func(i int) {
		p, err := eng.Prepare(cases[i].in, SurroundNone)
		preps[i] = prepared{p, err}
	})
	prepOf := map[*ignoreCase]*Prepared{}
	var jobs []ignoreJob
	maxSeeds := 1
	for i := range cases {
		if preps[i].err != nil || preps[i].p == nil {
			if preps[i].err != nil {
				r.Incomplete("harness: " + preps[i].err.Error())
			}
			continue
		}
		prepOf[&cases[i]] = preps[i].p
		for _, v := range Versions {
			js := ignoreConfigsFor(&cases[i], v)
			for _, j := range js {
				if j.seeds > maxSeeds {
					maxSeeds = j.seeds
				}
			}
			jobs = append(jobs, js...)
		}
	}
	seeded := mapSeedAvailable()
	if !seeded {
		maxSeeds = 1
	}

	var mu sync.Mutex
	shapeChecks := map[string]int{}
	perVersion := map[string]int{}
	perOp := map[string]int{}
	perSeed := map[string]int{}
	claimed, suppressed, calls := 0, 0, 0
	for seed := 0; seed < maxSeeds && !r.Expired(); seed++ {
		var todo []ignoreJob
		for _, j := range jobs {
			if seed < j.seeds {
				todo = append(todo, j)
			}
		}
		if seeded {
			setMapSeed(uint64(seed), true)
		}
		r.ParallelFor(len(todo), 0, func(i int) {
			j := todo[i]
			p := prepOf[j.c]
			in := j.c.in
			// parsed per seed: the maps inside the parsed configuration are built under the seed as well
			key := j.cfg.String()
			anns, err := eng.BreakingYAML(key, j.cfg.YAML(), p.NewImg, p.OldImg)
			r.Eval(1)
			mk := func(ex *Expect, line int) ignoreCaseT {
				return ignoreCaseT{Instance: in.ID(), Config: j.cfg, BufYAML: j.cfg.YAML(), MapSeed: seed, Expect: ex, ExpectLine: line, Annotations: anns, Changed: p.ChangedFiles()}
			}
			if err != nil {
				if strings.HasPrefix(err.Error(), "config ") {
					r.Incomplete("harness: " + err.Error())
					return
				}
				r.Violate("breaking-error/ignore-config/"+normSig(err.Error()), fmt.Sprintf("Breaking returned a non-annotation error for a valid schema pair under %s: %v", j.cfg, err), mk(nil, 0))
				return
			}
			lc, ls := 0, 0
			local := map[string]int{}
			for ei := range in.Expects {
				ex := in.Expects[ei]
				if !j.cfg.Used(ex.Rule) {
					continue
				}
				if !j.cfg.Active(ex.Rule, ex.File) {
					ls++
					continue
				}
				lc++
				shape := j.cfg.Shape(ex.Rule, ex.File)
				local[shape]++
				line := p.Line(ex)
				kind := Match(ex, line, anns)
				if kind == "" {
					continue
				}
				sig := "unreported-under-ignore-config/" + shape + "/" + kind
				if ex.Role != "" {
					// a role names a structural reason that does not depend on the configuration (same signature as
					// in the main phase, e.g. the known editions LEGACY_REQUIRED finding)
					sig = "unreported/" + ex.Rule + "/" + ex.Role + "/" + kind
				}
				r.Violate(sig,
					fmt.Sprintf("%s under %s (map seed %d): rule %s is active for %q (no ignore entry standing for the rule names a path containing the file), expected an annotation naming %v (line %d), failure: %s; got %d annotation(s) of that rule",
						in.ID(), j.cfg, seed, ex.Rule, ex.File, ex.Names, line, kind, countType(anns, ex.Rule)),
					mk(&ex, line))
			}
			if lc > 0 {
				r.Distinct("ignore-config/" + in.ID() + "/" + j.cfg.String())
			}
			r.SampleEvery(i, 2503, func() any { return mk(firstExpect(in), 0) })
			mu.Lock()
			calls++
			claimed += lc
			suppressed += ls
			for k, v := range local {
				shapeChecks[k] += v
			}
			perVersion[j.cfg.Version] += lc
			perOp[in.Op] += lc
			perSeed[fmt.Sprint(seed)]++
			mu.Unlock()
		})
	}
	if seeded {
		setMapSeed(0, false)
	}
	var ids []string
	for i := range cases {
		ids = append(ids, cases[i].in.ID())
	}
	r.Set("ignore_config_cases", ids)
	r.Set("ignore_config_configurations", len(jobs))
	r.Set("ignore_config_breaking_calls", calls)
	r.Set("ignore_config_breaking_calls_per_map_seed", perSeed)
	r.Set("ignore_config_map_seed_overlay", seeded)
	r.Set("ignore_config_expectation_checks", claimed)
	r.Set("ignore_config_expectations_legitimately_ignored", suppressed)
	r.Set("ignore_config_expectation_checks_per_shape", shapeChecks)
	r.Set("ignore_config_expectation_checks_per_version", perVersion)
	r.Set("ignore_config_expectation_checks_per_operator", perOp)
	if r.Expired() {
		return
	}
	if !seeded {
		r.Incomplete("built without the mapseed runtime overlay (-tags mapseed -overlay overlay/mapseed.json): the ignore configurations ran under one uncontrolled map order each")
	}
	for _, shape := range []string{
		"deprecated-parent@elsewhere+sibling-replacement@here", "other-rule@here", "own-category@elsewhere",
		"other-category@here+own-category@elsewhere", "deprecated-parent@elsewhere", "ignore@elsewhere+other-rule@here",
		"except-sibling-replacement", "except-other-category", "except-other-rule", "except-other-rule+self@elsewhere",
	} {
		if shapeChecks[shape] == 0 {
			r.Incomplete("ignore-config shape never exercised: " + shape)
		}
	}
	if suppressed == 0 {
		r.Incomplete("ignore-config: no expectation was ever legitimately ignored (model never discriminates)")
	}
}
