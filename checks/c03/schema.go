package c03

import (
	"encoding/json"
	"fmt"
	"sort"
	"strings"
)

// ---------------------------------------------------------------------------------------------
// A small protobuf schema DSL: Go structs rendered deterministically to .proto text, with the line
// of every element recorded so that expected annotation positions are computed, not guessed.
// ---------------------------------------------------------------------------------------------

// Opt is one option `Name = Val` (Val is the literal as written in the source).
type Opt struct{ Name, Val string }

// Range is a tag range Lo..Hi inclusive (Hi == Lo: a single number).
type Range struct{ Lo, Hi int }

// Field is a message field, an extension (inside Extend) or a group (Group != nil, proto2).
type Field struct {
	Name  string
	Num   int
	Label string // "", "optional", "required", "repeated"
	Type  string // as written: int32, Color, Outer.Payload, map<string, int32>, or the group type name
	Kind  string // scalar name | "enum" | "message" | "group" | "map"
	Oneof string
	Opts  []Opt
	Group *Message // body of a proto2 group
}

// Extend is an `extend Extendee { ... }` block.
type Extend struct {
	Extendee string
	Fields   []*Field
}

// Message is a message.
type Message struct {
	Name          string
	Opts          []Opt
	Fields        []*Field
	Oneofs        []string // declaration order of the oneofs (members carry Field.Oneof)
	Nested        []*Message
	Enums         []*Enum
	Extends       []*Extend
	Reserved      []Range
	ReservedNames []string
	ExtRanges     []Range
}

// EnumValue is an enum value.
type EnumValue struct {
	Name string
	Num  int
}

// Enum is an enum.
type Enum struct {
	Name          string
	Opts          []Opt
	Values        []*EnumValue
	Reserved      []Range
	ReservedNames []string
}

// Method is an RPC.
type Method struct {
	Name, In, Out    string
	CStream, SStream bool
	Opts             []Opt
}

// Service is a service.
type Service struct {
	Name    string
	Methods []*Method
}

// File is one .proto file. Syntax is "proto2", "proto3" or "editions" (edition 2023).
type File struct {
	Path, Syntax, Package string
	// NoSyntaxDecl: the file has no `syntax = ...;` line at all (legal; means proto2 — only honoured when
	// Syntax is "proto2"). buf tracks this as "syntax unspecified".
	NoSyntaxDecl bool `json:",omitempty"`
	Imports      []string
	Opts         []Opt
	Messages     []*Message
	Enums        []*Enum
	Services     []*Service
	Extends      []*Extend
}

// Schema is a set of files (one module).
type Schema struct{ Files []*File }

// Clone deep-copies a schema.
func (s *Schema) Clone() *Schema {
	b, err := json.Marshal(s)
	if err != nil {
		panic(err)
	}
	var out Schema
	if err := json.Unmarshal(b, &out); err != nil {
		panic(err)
	}
	return &out
}

// File returns the file with the path, or nil.
func (s *Schema) File(path string) *File {
	for _, f := range s.Files {
		if f.Path == path {
			return f
		}
	}
	return nil
}

// RemoveFile deletes a file.
func (s *Schema) RemoveFile(path string) {
	var out []*File
	for _, f := range s.Files {
		if f.Path != path {
			out = append(out, f)
		}
	}
	s.Files = out
}

// Msg finds a message by nested name ("Outer.Mid.Deep") in a file.
func (f *File) Msg(nested string) *Message {
	parts := strings.Split(nested, ".")
	list := f.Messages
	var cur *Message
	for _, p := range parts {
		cur = nil
		for _, m := range list {
			if m.Name == p {
				cur = m
				break
			}
		}
		if cur == nil {
			// group bodies are nested messages too
			return nil
		}
		list = cur.Nested
	}
	return cur
}

// Enum finds an enum by nested name in a file.
func (f *File) Enum(nested string) *Enum {
	i := strings.LastIndex(nested, ".")
	if i < 0 {
		for _, e := range f.Enums {
			if e.Name == nested {
				return e
			}
		}
		return nil
	}
	m := f.Msg(nested[:i])
	if m == nil {
		return nil
	}
	for _, e := range m.Enums {
		if e.Name == nested[i+1:] {
			return e
		}
	}
	return nil
}

// Service finds a service.
func (f *File) Service(name string) *Service {
	for _, s := range f.Services {
		if s.Name == name {
			return s
		}
	}
	return nil
}

// Opt returns the value of an option and whether it is set.
func getOpt(opts []Opt, name string) (string, bool) {
	for _, o := range opts {
		if o.Name == name {
			return o.Val, true
		}
	}
	return "", false
}

func setOpt(opts []Opt, name, val string) []Opt {
	for i := range opts {
		if opts[i].Name == name {
			opts[i].Val = val
			return opts
		}
	}
	return append(opts, Opt{name, val})
}

func delOpt(opts []Opt, name string) []Opt {
	var out []Opt
	for _, o := range opts {
		if o.Name != name {
			out = append(out, o)
		}
	}
	return out
}

// Field returns the field with the number.
func (m *Message) Field(num int) *Field {
	for _, f := range m.Fields {
		if f.Num == num {
			return f
		}
	}
	return nil
}

// FieldByName returns the field with the name.
func (m *Message) FieldByName(name string) *Field {
	for _, f := range m.Fields {
		if f.Name == name {
			return f
		}
	}
	return nil
}

// DeleteField removes the field with the number (and its oneof if it becomes empty).
func (m *Message) DeleteField(num int) {
	var out []*Field
	var oneof string
	for _, f := range m.Fields {
		if f.Num == num {
			oneof = f.Oneof
			continue
		}
		out = append(out, f)
	}
	m.Fields = out
	if oneof != "" {
		left := false
		for _, f := range m.Fields {
			if f.Oneof == oneof {
				left = true
			}
		}
		if !left {
			m.DeleteOneofName(oneof)
		}
	}
}

// DeleteOneofName removes a oneof name from the declaration list.
func (m *Message) DeleteOneofName(name string) {
	var out []string
	for _, o := range m.Oneofs {
		if o != name {
			out = append(out, o)
		}
	}
	m.Oneofs = out
}

// DeleteNested removes a nested message.
func (m *Message) DeleteNested(name string) {
	var out []*Message
	for _, n := range m.Nested {
		if n.Name != name {
			out = append(out, n)
		}
	}
	m.Nested = out
}

// DeleteEnum removes a nested enum.
func (m *Message) DeleteEnum(name string) {
	var out []*Enum
	for _, e := range m.Enums {
		if e.Name != name {
			out = append(out, e)
		}
	}
	m.Enums = out
}

// DeleteMessage removes a top-level message.
func (f *File) DeleteMessage(name string) {
	var out []*Message
	for _, m := range f.Messages {
		if m.Name != name {
			out = append(out, m)
		}
	}
	f.Messages = out
}

// DeleteEnum removes a top-level enum.
func (f *File) DeleteEnum(name string) {
	var out []*Enum
	for _, e := range f.Enums {
		if e.Name != name {
			out = append(out, e)
		}
	}
	f.Enums = out
}

// DeleteService removes a service.
func (f *File) DeleteService(name string) {
	var out []*Service
	for _, s := range f.Services {
		if s.Name != name {
			out = append(out, s)
		}
	}
	f.Services = out
}

// Value returns the enum value with the name.
func (e *Enum) Value(name string) *EnumValue {
	for _, v := range e.Values {
		if v.Name == name {
			return v
		}
	}
	return nil
}

// DeleteValue removes the value with the name.
func (e *Enum) DeleteValue(name string) {
	var out []*EnumValue
	for _, v := range e.Values {
		if v.Name != name {
			out = append(out, v)
		}
	}
	e.Values = out
}

// Method returns the method with the name.
func (s *Service) Method(name string) *Method {
	for _, m := range s.Methods {
		if m.Name == name {
			return m
		}
	}
	return nil
}

// ---------------------------------------------------------------------------------------------
// Walking
// ---------------------------------------------------------------------------------------------

// MsgRef identifies a message of a schema by file path and nested name.
type MsgRef struct {
	File   string
	Nested string
	Depth  int // 0 top-level
	Msg    *Message
}

// EnumRef identifies an enum.
type EnumRef struct {
	File   string
	Nested string
	Depth  int
	Enum   *Enum
}

// Messages lists all messages (not group bodies) in declaration order, parents first.
func (s *Schema) Messages() []MsgRef {
	var out []MsgRef
	var rec func(file string, prefix string, depth int, list []*Message)
	rec = func(file, prefix string, depth int, list []*Message) {
		for _, m := range list {
			name := m.Name
			if prefix != "" {
				name = prefix + "." + m.Name
			}
			out = append(out, MsgRef{file, name, depth, m})
			rec(file, name, depth+1, m.Nested)
		}
	}
	for _, f := range s.Files {
		rec(f.Path, "", 0, f.Messages)
	}
	return out
}

// AllEnums lists all enums.
func (s *Schema) AllEnums() []EnumRef {
	var out []EnumRef
	for _, f := range s.Files {
		for _, e := range f.Enums {
			out = append(out, EnumRef{f.Path, e.Name, 0, e})
		}
	}
	for _, mr := range s.Messages() {
		for _, e := range mr.Msg.Enums {
			out = append(out, EnumRef{mr.File, mr.Nested + "." + e.Name, mr.Depth + 1, e})
		}
	}
	return out
}

// CountInPackage counts the enums, messages (all nesting levels), services and extensions of a package.
func (s *Schema) CountInPackage(pkg string) (enums, messages, services, extensions int) {
	inPkg := map[string]bool{}
	for _, f := range s.Files {
		if f.Package == pkg {
			inPkg[f.Path] = true
			services += len(f.Services)
			for _, x := range f.Extends {
				extensions += len(x.Fields)
			}
		}
	}
	for _, er := range s.AllEnums() {
		if inPkg[er.File] {
			enums++
		}
	}
	for _, mr := range s.Messages() {
		if inPkg[mr.File] {
			messages++
			for _, x := range mr.Msg.Extends {
				extensions += len(x.Fields)
			}
		}
	}
	return
}

// PosClass names the structural position of an element: top, nested1, nested2 (first file),
// second, second-nestedN (any later file).
func (s *Schema) PosClass(file string, depth int) string {
	idx := 0
	for i, f := range s.Files {
		if f.Path == file {
			idx = i
		}
	}
	base := "top"
	if depth > 0 {
		base = fmt.Sprintf("nested%d", depth)
	}
	if idx == 0 {
		return base
	}
	if depth == 0 {
		return "second"
	}
	return "second-" + base
}

// ---------------------------------------------------------------------------------------------
// Rendering
// ---------------------------------------------------------------------------------------------

// Style selects a cosmetic rendering variant. The zero value is the canonical rendering.
type Style struct {
	Comments       int    // 0 none, 1 leading // comments on every element, 2 block + trailing comments
	Indent         string // "" means two spaces
	BlankLines     bool   // blank line between elements
	ReverseImports bool   // imports written in reverse order
	OpenBraceNL    bool   // extra spaces around tokens
	NoSyntaxLine   bool   // proto2 files are written without their (implied) `syntax = "proto2";` line
}

// Rendered is the text of every file plus the 1-based line of every element.
type Rendered struct {
	Files map[string]string
	Lines map[string]map[string]int // file path -> element key -> line
}

// Line returns the line of a key in a file (0 if unknown).
func (r *Rendered) Line(file, key string) int {
	if m := r.Lines[file]; m != nil {
		return m[key]
	}
	return 0
}

// Element keys.
func KeyMsg(nested string) string           { return "msg:" + nested }
func KeyEnum(nested string) string          { return "enum:" + nested }
func KeyField(msg string, num int) string   { return fmt.Sprintf("field:%s#%d", msg, num) }
func KeyEnumValue(enum, name string) string { return "value:" + enum + "." + name }
func KeyService(name string) string         { return "svc:" + name }
func KeyMethod(svc, name string) string     { return "rpc:" + svc + "." + name }
func KeyFileOpt(name string) string         { return "fileopt:" + name }
func KeyMsgOpt(msg, name string) string     { return "msgopt:" + msg + ":" + name }
func KeyEnumOpt(enum, name string) string   { return "enumopt:" + enum + ":" + name }
func KeyExt(scope, extendee string, num int) string {
	return fmt.Sprintf("ext:%s:%s#%d", scope, extendee, num)
}

const (
	KeySyntax  = "syntax"
	KeyPackage = "package"
)

type writer struct {
	sb    strings.Builder
	line  int
	lines map[string]int
	st    Style
	ind   string
	synt  string
	n     int
}

func (w *writer) put(depth int, key, text string) {
	if w.st.BlankLines && w.line > 0 {
		w.sb.WriteString("\n")
		w.line++
	}
	pad := strings.Repeat(w.ind, depth)
	switch w.st.Comments {
	case 1:
		w.n++
		if key != "" || strings.HasSuffix(text, "{") {
			fmt.Fprintf(&w.sb, "%s// comment %d about this element\n", pad, w.n)
			w.line++
		}
	case 2:
		w.n++
		if key != "" {
			fmt.Fprintf(&w.sb, "%s/* block comment %d\n%s   second line */\n", pad, w.n, pad)
			w.line += 2
		}
	}
	w.line++
	if key != "" {
		w.lines[key] = w.line
	}
	w.sb.WriteString(pad)
	if w.st.OpenBraceNL {
		text = strings.ReplaceAll(text, " = ", "  =  ")
	}
	w.sb.WriteString(text)
	if w.st.Comments == 2 && key != "" && !strings.HasSuffix(text, "{") {
		w.sb.WriteString(" // trailing")
	}
	w.sb.WriteString("\n")
}

func optsSuffix(opts []Opt) string {
	if len(opts) == 0 {
		return ""
	}
	parts := make([]string, len(opts))
	for i, o := range opts {
		parts[i] = o.Name + " = " + o.Val
	}
	return " [" + strings.Join(parts, ", ") + "]"
}

func rangesText(rs []Range) string {
	parts := make([]string, len(rs))
	for i, r := range rs {
		if r.Hi == r.Lo {
			parts[i] = fmt.Sprint(r.Lo)
		} else {
			parts[i] = fmt.Sprintf("%d to %d", r.Lo, r.Hi)
		}
	}
	return strings.Join(parts, ", ")
}

func (w *writer) reservedNames(depth int, names []string) {
	if len(names) == 0 {
		return
	}
	parts := make([]string, len(names))
	for i, n := range names {
		if w.synt == "editions" {
			parts[i] = n
		} else {
			parts[i] = `"` + n + `"`
		}
	}
	w.put(depth, "", "reserved "+strings.Join(parts, ", ")+";")
}

func (w *writer) field(depth int, key string, f *Field) {
	label := ""
	if f.Label != "" {
		label = f.Label + " "
	}
	if f.Group != nil {
		w.put(depth, key, fmt.Sprintf("%sgroup %s = %d%s {", label, f.Type, f.Num, optsSuffix(f.Opts)))
		w.messageBody(depth+1, "", f.Group, false)
		w.put(depth, "", "}")
		return
	}
	w.put(depth, key, fmt.Sprintf("%s%s %s = %d%s;", label, f.Type, f.Name, f.Num, optsSuffix(f.Opts)))
}

func (w *writer) enum(depth int, nested string, e *Enum) {
	w.put(depth, KeyEnum(nested), "enum "+e.Name+" {")
	for _, o := range e.Opts {
		w.put(depth+1, KeyEnumOpt(nested, o.Name), "option "+o.Name+" = "+o.Val+";")
	}
	for _, v := range e.Values {
		w.put(depth+1, KeyEnumValue(nested, v.Name), fmt.Sprintf("%s = %d;", v.Name, v.Num))
	}
	if len(e.Reserved) > 0 {
		w.put(depth+1, "", "reserved "+rangesText(e.Reserved)+";")
	}
	w.reservedNames(depth+1, e.ReservedNames)
	w.put(depth, "", "}")
}

func (w *writer) extend(depth int, scope string, x *Extend) {
	if len(x.Fields) == 0 {
		return
	}
	w.put(depth, "", "extend "+x.Extendee+" {")
	for _, f := range x.Fields {
		w.field(depth+1, KeyExt(scope, x.Extendee, f.Num), f)
	}
	w.put(depth, "", "}")
}

// messageBody renders the inside of a message; keyed is false for group bodies (their elements get no keys).
func (w *writer) messageBody(depth int, nested string, m *Message, keyed bool) {
	key := func(k string) string {
		if keyed {
			return k
		}
		return ""
	}
	for _, o := range m.Opts {
		w.put(depth, key(KeyMsgOpt(nested, o.Name)), "option "+o.Name+" = "+o.Val+";")
	}
	done := map[string]bool{}
	for _, f := range m.Fields {
		if f.Oneof == "" {
			w.field(depth, key(KeyField(nested, f.Num)), f)
			continue
		}
		if done[f.Oneof] {
			continue
		}
		done[f.Oneof] = true
		w.put(depth, key("oneof:"+nested+"."+f.Oneof), "oneof "+f.Oneof+" {")
		for _, g := range m.Fields {
			if g.Oneof == f.Oneof {
				w.field(depth+1, key(KeyField(nested, g.Num)), g)
			}
		}
		w.put(depth, "", "}")
	}
	if len(m.Reserved) > 0 {
		w.put(depth, "", "reserved "+rangesText(m.Reserved)+";")
	}
	w.reservedNames(depth, m.ReservedNames)
	if len(m.ExtRanges) > 0 {
		w.put(depth, "", "extensions "+rangesText(m.ExtRanges)+";")
	}
	for _, e := range m.Enums {
		w.enum(depth, nested+"."+e.Name, e)
	}
	for _, n := range m.Nested {
		w.message(depth, nested+"."+n.Name, n)
	}
	for _, x := range m.Extends {
		w.extend(depth, nested, x)
	}
}

func (w *writer) message(depth int, nested string, m *Message) {
	w.put(depth, KeyMsg(nested), "message "+m.Name+" {")
	w.messageBody(depth+1, nested, m, true)
	w.put(depth, "", "}")
}

// RenderFile renders one file.
func RenderFile(f *File, st Style) (string, map[string]int) {
	w := &writer{lines: map[string]int{}, st: st, ind: st.Indent, synt: f.Syntax}
	if w.ind == "" {
		w.ind = "  "
	}
	// the syntax line never gets a comment before it in style 2 (keeps the file header simple)
	switch {
	case f.Syntax == "editions":
		w.put(0, KeySyntax, `edition = "2023";`)
	case f.Syntax == "proto2" && (f.NoSyntaxDecl || st.NoSyntaxLine):
		// no syntax declaration: the file is proto2 by default (no line, no key)
	default:
		w.put(0, KeySyntax, `syntax = "`+f.Syntax+`";`)
	}
	if f.Package != "" {
		w.put(0, KeyPackage, "package "+f.Package+";")
	}
	imports := append([]string(nil), f.Imports...)
	if st.ReverseImports {
		sort.Sort(sort.Reverse(sort.StringSlice(imports)))
	}
	for _, imp := range imports {
		w.put(0, "", `import "`+imp+`";`)
	}
	for _, o := range f.Opts {
		w.put(0, KeyFileOpt(o.Name), "option "+o.Name+" = "+o.Val+";")
	}
	for _, e := range f.Enums {
		w.enum(0, e.Name, e)
	}
	for _, m := range f.Messages {
		w.message(0, m.Name, m)
	}
	for _, x := range f.Extends {
		w.extend(0, "", x)
	}
	for _, s := range f.Services {
		w.put(0, KeyService(s.Name), "service "+s.Name+" {")
		for _, m := range s.Methods {
			in, out := m.In, m.Out
			if m.CStream {
				in = "stream " + in
			}
			if m.SStream {
				out = "stream " + out
			}
			text := fmt.Sprintf("rpc %s(%s) returns (%s)", m.Name, in, out)
			if len(m.Opts) == 0 {
				text += ";"
			} else {
				parts := make([]string, len(m.Opts))
				for i, o := range m.Opts {
					parts[i] = "option " + o.Name + " = " + o.Val + ";"
				}
				text += " { " + strings.Join(parts, " ") + " }"
			}
			w.put(1, KeyMethod(s.Name, m.Name), text)
		}
		w.put(0, "", "}")
	}
	return w.sb.String(), w.lines
}

// Render renders every file of the schema.
func (s *Schema) Render(st Style) *Rendered {
	r := &Rendered{Files: map[string]string{}, Lines: map[string]map[string]int{}}
	for _, f := range s.Files {
		text, lines := RenderFile(f, st)
		r.Files[f.Path] = text
		r.Lines[f.Path] = lines
	}
	return r
}

// Text is the canonical text of the whole schema (cache key, replay data).
func (r *Rendered) Text() string {
	paths := make([]string, 0, len(r.Files))
	for p := range r.Files {
		paths = append(paths, p)
	}
	sort.Strings(paths)
	var sb strings.Builder
	for _, p := range paths {
		sb.WriteString("--- " + p + "\n" + r.Files[p])
	}
	return sb.String()
}
