package c04

import (
	"fmt"
	"strings"

	"github.com/bufbuild/bufverif/checks/c03"
)

// ---------------------------------------------------------------------------------------------
// Option profiles of clause (a) (third strengthening round, seed C04/r3-m2).
//
// The FILE_SAME_* / FIELD_SAME_* / ... rules compare the value of one option on the previous side
// with the value of the same option on the current side. The bases of the other phases set two file
// options (go_package, java_package) and hardly any element option, so a handler that reads the
// wrong accessor on one side compared "unset" with "unset" and stayed silent. Here a small schema is
// decorated with option PROFILES - every observed option set at once, each to a value that no other
// option of the same element has; every option alone; explicit defaults - and each profile runs the
// clause (a) comparisons: identity (two builds), re-renderings (incl. the options of every element
// written in reverse order) and index-shifting additive steps.
// ---------------------------------------------------------------------------------------------

// optSpec is one option of one element class. val: a non-default value (a function of a salt so that the
// values of different options / files differ); def: the explicit default ("" = none to write).
type optSpec struct {
	name string
	val  func(salt string) string
	def  string
	// syntaxes the option may be written in ("" = all)
	only string
}

func strVal(prefix string) func(string) string {
	return func(salt string) string { return `"` + prefix + salt + `"` }
}

func lit(v string) func(string) string { return func(string) string { return v } }

// optFileSpecs: every file option a FILE_SAME_* rule observes (plus deprecated).
var optFileSpecs = []optSpec{
	{"java_package", strVal("com.acme.java."), "", ""},
	{"java_outer_classname", strVal("OuterClass"), "", ""},
	{"java_multiple_files", lit("true"), "false", ""},
	{"java_string_check_utf8", lit("true"), "false", "proto2,proto3"},
	{"java_generic_services", lit("true"), "false", ""},
	{"optimize_for", lit("CODE_SIZE"), "SPEED", ""},
	{"go_package", strVal("example.com/acme/go/"), "", ""},
	{"cc_generic_services", lit("true"), "false", ""},
	{"py_generic_services", lit("true"), "false", ""},
	{"cc_enable_arenas", lit("false"), "true", ""},
	{"objc_class_prefix", strVal("OBJ"), "", ""},
	{"csharp_namespace", strVal("Acme.CSharp."), "", ""},
	{"swift_prefix", strVal("SWF"), "", ""},
	{"php_class_prefix", strVal("PhpPrefix"), "", ""},
	{"php_namespace", strVal(`Acme\\Php\\Ns`), "", ""},
	{"php_metadata_namespace", strVal(`Acme\\Php\\Meta`), "", ""},
	{"ruby_package", strVal("Acme::Ruby::"), "", ""},
	{"deprecated", lit("true"), "false", ""},
}

// optFeatureSpecs: edition 2023 features, written at file level (the default of everything below).
var optFeatureSpecs = []optSpec{
	{"features.field_presence", lit("IMPLICIT"), "EXPLICIT", "editions"},
	{"features.enum_type", lit("CLOSED"), "OPEN", "editions"},
	{"features.repeated_field_encoding", lit("EXPANDED"), "PACKED", "editions"},
	{"features.utf8_validation", lit("NONE"), "VERIFY", "editions"},
	{"features.message_encoding", lit("DELIMITED"), "LENGTH_PREFIXED", "editions"},
	{"features.json_format", lit("LEGACY_BEST_EFFORT"), "ALLOW", "editions"},
}

func (o optSpec) applies(syntax string) bool {
	return o.only == "" || strings.Contains(","+o.only+",", ","+syntax+",")
}

// optBase is the small schema: two files of one package, one of another; typed fields for every field option.
func optBase(syntax string) *c03.Schema {
	sg := ""
	if syntax == "proto2" {
		sg = "optional"
	}
	f := func(name string, num int, typ, kind string) *c03.Field {
		return &c03.Field{Name: name, Num: num, Label: sg, Type: typ, Kind: kind}
	}
	rep := func(name string, num int, typ string) *c03.Field {
		return &c03.Field{Name: name, Num: num, Label: "repeated", Type: typ, Kind: typ}
	}
	kind := func(name string) *c03.Enum {
		p := strings.ToUpper(name)
		return &c03.Enum{Name: name, Values: []*c03.EnumValue{{Name: p + "_UNSPECIFIED", Num: 0}, {Name: p + "_ONE", Num: 1}, {Name: p + "_TWO", Num: 2}}}
	}
	doc := func(name, enum string) *c03.Message {
		return &c03.Message{Name: name, Fields: []*c03.Field{
			f("title", 1, "string", "string"), f("big", 2, "int64", "int64"), rep("nums", 3, "int32"), f("kind", 4, enum, "enum"),
			f("child", 5, name, "message"), f("raw", 6, "bytes", "bytes"), rep("names", 7, "string"),
			{Name: "attrs", Num: 8, Type: "map<string, string>", Kind: "map"},
			{Name: "s", Num: 9, Type: "string", Kind: "string", Oneof: "choice"}, {Name: "i", Num: 10, Type: "int64", Kind: "int64", Oneof: "choice"},
			f("ufixed", 11, "fixed64", "fixed64"),
		}, Oneofs: []string{"choice"},
			Nested: []*c03.Message{{Name: "Part", Fields: []*c03.Field{f("label", 1, "string", "string"), f("count", 2, "uint64", "uint64")}}},
		}
	}
	a := &c03.File{Path: "opt/a.proto", Syntax: syntax, Package: "opt.v1",
		Enums: []*c03.Enum{kind("Kind")}, Messages: []*c03.Message{doc("Doc", "Kind")},
		Services: []*c03.Service{{Name: "DocSvc", Methods: []*c03.Method{{Name: "Get", In: "Doc", Out: "Doc"}, {Name: "List", In: "Doc", Out: "Doc", SStream: true}}}}}
	b := &c03.File{Path: "opt/b.proto", Syntax: syntax, Package: "opt.v1",
		Enums: []*c03.Enum{kind("Sort")}, Messages: []*c03.Message{doc("Other", "Sort")},
		Services: []*c03.Service{{Name: "OtherSvc", Methods: []*c03.Method{{Name: "Get", In: "Other", Out: "Other"}}}}}
	c := &c03.File{Path: "opt/other/c.proto", Syntax: syntax, Package: "opt.other.v1",
		Enums: []*c03.Enum{kind("Tone")}, Messages: []*c03.Message{doc("Third", "Tone")}}
	return &c03.Schema{Files: []*c03.File{a, b, c}}
}

// optProfile decorates the base.
type optProfile struct {
	name    string
	applies func(syntax string) bool
	apply   func(s *c03.Schema, syntax string)
}

func eachMessage(s *c03.Schema, fn func(file string, m *c03.Message)) {
	for _, mr := range s.Messages() {
		fn(mr.File, mr.Msg)
	}
}

// fieldOptsFor lists the non-default options a field may carry in the syntax (all distinct per field where they are strings).
func fieldOptsFor(syntax string, f *c03.Field, salt string) []c03.Opt {
	var out []c03.Opt
	out = append(out, c03.Opt{Name: "deprecated", Val: "true"})
	out = append(out, c03.Opt{Name: "json_name", Val: `"json` + salt + strings.ReplaceAll(f.Name, "_", "") + `"`})
	switch f.Kind {
	case "string":
		if f.Label != "repeated" {
			out = append(out, c03.Opt{Name: "ctype", Val: "CORD"})
		} else {
			out = append(out, c03.Opt{Name: "ctype", Val: "STRING_PIECE"})
		}
	case "bytes":
		out = append(out, c03.Opt{Name: "ctype", Val: "CORD"})
	case "int64", "uint64", "fixed64":
		out = append(out, c03.Opt{Name: "jstype", Val: "JS_STRING"})
	case "message":
		if f.Oneof == "" {
			out = append(out, c03.Opt{Name: "lazy", Val: "true"})
		}
	}
	if f.Label == "repeated" && f.Kind == "int32" && syntax != "editions" {
		// the non-default encoding of the syntax
		if syntax == "proto2" {
			out = append(out, c03.Opt{Name: "packed", Val: "true"})
		} else {
			out = append(out, c03.Opt{Name: "packed", Val: "false"})
		}
	}
	if f.Kind != "map" {
		out = append(out, c03.Opt{Name: "debug_redact", Val: "true"})
	}
	return out
}

func optProfiles() []optProfile {
	all := func(string) bool { return true }
	var out []optProfile
	out = append(out, optProfile{"none", all, func(*c03.Schema, string) {}})
	// ---- everything at once, all values distinct
	out = append(out, optProfile{"all-distinct", all, func(s *c03.Schema, syntax string) {
		for fi, f := range s.Files {
			for oi, sp := range append(append([]optSpec(nil), optFileSpecs...), optFeatureSpecs...) {
				// (a file-wide IMPLICIT presence does not compile next to closed enums)
				// and a file-wide DELIMITED encoding not next to lazy fields)
				if sp.applies(syntax) && sp.name != "features.field_presence" && sp.name != "features.message_encoding" {
					f.Opts = append(f.Opts, c03.Opt{Name: sp.name, Val: sp.val(fmt.Sprintf("F%dO%d", fi, oi))})
				}
			}
			for _, e := range f.Enums {
				e.Opts = append(e.Opts, c03.Opt{Name: "deprecated", Val: "true"})
			}
			for si, svc := range f.Services {
				for mi, m := range svc.Methods {
					m.Opts = append(m.Opts, c03.Opt{Name: "deprecated", Val: "true"},
						c03.Opt{Name: "idempotency_level", Val: []string{"IDEMPOTENT", "NO_SIDE_EFFECTS"}[(si+mi)%2]})
				}
			}
		}
		eachMessage(s, func(file string, m *c03.Message) {
			m.Opts = append(m.Opts, c03.Opt{Name: "deprecated", Val: "true"}, c03.Opt{Name: "no_standard_descriptor_accessor", Val: "true"})
			for _, f := range m.Fields {
				f.Opts = append(f.Opts, fieldOptsFor(syntax, f, m.Name)...)
			}
		})
	}})
	// ---- every file option alone on the first file (non-default value; explicit default)
	for _, sp := range append(append([]optSpec(nil), optFileSpecs...), optFeatureSpecs...) {
		sp := sp
		out = append(out, optProfile{"file-option-alone:" + sp.name, sp.applies, func(s *c03.Schema, _ string) {
			s.Files[0].Opts = append(s.Files[0].Opts, c03.Opt{Name: sp.name, Val: sp.val("Alone")})
		}})
		if sp.def != "" {
			out = append(out, optProfile{"file-option-explicit-default:" + sp.name, sp.applies, func(s *c03.Schema, _ string) {
				s.Files[0].Opts = append(s.Files[0].Opts, c03.Opt{Name: sp.name, Val: sp.def})
			}})
		}
	}
	// ---- every field option alone (on every field of the first message that can carry it)
	fieldAlone := func(name, val string, can func(syntax string, f *c03.Field) bool) optProfile {
		return optProfile{"field-option-alone:" + name + "=" + val, func(syntax string) bool {
			for _, f := range optBase(syntax).Files[0].Messages[0].Fields {
				if can(syntax, f) {
					return true
				}
			}
			return false
		}, func(s *c03.Schema, syntax string) {
			for _, f := range s.Files[0].Messages[0].Fields {
				if can(syntax, f) {
					f.Opts = append(f.Opts, c03.Opt{Name: name, Val: val})
				}
			}
		}}
	}
	str := func(_ string, f *c03.Field) bool { return f.Kind == "string" || f.Kind == "bytes" }
	i64 := func(_ string, f *c03.Field) bool { return f.Kind == "int64" || f.Kind == "fixed64" }
	any := func(_ string, f *c03.Field) bool { return true }
	notMap := func(_ string, f *c03.Field) bool { return f.Kind != "map" }
	packable := func(syntax string, f *c03.Field) bool {
		return syntax != "editions" && f.Label == "repeated" && f.Kind == "int32"
	}
	lazyable := func(_ string, f *c03.Field) bool { return f.Kind == "message" }
	edition := func(pred func(f *c03.Field) bool) func(string, *c03.Field) bool {
		return func(syntax string, f *c03.Field) bool { return syntax == "editions" && pred(f) }
	}
	out = append(out,
		fieldAlone("ctype", "CORD", str), fieldAlone("ctype", "STRING_PIECE", str), fieldAlone("ctype", "STRING", str),
		fieldAlone("jstype", "JS_STRING", i64), fieldAlone("jstype", "JS_NUMBER", i64), fieldAlone("jstype", "JS_NORMAL", i64),
		fieldAlone("json_name", `"customJson"`, func(_ string, f *c03.Field) bool { return f.Name == "title" }),
		fieldAlone("json_name", `"big"`, func(_ string, f *c03.Field) bool { return f.Name == "big" }), // the default spelled out
		fieldAlone("packed", "true", packable), fieldAlone("packed", "false", packable),
		fieldAlone("lazy", "true", lazyable), fieldAlone("unverified_lazy", "true", lazyable),
		fieldAlone("deprecated", "true", any), fieldAlone("deprecated", "false", any), fieldAlone("debug_redact", "true", notMap),
		fieldAlone("features.field_presence", "IMPLICIT", edition(func(f *c03.Field) bool {
			return f.Label == "" && f.Oneof == "" && f.Kind != "map" && f.Kind != "message"
		})),
		fieldAlone("features.field_presence", "LEGACY_REQUIRED", edition(func(f *c03.Field) bool { return f.Label == "" && f.Oneof == "" && f.Kind != "map" })),
		fieldAlone("features.repeated_field_encoding", "EXPANDED", edition(func(f *c03.Field) bool { return f.Label == "repeated" && f.Kind == "int32" })),
		fieldAlone("features.utf8_validation", "NONE", edition(func(f *c03.Field) bool { return f.Kind == "string" || f.Kind == "map" })),
		fieldAlone("features.message_encoding", "DELIMITED", edition(func(f *c03.Field) bool { return f.Kind == "message" })),
	)
	// ---- message / enum / method options alone
	msgAlone := func(name, val string, applies func(string) bool) optProfile {
		return optProfile{"message-option-alone:" + name + "=" + val, applies, func(s *c03.Schema, _ string) {
			eachMessage(s, func(file string, m *c03.Message) {
				if file == s.Files[0].Path {
					m.Opts = append(m.Opts, c03.Opt{Name: name, Val: val})
				}
			})
		}}
	}
	editionsOnly := func(syntax string) bool { return syntax == "editions" }
	out = append(out,
		msgAlone("deprecated", "true", all), msgAlone("no_standard_descriptor_accessor", "true", all), msgAlone("no_standard_descriptor_accessor", "false", all),
		msgAlone("features.json_format", "LEGACY_BEST_EFFORT", editionsOnly),
		optProfile{"enum-option-alone:deprecated=true", all, func(s *c03.Schema, _ string) {
			s.Files[0].Enums[0].Opts = append(s.Files[0].Enums[0].Opts, c03.Opt{Name: "deprecated", Val: "true"})
		}},
		optProfile{"enum-option-alone:allow_alias=true", all, func(s *c03.Schema, _ string) {
			e := s.Files[0].Enums[0]
			e.Opts = append(e.Opts, c03.Opt{Name: "allow_alias", Val: "true"})
			e.Values = append(e.Values, &c03.EnumValue{Name: strings.ToUpper(e.Name) + "_UNO", Num: 1})
		}},
		optProfile{"enum-option-alone:features.enum_type=CLOSED", editionsOnly, func(s *c03.Schema, _ string) {
			s.Files[0].Enums[0].Opts = append(s.Files[0].Enums[0].Opts, c03.Opt{Name: "features.enum_type", Val: "CLOSED"})
		}},
	)
	for _, lv := range []string{"IDEMPOTENT", "NO_SIDE_EFFECTS", "IDEMPOTENCY_UNKNOWN"} {
		lv := lv
		out = append(out, optProfile{"method-option-alone:idempotency_level=" + lv, all, func(s *c03.Schema, _ string) {
			m := s.Files[0].Services[0].Methods[0]
			m.Opts = append(m.Opts, c03.Opt{Name: "idempotency_level", Val: lv})
		}})
	}
	return out
}

// reverseOpts writes the options of every element in reverse order (a cosmetic change).
func reverseOpts(s *c03.Schema) *c03.Schema {
	n := s.Clone()
	rev := func(o []c03.Opt) {
		for i, j := 0, len(o)-1; i < j; i, j = i+1, j-1 {
			o[i], o[j] = o[j], o[i]
		}
	}
	for _, f := range n.Files {
		rev(f.Opts)
		for _, e := range f.Enums {
			rev(e.Opts)
		}
		for _, svc := range f.Services {
			for _, m := range svc.Methods {
				rev(m.Opts)
			}
		}
	}
	eachMessage(n, func(_ string, m *c03.Message) {
		rev(m.Opts)
		for _, f := range m.Fields {
			rev(f.Opts)
		}
		for _, e := range m.Enums {
			rev(e.Opts)
		}
	})
	return n
}

// optAdditive are the index-shifting additive steps run under every profile.
var optAdditive = []struct {
	name  string
	apply func(s *c03.Schema, syntax string)
}{
	{"new-message-first", func(s *c03.Schema, syntax string) {
		f := s.Files[0]
		f.Messages = append([]*c03.Message{{Name: "AddedFirst", Fields: []*c03.Field{{Name: "added_tags", Num: 1, Label: "repeated", Type: "string", Kind: "string"}}}}, f.Messages...)
	}},
	{"new-field-first", func(s *c03.Schema, syntax string) {
		m := s.Files[0].Messages[0]
		m.Fields = append([]*c03.Field{{Name: "added_first", Num: 900, Label: "repeated", Type: "string", Kind: "string"}}, m.Fields...)
	}},
	{"new-file-sorting-first", func(s *c03.Schema, syntax string) {
		s.Files = append([]*c03.File{{Path: "opt/a_0_added.proto", Syntax: syntax, Package: s.Files[0].Package,
			Enums: []*c03.Enum{{Name: "AddedKind", Values: []*c03.EnumValue{{Name: "ADDED_KIND_UNSPECIFIED", Num: 0}}}}}}, s.Files...)
	}},
}

// runOptions runs the option profiles.
func (x *runner) runOptions(full bool, cats, unions []c03.Config) {
	r := x.r
	cfgs := unions
	if full {
		cfgs = append(append([]c03.Config(nil), unions...), cats...)
	}
	everything := c03.Style{Comments: 2, Indent: "   ", BlankLines: true, ReverseImports: true, OpenBraceNL: true}
	type job struct {
		syntax string
		p      optProfile
	}
	var jobs []job
	for _, syntax := range []string{"proto3", "proto2", "editions"} {
		for _, p := range optProfiles() {
			if p.applies(syntax) {
				jobs = append(jobs, job{syntax, p})
			}
		}
	}
	r.Set("option_profiles", len(jobs))
	r.ParallelFor(len(jobs), 0, func(i int) {
		j := jobs[i]
		s := optBase(j.syntax)
		j.p.apply(s, j.syntax)
		id := "options/" + j.syntax + "/" + j.p.name
		baseR := s.Render(c03.Style{})
		img1, err1 := x.eng.Image(baseR)
		img2, err2 := x.eng.Image(baseR)
		if err1 != nil || err2 != nil {
			r.Incomplete(fmt.Sprintf("harness: %s does not build: %v %v", id, err1, err2))
			return
		}
		x.silent("identity-options", j.p.name, id+":identity", baseR, baseR, img1, img2, cfgs)
		r.Distinct("identity-options/" + id)
		// re-renderings, both directions
		for _, v := range []struct {
			name string
			r    *c03.Rendered
		}{{"everything", s.Render(everything)}, {"options-reversed", reverseOpts(s).Render(c03.Style{})}, {"line-comments", s.Render(c03.Style{Comments: 1})}} {
			if v.name == "line-comments" && !full {
				continue
			}
			img, err := x.eng.Image(v.r)
			if err != nil {
				r.Incomplete(fmt.Sprintf("harness: %s rendering %s does not build: %v", id, v.name, err))
				return
			}
			if v.r.Text() == baseR.Text() {
				continue // a profile without two options on one element: reversing changes nothing
			}
			x.silent("cosmetic-options", j.p.name, id+":canonical->"+v.name, baseR, v.r, img1, img, cfgs)
			x.silent("cosmetic-options", j.p.name, id+":"+v.name+"->canonical", v.r, baseR, img, img2, cfgs)
			r.Distinct("cosmetic-options/" + id + ":" + v.name)
		}
		for _, op := range optAdditive {
			if !full && j.p.name != "all-distinct" && j.p.name != "none" {
				break // quick: the additive steps under the two profiles that decorate every element / nothing
			}
			n := s.Clone()
			op.apply(n, j.syntax)
			nR := n.Render(c03.Style{})
			img, err := x.eng.Image(nR)
			if err != nil {
				r.Incomplete(fmt.Sprintf("harness: %s + %s does not build: %v", id, op.name, err))
				return
			}
			x.silent("additive-options", op.name, id+":"+op.name, baseR, nR, img1, img, cfgs)
			r.Distinct("additive-options/" + id + ":" + op.name)
		}
		r.SampleEvery(i, 37, func() any {
			return caseT{Kind: "identity-options", Pair: id, Config: "unions", Changed: map[string][2]string{s.Files[0].Path: {baseR.Files[s.Files[0].Path], baseR.Files[s.Files[0].Path]}}}
		})
	})
}
