package c04

import (
	"fmt"
	"sort"
	"strings"

	"github.com/bufbuild/bufverif/checks/c03"
)

// ---------------------------------------------------------------------------------------------
// File-set histories of clause (a) (third strengthening round, seed C04/r3-m1).
//
// The package-scoped rules look at a package through views that are accumulated over all files of
// the package (bufprotosource.PackageToNestedNameToMessage / ...Enum / ...Extension,
// PackageToNameToService). Everywhere else in this check a file that is added to a package declares
// a message and an enum, so a file that contributes NOTHING to one of those views (a service-only,
// enum-only, extension-only or completely empty file) never took part in an accumulation. Here the
// module is a set of up to three small files (slots 1..3, path order = slot order) whose content
// shape - which of message / enum / service / extension the file declares - and package are
// enumerated independently, and every pair (old, new) of file sets with old a proper non-empty
// subset of new is compared: these are exactly the pairs (S_j, S_i) of every history that adds the
// files one at a time in any order, so the added files sort first, in the middle and last.
// ---------------------------------------------------------------------------------------------

// fsShape says which kinds of top-level element a file declares.
type fsShape struct{ M, E, S, X bool }

func (s fsShape) String() string {
	out := ""
	for _, p := range []struct {
		on bool
		l  string
	}{{s.M, "M"}, {s.E, "E"}, {s.S, "S"}, {s.X, "X"}} {
		if p.on {
			out += p.l
		}
	}
	if out == "" {
		return "none"
	}
	return out
}

func (s fsShape) has(kind byte) bool {
	switch kind {
	case 'M':
		return s.M
	case 'E':
		return s.E
	case 'S':
		return s.S
	}
	return s.X
}

// fsShapes: nothing, each kind alone, everything (so that for every kind there are files with only it, with it among
// others, without it but not empty, and empty); thorough adds messages + enums and services + extensions.
func fsShapes(full bool) []fsShape {
	out := []fsShape{{}, {M: true}, {E: true}, {S: true}, {X: true}, {M: true, E: true, S: true, X: true}}
	if full {
		out = append(out, fsShape{M: true, E: true}, fsShape{S: true, X: true})
	}
	return out
}

const fsAnchorPath = "fs/anchor.proto"

// fsAnchor is always present (a package of its own): the message that services use and extensions extend.
func fsAnchor() *c03.File {
	return &c03.File{Path: fsAnchorPath, Syntax: "proto2", Package: "fs.anchor.v1",
		Messages: []*c03.Message{{Name: "Anchor", Fields: []*c03.Field{{Name: "id", Num: 1, Label: "optional", Type: "int32", Kind: "int32"}},
			ExtRanges: []c03.Range{{Lo: 100, Hi: 999}}}}}
}

func fsPackage(letter byte) string { return "fs." + string(letter) + ".v1" }

// fsFile is the file of a slot (1..3). linkTo > 0: the file also imports the file of that slot (no use needed:
// the image is in dependency order, so the import moves the other file in front of this one).
func fsFile(slot int, pkg byte, sh fsShape, linkTo int) *c03.File {
	tag := fmt.Sprint(slot)
	f := &c03.File{Path: fmt.Sprintf("fs/f%d.proto", slot), Syntax: "proto2", Package: fsPackage(pkg)}
	if sh.S || sh.X {
		f.Imports = append(f.Imports, fsAnchorPath)
	}
	if linkTo > 0 {
		f.Imports = append(f.Imports, fmt.Sprintf("fs/f%d.proto", linkTo))
	}
	id := func() *c03.Field {
		return &c03.Field{Name: "id", Num: 1, Label: "optional", Type: "int32", Kind: "int32"}
	}
	if sh.M {
		f.Messages = []*c03.Message{{Name: "Msg" + tag, Fields: []*c03.Field{id()},
			Nested: []*c03.Message{{Name: "Inner", Fields: []*c03.Field{id()}}},
			Enums:  []*c03.Enum{{Name: "InnerKind", Values: []*c03.EnumValue{{Name: "INNER_KIND_" + tag + "_ZERO", Num: 0}}}}}}
	}
	if sh.E {
		f.Enums = []*c03.Enum{{Name: "Kind" + tag, Values: []*c03.EnumValue{{Name: "KIND_" + tag + "_ZERO", Num: 0}, {Name: "KIND_" + tag + "_ONE", Num: 1}}}}
	}
	if sh.S {
		f.Services = []*c03.Service{{Name: "Svc" + tag, Methods: []*c03.Method{{Name: "Get", In: "fs.anchor.v1.Anchor", Out: "fs.anchor.v1.Anchor"}}}}
	}
	if sh.X {
		f.Extends = []*c03.Extend{{Extendee: "fs.anchor.v1.Anchor", Fields: []*c03.Field{
			{Name: "ext" + tag, Num: 100 + slot, Label: "optional", Type: "int32", Kind: "int32"}}}}
	}
	return f
}

// fsWorld assigns a shape and a package to every slot.
type fsWorld struct {
	shapes [3]fsShape
	pkgs   string // one letter per slot
	link   bool   // slot 1 imports slot 3 (image order 3, 1, 2 instead of 1, 2, 3) whenever both are present
}

func (w fsWorld) schema(set int) *c03.Schema {
	s := &c03.Schema{Files: []*c03.File{fsAnchor()}}
	for i := 0; i < 3; i++ {
		if set&(1<<i) == 0 {
			continue
		}
		linkTo := 0
		if w.link && i == 0 && set&4 != 0 {
			linkTo = 3
		}
		s.Files = append(s.Files, fsFile(i+1, w.pkgs[i], w.shapes[i], linkTo))
	}
	return s
}

func (w fsWorld) name(set int) string {
	parts := []string{}
	for i := 0; i < 3; i++ {
		if set&(1<<i) == 0 {
			parts = append(parts, "-")
			continue
		}
		p := fmt.Sprintf("%s@%c", w.shapes[i], w.pkgs[i])
		if w.link && i == 0 && set&4 != 0 {
			p += ">f3"
		}
		parts = append(parts, p)
	}
	return "[" + strings.Join(parts, " ") + "]"
}

type fsPair struct {
	w        fsWorld
	old, new int
}

// runFileSets runs the file-set histories.
func (x *runner) runFileSets(full bool, cats, unions []c03.Config) {
	r := x.r
	shapes := fsShapes(full)
	// package patterns: one package; the odd file out in another package at each slot
	pats := []string{"ppp", "pqp"}
	if full {
		pats = []string{"ppp", "pqp", "ppq", "qpp"}
	}
	var worlds []fsWorld
	for _, pat := range pats {
		for _, a := range shapes {
			for _, b := range shapes {
				for _, c := range shapes {
					worlds = append(worlds, fsWorld{[3]fsShape{a, b, c}, pat, false})
					if full && pat == "ppp" {
						worlds = append(worlds, fsWorld{[3]fsShape{a, b, c}, pat, true})
					}
				}
			}
		}
	}
	// every (old, new) with old a proper non-empty subset of new, deduplicated by what the two sets contain
	seen := map[string]bool{}
	var pairs []fsPair
	for _, w := range worlds {
		for nw := 1; nw < 8; nw++ {
			for old := 1; old < 8; old++ {
				if old == nw || old&nw != old {
					continue
				}
				key := w.name(old) + "=>" + w.name(nw)
				if seen[key] {
					continue
				}
				seen[key] = true
				pairs = append(pairs, fsPair{w, old, nw})
			}
		}
	}
	sort.SliceStable(pairs, func(i, j int) bool { return pairs[i].w.name(pairs[i].new) < pairs[j].w.name(pairs[j].new) })
	r.Set("file_sets_shapes", len(shapes))
	r.Set("file_sets_package_patterns", pats)
	r.Set("file_sets_worlds", len(worlds))
	all := append(append([]c03.Config(nil), unions...), cats...)
	r.ParallelFor(len(pairs), 0, func(i int) {
		p := pairs[i]
		oldS, newS := p.w.schema(p.old), p.w.schema(p.new)
		oldR, newR := oldS.Render(c03.Style{}), newS.Render(c03.Style{})
		oldImg, err1 := x.eng.CachedImage(oldR)
		newImg, err2 := x.eng.CachedImage(newR)
		if err1 != nil || err2 != nil {
			r.Incomplete(fmt.Sprintf("harness: file set %s / %s does not build: %v %v", p.w.name(p.old), p.w.name(p.new), err1, err2))
			return
		}
		// quick: the v2 union (every rule of every category at once); the pairs that add two files at once to a
		// single file also under the unions of the older versions and each v2 category; thorough: the three unions, and
		// every config for those pairs
		cfgs := unions[2:]
		switch {
		case p.new == 7 && p.old&(p.old-1) == 0 && full:
			cfgs = all
		case p.new == 7 && p.old&(p.old-1) == 0:
			cfgs = append(append([]c03.Config(nil), unions...), cats[8:]...)
		case full:
			cfgs = unions
		}
		pair := "file-sets/" + p.w.name(p.old) + "=>" + p.w.name(p.new)
		x.silent("additive-file-sets", "new-files", pair, oldR, newR, oldImg, newImg, cfgs)
		r.Distinct("additive-file-sets/" + pair)
		// non-vacuity: an added file that contributes nothing to a package view, next to an old file of the same package that does
		for _, kind := range []byte("MESX") {
			for a := 0; a < 3; a++ {
				if p.new&(1<<a) == 0 || p.old&(1<<a) != 0 || p.w.shapes[a].has(kind) {
					continue
				}
				for o := 0; o < 3; o++ {
					if p.old&(1<<o) == 0 || p.w.pkgs[o] != p.w.pkgs[a] || !p.w.shapes[o].has(kind) {
						continue
					}
					// position in the image: path order, except that a linked slot 3 precedes slot 1
					pos := func(s int) int {
						if p.w.link && p.new&5 == 5 && s == 2 {
							return -1
						}
						return s
					}
					if pos(a) > pos(o) {
						x.add(fmt.Sprintf("file_sets_pairs_added_file_without_%c_after_a_file_with_%c_of_its_package", kind, kind), 1)
					} else {
						x.add(fmt.Sprintf("file_sets_pairs_added_file_without_%c_before_a_file_with_%c_of_its_package", kind, kind), 1)
					}
				}
			}
		}
		r.SampleEvery(i, 499, func() any {
			return caseT{Kind: "additive-file-sets", Pair: pair, Config: "unions", Changed: changed(oldR, newR)}
		})
	})
	if r.Expired() {
		return
	}
	for _, kind := range []byte("MESX") {
		for _, where := range []string{"after", "before"} {
			k := fmt.Sprintf("file_sets_pairs_added_file_without_%c_%s_a_file_with_%c_of_its_package", kind, where, kind)
			if x.n[k] == 0 {
				r.Incomplete("file sets: clause never exercised: " + k)
			}
		}
	}
}
