//go:build mapseed

package c04

import "runtime"

// setMapSeed uses the runtime overlay (overlay/mapseed.json) that adds runtime.VerifSetMapSeed: every map
// iteration of the process then starts at the bucket / offset derived from seed (process-global: only
// called between parallel sections, never inside r.ParallelFor).
func setMapSeed(seed uint64, on bool) { runtime.VerifSetMapSeed(seed, on) }

func mapSeedAvailable() bool { return true }
