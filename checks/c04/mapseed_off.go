//go:build !mapseed

package c04

func setMapSeed(seed uint64, on bool) {}

func mapSeedAvailable() bool { return false }
