package c04

import (
	"context"
	"fmt"
	"sort"
	"strings"

	"github.com/bufbuild/buf/private/bufpkg/bufcheck"
	"github.com/bufbuild/buf/private/bufpkg/bufimage"
	"github.com/bufbuild/bufverif/checks/c03"
	"github.com/bufbuild/bufverif/internal/bufx"
)

// ---------------------------------------------------------------------------------------------
// Import configurations (third strengthening round, seed C04/r3-m3).
//
// In every other phase all files of both images are targets and the only imports are unchanged
// well-known types, so nothing the rules do with ImageFile.IsImport() was ever observed. `buf breaking`
// compares images in which files can be imports: a module of a workspace compared on its own
// (`buf breaking ws/api --against old/api`: the files of the modules it depends on are imports), or a
// `--path` limited comparison; and it INCLUDES imports unless --exclude-imports is given. Here the
// bases get a file that imports (and uses) the files of the main package, the images of both sides are
// restricted with bufimage.ImageWithOnlyPaths (what --path does) so that a.proto and / or b.proto are
// imports, and both clauses run with imports included and excluded:
//   (a) identity, re-renderings and additive steps (also inside the imported files) stay silent;
//   (b) clean(FILE) => clean(PACKAGE) => clean(WIRE_JSON) => clean(WIRE) for catalogue edits
//       inside imported files.
// ---------------------------------------------------------------------------------------------

// impView says which files are imports ("-" = none: every file a target).
type impView struct {
	name    string
	imports []string
}

var impViews = []impView{
	{"a+b-imports", []string{"a.proto", "b.proto"}},
	{"a-import", []string{"a.proto"}},
	{"b-import", []string{"b.proto"}},
	{"all-targets", nil},
}

// impLink makes the file of package solo.* import a.proto and b.proto and use a message of each. False when
// the schema has no such file (it was deleted) or one of the two files is gone.
func impLink(s *c03.Schema) bool {
	var c *c03.File
	for _, f := range s.Files {
		if strings.HasPrefix(f.Package, "solo.") {
			c = f
		}
	}
	if c == nil || s.File("a.proto") == nil || s.File("b.proto") == nil {
		return false
	}
	c.Imports = append(c.Imports, "a.proto", "b.proto")
	sort.Strings(c.Imports)
	sg := ""
	if c.Syntax == "proto2" {
		sg = "optional"
	}
	c.Messages = append(c.Messages, &c03.Message{Name: "UsesImports", Fields: []*c03.Field{
		{Name: "first", Num: 1, Label: sg, Type: s.File("a.proto").Package + ".Payload", Kind: "message"},
		{Name: "second", Num: 2, Label: sg, Type: s.File("b.proto").Package + ".Payload2", Kind: "message"}}})
	return true
}

// impRestrict marks the view's files as imports: the targets are all other files of the schema.
func impRestrict(img bufimage.Image, s *c03.Schema, v impView) (bufimage.Image, error) {
	if len(v.imports) == 0 {
		return img, nil
	}
	imp := map[string]bool{}
	for _, p := range v.imports {
		imp[p] = true
	}
	var targets []string
	for _, f := range s.Files {
		if !imp[f.Path] {
			targets = append(targets, f.Path)
		}
	}
	out, err := bufimage.ImageWithOnlyPaths(img, targets, nil)
	if err != nil {
		return nil, err
	}
	for _, p := range v.imports {
		f := out.GetFile(p)
		if f == nil || !f.IsImport() {
			return nil, fmt.Errorf("view %s: %s is not an import of the restricted image", v.name, p)
		}
	}
	return out, nil
}

// impWorkspaceView is the same configuration reached the way `buf breaking ws/api --against old/api` reaches it:
// the schema laid out as a buf.yaml v2 workspace of two modules - `common` (the files of the main package) and
// `api` (everything below sub/, importing common) - and the image built for the input directory api only.
const impWorkspaceView = "workspace-module-api"

func impWorkspaceImage(ctx context.Context, r *c03.Rendered) (bufimage.Image, error) {
	files := map[string]string{"buf.yaml": "version: v2\nmodules:\n  - path: api\n  - path: common\n"}
	for p, t := range r.Files {
		if strings.HasPrefix(p, "sub/") {
			files["api/"+p] = t
		} else {
			files["common/"+p] = t
		}
	}
	ws, err := bufx.Workspace(ctx, bufx.MemBucket(files), "api", nil, nil, bufx.NopProviders)
	if err != nil {
		return nil, err
	}
	img, err := bufx.BuildWorkspaceImage(ctx, ws)
	if err != nil {
		return nil, err
	}
	for _, p := range []string{"a.proto", "b.proto"} {
		if f := img.GetFile(p); f == nil || !f.IsImport() {
			return nil, fmt.Errorf("view %s: %s is not an import of the image of module api", impWorkspaceView, p)
		}
	}
	for _, f := range img.Files() {
		if strings.HasPrefix(f.Path(), "sub/") && f.IsImport() {
			return nil, fmt.Errorf("view %s: %s is not a target of the image of module api", impWorkspaceView, f.Path())
		}
	}
	return img, nil
}

// impModes: imports included (the CLI default) and excluded (--exclude-imports).
func (x *runner) impModes(view string) []*mode {
	ctx := context.Background()
	incl := &mode{label: view + ", imports included", breaking: func(c c03.Config, newImg, oldImg bufimage.Image) ([]bufx.Annotation, error) {
		bc, err := x.eng.BreakingConfig(c)
		if err != nil {
			return nil, fmt.Errorf("config %s: %w", c, err)
		}
		return bufx.Breaking(ctx, bc, newImg, oldImg)
	}}
	excl := &mode{label: view + ", imports excluded", breaking: func(c c03.Config, newImg, oldImg bufimage.Image) ([]bufx.Annotation, error) {
		bc, err := x.eng.BreakingConfig(c)
		if err != nil {
			return nil, fmt.Errorf("config %s: %w", c, err)
		}
		return bufx.Breaking(ctx, bc, newImg, oldImg, bufcheck.BreakingWithExcludeImports())
	}}
	return []*mode{incl, excl}
}

// runImports runs both clauses under the import configurations.
func (x *runner) runImports(full bool, cats, unions []c03.Config) {
	r := x.r
	// build both sides once, restrict per view
	prepare := func(oldS, newS *c03.Schema) (oldR, newR *c03.Rendered, oldImg, newImg bufimage.Image, err error) {
		oldR, newR = oldS.Render(c03.Style{}), newS.Render(c03.Style{})
		if oldImg, err = x.eng.CachedImage(oldR); err != nil {
			return
		}
		newImg, err = x.eng.Image(newR)
		return
	}

	// ------------------------------------------------------------ (a) silence
	silentCfgs := unions
	if full {
		silentCfgs = append(append([]c03.Config(nil), unions...), cats...)
	}
	type sjob struct {
		base c03.Base
		kind string // identity | cosmetic | additive
		name string
		old  func() (*c03.Schema, c03.Style)
		new  func() (*c03.Schema, c03.Style)
	}
	var sjobs []sjob
	everything := c03.Style{Comments: 2, Indent: "   ", BlankLines: true, ReverseImports: true, OpenBraceNL: true}
	ops := c03.AdditiveOps()
	for _, b := range c03.Bases() {
		b := b
		linked := b.Schema.Clone()
		if !impLink(linked) {
			r.Incomplete("harness: base " + b.Name + " cannot be linked")
			continue
		}
		base := func() (*c03.Schema, c03.Style) { return linked, c03.Style{} }
		sjobs = append(sjobs, sjob{b, "identity", "identity", base, base})
		sjobs = append(sjobs, sjob{b, "cosmetic", "canonical->everything", base, func() (*c03.Schema, c03.Style) { return linked, everything }})
		sjobs = append(sjobs, sjob{b, "cosmetic", "everything->canonical", func() (*c03.Schema, c03.Style) { return linked, everything }, base})
		var canon []step
		for oi, o := range ops {
			if sites := o.Sites(linked); len(sites) > 0 {
				canon = append(canon, step{oi, sites[0]})
				if full {
					// also the first site inside b.proto (the canonical site is in a.proto for most operators)
					for _, st := range sites[1:] {
						if strings.HasPrefix(st, "b.proto:") {
							canon = append(canon, step{oi, st})
							break
						}
					}
				}
			}
		}
		for _, st := range canon {
			st := st
			sjobs = append(sjobs, sjob{b, "additive", ops[st.op].Name + "@" + st.site, base, func() (*c03.Schema, c03.Style) {
				n := linked.Clone()
				ops[st.op].Apply(n, st.site, 1)
				return n, c03.Style{}
			}})
		}
	}
	r.ParallelFor(len(sjobs), 0, func(i int) {
		j := sjobs[i]
		oldS, oldSt := j.old()
		newS, newSt := j.new()
		oldR, newR := oldS.Render(oldSt), newS.Render(newSt)
		oldImg, err1 := x.eng.CachedImage(oldR)
		newImg, err2 := x.eng.Image(newR)
		if err1 != nil || err2 != nil {
			r.Incomplete(fmt.Sprintf("harness: imports %s %s does not build: %v %v", j.base.Name, j.name, err1, err2))
			return
		}
		for _, v := range impViews[:3] {
			// quick: additive steps under the view in which the edited file is the only import, and under both-imports
			if !full && j.kind == "additive" && v.name != "a+b-imports" {
				edited := changed(oldR, newR)
				if _, ok := edited[v.imports[0]]; !ok {
					continue
				}
			}
			o, err1 := impRestrict(oldImg, oldS, v)
			n, err2 := impRestrict(newImg, newS, v)
			if err1 != nil || err2 != nil {
				r.Incomplete(fmt.Sprintf("harness: imports %s %s view %s: %v %v", j.base.Name, j.name, v.name, err1, err2))
				continue
			}
			for _, m := range x.impModes(v.name) {
				pair := "imports/" + j.base.Name + ":" + j.name + " [" + m.label + "]"
				x.silentIn(m, j.kind+"-imports", j.name, pair, oldR, newR, o, n, silentCfgs)
				r.Distinct(j.kind + "-imports/" + pair)
				if ch := changed(oldR, newR); j.kind == "additive" {
					for _, p := range v.imports {
						if _, ok := ch[p]; ok {
							x.add("imports_additive_pairs_with_the_edit_inside_an_imported_file", 1)
							break
						}
					}
				}
			}
		}
		// the same through a workspace: module api compared on its own
		wo, err1 := impWorkspaceImage(context.Background(), oldR)
		wn, err2 := impWorkspaceImage(context.Background(), newR)
		if err1 != nil || err2 != nil {
			r.Incomplete(fmt.Sprintf("harness: imports %s %s view %s: %v %v", j.base.Name, j.name, impWorkspaceView, err1, err2))
		} else {
			for _, m := range x.impModes(impWorkspaceView) {
				pair := "imports/" + j.base.Name + ":" + j.name + " [" + m.label + "]"
				x.silentIn(m, j.kind+"-imports", j.name, pair, oldR, newR, wo, wn, silentCfgs)
				r.Distinct(j.kind + "-imports/" + pair)
				x.add("imports_silent_pairs_through_a_workspace", 1)
			}
		}
		r.SampleEvery(i, 29, func() any {
			return caseT{Kind: j.kind + "-imports", Pair: j.base.Name + ":" + j.name, Config: "unions", Imports: "views a+b-imports, a-import, b-import x imports included / excluded", Changed: changed(oldR, newR)}
		})
	})

	// ------------------------------------------------------------ (b) hierarchy
	// v2 everywhere; thorough: all three versions with imports included under the view with both files as imports
	versionsFor := func(v string, mi int) []string {
		if full && v == "a+b-imports" && mi == 0 {
			return c03.Versions
		}
		return []string{"v2"}
	}
	for _, b := range c03.Bases() {
		if r.Expired() {
			break
		}
		instances := c03.Instances(b, false)
		// quick: one instance per operator and set of expected rules; thorough: one per operator, set of expected
		// rules and structural position (top, nested once / twice, second file, file level)
		seen := map[string]bool{}
		seenOp := map[string]bool{}
		throughWorkspace := map[*c03.Instance]bool{}
		var items []*c03.Instance
		for i := range instances {
			in := &instances[i]
			rules := map[string]bool{}
			for _, ex := range in.Expects {
				rules[ex.Rule] = true
			}
			key := in.Op + "|" + strings.Join(bufx.SortedKeys(rules), "+")
			if full {
				key += "|" + in.Pos
			}
			if seen[key] {
				continue
			}
			seen[key] = true
			items = append(items, in)
			// the workspace view: quick - the first instance of every operator that edits a.proto / b.proto
			if file, _, _ := strings.Cut(in.Site, ":"); (file == "a.proto" || file == "b.proto") && (full || !seenOp[in.Op]) {
				seenOp[in.Op] = true
				throughWorkspace[in] = true
			}
		}
		x.add("imports_hierarchy_instances_"+b.Name, len(items))
		r.ParallelFor(len(items), 0, func(i int) {
			in := items[i]
			oldS, newS := in.Old.Clone(), in.New.Clone()
			if !impLink(oldS) || !impLink(newS) {
				x.add("imports_hierarchy_instances_skipped_unlinkable", 1)
				return
			}
			oldR, newR, oldImg, newImg, err := prepare(oldS, newS)
			if err != nil {
				// e.g. the edit changes the package of an imported file: the importing file no longer resolves its types
				x.add("imports_hierarchy_instances_skipped_do_not_build_when_linked", 1)
				return
			}
			file, _, _ := strings.Cut(in.Site, ":")
			for _, v := range impViews[:3] {
				// the views in which the edited file is an import (thorough: all three)
				if !full && v.name != "a+b-imports" && v.imports[0] != file {
					continue
				}
				o, err1 := impRestrict(oldImg, oldS, v)
				n, err2 := impRestrict(newImg, newS, v)
				if err1 != nil || err2 != nil {
					// a deleted / renamed import file: the view does not exist on the new side
					x.add("imports_hierarchy_views_skipped_file_gone", 1)
					continue
				}
				editedIsImport := false
				for _, p := range v.imports {
					editedIsImport = editedIsImport || p == file
				}
				for mi, m := range x.impModes(v.name) {
					if !full && mi == 1 && v.name != "a+b-imports" {
						continue // quick: imports excluded only under the view with both files as imports
					}
					pair := in.ID() + " [" + m.label + "]"
					x.hierarchyIn(m, "hierarchy-imports", "catalogue", in.Op, pair, oldR, newR, o, n, versionsFor(v.name, mi))
					r.Distinct("catalogue-imports/" + pair)
					if editedIsImport {
						x.add("imports_hierarchy_pairs_with_the_edit_inside_an_imported_file", 1)
					}
				}
				// thorough: the file is an import on one side only (the two sides restricted differently)
				if full && v.name == "a+b-imports" {
					for _, mixed := range []struct {
						name string
						o, n bufimage.Image
					}{{"previous all-targets, current " + v.name, oldImg, n}, {"previous " + v.name + ", current all-targets", o, newImg}} {
						for _, m := range x.impModes(mixed.name) {
							pair := in.ID() + " [" + m.label + "]"
							x.hierarchyIn(m, "hierarchy-imports", "catalogue-mixed", in.Op, pair, oldR, newR, mixed.o, mixed.n, []string{"v2"})
							r.Distinct("catalogue-imports/" + pair)
						}
					}
				}
			}
			if throughWorkspace[in] {
				wo, err1 := impWorkspaceImage(context.Background(), oldR)
				wn, err2 := impWorkspaceImage(context.Background(), newR)
				if err1 != nil || err2 != nil {
					x.add("imports_hierarchy_views_skipped_file_gone", 1)
				} else {
					for mi, m := range x.impModes(impWorkspaceView) {
						if !full && mi == 1 {
							continue
						}
						pair := in.ID() + " [" + m.label + "]"
						x.hierarchyIn(m, "hierarchy-imports", "catalogue", in.Op, pair, oldR, newR, wo, wn, []string{"v2"})
						r.Distinct("catalogue-imports/" + pair)
						x.add("imports_hierarchy_pairs_with_the_edit_inside_an_imported_file", 1)
						x.add("imports_hierarchy_pairs_through_a_workspace", 1)
					}
				}
			}
			r.SampleEvery(i, 61, func() any {
				return caseT{Kind: "catalogue-imports", Pair: in.ID(), Config: "v2 categories", Imports: "views in which " + file + " is an import x imports included / excluded", Changed: changed(oldR, newR)}
			})
		})
	}
}
